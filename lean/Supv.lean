-- Root of the `Supv` library: every module that must be built.
import Supv.Model.Proc
import Supv.Spec.C11
import Supv.Lemmas.Proc
import Supv.Props.C11
import Supv.Drv.Util
import Supv.Drv.C11
