import Supv.Drv.C05
def main : IO Unit := Supv.Drv.C05.main
