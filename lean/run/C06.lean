import Supv.Drv.C06
def main : IO Unit := Supv.Drv.C06.main
