import Supv.Drv.C15
def main : IO Unit := Supv.Drv.C15.main
