import Supv.Drv.C11
def main : IO Unit := Supv.Drv.C11.main
