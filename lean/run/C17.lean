import Supv.Drv.C17
def main : IO Unit := Supv.Drv.C17.main
