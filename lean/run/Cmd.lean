import Supv.Drv.Cmd
def main : IO Unit := Supv.Drv.Cmd.main
