import Supv.Drv.C20
def main : IO Unit := Supv.Drv.C20.main
