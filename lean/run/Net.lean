import Supv.Drv.Net
def main : IO Unit := Supv.Drv.Net.main
