import Supv.Drv.C18
def main : IO Unit := Supv.Drv.C18.main
