import Supv.Lemmas.CmdDist

/-!
# C14 — Placement obeys the starting strategy and the distribution rule

Model: `Supv.Cmd.chooseInstance` (`strategy.get_supvisors_instance` and the six strategy classes), `getNode`, and the
whole-application placement of the non-distributed applications (`distributeSingleInstance`, `distributeSingleNode`, run by
`ApplicationStartJobs.before` when the job is picked up), validated in lock-step with the real Starter (`harness/cmdh.py`).
Quantifier: every world (instances, nodes with several instances each, loads), every candidate list, expected load and
pending-request map, every job (plan, strategy).
-/

namespace Supv.Props.C14
open Supv.Cmd

/-- **C14 (validity).**  Whatever the strategy, the chosen instance is one of the candidates, is seen RUNNING, and its node
    — current load plus the starts already requested there — stays at or below 100 with the additional load. -/
theorem C14_choice_valid (w : W) (strat : Strategy) (idents : List Nat) (load : Nat) (req : List (Nat × Nat)) (i : Nat)
    (h : chooseInstance w strat idents load req = some i) :
    i ∈ validCands w idents load req
    ∧ i ∈ idents ∧ w.instRunning.getD i false = true ∧ nodeLoading w req i + load ≤ 100 := by
  have key : i ∈ validCands w idents load req := by
    unfold chooseInstance at h
    split at h
    · simp at h
    · cases strat <;> simp only at h
      · exact List.mem_of_mem_head? h
      · exact (firstMin_optimal _ _ _ h).1
      · exact (lastMax_optimal _ _ _ h).1
      · split at h
        · simp at h; subst h; assumption
        · simp at h
      · exact (firstMin_optimal _ _ _ h).1
      · exact (lastMax_optimal _ _ _ h).1
  refine ⟨key, ?_⟩
  unfold validCands at key
  simp only [List.mem_filter, decide_eq_true_eq] at key
  exact ⟨key.1.1, key.1.2, key.2⟩

/-- **C14 (CONFIG).**  CONFIG takes the first valid candidate in declared order. -/
theorem C14_config_first (w : W) (idents : List Nat) (load : Nat) (req : List (Nat × Nat)) (i : Nat)
    (h : chooseInstance w .config idents load req = some i) :
    (validCands w idents load req).head? = some i := by
  unfold chooseInstance at h
  split at h
  · simp at h
  · exact h

/-- **C14 (LESS_LOADED).**  No valid candidate has a strictly lower (instance load, node load) key. -/
theorem C14_less_loaded_optimal (w : W) (idents : List Nat) (load : Nat) (req : List (Nat × Nat)) (i : Nat)
    (h : chooseInstance w .lessLoaded idents load req = some i) :
    ∀ j ∈ validCands w idents load req,
      ¬ lexLt (instLoading w req j, nodeLoading w req j) (instLoading w req i, nodeLoading w req i) := by
  unfold chooseInstance at h
  split at h
  · simp at h
  · intro j hj; exact not_lexLt_of_lexLe ((firstMin_optimal _ _ _ h).2 j hj)

/-- **C14 (MOST_LOADED).**  No valid candidate has a strictly higher (instance load, node load) key. -/
theorem C14_most_loaded_optimal (w : W) (idents : List Nat) (load : Nat) (req : List (Nat × Nat)) (i : Nat)
    (h : chooseInstance w .mostLoaded idents load req = some i) :
    ∀ j ∈ validCands w idents load req,
      ¬ lexLt (instLoading w req i, nodeLoading w req i) (instLoading w req j, nodeLoading w req j) := by
  unfold chooseInstance at h
  split at h
  · simp at h
  · intro j hj; exact not_lexLt_of_lexLe ((lastMax_optimal _ _ _ h).2 j hj)

/-- **C14 (LESS_LOADED_NODE).**  No valid candidate is on a strictly less loaded node (instance load breaking ties). -/
theorem C14_less_loaded_node_optimal (w : W) (idents : List Nat) (load : Nat) (req : List (Nat × Nat)) (i : Nat)
    (h : chooseInstance w .lessLoadedNode idents load req = some i) :
    ∀ j ∈ validCands w idents load req,
      ¬ lexLt (nodeLoading w req j, instLoading w req j) (nodeLoading w req i, instLoading w req i) := by
  unfold chooseInstance at h
  split at h
  · simp at h
  · intro j hj; exact not_lexLt_of_lexLe ((firstMin_optimal _ _ _ h).2 j hj)

/-- **C14 (MOST_LOADED_NODE).** -/
theorem C14_most_loaded_node_optimal (w : W) (idents : List Nat) (load : Nat) (req : List (Nat × Nat)) (i : Nat)
    (h : chooseInstance w .mostLoadedNode idents load req = some i) :
    ∀ j ∈ validCands w idents load req,
      ¬ lexLt (nodeLoading w req i, instLoading w req i) (nodeLoading w req j, instLoading w req j) := by
  unfold chooseInstance at h
  split at h
  · simp at h
  · intro j hj; exact not_lexLt_of_lexLe ((lastMax_optimal _ _ _ h).2 j hj)

/-- **C14 (LOCAL).**  LOCAL only ever chooses the requesting instance. -/
theorem C14_local_only (w : W) (idents : List Nat) (load : Nat) (req : List (Nat × Nat)) (i : Nat)
    (h : chooseInstance w .local idents load req = some i) : i = w.me := by
  unfold chooseInstance at h
  split at h
  · simp at h
  · simp only at h
    split at h
    · simp at h; exact h.symm
    · simp at h

/-- **C14 (none iff no valid candidate).**  Except for LOCAL, a choice is made exactly when a valid candidate exists;
    LOCAL chooses exactly when the requesting instance is a valid candidate. -/
theorem C14_none_iff (w : W) (strat : Strategy) (idents : List Nat) (load : Nat) (req : List (Nat × Nat)) :
    chooseInstance w strat idents load req = none ↔
      (if strat = .local then w.me ∉ validCands w idents load req else validCands w idents load req = []) := by
  have hsub : (idents.filter (fun i => w.instRunning.getD i false)) = [] → validCands w idents load req = [] := by
    intro h; unfold validCands; rw [h]; rfl
  unfold chooseInstance
  split
  · rename_i he
    have hnil : idents.filter (fun i => w.instRunning.getD i false) = [] := by simpa using he
    have hv := hsub hnil
    cases strat <;> simp [hv]
  · cases strat <;> simp only
    · simp [List.head?_eq_none_iff]
    · simp [firstMin_none]
    · simp [lastMax_none]
    · simp
    · simp [firstMin_none]
    · simp [lastMax_none]

/-- **C14 (requests counted).**  The loads compared by the strategies include the starts already requested: adding a pending
    request on an instance raises both of its load figures by the requested load. -/
theorem C14_requests_counted (w : W) (req : List (Nat × Nat)) (i load : Nat) :
    instLoading w (req ++ [(i, load)]) i = instLoading w req i + load
    ∧ nodeLoading w (req ++ [(i, load)]) i = nodeLoading w req i + load := by
  unfold instLoading nodeLoading reqOf nodeReq
  simp [List.filter_append, List.foldl_append]
  omega

/-! ## The distribution rule -/

/-- **C14 (get_node).**  The node chosen for a whole application is the node of the instance the strategy chooses. -/
theorem C14_get_node (w : W) (strat : Strategy) (idents : List Nat) (load : Nat) (req : List (Nat × Nat)) (nd : Nat) :
    getNode w strat idents load req = some nd ↔
      ∃ i, chooseInstance w strat idents load req = some i ∧ w.node.getD i 0 = nd := by
  unfold getNode
  cases chooseInstance w strat idents load req <;> simp

/-- **C14 (get_node, LESS_LOADED_NODE).**  The node chosen hosts a valid candidate and no valid candidate sits on a strictly
    less loaded node (current load plus the starts already requested there). -/
theorem C14_get_node_least_loaded (w : W) (idents : List Nat) (load : Nat) (req : List (Nat × Nat)) (nd : Nat)
    (h : getNode w .lessLoadedNode idents load req = some nd) :
    ∃ i ∈ validCands w idents load req, w.node.getD i 0 = nd
      ∧ ∀ j ∈ validCands w idents load req, nodeLoading w req i ≤ nodeLoading w req j := by
  obtain ⟨i, hi, hnd⟩ := (C14_get_node w _ idents load req nd).mp h
  refine ⟨i, (C14_choice_valid w _ idents load req i hi).1, hnd, ?_⟩
  intro j hj
  have := C14_less_loaded_node_optimal w idents load req i hi j hj
  unfold lexLt at this
  simp only at this
  omega

/-- **C14 (get_node, MOST_LOADED_NODE).** -/
theorem C14_get_node_most_loaded (w : W) (idents : List Nat) (load : Nat) (req : List (Nat × Nat)) (nd : Nat)
    (h : getNode w .mostLoadedNode idents load req = some nd) :
    ∃ i ∈ validCands w idents load req, w.node.getD i 0 = nd
      ∧ ∀ j ∈ validCands w idents load req, nodeLoading w req j ≤ nodeLoading w req i := by
  obtain ⟨i, hi, hnd⟩ := (C14_get_node w _ idents load req nd).mp h
  refine ⟨i, (C14_choice_valid w _ idents load req i hi).1, hnd, ?_⟩
  intro j hj
  have := C14_most_loaded_node_optimal w idents load req i hi j hj
  unfold lexLt at this
  simp only at this
  omega

/-- **C14 (get_node, CONFIG).**  The node of the first valid candidate in declared order. -/
theorem C14_get_node_config (w : W) (idents : List Nat) (load : Nat) (req : List (Nat × Nat)) (nd : Nat)
    (h : getNode w .config idents load req = some nd) :
    ∃ i, (validCands w idents load req).head? = some i ∧ w.node.getD i 0 = nd := by
  obtain ⟨i, hi, hnd⟩ := (C14_get_node w _ idents load req nd).mp h
  exact ⟨i, C14_config_first w idents load req i hi, hnd⟩

/-- **C14 (SINGLE_INSTANCE: one instance for the whole application).**  `distribute_to_single_instance` either finds no
    instance and leaves the job as it is (every process then fails with "No resource available"), or gives EVERY planned
    command the same target: the instance the requested strategy chooses among the application's candidates for the load of
    the whole start sequence.  The plan keeps its sequence numbers and processes. -/
theorem C14_single_instance_one_target (w : W) (j j' : AppJobs) (h : distributeSingleInstance w j = .ok j') :
    (chooseInstance w j.strategy (appPossibleIdentifiers w j.app) (appStartLoad w j.app) (jobLoadRequests w j) = none ∧ j' = j)
    ∨ ∃ i, chooseInstance w j.strategy (appPossibleIdentifiers w j.app) (appStartLoad w j.app) (jobLoadRequests w j) = some i
        ∧ j'.identifiers = [i]
        ∧ (∀ g ∈ j'.planned, ∀ c ∈ g.2, c.target = some i)
        ∧ j'.planned.map (fun g => (g.1, g.2.map (·.proc))) = j.planned.map (fun g => (g.1, g.2.map (·.proc))) := by
  unfold distributeSingleInstance at h
  split at h
  · rename_i i hi
    right
    refine ⟨i, hi, ?_, ?_, ?_⟩
    · exact (mapPlanned_fields _ _ _ h).2.2.2.2.2
    · intro g hg c hc
      obtain ⟨g0, _, _, c0, _, hc0⟩ := mapPlanned_mem _ _ _ h g hg c hc
      exact (updateIdentifier_ok w c0 c i hc0).1
    · have := mapPlanned_shape _ (fun c c' hc => (updateIdentifier_ok w c c' i hc).2.1) _ _ h
      exact this
  · rename_i hn
    left
    simp at h
    exact ⟨hn, h.symm⟩

/-- **C14 (SINGLE_INSTANCE: able to carry the whole start sequence).**  The instance chosen is one of the application's
    candidates (permitted by the application's rule, every program of the application known and enabled there), is seen
    RUNNING, and its node stays at or below 100 with the load of the WHOLE start sequence added. -/
theorem C14_single_instance_carries (w : W) (j : AppJobs) (i : Nat)
    (h : chooseInstance w j.strategy (appPossibleIdentifiers w j.app) (appStartLoad w j.app) (jobLoadRequests w j) = some i) :
    i ∈ appPossibleIdentifiers w j.app ∧ w.instRunning.getD i false = true
    ∧ nodeLoading w (jobLoadRequests w j) i + appStartLoad w j.app ≤ 100 := by
  obtain ⟨_, h1, h2, h3⟩ := C14_choice_valid w _ _ _ _ i h
  exact ⟨h1, h2, h3⟩

/-- **C14 (SINGLE_NODE: the instances selected are those of ONE node).**  `self.identifiers` only holds candidates of the
    application that run on the node `get_node` chose for the whole application load. -/
theorem C14_single_node_ids (w : W) (j : AppJobs) (i : Nat) (hi : i ∈ singleNodeIds w j) :
    i ∈ appPossibleNodeIdentifiers w j.app ∧ i < w.ninst
    ∧ getNode w j.strategy (appPossibleNodeIdentifiers w j.app) (appStartLoad w j.app) (jobLoadRequests w j) = some (w.node.getD i 0) := by
  unfold singleNodeIds at hi
  simp only at hi
  split at hi
  · rename_i nd hnd
    rw [List.mem_filter] at hi
    obtain ⟨h1, h2⟩ := hi
    simp only [decide_eq_true_eq] at h2
    exact ⟨h1, h2.1, by rw [hnd, h2.2]⟩
  · simp at hi

/-- **C14 (SINGLE_NODE: every process goes to an instance of that node).**  When `distribute_to_single_node` returns, either no
    instance was selected and the plan is untouched (every process then fails with "No resource available"), or EVERY planned
    command is left as it was (no selected instance knows the program, has it enabled and can take it: it will fail with
    "No resource available") or has a target that belongs to the selected instances — so any two targets are on the same node —, is seen RUNNING,
    knows the program, and whose node stays at or below 100 with the program's load.  The plan keeps its shape. -/
theorem C14_single_node_one_node (w : W) (j j' : AppJobs) (h : distributeSingleNode w j = .ok j') :
    j'.identifiers = singleNodeIds w j
    ∧ (singleNodeIds w j = [] → j'.planned = j.planned)
    ∧ (singleNodeIds w j ≠ [] → ∀ g ∈ j'.planned, ∀ c ∈ g.2, (∃ g0 ∈ j.planned, c ∈ g0.2) ∨ ∃ i ∈ singleNodeIds w j, c.target = some i
          ∧ w.instRunning.getD i false = true
          ∧ enabledOn w c.proc i = true
          ∧ nodeLoading w (jobLoadRequests w { j with identifiers := singleNodeIds w j }) i + (w.pcfg.getD c.proc default).load ≤ 100)
    ∧ j'.planned.map (fun g => (g.1, g.2.map (·.proc))) = j.planned.map (fun g => (g.1, g.2.map (·.proc))) := by
  unfold distributeSingleNode at h
  simp only at h
  split at h
  · rename_i he
    have hnil : singleNodeIds w j = [] := by simpa using he
    simp at h; subst h
    exact ⟨rfl, fun _ => rfl, fun hne => absurd hnil hne, rfl⟩
  · rename_i hne
    have hne' : singleNodeIds w j ≠ [] := by simpa using hne
    refine ⟨(mapPlanned_fields _ _ _ h).2.2.2.2.2, fun hnil => absurd hnil hne', fun _ => ?_, ?_⟩
    · intro g hg c hc
      obtain ⟨g0, hg0, _, c0, hc0m, hc0⟩ := mapPlanned_mem _ _ _ h g hg c hc
      unfold nodeCommand at hc0
      split at hc0
      · rename_i i hi
        right
        obtain ⟨_, hmem, hrun, hfit⟩ := C14_choice_valid w _ _ _ _ i hi
        obtain ⟨ht, hp, _, _⟩ := updateIdentifier_ok w c0 c i hc0
        rw [hp]
        exact ⟨i, (List.mem_filter.mp hmem).1, ht, hrun, (List.mem_filter.mp hmem).2, hfit⟩
      · left
        have : c = c0 := by simpa using hc0.symm
        exact ⟨g0, hg0, this ▸ hc0m⟩
    · have := mapPlanned_shape _ (fun c c' hc => by
        unfold nodeCommand at hc
        split at hc
        · exact (updateIdentifier_ok w c c' _ hc).2.1
        · have : c' = c := by simpa using hc.symm
          rw [this]) _ _ h
      exact this

/-- **C14 (SINGLE_NODE: one single node).**  Any two targets decided by `distribute_to_single_node` are on the same node. -/
theorem C14_single_node_same_node (w : W) (j j' : AppJobs) (h : distributeSingleNode w j = .ok j')
    (hne : singleNodeIds w j ≠ []) (hnt : ∀ g ∈ j.planned, ∀ c ∈ g.2, c.target = none)
    (g1 g2 : Nat × List Command) (c1 c2 : Command) (i1 i2 : Nat)
    (hg1 : g1 ∈ j'.planned) (hc1 : c1 ∈ g1.2) (ht1 : c1.target = some i1)
    (hg2 : g2 ∈ j'.planned) (hc2 : c2 ∈ g2.2) (ht2 : c2.target = some i2) :
    w.node.getD i1 0 = w.node.getD i2 0 := by
  obtain ⟨_, _, hall, _⟩ := C14_single_node_one_node w j j' h
  have key : ∀ g c i, g ∈ j'.planned → c ∈ g.2 → c.target = some i → ∃ k ∈ singleNodeIds w j, c.target = some k := by
    intro g c i hg hc ht
    rcases hall hne g hg c hc with ⟨g0, hg0, hc0⟩ | ⟨k, hk, hkt, _⟩
    · rw [hnt g0 hg0 c hc0] at ht; cases ht
    · exact ⟨k, hk, hkt⟩
  obtain ⟨k1, hk1, hk1t⟩ := key g1 c1 i1 hg1 hc1 ht1
  obtain ⟨k2, hk2, hk2t⟩ := key g2 c2 i2 hg2 hc2 ht2
  rw [ht1] at hk1t; rw [ht2] at hk2t
  cases hk1t; cases hk2t
  have e1 := (C14_single_node_ids w j i1 hk1).2.2
  have e2 := (C14_single_node_ids w j i2 hk2).2.2
  rw [e1] at e2
  exact Option.some.inj e2

/-- **C14 (a command added to the start of a non-distributed application).**  `on_command_added` (a `start_process` joining a job)
    leaves the command as it is — distributed application, or no instance selected yet (the job will be placed as a whole when it
    is picked up), or no selected instance can take the program — or gives it ONE OF THE INSTANCES SELECTED for the application
    (the single instance; an instance of the single node), chosen by the strategy of the job: seen RUNNING, its node at or below
    100 with the program's load and the job's load requests. -/
theorem C14_command_added (w : W) (j : AppJobs) (c c' : Command) (h : onCommandAdded w j c = .ok c') :
    c' = c ∨ ∃ i, chooseInstance w j.strategy (applicableIdentifiers w j.identifiers c.proc) (w.pcfg.getD c.proc default).load (jobLoadRequests w j) = some i
        ∧ c'.target = some i ∧ c'.proc = c.proc ∧ i ∈ j.identifiers ∧ w.instRunning.getD i false = true
        ∧ nodeLoading w (jobLoadRequests w j) i + (w.pcfg.getD c.proc default).load ≤ 100 := by
  unfold onCommandAdded at h
  split at h
  · left; simp at h; exact h.symm
  · split at h
    · left; simp at h; exact h.symm
    · split at h
      · rename_i i hi
        right
        obtain ⟨_, hmem, hrun, hfit⟩ := C14_choice_valid w _ _ _ _ i hi
        obtain ⟨ht, hp, _, _⟩ := updateIdentifier_ok w c c' i h
        exact ⟨i, hi, ht, hp, (List.mem_filter.mp hmem).1, hrun, hfit⟩
      · left; simp at h; exact h.symm

/-- the full-strength statement for the placement INSIDE the node: with LESS_LOADED, the instance given to the second command of
    a group is not more loaded than another selected RUNNING instance once the first command's load is counted on its target
    ("loads include starts already requested") -/
def C14_single_node_requests_counted_statement : Prop :=
  ∀ (w : W) (j j' : AppJobs), distributeSingleNode w j = .ok j' → j.strategy = .lessLoaded →
    ∀ g ∈ j'.planned, ∀ (c1 c2 : Command) (rest : List Command) (i1 i2 : Nat), g.2 = c1 :: c2 :: rest →
      c1.target = some i1 → c2.target = some i2 →
      ∀ k ∈ j'.identifiers, w.instRunning.getD k false = true →
        ¬ (instLoading w [(i1, (w.pcfg.getD c1.proc default).load)] k < instLoading w [(i1, (w.pcfg.getD c1.proc default).load)] i2)

/-- two idle instances on one node, a SINGLE_NODE application of two programs (load 10 each, one sequence), LESS_LOADED -/
def snW : W :=
  { ninst := 2, me := 0, node := [0, 0], instRunning := [true, true], counter := [0, 0],
    pcfg := [{ app := 0, startSeq := 1, required := false, waitExit := false, load := 10, sfail := .cont, idents := none, startsecs := 1 },
             { app := 0, startSeq := 1, required := false, waitExit := false, load := 10, sfail := .cont, idents := none, startsecs := 1 }],
    acfg := [{ startSeq := 1, strategy := .lessLoaded, distribution := .singleNode }],
    procs := [{ infos := [(0, { state := .stopped, expected := true, ltime := 0, etime := 0, nowm := 0, disabled := false }),
                          (1, { state := .stopped, expected := true, ltime := 0, etime := 0, nowm := 0, disabled := false })],
                state := .stopped },
              { infos := [(0, { state := .stopped, expected := true, ltime := 0, etime := 0, nowm := 0, disabled := false }),
                          (1, { state := .stopped, expected := true, ltime := 0, etime := 0, nowm := 0, disabled := false })],
                state := .stopped }] }
def snJ : AppJobs := { app := 0, planned := startPlan snW 0 .lessLoaded, strategy := .lessLoaded }

/-- what the code does on the witness: both programs go to instance 0 (the load requests are computed once before the loop) -/
def snC1 : Command := { proc := 0, strategy := .lessLoaded, target := some 0, waitTicks := 3 }
def snC2 : Command := { proc := 1, strategy := .lessLoaded, target := some 0, waitTicks := 3 }
def snJ' : AppJobs := { snJ with identifiers := [0, 1], planned := [(1, [snC1, snC2])] }
theorem C14_single_node_witness : distributeSingleNode snW snJ = .ok snJ' := by decide +kernel

/-- Known finding `C14:single-node-placement-not-refreshed`: the second program is sent to instance 0 although instance 1 is less
    loaded once the first program's start (requested on instance 0) is counted. -/
theorem C14_single_node_requests_counted_refuted : ¬ C14_single_node_requests_counted_statement := by
  intro h
  have := h snW snJ snJ' C14_single_node_witness rfl (1, [snC1, snC2]) (by simp [snJ']) snC1 snC2 [] 0 0 rfl rfl rfl 1
    (by simp [snJ']) (by decide)
  revert this
  decide +kernel

/-- **C14 (SINGLE_NODE, inside the node — partial).**  Whatever the job, every target decided by `distribute_to_single_node` is the
    requested strategy's choice among the selected instances for the program's load and the load requests the job had when it was
    picked up (its own placements of the same pass are NOT counted): for a job placing a single program this is the full clause. -/
theorem C14_single_node_in_node_partial (w : W) (j j' : AppJobs) (h : distributeSingleNode w j = .ok j')
    (hne : singleNodeIds w j ≠ []) :
    ∀ g ∈ j'.planned, ∀ c ∈ g.2, (∃ g0 ∈ j.planned, c ∈ g0.2) ∨ ∃ i, c.target = some i ∧
      chooseInstance w j.strategy (applicableIdentifiers w (singleNodeIds w j) c.proc) (w.pcfg.getD c.proc default).load
        (jobLoadRequests w { j with identifiers := singleNodeIds w j }) = some i := by
  unfold distributeSingleNode at h
  simp only at h
  split at h
  · rename_i he
    exact absurd (by simpa using he) hne
  · intro g hg c hc
    obtain ⟨g0, hg0, _, c0, hc0m, hc0⟩ := mapPlanned_mem _ _ _ h g hg c hc
    unfold nodeCommand at hc0
    split at hc0
    · rename_i i hi
      right
      obtain ⟨ht, hp, _, _⟩ := updateIdentifier_ok w c0 c i hc0
      exact ⟨i, ht, by rw [hp]; exact hi⟩
    · left
      have : c = c0 := by simpa using hc0.symm
      exact ⟨g0, hg0, this ▸ hc0m⟩

-- non-vacuity: two instances on one node, the loaded one is avoided by LESS_LOADED and preferred by MOST_LOADED
def exW : W :=
  { ninst := 2, me := 0, node := [0, 0], instRunning := [true, true], counter := [0, 0],
    pcfg := [{ app := 0, startSeq := 1, required := false, waitExit := false, load := 30, sfail := .cont, idents := none, startsecs := 1 }],
    acfg := [{ startSeq := 1, strategy := .config }],
    procs := [{ infos := [(0, { state := .running, expected := true, ltime := 0, etime := 0, nowm := 0, disabled := false })],
                running := [0], state := .running }] }
example : chooseInstance exW .lessLoaded [0, 1] 10 [] = some 1 ∧ chooseInstance exW .mostLoaded [0, 1] 10 [] = some 0
    ∧ chooseInstance exW .config [0, 1] 80 [] = none := by decide

-- non-vacuity: on the same world as a SINGLE_INSTANCE application, both programs get instance 0 (able to carry 20)
example : (match distributeSingleInstance { snW with acfg := [{ startSeq := 1, strategy := .lessLoaded, distribution := .singleInstance }] } snJ with
           | .ok j' => j'.planned.map (fun g => g.2.map (fun c => (c.proc, c.target)))
           | .err _ => []) = [[(0, some 0), (1, some 0)]] := by decide +kernel
example : singleNodeIds snW snJ = [0, 1] ∧ getNode snW .lessLoaded [0, 1] 20 [] = some 0 := by decide +kernel

end Supv.Props.C14
