import Supv.Lemmas.Strat

/-!
# C14 — Placement obeys the starting strategy and the distribution rule

Model: `Supv.Cmd.chooseInstance` (`strategy.get_supvisors_instance` and the six strategy classes), validated in lock-step with
the real Starter (`harness/cmdh.py`).  Quantifier: every world (instances, nodes with several instances each, loads), every
candidate list, expected load and pending-request map.
-/

namespace Supv.Props.C14
open Supv.Cmd

/-- **C14 (validity).**  Whatever the strategy, the chosen instance is one of the candidates, is seen RUNNING, and its node
    — current load plus the starts already requested there — stays at or below 100 with the additional load. -/
theorem C14_choice_valid (w : W) (strat : Strategy) (idents : List Nat) (load : Nat) (req : List (Nat × Nat)) (i : Nat)
    (h : chooseInstance w strat idents load req = some i) :
    i ∈ validCands w idents load req
    ∧ i ∈ idents ∧ w.instRunning.getD i false = true ∧ nodeLoading w req i + load ≤ 100 := by
  have key : i ∈ validCands w idents load req := by
    unfold chooseInstance at h
    split at h
    · simp at h
    · cases strat <;> simp only at h
      · exact List.mem_of_mem_head? h
      · exact (firstMin_optimal _ _ _ h).1
      · exact (lastMax_optimal _ _ _ h).1
      · split at h
        · simp at h; subst h; assumption
        · simp at h
      · exact (firstMin_optimal _ _ _ h).1
      · exact (lastMax_optimal _ _ _ h).1
  refine ⟨key, ?_⟩
  unfold validCands at key
  simp only [List.mem_filter, decide_eq_true_eq] at key
  exact ⟨key.1.1, key.1.2, key.2⟩

/-- **C14 (CONFIG).**  CONFIG takes the first valid candidate in declared order. -/
theorem C14_config_first (w : W) (idents : List Nat) (load : Nat) (req : List (Nat × Nat)) (i : Nat)
    (h : chooseInstance w .config idents load req = some i) :
    (validCands w idents load req).head? = some i := by
  unfold chooseInstance at h
  split at h
  · simp at h
  · exact h

/-- **C14 (LESS_LOADED).**  No valid candidate has a strictly lower (instance load, node load) key. -/
theorem C14_less_loaded_optimal (w : W) (idents : List Nat) (load : Nat) (req : List (Nat × Nat)) (i : Nat)
    (h : chooseInstance w .lessLoaded idents load req = some i) :
    ∀ j ∈ validCands w idents load req,
      ¬ lexLt (instLoading w req j, nodeLoading w req j) (instLoading w req i, nodeLoading w req i) := by
  unfold chooseInstance at h
  split at h
  · simp at h
  · intro j hj; exact not_lexLt_of_lexLe ((firstMin_optimal _ _ _ h).2 j hj)

/-- **C14 (MOST_LOADED).**  No valid candidate has a strictly higher (instance load, node load) key. -/
theorem C14_most_loaded_optimal (w : W) (idents : List Nat) (load : Nat) (req : List (Nat × Nat)) (i : Nat)
    (h : chooseInstance w .mostLoaded idents load req = some i) :
    ∀ j ∈ validCands w idents load req,
      ¬ lexLt (instLoading w req i, nodeLoading w req i) (instLoading w req j, nodeLoading w req j) := by
  unfold chooseInstance at h
  split at h
  · simp at h
  · intro j hj; exact not_lexLt_of_lexLe ((lastMax_optimal _ _ _ h).2 j hj)

/-- **C14 (LESS_LOADED_NODE).**  No valid candidate is on a strictly less loaded node (instance load breaking ties). -/
theorem C14_less_loaded_node_optimal (w : W) (idents : List Nat) (load : Nat) (req : List (Nat × Nat)) (i : Nat)
    (h : chooseInstance w .lessLoadedNode idents load req = some i) :
    ∀ j ∈ validCands w idents load req,
      ¬ lexLt (nodeLoading w req j, instLoading w req j) (nodeLoading w req i, instLoading w req i) := by
  unfold chooseInstance at h
  split at h
  · simp at h
  · intro j hj; exact not_lexLt_of_lexLe ((firstMin_optimal _ _ _ h).2 j hj)

/-- **C14 (MOST_LOADED_NODE).** -/
theorem C14_most_loaded_node_optimal (w : W) (idents : List Nat) (load : Nat) (req : List (Nat × Nat)) (i : Nat)
    (h : chooseInstance w .mostLoadedNode idents load req = some i) :
    ∀ j ∈ validCands w idents load req,
      ¬ lexLt (nodeLoading w req i, instLoading w req i) (nodeLoading w req j, instLoading w req j) := by
  unfold chooseInstance at h
  split at h
  · simp at h
  · intro j hj; exact not_lexLt_of_lexLe ((lastMax_optimal _ _ _ h).2 j hj)

/-- **C14 (LOCAL).**  LOCAL only ever chooses the requesting instance. -/
theorem C14_local_only (w : W) (idents : List Nat) (load : Nat) (req : List (Nat × Nat)) (i : Nat)
    (h : chooseInstance w .local idents load req = some i) : i = w.me := by
  unfold chooseInstance at h
  split at h
  · simp at h
  · simp only at h
    split at h
    · simp at h; exact h.symm
    · simp at h

/-- **C14 (none iff no valid candidate).**  Except for LOCAL, a choice is made exactly when a valid candidate exists;
    LOCAL chooses exactly when the requesting instance is a valid candidate. -/
theorem C14_none_iff (w : W) (strat : Strategy) (idents : List Nat) (load : Nat) (req : List (Nat × Nat)) :
    chooseInstance w strat idents load req = none ↔
      (if strat = .local then w.me ∉ validCands w idents load req else validCands w idents load req = []) := by
  have hsub : (idents.filter (fun i => w.instRunning.getD i false)) = [] → validCands w idents load req = [] := by
    intro h; unfold validCands; rw [h]; rfl
  unfold chooseInstance
  split
  · rename_i he
    have hnil : idents.filter (fun i => w.instRunning.getD i false) = [] := by simpa using he
    have hv := hsub hnil
    cases strat <;> simp [hv]
  · cases strat <;> simp only
    · simp [List.head?_eq_none_iff]
    · simp [firstMin_none]
    · simp [lastMax_none]
    · simp
    · simp [firstMin_none]
    · simp [lastMax_none]

/-- **C14 (requests counted).**  The loads compared by the strategies include the starts already requested: adding a pending
    request on an instance raises both of its load figures by the requested load. -/
theorem C14_requests_counted (w : W) (req : List (Nat × Nat)) (i load : Nat) :
    instLoading w (req ++ [(i, load)]) i = instLoading w req i + load
    ∧ nodeLoading w (req ++ [(i, load)]) i = nodeLoading w req i + load := by
  unfold instLoading nodeLoading reqOf nodeReq
  simp [List.filter_append, List.foldl_append]
  omega

-- non-vacuity: two instances on one node, the loaded one is avoided by LESS_LOADED and preferred by MOST_LOADED
def exW : W :=
  { ninst := 2, me := 0, node := [0, 0], instRunning := [true, true], counter := [0, 0],
    pcfg := [{ app := 0, startSeq := 1, required := false, waitExit := false, load := 30, sfail := .cont, idents := none, startsecs := 1 }],
    acfg := [{ startSeq := 1, strategy := .config }],
    procs := [{ infos := [(0, { state := .running, expected := true, ltime := 0, etime := 0, nowm := 0, disabled := false })],
                running := [0], state := .running }] }
example : chooseInstance exW .lessLoaded [0, 1] 10 [] = some 1 ∧ chooseInstance exW .mostLoaded [0, 1] 10 [] = some 0
    ∧ chooseInstance exW .config [0, 1] 80 [] = none := by decide

end Supv.Props.C14
