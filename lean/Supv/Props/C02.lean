import Supv.Lemmas.InstMoves
import Supv.Spec.Graphs

/-!
# C02 — Supvisors state only moves along the documented state graph

Model: `Supv/Model/Inst.lean` (one instance: instancestatus + statemodes + context + statemachine), whose transition table
is GENERATED from `FiniteStateMachine._Transitions` on every run (`Supv/Gen/Tables.lean`).  Quantifier: every history of
operations (ticks, peer publications, handshake results, failure notifications, restart / shutdown / end_sync requests) with
every oracle stream for the layers not modelled (jobs in progress, conflicts), internal errors included.
-/

namespace Supv.Props.C02
open Supv.Inst Supv.Spec

/-- **C02 (table clause).**  The transition table of the current source only contains documented edges:
    forward chain, returns to OFF / SYNCHRONIZATION / ELECTION only, RESTARTING / SHUTTING_DOWN → FINAL only,
    FINAL terminal. -/
theorem C02_table_within_documented : ∀ a b : SState, b ∈ a.next → b ∈ documentedFsm a := by
  intro a b h
  cases a <;> cases b <;> revert h <;> decide

/-- the generated enumeration is the one the model's codes assume (names and values, in declaration order) -/
theorem C02_codes_match_source :
    Supv.Gen.enumSupvisorsStates = [("OFF", 0), ("SYNCHRONIZATION", 1), ("ELECTION", 2), ("DISTRIBUTION", 3),
      ("OPERATION", 4), ("CONCILIATION", 5), ("RESTARTING", 6), ("SHUTTING_DOWN", 7), ("FINAL", 8)]
    ∧ SState.all.map SState.code = Supv.Gen.enumSupvisorsStates.map (·.2)
    ∧ (Supv.Gen.fsmTable.map (·.1)) = SState.all.map SState.code := by decide

/-- by AST of the current source: the published Supvisors state is assigned in `FiniteStateMachine.set_state` only -/
theorem C02_single_writer : Supv.Gen.fsmStateWriters = ["FiniteStateMachine.set_state"] := by decide

/-- **C02 (trace clause).**  For every history of operations — whatever the oracle answers, internal errors included —
    from every well-formed state, the FSM state reached is connected to the initial one by a path of the (generated)
    transition table, hence of the documented graph. -/
theorem C02_trace_on_graph (c : Cfg) (ops : List (Nat × Op × List (Query × Nat))) (s : St) (hwf : c.me < s.modes.length) :
    Path (fsmOf c s) (fsmOf c (ops.foldl (fun s o => (stepOp c s o.1 o.2.1 o.2.2).1) s)) := by
  induction ops generalizing s with
  | nil => exact Path.refl _
  | cons o t ih =>
    simp only [List.foldl_cons]
    have h1 := stepOp_moves c s o.1 o.2.1 o.2.2 hwf
    exact Path.trans h1.1 (ih _ (by rw [h1.2]; exact hwf))

/-- FINAL is terminal and the ending states lead to FINAL only, in the table of the current source -/
theorem C02_final_terminal : SState.final.next = [] ∧ SState.restarting.next = [.final] ∧ SState.shuttingDown.next = [.final] := by
  decide

/-- a path of the table is a path of the documented graph -/
theorem C02_path_documented {a b : SState} (h : Path a b) :
    a = b ∨ ∃ l : List SState, isWalk documentedFsm (a :: l ++ [b]) = true := by
  induction h with
  | refl a => exact Or.inl rfl
  | @step x y z hxy _ ih =>
    have hdoc := C02_table_within_documented x y hxy
    rcases ih with heq | ⟨l, hl⟩
    · subst heq
      exact Or.inr ⟨[], by simp [isWalk]; exact Or.inr hdoc⟩
    · refine Or.inr ⟨y :: l, ?_⟩
      simp only [List.cons_append, isWalk, Bool.and_eq_true, Bool.or_eq_true]
      refine ⟨Or.inr (by simpa using hdoc), ?_⟩
      simpa using hl

-- non-vacuity: the initial state of every configuration whose local index is in range is well-formed
example (c : Cfg) (hme : c.me < c.n) : c.me < (initSt c).modes.length := by
  simp [initSt]; exact hme

-- non-vacuity: a concrete history that really moves (OFF → SYNCHRONIZATION needs the local instance RUNNING)
example : SState.sync ∈ SState.off.next := by decide

end Supv.Props.C02
