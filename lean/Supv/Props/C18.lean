import Supv.Lemmas.Rules
import Supv.Gen.C18

/-!
# C18 — Rules and options resolve totally, in-domain, with documented precedence

Property theorems only (helper lemmas: `Supv/Lemmas/Rules.lean`; model: `Supv/Model/Rules.lean`; specification and judge:
`Supv/Spec/C18.lean`).  The model is tied to `sparser.py`, `process.py`, `application.py`, `options.py` by the
correspondence of `harness/c18.py` (both parser paths) and to the constants of the source by `Supv/Gen/C18.lean`.

Quantifier: every rules document (any number of aliases, models, applications, programs; overlapping patterns, model
chains and cycles, any texts), every regular-expression table, every name; every option dictionary.
-/

namespace Supv.Props.C18
open Supv.Rules Supv.Spec.C18

/-! ## Tie to the source -/

/-- the constants, enumerations and literal bounds the model is written with are those of the current source
    (`Supv/Gen/C18.lean` is regenerated from `/repo` on every run) -/
theorem C18_source_constants :
    Supv.Gen.C18.loopCheck = LOOP_CHECK ∧ Supv.Gen.C18.sfsNames = sfsNames ∧ Supv.Gen.C18.rfsNames = rfsNames ∧
    Supv.Gen.C18.distNames = distNames ∧ Supv.Gen.C18.startNames = startNames ∧ Supv.Gen.C18.concNames = concNames ∧
    Supv.Gen.C18.failNames = failNames ∧ Supv.Gen.C18.linkNames = linkNames ∧ Supv.Gen.C18.syncNames = syncNames ∧
    Supv.Gen.C18.statNames = statNames ∧ Supv.Gen.C18.syncDefault = syncDefault ∧
    Supv.Gen.C18.syncDefaultShared = syncDefaultShared ∧
    Supv.Gen.C18.reservedMulticast = reservedMulticast ∧
    Supv.Gen.C18.timeoutBounds = [timeoutBounds.1, timeoutBounds.2] ∧
    Supv.Gen.C18.ticksBounds = [ticksBounds.1, ticksBounds.2] ∧
    Supv.Gen.C18.ttlBounds = [ttlBounds.1, ttlBounds.2] ∧ Supv.Gen.C18.portBounds = [portBounds.1, portBounds.2] ∧
    Supv.Gen.C18.ipByteBounds = [[byteBounds.1, byteBounds.2], [multicastFirstByte.1, multicastFirstByte.2], [byteBounds.1, byteBounds.2]] ∧
    -- `if 10 > histo or histo > 1500`
    Supv.Gen.C18.histoCmps = [(["Gt"], [histoBounds.1]), (["Gt"], [histoBounds.2])] ∧
    -- `if not (1.0 <= period <= 3600.0)`: false for `nan` too
    Supv.Gen.C18.periodCmps = [(["Not", "LtE", "LtE"], [(periodBounds.1 : Int), (periodBounds.2 : Int)])] ∧
    Supv.Gen.C18.periodsCmps = [(["Eq"], [0]), (["Gt"], [(maxPeriods : Int)]),
      (["Not", "LtE", "LtE"], [(periodBounds.1 : Int), (periodBounds.2 : Int)])] ∧
    -- `if 0 <= value <= 100`, `if value >= 0`
    Supv.Gen.C18.loadCmps = [(["LtE", "LtE"], [loadBounds.1, loadBounds.2])] ∧
    Supv.Gen.C18.seqCmps = [(["GtE"], [seqMin])] ∧
    -- `if limits[0] > port or port > limits[1]` and the like
    Supv.Gen.C18.toIntegerOps = [["Gt"], ["Gt"]] ∧ Supv.Gen.C18.toTimeoutOps = [["Gt"], ["Gt"]] ∧
    Supv.Gen.C18.toTicksOps = [["Gt"], ["Gt"]] := by
  decide

/-! ## Lookup -/

/-- **An exact name beats any pattern** (applications).  Whatever the patterns and the regular-expression table say
    (`re.error` included: no pattern is even tried), an application element carrying the exact name is the one found,
    the first one in document order. -/
theorem C18_exact_beats_pattern_app (d : Doc) (app : String) (h : ∃ a ∈ d.apps, a.elt.name = some app) :
    ∃ a, getApplicationElement d app = .ok (some a) ∧ a ∈ d.apps ∧ a.elt.name = some app := by
  obtain ⟨a0, ha0, hn0⟩ := h
  have hs : (d.apps.find? (fun a => a.elt.name == some app)).isSome := by
    rw [List.find?_isSome]; exact ⟨a0, ha0, by simp [hn0]⟩
  obtain ⟨a, ha⟩ := Option.isSome_iff_exists.mp hs
  refine ⟨a, by simp [getApplicationElement, ha], List.mem_of_find?_eq_some ha, ?_⟩
  have := List.find?_some ha
  simpa using this

/-- **An exact name beats any pattern** (programs): the element found is not a pattern element (`is_pattern = False`). -/
theorem C18_exact_beats_pattern (d : Doc) (a : AppElt) (proc : String) (h : ∃ p ∈ a.programs, p.name = some proc) :
    ∃ p, getProgramIn d a proc = .ok (some p, false) ∧ p ∈ a.programs ∧ p.name = some proc := by
  obtain ⟨p0, hp0, hn0⟩ := h
  have hs : (a.programs.find? (fun p => p.name == some proc)).isSome := by
    rw [List.find?_isSome]; exact ⟨p0, hp0, by simp [hn0]⟩
  obtain ⟨p, hp⟩ := Option.isSome_iff_exists.mp hs
  refine ⟨p, by simp [getProgramIn, hp], List.mem_of_find?_eq_some hp, ?_⟩
  have := List.find?_some hp
  simpa using this

/-- **Among patterns the longest match wins.**  When `get_best_pattern` selects the value `v`, it belongs to a pattern
    that matches and no matching pattern has a longer match; no pattern of the dict is an invalid regular expression. -/
theorem C18_longest_pattern {α} (d : Doc) (name : String) (pats : List (String × α)) (v : α)
    (h : bestPattern d name pats = .ok (some v)) :
    ∃ p n, (p, v) ∈ pats ∧ matchRes d p name = .len n ∧
      ∀ q w m, (q, w) ∈ pats → matchRes d q name = .len m → m ≤ n := by
  unfold bestPattern at h
  split at h
  · rename_i ms hms
    injection h with h
    obtain ⟨h1, h2, _⟩ := matching_ok d name pats ms hms
    cases hb : firstMax ms with
    | none => rw [hb] at h; cases h
    | some b =>
      rw [hb] at h
      simp only [Option.map_some, Option.some.injEq] at h
      obtain ⟨hm, hmax⟩ := firstMax_spec ms b hb
      obtain ⟨p, hp, hl⟩ := h1 b.1 b.2 hm
      subst h
      exact ⟨p, b.1, hp, hl, fun q w m hq hm' => hmax (m, w) (h2 q w m hq hm')⟩
  · cases h

/-- no pattern is selected only when no pattern matches -/
theorem C18_no_pattern_only_if_none_matches {α} (d : Doc) (name : String) (pats : List (String × α))
    (h : bestPattern d name pats = .ok none) : ∀ q w, (q, w) ∈ pats → matchRes d q name = .no := by
  unfold bestPattern at h
  split at h
  · rename_i ms hms
    injection h with h
    obtain ⟨_, h2, h3⟩ := matching_ok d name pats ms hms
    have hnil : ms = [] := by
      cases hb : firstMax ms with
      | none => exact firstMax_none ms hb
      | some b => rw [hb] at h; cases h
    intro q w hq
    cases hr : matchRes d q name with
    | no => rfl
    | len m => have := h2 q w m hq hr; rw [hnil] at this; cases this
    | err => exact absurd hr (h3 q w hq)
  · cases h

/-- the lookup of a program through patterns, end to end: the element is flagged as a pattern element and is a longest match -/
theorem C18_longest_pattern_program (d : Doc) (a : AppElt) (proc : String) (e : Elt)
    (h : getProgramIn d a proc = .ok (some e, true)) :
    ∃ p n, (p, e) ∈ patternDict (·.pattern) a.programs ∧ matchRes d p proc = .len n ∧
      ∀ q w m, (q, w) ∈ patternDict (·.pattern) a.programs → matchRes d q proc = .len m → m ≤ n := by
  unfold getProgramIn at h
  split at h
  · cases h
  · split at h
    · rename_i p hb
      injection h with h
      simp only [Prod.mk.injEq, Option.some.injEq, and_true] at h
      subst h
      exact C18_longest_pattern d proc _ _ hb
    · cases h
    · cases h

/-! ## Model references -/

/-- **Model references are followed to depth `LOOP_CHECK` = 3 at most**, cyclic references included: the resolution is
    a structural recursion on the fuel (it terminates on every document), it applies the loaders of the reference chain —
    the element, then at most two models — deepest first, and nothing beyond the chain is read. -/
theorem C18_model_depth (d : Doc) (e : Elt) (r : ProcRules) :
    loadModelRules d LOOP_CHECK e r = (chain d LOOP_CHECK e).foldr (loadElt d) r ∧
    (chain d LOOP_CHECK e).length ≤ 3 :=
  ⟨loadModelRules_eq_foldr d LOOP_CHECK e r, chain_length_le d LOOP_CHECK e⟩

/-- the same for any fuel: `n` elements at most -/
theorem C18_model_depth_general (d : Doc) (n : Nat) (e : Elt) (r : ProcRules) :
    loadModelRules d n e r = (chain d n e).foldr (loadElt d) r ∧ (chain d n e).length ≤ n :=
  ⟨loadModelRules_eq_foldr d n e r, chain_length_le d n e⟩

/-- **Values set on the element supersede referenced ones** and, more generally, every plain rule resolves to the first
    in-domain value met from the element down its reference chain, else to the inherited value
    (start/stop sequence, required, wait_exit, expected_loading, both failure strategies). -/
theorem C18_element_supersedes_model (d : Doc) (n : Nat) (e : Elt) (r : ProcRules) :
    let res := loadModelRules d n e r
    let ch := chain d n e
    res.startSeq = fieldOf pStart ch r.startSeq ∧ res.stopSeq = fieldOf pStop ch r.stopSeq ∧
    res.required = fieldOf pRequired ch r.required ∧ res.waitExit = fieldOf pWaitExit ch r.waitExit ∧
    res.load = fieldOf pLoad ch r.load ∧ res.sfs = fieldOf pSfs ch r.sfs ∧ res.rfs = fieldOf pRfs ch r.rfs := by
  intro res ch
  have hres : res = (chain d n e).foldr (loadElt d) r := loadModelRules_eq_foldr d n e r
  rw [hres]
  refine ⟨?_, ?_, ?_, ?_, ?_, ?_, ?_⟩
  · exact foldr_field d (·.startSeq) pStart (fun e r => by rw [loadElt_eq]) _ _
  · exact foldr_field d (·.stopSeq) pStop (fun e r => by rw [loadElt_eq]) _ _
  · exact foldr_field d (·.required) pRequired (fun e r => by rw [loadElt_eq]) _ _
  · exact foldr_field d (·.waitExit) pWaitExit (fun e r => by rw [loadElt_eq]) _ _
  · exact foldr_field d (·.load) pLoad (fun e r => by rw [loadElt_eq]) _ _
  · exact foldr_field d (·.sfs) pSfs (fun e r => by rw [loadElt_eq]) _ _
  · exact foldr_field d (·.rfs) pRfs (fun e r => by rw [loadElt_eq]) _ _

/-- the head of the chain is the element itself: an in-domain value given by the element always wins -/
theorem C18_element_value_wins (d : Doc) (n : Nat) (e : Elt) (r : ProcRules) :
    let res := loadModelRules d (n + 1) e r
    (∀ v, pStart e = some v → res.startSeq = v) ∧ (∀ v, pStop e = some v → res.stopSeq = v) ∧
    (∀ v, pRequired e = some v → res.required = v) ∧ (∀ v, pWaitExit e = some v → res.waitExit = v) ∧
    (∀ v, pLoad e = some v → res.load = v) ∧ (∀ v, pSfs e = some v → res.sfs = v) ∧
    (∀ v, pRfs e = some v → res.rfs = v) := by
  obtain ⟨h1, h2, h3, h4, h5, h6, h7⟩ := C18_element_supersedes_model d (n + 1) e r
  intro res
  have hch : chain d (n + 1) e = e :: (match findModel d e with | some m => chain d n m | none => []) := rfl
  rw [hch] at h1 h2 h3 h4 h5 h6 h7
  refine ⟨?_, ?_, ?_, ?_, ?_, ?_, ?_⟩
  · intro v hv; rw [h1]; exact fieldOf_head _ _ _ _ _ hv
  · intro v hv; rw [h2]; exact fieldOf_head _ _ _ _ _ hv
  · intro v hv; rw [h3]; exact fieldOf_head _ _ _ _ _ hv
  · intro v hv; rw [h4]; exact fieldOf_head _ _ _ _ _ hv
  · intro v hv; rw [h5]; exact fieldOf_head _ _ _ _ _ hv
  · intro v hv; rw [h6]; exact fieldOf_head _ _ _ _ _ hv
  · intro v hv; rw [h7]; exact fieldOf_head _ _ _ _ _ hv

/-! ## Resolved program rules in closed form; domains; dependencies -/

/-- the reference chain of the element chosen by the lookup (empty when no element is found) -/
def chosenChain (d : Doc) (app proc : String) : List Elt :=
  match getProgramElement d app proc with
  | .ok (some e, _) => chain d LOOP_CHECK e
  | _ => []

/-- **The resolved plain rules of a program, for every document and every name**: each is the first in-domain value
    along the chain of the chosen element, else the inherited value `r0`; then `required` needs a start sequence and
    `stop_sequence` defaults to `start_sequence`.  (Exactly the `Supv.Spec.C18.specProc` fields.) -/
theorem C18_resolution_closed_form (d : Doc) (app proc : String) (r0 r : ProcRules)
    (h : loadProgramRules d app proc r0 = .ok r) :
    let ch := chosenChain d app proc
    r.startSeq = fieldOf pStart ch r0.startSeq ∧
    r.stopSeq = (if fieldOf pStop ch r0.stopSeq < 0 then fieldOf pStart ch r0.startSeq else fieldOf pStop ch r0.stopSeq) ∧
    r.required = (fieldOf pRequired ch r0.required && fieldOf pStart ch r0.startSeq != 0) ∧
    r.waitExit = fieldOf pWaitExit ch r0.waitExit ∧ r.load = fieldOf pLoad ch r0.load ∧
    r.sfs = fieldOf pSfs ch r0.sfs ∧ r.rfs = fieldOf pRfs ch r0.rfs := by
  intro ch
  unfold loadProgramRules at h
  split at h
  · cases h
  · rename_i e isPattern hget
    injection h with h
    subst h
    have hch : ch = chain d LOOP_CHECK e := by simp [ch, chosenChain, hget]
    obtain ⟨h1, h2, h3, h4, h5, h6, h7⟩ := C18_element_supersedes_model d LOOP_CHECK e r0
    simp only [checkDependencies_startSeq, checkDependencies_stopSeq, checkDependencies_required, checkDependencies_waitExit,
      checkDependencies_load, checkDependencies_sfs, checkDependencies_rfs, hch, h1, h2, h3, h4, h5, h6, h7]
    simp
  · rename_i isPattern hget
    injection h with h
    subst h
    have hch : ch = [] := by simp [ch, chosenChain, hget]
    simp only [checkDependencies_startSeq, checkDependencies_stopSeq, checkDependencies_required, checkDependencies_waitExit,
      checkDependencies_load, checkDependencies_sfs, checkDependencies_rfs, hch, fieldOf_nil]
    simp

/-- the domains of the program rules -/
structure ProcInDomain (r : ProcRules) : Prop where
  start : 0 ≤ r.startSeq
  load : 0 ≤ r.load ∧ r.load ≤ 100
  sfs : r.sfs ∈ sfsNames
  rfs : r.rfs ∈ rfsNames

/-- **Every resolved value is in its domain**, for every document (overlapping patterns, model chains and cycles, any
    texts) and every name: sequences are `≥ 0`, the expected load is in `[0;100]`, the strategies are members of their
    enumerations (booleans are in their domain by typing) — provided the inherited rules `r0` are (the defaults are). -/
theorem C18_in_domain (d : Doc) (app proc : String) (r0 r : ProcRules) (h0 : ProcInDomain r0)
    (h : loadProgramRules d app proc r0 = .ok r) : ProcInDomain r ∧ 0 ≤ r.stopSeq := by
  obtain ⟨h1, h2, _, _, h5, h6, h7⟩ := C18_resolution_closed_form d app proc r0 r h
  have hs := fieldOf_start_nonneg (chosenChain d app proc) r0.startSeq h0.start
  refine ⟨⟨?_, ?_, ?_, ?_⟩, ?_⟩
  · rw [h1]; exact hs
  · rw [h5]
    rcases fieldOf_mem pLoad (chosenChain d app proc) r0.load with hh | ⟨e, _, hh⟩
    · rw [hh]; exact h0.load
    · exact parseLoad_range _ _ hh
  · rw [h6]
    rcases fieldOf_mem pSfs (chosenChain d app proc) r0.sfs with hh | ⟨e, _, hh⟩
    · rw [hh]; exact h0.sfs
    · exact parseEnum_mem _ _ _ hh
  · rw [h7]
    rcases fieldOf_mem pRfs (chosenChain d app proc) r0.rfs with hh | ⟨e, _, hh⟩
    · rw [hh]; exact h0.rfs
    · exact parseEnum_mem _ _ _ hh
  · rw [h2]
    split
    · exact hs
    · omega

/-- **A value outside its domain leaves the default**: when no element of the chain gives an in-domain text for a rule
    (negative or non-integer sequence, expected_loading outside `[0;100]`, unknown enumeration member, non-boolean),
    the rule keeps the inherited value. -/
theorem C18_out_of_domain_keeps_default (d : Doc) (app proc : String) (r0 r : ProcRules)
    (h : loadProgramRules d app proc r0 = .ok r) :
    let ch := chosenChain d app proc
    ((∀ e ∈ ch, pStart e = none) → r.startSeq = r0.startSeq) ∧
    ((∀ e ∈ ch, pWaitExit e = none) → r.waitExit = r0.waitExit) ∧
    ((∀ e ∈ ch, pLoad e = none) → r.load = r0.load) ∧
    ((∀ e ∈ ch, pSfs e = none) → r.sfs = r0.sfs) ∧
    ((∀ e ∈ ch, pRfs e = none) → r.rfs = r0.rfs) := by
  obtain ⟨h1, _, _, h4, h5, h6, h7⟩ := C18_resolution_closed_form d app proc r0 r h
  intro ch
  refine ⟨?_, ?_, ?_, ?_, ?_⟩
  · intro hn; rw [h1]; exact fieldOf_all_none _ _ _ hn
  · intro hn; rw [h4]; exact fieldOf_all_none _ _ _ hn
  · intro hn; rw [h5]; exact fieldOf_all_none _ _ _ hn
  · intro hn; rw [h6]; exact fieldOf_all_none _ _ _ hn
  · intro hn; rw [h7]; exact fieldOf_all_none _ _ _ hn

/-- what "outside its domain" means for the four classes of the statement -/
theorem C18_domains_of_texts :
    (∀ s v, pyInt s = some v → v < 0 → parseSeq (some s) = none) ∧
    (∀ s, pyInt s = none → parseSeq (some s) = none) ∧
    (∀ s v, pyInt s = some v → (v < 0 ∨ 100 < v) → parseLoad (some s) = none) ∧
    (∀ names s, s ∉ names → parseEnum names (some s) = none) ∧
    (∀ s, strtobool s = none → parseBool (some s) = none) := by
  refine ⟨?_, ?_, ?_, ?_, ?_⟩
  · intro s v h hv
    unfold parseSeq
    simp only [Option.bind_some, h]
    split
    · rename_i hge
      have : (0 : Int) ≤ v := by simpa [seqMin] using hge
      omega
    · rfl
  · intro s h; simp [parseSeq, h]
  · intro s v h hv
    unfold parseLoad
    simp only [Option.bind_some, h]
    split
    · rename_i hge
      have : (0 : Int) ≤ v ∧ v ≤ 100 := by simpa [loadBounds] using hge
      omega
    · rfl
  · intro names s h; simp [parseEnum, h]
  · intro s h; simp [parseBool, h]

/-- **`required` without a start sequence is dropped** -/
theorem C18_required_needs_sequence (d : Doc) (app proc : String) (r0 r : ProcRules)
    (h : loadProgramRules d app proc r0 = .ok r) (hr : r.required = true) : r.startSeq ≠ 0 := by
  obtain ⟨h1, _, h3, _⟩ := C18_resolution_closed_form d app proc r0 r h
  rw [h3] at hr
  rw [h1]
  simp only [Bool.and_eq_true, bne_iff_ne, ne_eq] at hr
  exact hr.2

/-- **`stop_sequence` defaults to `start_sequence`**: whenever no in-domain stop sequence is given along the chain (and
    none is inherited), the resolved stop sequence is the resolved start sequence; it is never negative. -/
theorem C18_stop_defaults_to_start (d : Doc) (app proc : String) (r0 r : ProcRules)
    (h : loadProgramRules d app proc r0 = .ok r) :
    ((∀ e ∈ chosenChain d app proc, pStop e = none) → r0.stopSeq < 0 → r.stopSeq = r.startSeq) ∧
    (∀ e v, chosenChain d app proc = e :: (chosenChain d app proc).tail → pStop e = some v → r.stopSeq = v) ∧
    (0 ≤ r0.startSeq → 0 ≤ r.stopSeq) := by
  obtain ⟨h1, h2, _⟩ := C18_resolution_closed_form d app proc r0 r h
  refine ⟨?_, ?_, ?_⟩
  · intro hn hneg
    rw [h2, h1, fieldOf_all_none _ _ _ hn]
    simp [hneg]
  · intro e v hch hv
    rw [h2, hch, fieldOf_head pStop e _ _ v hv]
    have := parseSeq_nonneg _ _ hv
    rw [if_neg (by omega)]
  · intro h0
    rw [h2]
    have hs := fieldOf_start_nonneg (chosenChain d app proc) r0.startSeq h0
    split
    · exact hs
    · omega

/-! ## Identifiers: the element supersedes the model — false of the current code when signs are mixed -/

/-- the full statement for the `identifiers` rule: the resolved identifiers (plain list, `@` list, `#` list) are those
    of the first element of the chain that gives identifiers -/
def C18_identifiers_supersede_statement : Prop :=
  ∀ (d : Doc) (e : Elt) (isPattern : Bool),
    (checkDependencies isPattern (loadModelRules d LOOP_CHECK e {})).ids = specIds d (chain d LOOP_CHECK e) isPattern {}

/-- the witness of `corpus/C18/kf_sign_residue.json`: a pattern element gives `n1` and references a model that gives `#` -/
def residueDoc : Doc :=
  { models := [{ name := some "m", children := [("identifiers", "#")] }] }
def residueElt : Elt := { pattern := some "x", children := [("reference", "m"), ("identifiers", "n1")] }

/-- Known finding `C18:supersede:sign-residue`: the `#` of the referenced model survives the plain identifiers of the
    element (the process is still spread over the instances by `assign_hash_identifiers`); symmetrically an `@` of the
    model prevails over a `#` of the element. -/
theorem C18_identifiers_supersede_refuted : ¬ C18_identifiers_supersede_statement := by
  intro hs
  have := hs residueDoc residueElt true
  revert this
  decide

/-- **Identifiers: the element supersedes the model**, under the exact excluded hypothesis: no element below the first
    one that gives identifiers uses `@` or `#` (`signResidue = false`); the inherited rules carry no pending sign. -/
theorem C18_identifiers_supersede_partial (d : Doc) (e : Elt) (isPattern : Bool) (r0 : ProcRules)
    (h1 : r0.ids.atIds = []) (h2 : r0.ids.hashIds = [])
    (hres : signResidue d (chain d LOOP_CHECK e) = false) :
    (checkDependencies isPattern (loadModelRules d LOOP_CHECK e r0)).ids = specIds d (chain d LOOP_CHECK e) isPattern r0.ids := by
  rw [checkDependencies_ids, loadModelRules_eq_foldr, foldr_ids]
  exact ids_meet_spec d isPattern _ _ h1 h2 hres

/-- **The model meets the specification**: for the element chosen by the lookup, what the code computes is exactly the
    documented result `specProc` (the value the judge compares the implementation with), for every document without
    sign residue. -/
theorem C18_resolution_meets_spec (d : Doc) (e : Elt) (isPattern : Bool) (r0 : ProcRules)
    (h1 : r0.ids.atIds = []) (h2 : r0.ids.hashIds = [])
    (hres : signResidue d (chain d LOOP_CHECK e) = false) :
    checkDependencies isPattern (loadModelRules d LOOP_CHECK e r0) = specProc d (some e, isPattern) r0 := by
  obtain ⟨f1, f2, f3, f4, f5, f6, f7⟩ := C18_element_supersedes_model d LOOP_CHECK e r0
  apply procRules_ext
  · exact C18_identifiers_supersede_partial d e isPattern r0 h1 h2 hres
  · simp only [checkDependencies_startSeq, specProc, f1]
  · simp only [checkDependencies_stopSeq, specProc, f1, f2]
  · simp only [checkDependencies_required, specProc, f1, f3]
  · simp only [checkDependencies_waitExit, specProc, f4]
  · simp only [checkDependencies_load, specProc, f5]
  · simp only [checkDependencies_sfs, specProc, f6]
  · simp only [checkDependencies_rfs, specProc, f7]

/-! ## Application rules -/

/-- the element chosen for an application, as a one-element chain (applications have no model reference) -/
def chosenAppChain (d : Doc) (app : String) : List Elt :=
  match getApplicationElement d app with
  | .ok (some a) => [a.elt]
  | _ => []

/-- **The resolved rules of an application, for every document and every name**: managed iff an element is found; each
    rule is the in-domain value of the element, else the inherited value; `stop_sequence` defaults to `start_sequence`;
    the start sequence may only be reset to 0 (a `#` whose naming convention is not met). -/
theorem C18_application_closed_form (d : Doc) (instances : List String) (app : String) (r0 r : AppRules)
    (h : loadApplicationRules d instances app r0 = .ok r) :
    let ch := chosenAppChain d app
    r.managed = (!ch.isEmpty || r0.managed) ∧
    r.distribution = fieldOf pDist ch r0.distribution ∧ r.startingStrategy = fieldOf pStrategy ch r0.startingStrategy ∧
    r.sfs = fieldOf pSfs ch r0.sfs ∧ r.rfs = fieldOf pRfs ch r0.rfs ∧
    r.stopSeq = (if fieldOf pStop ch r0.stopSeq < 0 then fieldOf pStart ch r0.startSeq else fieldOf pStop ch r0.stopSeq) ∧
    (r.startSeq = fieldOf pStart ch r0.startSeq ∨ r.startSeq = 0) := by
  intro ch
  unfold loadApplicationRules at h
  split at h
  · cases h
  · rename_i a hget
    have hch : ch = [a.elt] := by simp [ch, chosenAppChain, hget]
    obtain ⟨k1, k2, k3, k4, k5, _, k7, k8, _⟩ := appCheckDependencies_fields instances app _ r h
    rw [loadAppElt_eq] at k1 k2 k3 k4 k5 k7 k8
    simp only [hch, fieldOf_cons, fieldOf_nil]
    simp only at k1 k2 k3 k4 k5 k7 k8
    refine ⟨by simp [k1], k2, k3, k4, k5, k7, k8⟩
  · rename_i hget
    have hch : ch = [] := by simp [ch, chosenAppChain, hget]
    obtain ⟨k1, k2, k3, k4, k5, _, k7, k8, _⟩ := appCheckDependencies_fields instances app _ r h
    simp only [hch, fieldOf_nil]
    refine ⟨by simp [k1], k2, k3, k4, k5, k7, k8⟩

/-- the domains of the application rules -/
structure AppInDomain (r : AppRules) : Prop where
  start : 0 ≤ r.startSeq
  dist : r.distribution ∈ distNames
  strat : r.startingStrategy ∈ startNames
  sfs : r.sfs ∈ sfsNames
  rfs : r.rfs ∈ rfsNames

/-- **Every resolved application rule is in its domain** and the stop sequence is never negative -/
theorem C18_in_domain_app (d : Doc) (instances : List String) (app : String) (r0 r : AppRules) (h0 : AppInDomain r0)
    (h : loadApplicationRules d instances app r0 = .ok r) : AppInDomain r ∧ 0 ≤ r.stopSeq := by
  obtain ⟨_, h2, h3, h4, h5, h6, h7⟩ := C18_application_closed_form d instances app r0 r h
  have hs := fieldOf_start_nonneg (chosenAppChain d app) r0.startSeq h0.start
  refine ⟨⟨?_, ?_, ?_, ?_, ?_⟩, ?_⟩
  · rcases h7 with h7 | h7 <;> rw [h7]
    · exact hs
    · exact Int.le_refl 0
  · rw [h2]
    rcases fieldOf_mem pDist (chosenAppChain d app) r0.distribution with hh | ⟨e, _, hh⟩
    · rw [hh]; exact h0.dist
    · exact parseEnum_mem _ _ _ hh
  · rw [h3]
    rcases fieldOf_mem pStrategy (chosenAppChain d app) r0.startingStrategy with hh | ⟨e, _, hh⟩
    · rw [hh]; exact h0.strat
    · exact parseEnum_mem _ _ _ hh
  · rw [h4]
    rcases fieldOf_mem pSfs (chosenAppChain d app) r0.sfs with hh | ⟨e, _, hh⟩
    · rw [hh]; exact h0.sfs
    · exact parseEnum_mem _ _ _ hh
  · rw [h5]
    rcases fieldOf_mem pRfs (chosenAppChain d app) r0.rfs with hh | ⟨e, _, hh⟩
    · rw [hh]; exact h0.rfs
    · exact parseEnum_mem _ _ _ hh
  · rw [h6]
    split
    · exact hs
    · omega

/-- **`stop_sequence` of an application defaults to its `start_sequence`** (the value read, before a possible reset by `#`) -/
theorem C18_stop_defaults_to_start_app (d : Doc) (instances : List String) (app : String) (r0 r : AppRules)
    (h : loadApplicationRules d instances app r0 = .ok r)
    (hn : ∀ e ∈ chosenAppChain d app, pStop e = none) (hneg : r0.stopSeq < 0) :
    r.stopSeq = fieldOf pStart (chosenAppChain d app) r0.startSeq := by
  obtain ⟨_, _, _, _, _, h6, _⟩ := C18_application_closed_form d instances app r0 r h
  rw [h6, fieldOf_all_none _ _ _ hn]
  simp [hneg]

/-! ## Aliases expand in order -/

/-- **Aliases expand in order**: the aliases are applied one after the other in declaration order; each replaces, in place,
    the first occurrence of its name by its values (the order of everything else is kept); an alias that does not occur is
    skipped.  Consequently an alias may reference aliases declared AFTER it, not before. -/
theorem C18_alias_expansion (a : String × List String) (rest : List (String × List String)) :
    (∀ pre post, a.1 ∉ pre → expandAliases (a :: rest) (pre ++ a.1 :: post) = expandAliases rest (pre ++ a.2 ++ post)) ∧
    (∀ ids, a.1 ∉ ids → expandAliases (a :: rest) ids = expandAliases rest ids) ∧
    (∀ ids, expandAliases [] ids = ids) := by
  refine ⟨?_, ?_, ?_⟩
  · intro pre post hn
    simp only [expandAliases, List.foldl_cons, substFirst_split a.1 a.2 pre post hn]
  · intro ids hn
    simp only [expandAliases, List.foldl_cons, substFirst_of_not_mem a.1 a.2 ids hn]
  · intro ids; rfl

/-- a list that names no alias is left alone -/
theorem C18_alias_free_identity (aliases : List (String × List String)) (ids : List String)
    (h : ∀ a ∈ aliases, a.1 ∉ ids) : expandAliases aliases ids = ids := by
  induction aliases generalizing ids with
  | nil => rfl
  | cons a rest ih =>
    rw [(C18_alias_expansion a rest).2.1 ids (h a (by simp))]
    exact ih ids (fun b hb => h b (by simp [hb]))

/-- the documented example: `all_ok` declared before the aliases it references is fully expanded; declared after, it is not -/
example : checkIdentifierList
    { aliases := [("all_ok", "servers,consoles"), ("consoles", "console01,console02,console03"), ("servers", "server01,server02")] }
    "all_ok" = ["server01", "server02", "console01", "console02", "console03"] := by decide
example : checkIdentifierList
    { aliases := [("consoles", "console01,console02,console03"), ("servers", "server01,server02"), ("all_ko", "servers,consoles")] }
    "all_ko" = ["servers", "consoles"] := by decide

/-! ## `@` and `#` spread a homogeneous group over instances -/

/-- the identifiers still free for the `@` assignment: the reference list minus what is already assigned in the group -/
def atAvailable (m : Mapper) (atIds : List String) (procs : List GProc) : List String :=
  (refIdentifiers m atIds).filter (fun i => !(assignedOf (sortByIndex procs)).contains i)

/-- **`@` assignment** (`assign_at_identifiers`), positional form over the processes sorted by process index, for any group
    (any mix of rules, any earlier assignment): the k-th process that still carries `@` gets the k-th free identifier of the
    reference list; when the free identifiers are exhausted the processes in excess are left unassigned (no roll-over);
    the processes without `@` are not touched. -/
theorem C18_at_assignment (m : Mapper) (atIds : List String) (procs : List GProc) :
    let sorted := sortByIndex procs
    let avail := atAvailable m atIds procs
    let res := assignAt m atIds procs
    res.length = sorted.length ∧
    ∀ k p, sorted[k]? = some p →
      res[k]? = some (if hasAt p then
        (match avail[(sorted.take k).countP hasAt]? with | some i => atAssigned p i | none => p) else p) := by
  intro sorted avail res
  have hres : res = zipAssignAt sorted avail := by
    simp only [res, assignAt]
    split
    · rename_i hall
      rw [zipAssignAt_noAt]
      intro p hp
      have := (List.all_eq_true.mp hall) p hp
      simpa [hasAt] using this
    · rfl
  rw [hres]
  exact ⟨zipAssignAt_length _ _, zipAssignAt_getElem _ _⟩

/-- **`@` is injective**: two different processes never receive the same identifier from one resolution, every identifier
    given belongs to the reference list and was not assigned in the group before (the reference list has no duplicate:
    it comes out of `mapper.filter` / the instance dictionary). -/
theorem C18_at_assignment_injective (m : Mapper) (atIds : List String) (procs : List GProc)
    (hnd : (refIdentifiers m atIds).Nodup) (k1 k2 : Nat) (p1 p2 : GProc) (i1 i2 : String) (hlt : k1 < k2)
    (h1 : (sortByIndex procs)[k1]? = some p1) (_h2 : (sortByIndex procs)[k2]? = some p2)
    (a1 : hasAt p1 = true) (_a2 : hasAt p2 = true)
    (g1 : (atAvailable m atIds procs)[((sortByIndex procs).take k1).countP hasAt]? = some i1)
    (g2 : (atAvailable m atIds procs)[((sortByIndex procs).take k2).countP hasAt]? = some i2) :
    i1 ≠ i2 ∧ i1 ∈ refIdentifiers m atIds ∧ i1 ∉ assignedOf (sortByIndex procs) := by
  have hav : (atAvailable m atIds procs).Nodup := List.Nodup.sublist List.filter_sublist hnd
  refine ⟨nodup_getElem?_ne _ _ _ i1 i2 hav (countP_take_lt hlt h1 a1) g1 g2, ?_⟩
  have hm := List.mem_of_getElem? g1
  simp only [atAvailable, List.mem_filter] at hm
  refine ⟨hm.1, ?_⟩
  simpa using hm.2

/-- **`#` assignment** (`assign_hash_identifiers`) on a fresh group in which every process carries `#`: it never fails
    when at least one identifier of the list is known, and the k-th process (by process index) is assigned identifier
    `k mod n` of the reference list — a balanced round-robin in reference order. -/
theorem C18_hash_assignment (m : Mapper) (hashIds : List String) (procs : List GProc)
    (hfresh : ∀ p ∈ procs, p.ids.hashIds.isEmpty = false ∧ p.ids.identifiers = [])
    (hne : refIdentifiers m hashIds ≠ []) :
    let sorted := sortByIndex procs
    let ref := refIdentifiers m hashIds
    ∃ res, assignHash m hashIds procs = .ok res ∧ res.length = sorted.length ∧
      ∀ k p, sorted[k]? = some p → res[k]? = some (hashAssigned p (ref.getD (k % ref.length) "")) := by
  intro sorted ref
  have hs : ∀ p ∈ sorted, p.ids.hashIds.isEmpty = false ∧ p.ids.identifiers = [] :=
    fun p hp => hfresh p ((mem_sortByIndex p procs).mp hp)
  have hlen : 0 < ref.length := List.length_pos_iff.mpr hne
  unfold assignHash
  simp only
  split
  · rename_i hall
    -- every process carries `#`: the list is empty
    have : sorted = [] := by
      cases hso : sorted with
      | nil => rfl
      | cons p t =>
        have hp := (List.all_eq_true.mp hall) p (by simp [sorted] at hso ⊢; simp [hso])
        have := (hs p (by simp [hso])).1
        simp [this] at hp
    refine ⟨sortByIndex procs, rfl, rfl, ?_⟩
    intro k p hk
    have hk' : (sortByIndex procs)[k]? = some p := hk
    have hnil : sortByIndex procs = [] := this
    rw [hnil] at hk'
    simp at hk'
  · have hassigned : assignedOf (sortByIndex procs) = [] := by
      unfold assignedOf
      rw [List.filterMap_eq_nil_iff]
      intro p hp
      simp [(hs p hp).2]
    simp only [hassigned, List.all_nil, if_true, List.count_nil, List.map_const']
    have hrr : List.replicate (refIdentifiers m hashIds).length 0 = rr (refIdentifiers m hashIds).length 0 0 := by simp [rr]
    rw [hrr]
    obtain ⟨l', e1, e2, e3⟩ := loopAssignHash_rr (refIdentifiers m hashIds) (sortByIndex procs) 0 0 hlen (fun p hp => (hs p hp).1)
    exact ⟨l', e1, e2, fun k p hk => by rw [e3 k p hk, Nat.zero_add]⟩

/-- the two ways `assign_hash_identifiers` raises (known findings `C18:hash:empty-reference`,
    `C18:hash:assigned-outside-reference`): no identifier of the `#` list is known; a process of the group that does not
    carry `#` has identifiers outside the reference list (e.g. the default `*`) -/
theorem C18_hash_assignment_failures :
    assignHash { instances := ["i1"], nicks := [("n1", "i1")] } ["typo"]
      [{ name := "p0", index := 0, ids := { identifiers := [], hashIds := ["typo"] } }] = .error "ValueError" ∧
    assignHash { instances := ["i1"], nicks := [("n1", "i1")] } ["*"]
      [{ name := "p0", index := 0, ids := { identifiers := [], hashIds := ["*"] } },
       { name := "p1", index := 1, ids := {} }] = .error "KeyError" :=
  ⟨by rfl, by rfl⟩

/-! ## `[supvisors]` options -/

/-- **Integer, enumeration and boolean options are exactly the documented function of their text**: the value when the
    text denotes a member of the documented range, else the default (`Supv.Spec.C18.specRanged/specEnum/specBool`, the
    functions the judge compares the implementation with) — whatever `SYNCHRO_DEFAULT_OPTIONS` currently holds. -/
theorem C18_options_meet_spec (dflt : List String) (cfg : Config) :
    let o := convertOptions dflt cfg
    o.multicastTtl = specRanged 0 255 1 (lookupStr cfg "multicast_ttl") ∧
    o.eventPort = specRanged 1 65535 0 (lookupStr cfg "event_port") ∧
    o.synchroTimeout = specRanged 15 1200 15 (lookupStr cfg "synchro_timeout") ∧
    o.inactivityTicks = specRanged 2 720 2 (lookupStr cfg "inactivity_ticks") ∧
    o.statsHisto = specRanged 10 1500 200 (lookupStr cfg "stats_histo") ∧
    o.eventLink = specEnum linkNames "NONE" (lookupStr cfg "event_link") ∧
    o.conciliation = specEnum concNames "USER" (lookupStr cfg "conciliation_strategy") ∧
    o.startingStrategy = specEnum startNames "CONFIG" (lookupStr cfg "starting_strategy") ∧
    o.failureStrategy = specEnum failNames "CONTINUE" (lookupStr cfg "supvisors_failure_strategy") ∧
    o.autoFence = specBool false (lookupStr cfg "auto_fence") ∧
    o.irixMode = specBool false (lookupStr cfg "stats_irix_mode") := by
  intro o
  refine ⟨?_, ?_, ?_, ?_, ?_, ?_, ?_, ?_, ?_, ?_, ?_⟩
  · exact getValue_ranged cfg "multicast_ttl" 0 255 1
  · exact getValue_ranged cfg "event_port" 1 65535 0
  · exact getValue_ranged cfg "synchro_timeout" 15 1200 15
  · exact getValue_ranged cfg "inactivity_ticks" 2 720 2
  · exact getValue_ranged cfg "stats_histo" 10 1500 200
  · exact getValue_enum cfg "event_link" linkNames "NONE"
  · exact getValue_enum cfg "conciliation_strategy" concNames "USER"
  · exact getValue_enum cfg "starting_strategy" startNames "CONFIG"
  · exact getValue_enum cfg "supvisors_failure_strategy" failNames "CONTINUE"
  · exact getValue_bool cfg "auto_fence" false
  · exact getValue_bool cfg "stats_irix_mode" false

/-- **Every option outside its documented range falls back to its default** — per converter, for every dictionary:
    `to_ttl`, `to_port_num`, `to_timeout`, `to_ticks`, `to_histo` give a value in their range or the default;
    `to_event_link` and the three `to_*_strategy` give a member of their enumeration. -/
theorem C18_option_in_range_or_default (dflt : List String) (cfg : Config) :
    let o := convertOptions dflt cfg
    (o.multicastTtl = 1 ∨ (0 ≤ o.multicastTtl ∧ o.multicastTtl ≤ 255)) ∧
    (o.eventPort = 0 ∨ (1 ≤ o.eventPort ∧ o.eventPort ≤ 65535)) ∧
    (15 ≤ o.synchroTimeout ∧ o.synchroTimeout ≤ 1200) ∧
    (2 ≤ o.inactivityTicks ∧ o.inactivityTicks ≤ 720) ∧
    (10 ≤ o.statsHisto ∧ o.statsHisto ≤ 1500) ∧
    o.eventLink ∈ linkNames ∧ o.conciliation ∈ concNames ∧ o.startingStrategy ∈ startNames ∧
    o.failureStrategy ∈ failNames := by
  intro o
  obtain ⟨h1, h2, h3, h4, h5, h6, h7, h8, h9, _, _⟩ := C18_options_meet_spec dflt cfg
  refine ⟨?_, ?_, ?_, ?_, ?_, ?_, ?_, ?_, ?_⟩
  · rw [h1]; exact specRanged_range 0 255 1 _
  · rw [h2]; exact specRanged_range 1 65535 0 _
  · rw [h3]; rcases specRanged_range 15 1200 15 (lookupStr cfg "synchro_timeout") with h | h
    · rw [h]; omega
    · exact h
  · rw [h4]; rcases specRanged_range 2 720 2 (lookupStr cfg "inactivity_ticks") with h | h
    · rw [h]; omega
    · exact h
  · rw [h5]; rcases specRanged_range 10 1500 200 (lookupStr cfg "stats_histo") with h | h
    · rw [h]; omega
    · exact h
  · rw [h6]; exact specEnum_mem _ _ _ (by decide)
  · rw [h7]; exact specEnum_mem _ _ _ (by decide)
  · rw [h8]; exact specEnum_mem _ _ _ (by decide)
  · rw [h9]; exact specEnum_mem _ _ _ (by decide)

/-- the full statement for `to_period`: the collecting period is in `[1;3600]` or is the default -/
def C18_period_in_range_or_default_statement : Prop :=
  ∀ (dflt : List String) (cfg : Config),
    (convertOptions dflt cfg).collectingPeriod = .val 5 1 ∨ periodInRange (convertOptions dflt cfg).collectingPeriod = true

/-- **`to_period`: in range or default** — the full statement (the finding `C18:option:to_period:nan` is repaired by
    7f9aea6; `corpus/C18/kf_period_nan.json` is now a regression case) -/
theorem C18_period_in_range_or_default : C18_period_in_range_or_default_statement := by
  intro dflt cfg
  simp only [convertOptions, getValue]
  cases lookupStr cfg "stats_collecting_period" with
  | none => left; rfl
  | some s =>
    simp only
    cases hp : toPeriod s with
    | none => left; rfl
    | some p => right; exact toPeriod_range s p hp

/-- the full statement for `to_periods`: one to three periods, each in `[1;3600]`, or the default -/
def C18_periods_in_range_or_default_statement : Prop :=
  ∀ (dflt : List String) (cfg : Config),
    let ps := (convertOptions dflt cfg).statsPeriods
    ps = [.val 10 1] ∨ ((∀ p ∈ ps, periodInRange p = true) ∧ 1 ≤ ps.length ∧ ps.length ≤ 3)

/-- **`to_periods`: in range or default** — the full statement (`C18:option:to_periods:nan` repaired by 7f9aea6) -/
theorem C18_periods_in_range_or_default : C18_periods_in_range_or_default_statement := by
  intro dflt cfg
  simp only [convertOptions, getValue]
  cases lookupStr cfg "stats_periods" with
  | none => left; rfl
  | some s =>
    simp only
    cases hp : toPeriods s with
    | none => left; rfl
    | some ps =>
      right
      simp only [Option.getD_some]
      unfold toPeriods at hp
      simp only at hp
      split at hp
      · cases hp
      · rename_i hlen
        cases ho : optAll ((listOfStrings s).map toPeriod) with
        | none => rw [ho] at hp; cases hp
        | some raw =>
          rw [ho] at hp
          simp only [Option.map_some, Option.some.injEq] at hp
          subst hp
          obtain ⟨o1, o2⟩ := optAll_spec _ raw ho
          obtain ⟨s1, s2⟩ := pySort_spec Period.lt raw
          simp only [maxPeriods, beq_iff_eq, not_or, Nat.not_gt_eq] at hlen
          refine ⟨?_, ?_, ?_⟩
          · intro p hp
            have hraw := (s2 p).mp hp
            have := o2 p hraw
            simp only [List.mem_map] at this
            obtain ⟨x, _, hxp⟩ := this
            exact toPeriod_range x p hxp
          · rw [s1, o1, List.length_map]; omega
          · rw [s1, o1, List.length_map]; omega

/-- **CORE / STRICT are dropped when their lists are empty; only an empty result is refused**: the options kept are
    exactly the options asked for minus CORE without `core_identifiers` and STRICT without `supvisors_list`;
    `check_options` raises iff nothing is left. -/
theorem C18_synchro_cleanup (o : Options) (hnd : o.synchroOptions.Nodup) :
    (∀ o', checkOptions o = .ok o' →
      o'.synchroOptions ≠ [] ∧
      ∀ x, x ∈ o'.synchroOptions ↔ x ∈ o.synchroOptions ∧ ¬(x = "CORE" ∧ o.coreIdentifiers.isEmpty = true) ∧
        ¬(x = "STRICT" ∧ (o.supvisorsList.getD []).isEmpty = true)) ∧
    ((∃ e, checkOptions o = .error e) ↔
      ∀ x ∈ o.synchroOptions, (x = "CORE" ∧ o.coreIdentifiers.isEmpty = true) ∨
        (x = "STRICT" ∧ (o.supvisorsList.getD []).isEmpty = true)) := by
  have hm := mem_synchroCleanup o hnd
  constructor
  · intro o' h
    unfold checkOptions at h
    simp only at h
    split at h
    · cases h
    · rename_i hne
      have hsync : o'.synchroOptions = synchroCleanup o := by
        split at h <;> (injection h with h; subst h; rfl)
      rw [hsync]
      exact ⟨by simpa using hne, hm⟩
  · constructor
    · rintro ⟨e, h⟩
      unfold checkOptions at h
      simp only at h
      split at h
      · rename_i hemp
        intro x hx
        have hnil : synchroCleanup o = [] := by simpa using hemp
        have hnot : x ∉ synchroCleanup o := by rw [hnil]; simp
        rw [hm x] at hnot
        by_cases c1 : x = "CORE" ∧ o.coreIdentifiers.isEmpty = true
        · exact Or.inl c1
        · by_cases c2 : x = "STRICT" ∧ (o.supvisorsList.getD []).isEmpty = true
          · exact Or.inr c2
          · exact absurd ⟨hx, c1, c2⟩ hnot
      · split at h <;> cases h
    · intro hall
      have hnil : synchroCleanup o = [] := by
        cases hc : synchroCleanup o with
        | nil => rfl
        | cons x t =>
          have hx : x ∈ synchroCleanup o := by rw [hc]; simp
          rw [hm x] at hx
          rcases hall x hx.1 with c | c
          · exact absurd c hx.2.1
          · exact absurd c hx.2.2
      exact ⟨"ValueError", by simp [checkOptions, hnil]⟩

/-- the options that reach `check_options` have no duplicate synchro option (hypothesis of `C18_synchro_cleanup`) -/
theorem C18_synchro_options_nodup (dflt : List String) (cfg : Config) (hd : dflt.Nodup) :
    (convertOptions dflt cfg).synchroOptions.Nodup := convertOptions_sync_nodup dflt cfg hd

/-- **TIMEOUT forces `supvisors_failure_strategy` to CONTINUE**; without TIMEOUT the strategy is kept; nothing else
    but the synchro options changes. -/
theorem C18_timeout_forces_continue (o o' : Options) (h : checkOptions o = .ok o') :
    ("TIMEOUT" ∈ o'.synchroOptions → o'.failureStrategy = "CONTINUE") ∧
    ("TIMEOUT" ∉ o'.synchroOptions → o'.failureStrategy = o.failureStrategy) ∧
    o' = { o with synchroOptions := o'.synchroOptions, failureStrategy := o'.failureStrategy } := by
  unfold checkOptions at h
  simp only at h
  split at h
  · cases h
  · split at h
    · rename_i hc
      injection h with h; subst h
      simp only [Bool.and_eq_true, List.contains_eq_mem, decide_eq_true_eq] at hc
      exact ⟨fun _ => rfl, fun hn => absurd hc.1 hn, rfl⟩
    · rename_i hc
      injection h with h; subst h
      simp only [Bool.and_eq_true, List.contains_eq_mem, decide_eq_true_eq, bne_iff_ne, ne_eq, not_and, Decidable.not_not] at hc
      exact ⟨fun ht => hc ht, fun _ => rfl, rfl⟩

/-- the synchro options of a construction result (`[]` when it raised) -/
def okSync (r : Except Err Options) : List String := match r with | .ok o => o.synchroOptions | .error _ => []

/-- the full statement "the effective options are a function of the dictionary": what an earlier construction in the same
    interpreter did (a Supvisors restart re-creates the options in the same process) does not matter -/
def C18_options_history_independent_statement : Prop :=
  ∀ (cfg1 cfg2 : Config), (buildOptions (buildOptions syncDefault cfg1).2 cfg2).1 = (buildOptions syncDefault cfg2).1

/-- **The effective options are a function of the dictionary alone** — the full statement (the finding
    `C18:option:synchro-default-mutated` is repaired by b925545: a copy of the default list is handed to `_get_value`, so the
    in-place removals of `check_options` never reach the class attribute; `syncDefaultShared` is read from the source) -/
theorem C18_options_history_independent : C18_options_history_independent_statement := by
  intro cfg1 cfg2
  simp [buildOptions, syncDefaultShared]

/-- a construction leaves `SYNCHRO_DEFAULT_OPTIONS` as it found it -/
theorem C18_default_synchro_untouched (dflt : List String) (cfg : Config) : (buildOptions dflt cfg).2 = dflt := by
  simp [buildOptions, syncDefaultShared]

/-- the reference list of a sign has no duplicate (hypothesis of `C18_at_assignment_injective`): it comes out of
    `mapper.filter`, or is the key list of the instance dictionary -/
theorem C18_reference_list_nodup (m : Mapper) (l : List String) (h : m.instances.Nodup) : (refIdentifiers m l).Nodup := by
  unfold refIdentifiers
  split
  · exact h
  · exact dedup_nodup _

/-- **`#` on an application**: when the name ends with `-N` / `_N` (N ≥ 1) the application goes to the N-th name of the
    list (rolling over beyond its length); otherwise its start sequence is reset to 0 -/
theorem C18_app_hash_assignment (instances : List String) (app : String) (r : AppRules) :
    (∀ ds, appIndexDigits app = some ds → natOfDigits ds ≠ 0 → appHashRef instances r ≠ [] →
      appCheckHash instances app r = .ok { r with ids := { r.ids with identifiers :=
        [(appHashRef instances r).getD ((natOfDigits ds - 1) % (appHashRef instances r).length) ""] } }) ∧
    (appIndexDigits app = none → appCheckHash instances app r = .ok { r with startSeq := 0 }) ∧
    (∀ ds, appIndexDigits app = some ds → natOfDigits ds = 0 → appCheckHash instances app r = .ok { r with startSeq := 0 }) := by
  refine ⟨?_, ?_, ?_⟩
  · intro ds h1 h2 h3
    have h3' : (appHashRef instances r).isEmpty = false := by
      cases hh : appHashRef instances r with
      | nil => exact absurd hh h3
      | cons x t => rfl
    simp [appCheckHash, h1, h2, h3']
  · intro h1; simp [appCheckHash, h1]
  · intro ds h1 h2; simp [appCheckHash, h1, h2]

/-- **`to_multicast_group`: in range or refused** (then the default `None` applies): the address is not a reserved one and
    the port is in `[1;65535]` -/
theorem C18_multicast_group_in_range_or_default (dflt : List String) (cfg : Config) :
    match (convertOptions dflt cfg).multicastGroup with
    | none => True
    | some (addr, port) => addr ∉ reservedMulticast ∧ 1 ≤ port ∧ port ≤ 65535 := by
  simp only [convertOptions, getValue]
  cases lookupStr cfg "multicast_group" with
  | none => trivial
  | some v =>
    simp only
    cases hm : toMulticastGroup v with
    | none => trivial
    | some ap =>
      obtain ⟨addr, port⟩ := ap
      simp only [Option.map_some, Option.getD_some]
      unfold toMulticastGroup at hm
      split at hm
      · rename_i a p _
        simp only at hm
        split at hm
        · cases hm
        · rename_i hres
          split at hm
          · cases ht : toRanged portBounds.1 portBounds.2 (String.ofList p) with
            | none => rw [ht] at hm; cases hm
            | some x =>
              rw [ht] at hm
              simp only [Option.map_some, Option.some.injEq, Prod.mk.injEq] at hm
              obtain ⟨rfl, rfl⟩ := hm
              obtain ⟨_, lo, hi⟩ := toRanged_some _ _ _ _ ht
              refine ⟨by simpa using hres, by simpa [portBounds] using lo, by simpa [portBounds] using hi⟩
          · cases hm
      · cases hm

/-! ## The model is accepted by the judge -/

/-- **The judge accepts what the model computes** (so the specification is not vacuous and the correspondence
    model = implementation transfers the verdict): for every document, every regular-expression table and every name,
    when the lookup does not hit an invalid regular expression and the chain of the chosen element has no sign residue
    (the two known findings), the resolved rules are one of the documented results — lookup (exact name before patterns,
    a longest pattern), chain, domains and dependencies together. -/
theorem C18_model_accepted_by_judge (d : Doc) (app proc : String) (r0 r : ProcRules)
    (h1 : r0.ids.atIds = []) (h2 : r0.ids.hashIds = [])
    (h : loadProgramRules d app proc r0 = .ok r)
    (hres : ∀ e p, getProgramElement d app proc = .ok (some e, p) → signResidue d (chain d LOOP_CHECK e) = false) :
    judgeProc d app proc r0 (.ok r) = none := by
  have hmem : ∃ c, getProgramElement d app proc = .ok c ∧ r = specProc d c r0 := by
    unfold loadProgramRules at h
    split at h
    · cases h
    · rename_i e p hget
      injection h with h; subst h
      exact ⟨(some e, p), hget, C18_resolution_meets_spec d e p r0 h1 h2 (hres e p hget)⟩
    · rename_i p hget
      injection h with h; subst h
      exact ⟨(none, p), hget, resolution_meets_spec_none d p r0 h1 h2⟩
  obtain ⟨c, hget, hr⟩ := hmem
  have hc := getProgramElement_mem d app proc c hget
  have hcont : ((progCandidates d app proc).map (fun c => specProc d c r0)).contains r = true := by
    simp only [List.contains_eq_mem, List.mem_map, decide_eq_true_eq]
    exact ⟨c, hc, hr.symm⟩
  unfold judgeProc
  simp only
  rw [if_pos hcont]

/-! ## Non-vacuity: the hypotheses of the theorems are met by concrete, non-trivial values -/

/-- a document with an exact entry and two overlapping patterns, a model chain and a cycle -/
def sampleDoc : Doc :=
  { aliases := [("al1", "n1,n2")]
    models := [{ name := some "m1", children := [("reference", "m2"), ("start_sequence", "5"), ("required", "true")] },
               { name := some "m2", children := [("reference", "m1"), ("expected_loading", "40"), ("stop_sequence", "-1")] }]
    apps := [{ elt := { name := some "web", children := [("start_sequence", "2")] }
               programs := [{ name := some "srv_01", children := [("expected_loading", "10")] },
                            { pattern := some "srv", children := [("reference", "m1"), ("expected_loading", "101")] },
                            { pattern := some "srv_", children := [("reference", "m1"), ("identifiers", "#,al1")] }] }]
    matchTable := [("srv", "srv_01", .len 3), ("srv_", "srv_01", .len 4), ("srv", "srv_02", .len 3), ("srv_", "srv_02", .len 4)] }

-- exact name beats the two matching patterns
example : ∃ p ∈ (sampleDoc.apps.headD default).programs, p.name = some "srv_01" :=
  ⟨{ name := some "srv_01", children := [("expected_loading", "10")] }, by decide, rfl⟩
example : (loadProgramRules sampleDoc "web" "srv_01" {}).toOption.map (·.load) = some 10 := by decide
-- the longest of two matching patterns wins; the cyclic chain m1 -> m2 -> m1 stops after three elements;
-- the out-of-range load 101 of the shorter pattern is not even looked at; `required` survives (start sequence 5);
-- the stop sequence -1 leaves the default, which becomes the start sequence
example : (loadProgramRules sampleDoc "web" "srv_02" {}).toOption =
    some { ids := { identifiers := [], atIds := [], hashIds := ["n1", "n2"] },
           startSeq := 5, stopSeq := 5, required := true, waitExit := false, load := 40, sfs := "ABORT", rfs := "CONTINUE" } := by
  decide
example : (chain sampleDoc LOOP_CHECK ((sampleDoc.apps.headD default).programs.getD 2 default)).length = 3 := by decide
example : ProcInDomain {} := ⟨by decide, by decide, by decide, by decide⟩
example : AppInDomain {} := ⟨by decide, by decide, by decide, by decide, by decide⟩
example : signResidue sampleDoc (chain sampleDoc LOOP_CHECK ((sampleDoc.apps.headD default).programs.getD 2 default)) = false := by
  decide
example : judgeProc sampleDoc "web" "srv_02" {} (loadProgramRules sampleDoc "web" "srv_02" {}) = none := by decide
-- the judge is not vacuous either: it rejects the residue witness and a wrong value
example : (judgeProc residueDoc "a" "x" {}
    (.ok (checkDependencies true (loadModelRules residueDoc LOOP_CHECK residueElt {})))).isSome = true := by decide
example : (judgeProc sampleDoc "web" "srv_02" {} (.ok { startSeq := 5, stopSeq := 0 })).isSome = true := by decide

/-- a group of three `#` processes over two known instances (and an unknown name): round-robin; of three `@` processes:
    two assigned, the third left unassigned -/
def sampleMapper : Mapper := { instances := ["i1", "i2"], nicks := [("n1", "i1"), ("n2", "i2")] }
def sampleGroup (sign : String) : List GProc :=
  (List.range 3).map (fun k =>
    { name := s!"p{k}", index := k,
      ids := if sign == "#" then { identifiers := [], hashIds := ["n2", "typo", "n1"] } else { identifiers := [], atIds := ["n2", "typo", "n1"] } })
example : ∀ p ∈ sampleGroup "#", p.ids.hashIds.isEmpty = false ∧ p.ids.identifiers = [] := by decide
example : refIdentifiers sampleMapper ["n2", "typo", "n1"] ≠ [] := by decide
example : ((assignHash sampleMapper ["n2", "typo", "n1"] (sampleGroup "#")).toOption.map (·.map (·.ids.identifiers))) =
    some [["i2"], ["i1"], ["i2"]] := by decide
example : (assignAt sampleMapper ["n2", "typo", "n1"] (sampleGroup "@")).map (fun p => (p.ids.identifiers, p.ids.atIds)) =
    [(["i2"], []), (["i1"], []), ([], ["n2", "typo", "n1"])] := by decide
example : (refIdentifiers sampleMapper ["n2", "typo", "n1"]).Nodup := by decide

-- options: a dictionary with in-range, out-of-range and clean-up cases
def sampleCfg : Config :=
  [("synchro_timeout", "20"), ("inactivity_ticks", "1"), ("stats_histo", "abc"), ("event_link", "zmq"), ("synchro_options", "core,timeout,CORE"),
   ("supvisors_failure_strategy", "shutdown"), ("stats_periods", "60, 5,7.5"), ("stats_collecting_period", "2.5")]
example : (convertOptions syncDefault sampleCfg).synchroOptions.Nodup := by decide
example : (checkOptions (convertOptions syncDefault sampleCfg)).toOption.map
    (fun o => (o.synchroTimeout, o.inactivityTicks, o.statsHisto, o.eventLink)) = some (20, 2, 200, "ZMQ") := by decide
example : (checkOptions (convertOptions syncDefault sampleCfg)).toOption.map
    (fun o => (o.synchroOptions, o.failureStrategy)) = some (["TIMEOUT"], "CONTINUE") := by decide
example : (checkOptions (convertOptions syncDefault sampleCfg)).toOption.map
    (fun o => (o.statsPeriods, o.collectingPeriod)) = some ([.val 5 1, .val 15 2, .val 60 1], .val 5 2) := by decide
-- nan and the other out-of-range spellings fall back; the default synchro list is cleaned on a copy
example : (convertOptions syncDefault [("stats_collecting_period", "nan"), ("stats_periods", "5,nan,1")]).collectingPeriod = .val 5 1 ∧
    (convertOptions syncDefault [("stats_collecting_period", "nan"), ("stats_periods", "5,nan,1")]).statsPeriods = [.val 10 1] := by decide
example : okSync (buildOptions (buildOptions syncDefault [("supvisors_list", "a")]).2 [("supvisors_list", "a"), ("core_identifiers", "a")]).1 =
    ["STRICT", "TIMEOUT", "CORE"] := by decide
example : usesDefaultSync sampleCfg = false := by decide

end Supv.Props.C18
