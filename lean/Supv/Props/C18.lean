import Supv.Lemmas.Rules
import Supv.Gen.C18

/-!
# C18 — Rules and options resolve totally, in-domain, with documented precedence

Property theorems only (helper lemmas: `Supv/Lemmas/Rules.lean`; model: `Supv/Model/Rules.lean`; specification and judge:
`Supv/Spec/C18.lean`).  The model is tied to `sparser.py`, `process.py`, `application.py`, `options.py` by the
correspondence of `harness/c18.py` (both parser paths) and to the constants of the source by `Supv/Gen/C18.lean`.

Quantifier: every rules document (any number of aliases, models, applications, programs; overlapping patterns, model
chains and cycles, any texts), every regular-expression table, every name; every option dictionary.
-/

namespace Supv.Props.C18
open Supv.Rules Supv.Spec.C18

/-! ## Tie to the source -/

/-- the constants, enumerations and literal bounds the model is written with are those of the current source
    (`Supv/Gen/C18.lean` is regenerated from `/repo` on every run) -/
theorem C18_source_constants :
    Supv.Gen.C18.loopCheck = LOOP_CHECK ∧ Supv.Gen.C18.sfsNames = sfsNames ∧ Supv.Gen.C18.rfsNames = rfsNames ∧
    Supv.Gen.C18.distNames = distNames ∧ Supv.Gen.C18.startNames = startNames ∧ Supv.Gen.C18.concNames = concNames ∧
    Supv.Gen.C18.failNames = failNames ∧ Supv.Gen.C18.linkNames = linkNames ∧ Supv.Gen.C18.syncNames = syncNames ∧
    Supv.Gen.C18.statNames = statNames ∧ Supv.Gen.C18.syncDefault = syncDefault ∧
    Supv.Gen.C18.reservedMulticast = reservedMulticast ∧
    Supv.Gen.C18.timeoutBounds = [timeoutBounds.1, timeoutBounds.2] ∧
    Supv.Gen.C18.ticksBounds = [ticksBounds.1, ticksBounds.2] ∧
    Supv.Gen.C18.ttlBounds = [ttlBounds.1, ttlBounds.2] ∧ Supv.Gen.C18.portBounds = [portBounds.1, portBounds.2] ∧
    Supv.Gen.C18.ipByteBounds = [[byteBounds.1, byteBounds.2], [multicastFirstByte.1, multicastFirstByte.2], [byteBounds.1, byteBounds.2]] ∧
    -- `if 10 > histo or histo > 1500`
    Supv.Gen.C18.histoCmps = [(["Gt"], [histoBounds.1]), (["Gt"], [histoBounds.2])] ∧
    -- `if 1.0 > period or period > 3600.0` (a reversed comparison would also refuse `nan`)
    Supv.Gen.C18.periodCmps = [(["Gt"], [(periodBounds.1 : Int)]), (["Gt"], [(periodBounds.2 : Int)])] ∧
    Supv.Gen.C18.periodsCmps = [(["Eq"], [0]), (["Gt"], [(maxPeriods : Int)]), (["Gt"], [(periodBounds.1 : Int)]), (["Gt"], [(periodBounds.2 : Int)])] ∧
    -- `if 0 <= value <= 100`, `if value >= 0`
    Supv.Gen.C18.loadCmps = [(["LtE", "LtE"], [loadBounds.1, loadBounds.2])] ∧
    Supv.Gen.C18.seqCmps = [(["GtE"], [seqMin])] ∧
    -- `if limits[0] > port or port > limits[1]` and the like
    Supv.Gen.C18.toIntegerOps = [["Gt"], ["Gt"]] ∧ Supv.Gen.C18.toTimeoutOps = [["Gt"], ["Gt"]] ∧
    Supv.Gen.C18.toTicksOps = [["Gt"], ["Gt"]] := by
  decide

/-! ## Lookup -/

/-- **An exact name beats any pattern** (applications).  Whatever the patterns and the regular-expression table say
    (`re.error` included: no pattern is even tried), an application element carrying the exact name is the one found,
    the first one in document order. -/
theorem C18_exact_beats_pattern_app (d : Doc) (app : String) (h : ∃ a ∈ d.apps, a.elt.name = some app) :
    ∃ a, getApplicationElement d app = .ok (some a) ∧ a ∈ d.apps ∧ a.elt.name = some app := by
  obtain ⟨a0, ha0, hn0⟩ := h
  have hs : (d.apps.find? (fun a => a.elt.name == some app)).isSome := by
    rw [List.find?_isSome]; exact ⟨a0, ha0, by simp [hn0]⟩
  obtain ⟨a, ha⟩ := Option.isSome_iff_exists.mp hs
  refine ⟨a, by simp [getApplicationElement, ha], List.mem_of_find?_eq_some ha, ?_⟩
  have := List.find?_some ha
  simpa using this

/-- **An exact name beats any pattern** (programs): the element found is not a pattern element (`is_pattern = False`). -/
theorem C18_exact_beats_pattern (d : Doc) (a : AppElt) (proc : String) (h : ∃ p ∈ a.programs, p.name = some proc) :
    ∃ p, getProgramIn d a proc = .ok (some p, false) ∧ p ∈ a.programs ∧ p.name = some proc := by
  obtain ⟨p0, hp0, hn0⟩ := h
  have hs : (a.programs.find? (fun p => p.name == some proc)).isSome := by
    rw [List.find?_isSome]; exact ⟨p0, hp0, by simp [hn0]⟩
  obtain ⟨p, hp⟩ := Option.isSome_iff_exists.mp hs
  refine ⟨p, by simp [getProgramIn, hp], List.mem_of_find?_eq_some hp, ?_⟩
  have := List.find?_some hp
  simpa using this

/-- **Among patterns the longest match wins.**  When `get_best_pattern` selects the value `v`, it belongs to a pattern
    that matches and no matching pattern has a longer match; no pattern of the dict is an invalid regular expression. -/
theorem C18_longest_pattern {α} (d : Doc) (name : String) (pats : List (String × α)) (v : α)
    (h : bestPattern d name pats = .ok (some v)) :
    ∃ p n, (p, v) ∈ pats ∧ matchRes d p name = .len n ∧
      ∀ q w m, (q, w) ∈ pats → matchRes d q name = .len m → m ≤ n := by
  unfold bestPattern at h
  split at h
  · rename_i ms hms
    injection h with h
    obtain ⟨h1, h2, _⟩ := matching_ok d name pats ms hms
    cases hb : firstMax ms with
    | none => rw [hb] at h; cases h
    | some b =>
      rw [hb] at h
      simp only [Option.map_some, Option.some.injEq] at h
      obtain ⟨hm, hmax⟩ := firstMax_spec ms b hb
      obtain ⟨p, hp, hl⟩ := h1 b.1 b.2 hm
      subst h
      exact ⟨p, b.1, hp, hl, fun q w m hq hm' => hmax (m, w) (h2 q w m hq hm')⟩
  · cases h

/-- no pattern is selected only when no pattern matches -/
theorem C18_no_pattern_only_if_none_matches {α} (d : Doc) (name : String) (pats : List (String × α))
    (h : bestPattern d name pats = .ok none) : ∀ q w, (q, w) ∈ pats → matchRes d q name = .no := by
  unfold bestPattern at h
  split at h
  · rename_i ms hms
    injection h with h
    obtain ⟨_, h2, h3⟩ := matching_ok d name pats ms hms
    have hnil : ms = [] := by
      cases hb : firstMax ms with
      | none => exact firstMax_none ms hb
      | some b => rw [hb] at h; cases h
    intro q w hq
    cases hr : matchRes d q name with
    | no => rfl
    | len m => have := h2 q w m hq hr; rw [hnil] at this; cases this
    | err => exact absurd hr (h3 q w hq)
  · cases h

/-- the lookup of a program through patterns, end to end: the element is flagged as a pattern element and is a longest match -/
theorem C18_longest_pattern_program (d : Doc) (a : AppElt) (proc : String) (e : Elt)
    (h : getProgramIn d a proc = .ok (some e, true)) :
    ∃ p n, (p, e) ∈ patternDict (·.pattern) a.programs ∧ matchRes d p proc = .len n ∧
      ∀ q w m, (q, w) ∈ patternDict (·.pattern) a.programs → matchRes d q proc = .len m → m ≤ n := by
  unfold getProgramIn at h
  split at h
  · cases h
  · split at h
    · rename_i p hb
      injection h with h
      simp only [Prod.mk.injEq, Option.some.injEq, and_true] at h
      subst h
      exact C18_longest_pattern d proc _ _ hb
    · cases h
    · cases h

/-! ## Model references -/

/-- **Model references are followed to depth `LOOP_CHECK` = 3 at most**, cyclic references included: the resolution is
    a structural recursion on the fuel (it terminates on every document), it applies the loaders of the reference chain —
    the element, then at most two models — deepest first, and nothing beyond the chain is read. -/
theorem C18_model_depth (d : Doc) (e : Elt) (r : ProcRules) :
    loadModelRules d LOOP_CHECK e r = (chain d LOOP_CHECK e).foldr (loadElt d) r ∧
    (chain d LOOP_CHECK e).length ≤ 3 :=
  ⟨loadModelRules_eq_foldr d LOOP_CHECK e r, chain_length_le d LOOP_CHECK e⟩

/-- the same for any fuel: `n` elements at most -/
theorem C18_model_depth_general (d : Doc) (n : Nat) (e : Elt) (r : ProcRules) :
    loadModelRules d n e r = (chain d n e).foldr (loadElt d) r ∧ (chain d n e).length ≤ n :=
  ⟨loadModelRules_eq_foldr d n e r, chain_length_le d n e⟩

/-- **Values set on the element supersede referenced ones** and, more generally, every plain rule resolves to the first
    in-domain value met from the element down its reference chain, else to the inherited value
    (start/stop sequence, required, wait_exit, expected_loading, both failure strategies). -/
theorem C18_element_supersedes_model (d : Doc) (n : Nat) (e : Elt) (r : ProcRules) :
    let res := loadModelRules d n e r
    let ch := chain d n e
    res.startSeq = fieldOf pStart ch r.startSeq ∧ res.stopSeq = fieldOf pStop ch r.stopSeq ∧
    res.required = fieldOf pRequired ch r.required ∧ res.waitExit = fieldOf pWaitExit ch r.waitExit ∧
    res.load = fieldOf pLoad ch r.load ∧ res.sfs = fieldOf pSfs ch r.sfs ∧ res.rfs = fieldOf pRfs ch r.rfs := by
  intro res ch
  have hres : res = (chain d n e).foldr (loadElt d) r := loadModelRules_eq_foldr d n e r
  rw [hres]
  refine ⟨?_, ?_, ?_, ?_, ?_, ?_, ?_⟩
  · exact foldr_field d (·.startSeq) pStart (fun e r => by rw [loadElt_eq]) _ _
  · exact foldr_field d (·.stopSeq) pStop (fun e r => by rw [loadElt_eq]) _ _
  · exact foldr_field d (·.required) pRequired (fun e r => by rw [loadElt_eq]) _ _
  · exact foldr_field d (·.waitExit) pWaitExit (fun e r => by rw [loadElt_eq]) _ _
  · exact foldr_field d (·.load) pLoad (fun e r => by rw [loadElt_eq]) _ _
  · exact foldr_field d (·.sfs) pSfs (fun e r => by rw [loadElt_eq]) _ _
  · exact foldr_field d (·.rfs) pRfs (fun e r => by rw [loadElt_eq]) _ _

/-- the head of the chain is the element itself: an in-domain value given by the element always wins -/
theorem C18_element_value_wins (d : Doc) (n : Nat) (e : Elt) (r : ProcRules) :
    let res := loadModelRules d (n + 1) e r
    (∀ v, pStart e = some v → res.startSeq = v) ∧ (∀ v, pStop e = some v → res.stopSeq = v) ∧
    (∀ v, pRequired e = some v → res.required = v) ∧ (∀ v, pWaitExit e = some v → res.waitExit = v) ∧
    (∀ v, pLoad e = some v → res.load = v) ∧ (∀ v, pSfs e = some v → res.sfs = v) ∧
    (∀ v, pRfs e = some v → res.rfs = v) := by
  obtain ⟨h1, h2, h3, h4, h5, h6, h7⟩ := C18_element_supersedes_model d (n + 1) e r
  intro res
  have hch : chain d (n + 1) e = e :: (match findModel d e with | some m => chain d n m | none => []) := rfl
  rw [hch] at h1 h2 h3 h4 h5 h6 h7
  refine ⟨?_, ?_, ?_, ?_, ?_, ?_, ?_⟩
  · intro v hv; rw [h1]; exact fieldOf_head _ _ _ _ _ hv
  · intro v hv; rw [h2]; exact fieldOf_head _ _ _ _ _ hv
  · intro v hv; rw [h3]; exact fieldOf_head _ _ _ _ _ hv
  · intro v hv; rw [h4]; exact fieldOf_head _ _ _ _ _ hv
  · intro v hv; rw [h5]; exact fieldOf_head _ _ _ _ _ hv
  · intro v hv; rw [h6]; exact fieldOf_head _ _ _ _ _ hv
  · intro v hv; rw [h7]; exact fieldOf_head _ _ _ _ _ hv

/-! ## Resolved program rules in closed form; domains; dependencies -/

/-- the reference chain of the element chosen by the lookup (empty when no element is found) -/
def chosenChain (d : Doc) (app proc : String) : List Elt :=
  match getProgramElement d app proc with
  | .ok (some e, _) => chain d LOOP_CHECK e
  | _ => []

/-- **The resolved plain rules of a program, for every document and every name**: each is the first in-domain value
    along the chain of the chosen element, else the inherited value `r0`; then `required` needs a start sequence and
    `stop_sequence` defaults to `start_sequence`.  (Exactly the `Supv.Spec.C18.specProc` fields.) -/
theorem C18_resolution_closed_form (d : Doc) (app proc : String) (r0 r : ProcRules)
    (h : loadProgramRules d app proc r0 = .ok r) :
    let ch := chosenChain d app proc
    r.startSeq = fieldOf pStart ch r0.startSeq ∧
    r.stopSeq = (if fieldOf pStop ch r0.stopSeq < 0 then fieldOf pStart ch r0.startSeq else fieldOf pStop ch r0.stopSeq) ∧
    r.required = (fieldOf pRequired ch r0.required && fieldOf pStart ch r0.startSeq != 0) ∧
    r.waitExit = fieldOf pWaitExit ch r0.waitExit ∧ r.load = fieldOf pLoad ch r0.load ∧
    r.sfs = fieldOf pSfs ch r0.sfs ∧ r.rfs = fieldOf pRfs ch r0.rfs := by
  intro ch
  unfold loadProgramRules at h
  split at h
  · cases h
  · rename_i e isPattern hget
    injection h with h
    subst h
    have hch : ch = chain d LOOP_CHECK e := by simp [ch, chosenChain, hget]
    obtain ⟨h1, h2, h3, h4, h5, h6, h7⟩ := C18_element_supersedes_model d LOOP_CHECK e r0
    simp only [checkDependencies_startSeq, checkDependencies_stopSeq, checkDependencies_required, checkDependencies_waitExit,
      checkDependencies_load, checkDependencies_sfs, checkDependencies_rfs, hch, h1, h2, h3, h4, h5, h6, h7]
    simp
  · rename_i isPattern hget
    injection h with h
    subst h
    have hch : ch = [] := by simp [ch, chosenChain, hget]
    simp only [checkDependencies_startSeq, checkDependencies_stopSeq, checkDependencies_required, checkDependencies_waitExit,
      checkDependencies_load, checkDependencies_sfs, checkDependencies_rfs, hch, fieldOf_nil]
    simp

/-- the domains of the program rules -/
structure ProcInDomain (r : ProcRules) : Prop where
  start : 0 ≤ r.startSeq
  load : 0 ≤ r.load ∧ r.load ≤ 100
  sfs : r.sfs ∈ sfsNames
  rfs : r.rfs ∈ rfsNames

theorem fieldOf_start_nonneg (ch : List Elt) (x : Int) (hx : 0 ≤ x) : 0 ≤ fieldOf pStart ch x := by
  rcases fieldOf_mem pStart ch x with h | ⟨e, _, h⟩
  · rw [h]; exact hx
  · exact parseSeq_nonneg _ _ h

theorem fieldOf_stop_nonneg_or_dflt (ch : List Elt) (x : Int) : fieldOf pStop ch x = x ∨ 0 ≤ fieldOf pStop ch x := by
  rcases fieldOf_mem pStop ch x with h | ⟨e, _, h⟩
  · left; exact h
  · right; exact parseSeq_nonneg _ _ h

/-- **Every resolved value is in its domain**, for every document (overlapping patterns, model chains and cycles, any
    texts) and every name: sequences are `≥ 0`, the expected load is in `[0;100]`, the strategies are members of their
    enumerations (booleans are in their domain by typing) — provided the inherited rules `r0` are (the defaults are). -/
theorem C18_in_domain (d : Doc) (app proc : String) (r0 r : ProcRules) (h0 : ProcInDomain r0)
    (h : loadProgramRules d app proc r0 = .ok r) : ProcInDomain r ∧ 0 ≤ r.stopSeq := by
  obtain ⟨h1, h2, _, _, h5, h6, h7⟩ := C18_resolution_closed_form d app proc r0 r h
  have hs := fieldOf_start_nonneg (chosenChain d app proc) r0.startSeq h0.start
  refine ⟨⟨?_, ?_, ?_, ?_⟩, ?_⟩
  · rw [h1]; exact hs
  · rw [h5]
    rcases fieldOf_mem pLoad (chosenChain d app proc) r0.load with hh | ⟨e, _, hh⟩
    · rw [hh]; exact h0.load
    · exact parseLoad_range _ _ hh
  · rw [h6]
    rcases fieldOf_mem pSfs (chosenChain d app proc) r0.sfs with hh | ⟨e, _, hh⟩
    · rw [hh]; exact h0.sfs
    · exact parseEnum_mem _ _ _ hh
  · rw [h7]
    rcases fieldOf_mem pRfs (chosenChain d app proc) r0.rfs with hh | ⟨e, _, hh⟩
    · rw [hh]; exact h0.rfs
    · exact parseEnum_mem _ _ _ hh
  · rw [h2]
    split
    · exact hs
    · omega

/-- **A value outside its domain leaves the default**: when no element of the chain gives an in-domain text for a rule
    (negative or non-integer sequence, expected_loading outside `[0;100]`, unknown enumeration member, non-boolean),
    the rule keeps the inherited value. -/
theorem C18_out_of_domain_keeps_default (d : Doc) (app proc : String) (r0 r : ProcRules)
    (h : loadProgramRules d app proc r0 = .ok r) :
    let ch := chosenChain d app proc
    ((∀ e ∈ ch, pStart e = none) → r.startSeq = r0.startSeq) ∧
    ((∀ e ∈ ch, pWaitExit e = none) → r.waitExit = r0.waitExit) ∧
    ((∀ e ∈ ch, pLoad e = none) → r.load = r0.load) ∧
    ((∀ e ∈ ch, pSfs e = none) → r.sfs = r0.sfs) ∧
    ((∀ e ∈ ch, pRfs e = none) → r.rfs = r0.rfs) := by
  obtain ⟨h1, _, _, h4, h5, h6, h7⟩ := C18_resolution_closed_form d app proc r0 r h
  intro ch
  refine ⟨?_, ?_, ?_, ?_, ?_⟩
  · intro hn; rw [h1]; exact fieldOf_all_none _ _ _ hn
  · intro hn; rw [h4]; exact fieldOf_all_none _ _ _ hn
  · intro hn; rw [h5]; exact fieldOf_all_none _ _ _ hn
  · intro hn; rw [h6]; exact fieldOf_all_none _ _ _ hn
  · intro hn; rw [h7]; exact fieldOf_all_none _ _ _ hn

/-- what "outside its domain" means for the four classes of the statement -/
theorem C18_domains_of_texts :
    (∀ s v, pyInt s = some v → v < 0 → parseSeq (some s) = none) ∧
    (∀ s, pyInt s = none → parseSeq (some s) = none) ∧
    (∀ s v, pyInt s = some v → (v < 0 ∨ 100 < v) → parseLoad (some s) = none) ∧
    (∀ names s, s ∉ names → parseEnum names (some s) = none) ∧
    (∀ s, strtobool s = none → parseBool (some s) = none) := by
  refine ⟨?_, ?_, ?_, ?_, ?_⟩
  · intro s v h hv
    unfold parseSeq
    simp only [Option.bind_some, h]
    split
    · rename_i hge
      have : (0 : Int) ≤ v := by simpa [seqMin] using hge
      omega
    · rfl
  · intro s h; simp [parseSeq, h]
  · intro s v h hv
    unfold parseLoad
    simp only [Option.bind_some, h]
    split
    · rename_i hge
      have : (0 : Int) ≤ v ∧ v ≤ 100 := by simpa [loadBounds] using hge
      omega
    · rfl
  · intro names s h; simp [parseEnum, h]
  · intro s h; simp [parseBool, h]

/-- **`required` without a start sequence is dropped** -/
theorem C18_required_needs_sequence (d : Doc) (app proc : String) (r0 r : ProcRules)
    (h : loadProgramRules d app proc r0 = .ok r) (hr : r.required = true) : r.startSeq ≠ 0 := by
  obtain ⟨h1, _, h3, _⟩ := C18_resolution_closed_form d app proc r0 r h
  rw [h3] at hr
  rw [h1]
  simp only [Bool.and_eq_true, bne_iff_ne, ne_eq] at hr
  exact hr.2

/-- **`stop_sequence` defaults to `start_sequence`**: whenever no in-domain stop sequence is given along the chain (and
    none is inherited), the resolved stop sequence is the resolved start sequence; it is never negative. -/
theorem C18_stop_defaults_to_start (d : Doc) (app proc : String) (r0 r : ProcRules)
    (h : loadProgramRules d app proc r0 = .ok r) :
    ((∀ e ∈ chosenChain d app proc, pStop e = none) → r0.stopSeq < 0 → r.stopSeq = r.startSeq) ∧
    (∀ e v, chosenChain d app proc = e :: (chosenChain d app proc).tail → pStop e = some v → r.stopSeq = v) ∧
    (0 ≤ r0.startSeq → 0 ≤ r.stopSeq) := by
  obtain ⟨h1, h2, _⟩ := C18_resolution_closed_form d app proc r0 r h
  refine ⟨?_, ?_, ?_⟩
  · intro hn hneg
    rw [h2, h1, fieldOf_all_none _ _ _ hn]
    simp [hneg]
  · intro e v hch hv
    rw [h2, hch, fieldOf_head pStop e _ _ v hv]
    have := parseSeq_nonneg _ _ hv
    rw [if_neg (by omega)]
  · intro h0
    rw [h2]
    have hs := fieldOf_start_nonneg (chosenChain d app proc) r0.startSeq h0
    split
    · exact hs
    · omega

/-! ## Identifiers: the element supersedes the model — false of the current code when signs are mixed -/

/-- the full statement for the `identifiers` rule: the resolved identifiers (plain list, `@` list, `#` list) are those
    of the first element of the chain that gives identifiers -/
def C18_identifiers_supersede_statement : Prop :=
  ∀ (d : Doc) (e : Elt) (isPattern : Bool),
    (checkDependencies isPattern (loadModelRules d LOOP_CHECK e {})).ids = specIds d (chain d LOOP_CHECK e) isPattern {}

/-- the witness of `corpus/C18/kf_sign_residue.json`: a pattern element gives `n1` and references a model that gives `#` -/
def residueDoc : Doc :=
  { models := [{ name := some "m", children := [("identifiers", "#")] }] }
def residueElt : Elt := { pattern := some "x", children := [("reference", "m"), ("identifiers", "n1")] }

/-- Known finding `C18:supersede:sign-residue`: the `#` of the referenced model survives the plain identifiers of the
    element (the process is still spread over the instances by `assign_hash_identifiers`); symmetrically an `@` of the
    model prevails over a `#` of the element. -/
theorem C18_identifiers_supersede_refuted : ¬ C18_identifiers_supersede_statement := by
  intro hs
  have := hs residueDoc residueElt true
  revert this
  decide

/-- **Identifiers: the element supersedes the model**, under the exact excluded hypothesis: no element below the first
    one that gives identifiers uses `@` or `#` (`signResidue = false`); the inherited rules carry no pending sign. -/
theorem C18_identifiers_supersede_partial (d : Doc) (e : Elt) (isPattern : Bool) (r0 : ProcRules)
    (h1 : r0.ids.atIds = []) (h2 : r0.ids.hashIds = [])
    (hres : signResidue d (chain d LOOP_CHECK e) = false) :
    (checkDependencies isPattern (loadModelRules d LOOP_CHECK e r0)).ids = specIds d (chain d LOOP_CHECK e) isPattern r0.ids := by
  rw [checkDependencies_ids, loadModelRules_eq_foldr, foldr_ids]
  exact ids_meet_spec d isPattern _ _ h1 h2 hres

theorem procRules_ext (a b : ProcRules) (h1 : a.ids = b.ids) (h2 : a.startSeq = b.startSeq) (h3 : a.stopSeq = b.stopSeq)
    (h4 : a.required = b.required) (h5 : a.waitExit = b.waitExit) (h6 : a.load = b.load) (h7 : a.sfs = b.sfs)
    (h8 : a.rfs = b.rfs) : a = b := by
  cases a; cases b; simp_all

/-- **The model meets the specification**: for the element chosen by the lookup, what the code computes is exactly the
    documented result `specProc` (the value the judge compares the implementation with), for every document without
    sign residue. -/
theorem C18_resolution_meets_spec (d : Doc) (e : Elt) (isPattern : Bool) (r0 : ProcRules)
    (h1 : r0.ids.atIds = []) (h2 : r0.ids.hashIds = [])
    (hres : signResidue d (chain d LOOP_CHECK e) = false) :
    checkDependencies isPattern (loadModelRules d LOOP_CHECK e r0) = specProc d (some e, isPattern) r0 := by
  obtain ⟨f1, f2, f3, f4, f5, f6, f7⟩ := C18_element_supersedes_model d LOOP_CHECK e r0
  apply procRules_ext
  · exact C18_identifiers_supersede_partial d e isPattern r0 h1 h2 hres
  · simp only [checkDependencies_startSeq, specProc, f1]
  · simp only [checkDependencies_stopSeq, specProc, f1, f2]
  · simp only [checkDependencies_required, specProc, f1, f3]
  · simp only [checkDependencies_waitExit, specProc, f4]
  · simp only [checkDependencies_load, specProc, f5]
  · simp only [checkDependencies_sfs, specProc, f6]
  · simp only [checkDependencies_rfs, specProc, f7]

/-! ## Application rules -/

/-- the element chosen for an application, as a one-element chain (applications have no model reference) -/
def chosenAppChain (d : Doc) (app : String) : List Elt :=
  match getApplicationElement d app with
  | .ok (some a) => [a.elt]
  | _ => []

/-- **The resolved rules of an application, for every document and every name**: managed iff an element is found; each
    rule is the in-domain value of the element, else the inherited value; `stop_sequence` defaults to `start_sequence`;
    the start sequence may only be reset to 0 (a `#` whose naming convention is not met). -/
theorem C18_application_closed_form (d : Doc) (instances : List String) (app : String) (r0 r : AppRules)
    (h : loadApplicationRules d instances app r0 = .ok r) :
    let ch := chosenAppChain d app
    r.managed = (!ch.isEmpty || r0.managed) ∧
    r.distribution = fieldOf pDist ch r0.distribution ∧ r.startingStrategy = fieldOf pStrategy ch r0.startingStrategy ∧
    r.sfs = fieldOf pSfs ch r0.sfs ∧ r.rfs = fieldOf pRfs ch r0.rfs ∧
    r.stopSeq = (if fieldOf pStop ch r0.stopSeq < 0 then fieldOf pStart ch r0.startSeq else fieldOf pStop ch r0.stopSeq) ∧
    (r.startSeq = fieldOf pStart ch r0.startSeq ∨ r.startSeq = 0) := by
  intro ch
  unfold loadApplicationRules at h
  split at h
  · cases h
  · rename_i a hget
    have hch : ch = [a.elt] := by simp [ch, chosenAppChain, hget]
    obtain ⟨k1, k2, k3, k4, k5, _, k7, k8, _⟩ := appCheckDependencies_fields instances app _ r h
    rw [loadAppElt_eq] at k1 k2 k3 k4 k5 k7 k8
    simp only [hch, fieldOf_cons, fieldOf_nil]
    simp only at k1 k2 k3 k4 k5 k7 k8
    refine ⟨by simp [k1], k2, k3, k4, k5, k7, k8⟩
  · rename_i hget
    have hch : ch = [] := by simp [ch, chosenAppChain, hget]
    obtain ⟨k1, k2, k3, k4, k5, _, k7, k8, _⟩ := appCheckDependencies_fields instances app _ r h
    simp only [hch, fieldOf_nil]
    refine ⟨by simp [k1], k2, k3, k4, k5, k7, k8⟩

/-- the domains of the application rules -/
structure AppInDomain (r : AppRules) : Prop where
  start : 0 ≤ r.startSeq
  dist : r.distribution ∈ distNames
  strat : r.startingStrategy ∈ startNames
  sfs : r.sfs ∈ sfsNames
  rfs : r.rfs ∈ rfsNames

/-- **Every resolved application rule is in its domain** and the stop sequence is never negative -/
theorem C18_in_domain_app (d : Doc) (instances : List String) (app : String) (r0 r : AppRules) (h0 : AppInDomain r0)
    (h : loadApplicationRules d instances app r0 = .ok r) : AppInDomain r ∧ 0 ≤ r.stopSeq := by
  obtain ⟨_, h2, h3, h4, h5, h6, h7⟩ := C18_application_closed_form d instances app r0 r h
  have hs := fieldOf_start_nonneg (chosenAppChain d app) r0.startSeq h0.start
  refine ⟨⟨?_, ?_, ?_, ?_, ?_⟩, ?_⟩
  · rcases h7 with h7 | h7 <;> rw [h7]
    · exact hs
    · exact Int.le_refl 0
  · rw [h2]
    rcases fieldOf_mem pDist (chosenAppChain d app) r0.distribution with hh | ⟨e, _, hh⟩
    · rw [hh]; exact h0.dist
    · exact parseEnum_mem _ _ _ hh
  · rw [h3]
    rcases fieldOf_mem pStrategy (chosenAppChain d app) r0.startingStrategy with hh | ⟨e, _, hh⟩
    · rw [hh]; exact h0.strat
    · exact parseEnum_mem _ _ _ hh
  · rw [h4]
    rcases fieldOf_mem pSfs (chosenAppChain d app) r0.sfs with hh | ⟨e, _, hh⟩
    · rw [hh]; exact h0.sfs
    · exact parseEnum_mem _ _ _ hh
  · rw [h5]
    rcases fieldOf_mem pRfs (chosenAppChain d app) r0.rfs with hh | ⟨e, _, hh⟩
    · rw [hh]; exact h0.rfs
    · exact parseEnum_mem _ _ _ hh
  · rw [h6]
    split
    · exact hs
    · omega

/-- **`stop_sequence` of an application defaults to its `start_sequence`** (the value read, before a possible reset by `#`) -/
theorem C18_stop_defaults_to_start_app (d : Doc) (instances : List String) (app : String) (r0 r : AppRules)
    (h : loadApplicationRules d instances app r0 = .ok r)
    (hn : ∀ e ∈ chosenAppChain d app, pStop e = none) (hneg : r0.stopSeq < 0) :
    r.stopSeq = fieldOf pStart (chosenAppChain d app) r0.startSeq := by
  obtain ⟨_, _, _, _, _, h6, _⟩ := C18_application_closed_form d instances app r0 r h
  rw [h6, fieldOf_all_none _ _ _ hn]
  simp [hneg]

/-! ## Aliases expand in order -/

theorem substFirst_of_not_mem (name : String) (vals : List String) : ∀ (ids : List String), name ∉ ids →
    substFirst name vals ids = ids := by
  intro ids
  induction ids with
  | nil => intro _; rfl
  | cons h t ih =>
    intro hn
    simp only [List.mem_cons, not_or] at hn
    have : (h == name) = false := by simpa using fun hc => hn.1 hc.symm
    simp only [substFirst, this, Bool.false_eq_true, if_false, ih hn.2]

theorem substFirst_split (name : String) (vals : List String) : ∀ (pre post : List String), name ∉ pre →
    substFirst name vals (pre ++ name :: post) = pre ++ vals ++ post := by
  intro pre
  induction pre with
  | nil => intro post _; simp [substFirst]
  | cons h t ih =>
    intro post hn
    simp only [List.mem_cons, not_or] at hn
    have : (h == name) = false := by simpa using fun hc => hn.1 hc.symm
    simp only [List.cons_append, substFirst, this, Bool.false_eq_true, if_false, ih post hn.2, List.append_assoc]

/-- **Aliases expand in order**: the aliases are applied one after the other in declaration order; each replaces, in place,
    the first occurrence of its name by its values (the order of everything else is kept); an alias that does not occur is
    skipped.  Consequently an alias may reference aliases declared AFTER it, not before. -/
theorem C18_alias_expansion (a : String × List String) (rest : List (String × List String)) :
    (∀ pre post, a.1 ∉ pre → expandAliases (a :: rest) (pre ++ a.1 :: post) = expandAliases rest (pre ++ a.2 ++ post)) ∧
    (∀ ids, a.1 ∉ ids → expandAliases (a :: rest) ids = expandAliases rest ids) ∧
    (∀ ids, expandAliases [] ids = ids) := by
  refine ⟨?_, ?_, ?_⟩
  · intro pre post hn
    simp only [expandAliases, List.foldl_cons, substFirst_split a.1 a.2 pre post hn]
  · intro ids hn
    simp only [expandAliases, List.foldl_cons, substFirst_of_not_mem a.1 a.2 ids hn]
  · intro ids; rfl

/-- a list that names no alias is left alone -/
theorem C18_alias_free_identity (aliases : List (String × List String)) (ids : List String)
    (h : ∀ a ∈ aliases, a.1 ∉ ids) : expandAliases aliases ids = ids := by
  induction aliases generalizing ids with
  | nil => rfl
  | cons a rest ih =>
    rw [(C18_alias_expansion a rest).2.1 ids (h a (by simp))]
    exact ih ids (fun b hb => h b (by simp [hb]))

/-- the documented example: `all_ok` declared before the aliases it references is fully expanded; declared after, it is not -/
example : checkIdentifierList
    { aliases := [("all_ok", "servers,consoles"), ("consoles", "console01,console02,console03"), ("servers", "server01,server02")] }
    "all_ok" = ["server01", "server02", "console01", "console02", "console03"] := by decide
example : checkIdentifierList
    { aliases := [("consoles", "console01,console02,console03"), ("servers", "server01,server02"), ("all_ko", "servers,consoles")] }
    "all_ko" = ["servers", "consoles"] := by decide

end Supv.Props.C18
