import Supv.Lemmas.Rfh
import Supv.Lemmas.InstFail

/-!
# C06 — Running failure strategies are applied once, by the Master, with precedence

Property theorems only (helper lemmas: `Supv/Lemmas/Rfh.lean`, `Supv/Lemmas/InstFail.lean`; models: `Supv/Model/Rfh.lean`
for `strategy.py::RunningFailureHandler` and its two callers, `Supv/Model/Inst.lean` for the FSM of one instance;
specification: `Supv/Spec/C06.lean`).  The models are tied to the code by the lock-step correspondence of
`harness/c06.py` (Rfh) and `harness/c02.py` / `harness/cluster.py` (Inst).

Quantifier: every configuration `c` (any number of applications and processes, any assignment of processes to
applications, of start-sequence membership and of strategies) and every finite history `ops` of handler operations —
`add_job`, `add_default_job` (any value of `application.stopped()`), `trigger_jobs` (any set of busy applications),
`abort`, process crashes and instance losses as dispatched by the FSM (Master or not, any working state, any set of lost
processes, any set of processes kept by Starter/Stopper).

`P := pendAfter c ops` is the specification's list of pending notifications (`Supv/Spec/C06.lean`).
-/

namespace Supv.Props.C06
open Supv.Rfh Supv.Spec.C06

/-- **Mutual exclusion.**  After every history: an application is in at most one of the stop / restart application
    sets; no process of an application that is in the stop set is in a process set; no process **of the start sequence**
    of an application that is in the restart set is in a process set (the code's proviso: a process outside the start
    sequence keeps its own job, see `C06_proviso_witness`); a process is in at most one process set; no set holds an
    element twice. -/
theorem C06_mutual_exclusion (c : Cfg) (ops : List Op) : Excl c (after c ops) := after_excl c ops

/-- The proviso is real: RESTART_APPLICATION notified by process 1 (in the start sequence) and RESTART_PROCESS by
    process 0 of the same application (outside the start sequence) leave BOTH jobs, and both are ordered together. -/
theorem C06_proviso_witness :
    ∃ (c : Cfg) (ops : List Op), 0 ∈ (after c ops).restartApps ∧ 0 ∈ (after c ops).restartProcs ∧ c.app 0 = 0
      ∧ (trigger c (after c ops) []).2 = [.restartApp 0, .restartProc 0] :=
  ⟨{ app := fun _ => 0, seq := fun p => p == 1, strat := fun _ => .cont },
   [.addJob .restartApplication 1, .addJob .restartProcess 0], by decide, by decide, rfl, by decide⟩

/-- `top` is the maximum of the notified strategies in the order of the statement
    (STOP_APPLICATION > RESTART_APPLICATION > RESTART_PROCESS > CONTINUE). -/
theorem C06_top_is_max (c : Cfg) (P : List Note) (a : Nat) (s : Strategy) :
    top c P a = some s ↔
      s.handled = true ∧ notified c P s a = true
        ∧ ∀ s', s'.handled = true → notified c P s' a = true → rank s' ≤ rank s := by
  simp only [notified_iff]
  constructor
  · intro h
    refine ⟨top_handled c P a s h, ?_⟩
    cases s
    · rw [top_cont] at h
      refine ⟨h.2.2.2, fun s' hs' hn => ?_⟩
      cases s' <;> simp_all [rank, Strategy.handled]
    · rw [top_restartProc] at h
      refine ⟨h.2.2, fun s' hs' hn => ?_⟩
      cases s' <;> simp_all [rank, Strategy.handled]
    · rw [top_stop] at h
      refine ⟨h, fun s' hs' hn => ?_⟩
      cases s' <;> simp_all [rank, Strategy.handled]
    · rw [top_restartApp] at h
      refine ⟨h.2, fun s' hs' hn => ?_⟩
      cases s' <;> simp_all [rank, Strategy.handled]
    · exact absurd (top_handled c P a _ h) (by simp [Strategy.handled])
    · exact absurd (top_handled c P a _ h) (by simp [Strategy.handled])
  · rintro ⟨hh, hn, hmax⟩
    have m1 := hmax .stopApplication rfl
    have m2 := hmax .restartApplication rfl
    have m3 := hmax .restartProcess rfl
    cases s
    · rw [top_cont]; simp_all [rank]
    · rw [top_restartProc]; simp_all [rank]
    · rw [top_stop]; exact hn
    · rw [top_restartApp]; simp_all [rank]
    · simp [Strategy.handled] at hh
    · simp [Strategy.handled] at hh

/-- **Precedence.**  Whenever the handler is triggered (directly, after a crash or after an instance loss), for every
    application `a` that holds no start/stop job: the action ordered for `a` is the strongest strategy notified for `a`
    and not yet acted upon —
    * `stop a` iff it is STOP_APPLICATION;
    * `restart a` iff it is RESTART_APPLICATION;
    * `restart process p` iff RESTART_PROCESS was notified for `p` and the strongest strategy is RESTART_PROCESS, **or it
      is RESTART_APPLICATION and `p` is outside the start sequence of the application** (the proviso);
    * a CONTINUE notification orders nothing. -/
theorem C06_precedence (c : Cfg) (ops : List Op) (op : Op) (busy : List Nat) (ht : triggers c op = some busy)
    (a : Nat) (ha : a ∉ busy) :
    let P := pendAfter c ops ++ incoming c op
    let out := (step c (after c ops) op).2
    (Out.stopApp a ∈ out ↔ top c P a = some .stopApplication)
    ∧ (Out.restartApp a ∈ out ↔ top c P a = some .restartApplication)
    ∧ (∀ p, c.app p = a →
        (Out.restartProc p ∈ out ↔
          (Strategy.restartProcess, p) ∈ P
            ∧ (top c P a = some .restartProcess ∨ (top c P a = some .restartApplication ∧ c.seq p = false)))) := by
  intro P out
  -- the state on which `trigger` runs represents `P`
  have key : ∃ h, Rep c h P ∧ out = (trigger c h busy).2 := by
    have hr := after_rep c ops
    cases op with
    | addJob s p => simp [triggers] at ht
    | addDefault p st => simp [triggers] at ht
    | abort => simp [triggers] at ht
    | trigger b =>
      simp only [triggers, Option.some.injEq] at ht; subst ht
      exact ⟨after c ops, by simpa [P, incoming] using hr, rfl⟩
    | crash m cr f p st b =>
      simp only [triggers] at ht
      split at ht
      · rename_i hc
        simp only [Option.some.injEq] at ht; subst ht
        refine ⟨addDefault c (after c ops) p st, ?_, ?_⟩
        · simpa [P, incoming, hc] using addDefault_rep c _ _ p st hr
        · simp [out, step, hc]
      · cases ht
    | lost m w failed withJob b =>
      simp only [triggers] at ht
      split at ht
      · rename_i hc
        simp only [Option.some.injEq] at ht; subst ht
        refine ⟨(leftToHandler failed withJob).foldl (fun h x => addDefault c h x.1 x.2) (after c ops), ?_, ?_⟩
        · simpa [P, incoming, hc.1] using foldDefault_rep c _ _ _ hr
        · simp only [out, step, hc.1, if_true]
          cases hl : leftToHandler failed withJob with
          | nil => exact absurd hl hc.2
          | cons x t => rfl
      · cases ht
  obtain ⟨h, ⟨r1, r2, r3, r4⟩, hout⟩ := key
  rw [hout]
  refine ⟨?_, ?_, ?_⟩
  · rw [trigger_stopApp, top_stop, r1]; simp [ha]
  · rw [trigger_restartApp, top_restartApp, r2]; simp [ha]
  · intro p hp
    subst hp
    rw [trigger_restartProc, top_restartProc, top_restartApp, r3]
    have : N c P .restartProcess (c.app p) ∨ (Strategy.restartProcess, p) ∉ P := by
      by_cases hm : (Strategy.restartProcess, p) ∈ P
      · exact Or.inl ⟨p, hm, rfl⟩
      · exact Or.inr hm
    cases hs : c.seq p <;> simp_all <;> grind

/-- **Nothing without a notification.**  An application for which nothing is pending gets no action. -/
theorem C06_no_action_without_notification (c : Cfg) (ops : List Op) (busy : List Nat) (a : Nat)
    (hn : top c (pendAfter c ops) a = none) :
    let out := (trigger c (after c ops) busy).2
    Out.stopApp a ∉ out ∧ Out.restartApp a ∉ out ∧ ∀ p, c.app p = a → Out.restartProc p ∉ out ∧ Out.nothing p ∉ out := by
  obtain ⟨r1, r2, r3, r4⟩ := after_rep c ops
  rw [top_none] at hn
  refine ⟨?_, ?_, ?_⟩
  · rw [trigger_stopApp, r1]; simp [hn.1]
  · rw [trigger_restartApp, r2]; simp [hn.2.1]
  · intro p hp
    subst hp
    rw [trigger_restartProc, trigger_nothing, r3, r4]
    refine ⟨fun h => hn.2.2.1 ⟨p, h.1.1, rfl⟩, fun h => hn.2.2.2 ⟨p, h.1, rfl⟩⟩

/-- **Order independence.**  After any history, two batches of notifications that are permutations of each other
    (the code iterates a Python set of lost processes) leave the same four sets. -/
theorem C06_order_independent (c : Cfg) (ops : List Op) (l₁ l₂ : List Note) (hp : l₁.Perm l₂) :
    SetEq (l₁.foldl (fun h n => addJob c h n.1 n.2) (after c ops))
          (l₂.foldl (fun h n => addJob c h n.1 n.2) (after c ops)) := by
  have fold : ∀ (l : List Note) (h : St) (P : List Note), Rep c h P →
      Rep c (l.foldl (fun h n => addJob c h n.1 n.2) h) (P ++ l) := by
    intro l
    induction l with
    | nil => intro h P hr; simpa using hr
    | cons n t ih =>
      intro h P hr
      have := ih _ _ (addJob_rep c h P n.1 n.2 hr)
      simpa [List.append_assoc] using this
  refine rep_setEq c _ _ _ _ (fold l₁ _ _ (after_rep c ops)) (fold l₂ _ _ (after_rep c ops)) ?_
  intro n
  simp only [List.mem_append, hp.mem_iff]

/-- Order independence for the whole instance-loss path: the same lost processes notified in another order give the same
    sets and the same orders (as sets). -/
theorem C06_order_independent_lost (c : Cfg) (ops : List Op) (m : Bool) (w : WState) (f₁ f₂ : List (Nat × Bool))
    (withJob busy : List Nat) (hp : f₁.Perm f₂) :
    SetEq (step c (after c ops) (.lost m w f₁ withJob busy)).1 (step c (after c ops) (.lost m w f₂ withJob busy)).1
    ∧ ∀ o, o ∈ (step c (after c ops) (.lost m w f₁ withJob busy)).2 ↔ o ∈ (step c (after c ops) (.lost m w f₂ withJob busy)).2 := by
  have hl : (leftToHandler f₁ withJob).Perm (leftToHandler f₂ withJob) := hp.filter _
  have hmid : SetEq ((leftToHandler f₁ withJob).foldl (fun h x => addDefault c h x.1 x.2) (after c ops))
                    ((leftToHandler f₂ withJob).foldl (fun h x => addDefault c h x.1 x.2) (after c ops)) := by
    refine rep_setEq c _ _ _ _ (foldDefault_rep c _ _ _ (after_rep c ops)) (foldDefault_rep c _ _ _ (after_rep c ops)) ?_
    intro n
    simp only [List.mem_append, List.mem_flatMap, hl.mem_iff]
  have hnil : leftToHandler f₁ withJob = [] ↔ leftToHandler f₂ withJob = [] := by
    constructor <;> intro h
    · exact List.Perm.eq_nil (h ▸ hl.symm)
    · exact List.Perm.eq_nil (h ▸ hl)
  simp only [step]
  cases handsLost m w
  · simp [SetEq]
  · simp only [if_true]
    cases h1 : leftToHandler f₁ withJob with
    | nil =>
      rw [hnil.mp h1]; simp [SetEq]
    | cons x t =>
      cases h2 : leftToHandler f₂ withJob with
      | nil => rw [hnil.mpr h2] at h1; cases h1
      | cons y u =>
        rw [h1, h2] at hmid
        refine ⟨?_, fun o => trigger_out_congr c _ _ busy hmid o⟩
        obtain ⟨e1, e2, e3, e4⟩ := hmid
        simp only [trigger, SetEq, List.mem_filter, e1, e2, e3]
        simp

/-- **Promotion.**  `add_default_job` of a RESTART_PROCESS process that belongs to the start sequence of an application
    left fully stopped: the process job does not survive, the application is in the restart set (or already in the stop
    set, which takes precedence). -/
theorem C06_promotion (c : Cfg) (ops : List Op) (p : Nat) (hs : c.strat p = .restartProcess) (hq : c.seq p = true) :
    let h' := (step c (after c ops) (.addDefault p true)).1
    p ∉ h'.restartProcs ∧ p ∉ h'.continueProcs
      ∧ (c.app p ∈ h'.restartApps ∨ c.app p ∈ h'.stopApps)
      ∧ (c.app p ∈ h'.restartApps ↔ c.app p ∉ (after c ops).stopApps) := by
  intro h'
  have hr : Rep c h' (pendAfter c ops ++ [(.restartProcess, p), (.restartApplication, p)]) := by
    have := addDefault_rep c _ _ p true (after_rep c ops)
    simpa [h', step, defaultNotes, promoted, hs, hq] using this
  obtain ⟨r1, r2, r3, r4⟩ := hr
  obtain ⟨q1, _, _, _⟩ := after_rep c ops
  have hN : N c (pendAfter c ops ++ [(.restartProcess, p), (.restartApplication, p)]) .restartApplication (c.app p) :=
    ⟨p, by simp, rfl⟩
  have hstop : N c (pendAfter c ops ++ [(.restartProcess, p), (.restartApplication, p)]) .stopApplication (c.app p)
      ↔ N c (pendAfter c ops) .stopApplication (c.app p) := by
    rw [N_append]
    constructor
    · rintro (h | ⟨q, hq', _⟩)
      · exact h
      · simp at hq'
    · exact Or.inl
  refine ⟨?_, ?_, ?_, ?_⟩
  · rw [r3]; simp [hN, hq]
  · rw [r4]; simp [hN, hq]
  · rw [r2, r1]; simp only [hN, and_true]; exact (Classical.em _).symm
  · rw [r2, q1, hstop]; simp [hN]

/-- No promotion when the application is not left stopped or the process is outside the start sequence: the configured
    strategy alone is notified. -/
theorem C06_no_promotion (c : Cfg) (h : St) (p : Nat) (st : Bool) (hn : st = false ∨ c.seq p = false ∨ c.strat p ≠ .restartProcess) :
    addDefault c h p st = addJob c h (c.strat p) p := by
  unfold addDefault promotes
  rcases hn with h1 | h1 | h1 <;> simp [h1]

/-- **Deferred while busy.**  In any state, triggering the handler orders nothing for an application that has a
    start/stop job in progress, and its jobs stay in their sets. -/
theorem C06_deferred_while_busy (c : Cfg) (h : St) (busy : List Nat) (a : Nat) (ha : a ∈ busy) :
    let r := trigger c h busy
    Out.stopApp a ∉ r.2 ∧ Out.restartApp a ∉ r.2 ∧ (∀ p, c.app p = a → Out.restartProc p ∉ r.2)
    ∧ (a ∈ r.1.stopApps ↔ a ∈ h.stopApps) ∧ (a ∈ r.1.restartApps ↔ a ∈ h.restartApps)
    ∧ (∀ p, c.app p = a → (p ∈ r.1.restartProcs ↔ p ∈ h.restartProcs)) := by
  refine ⟨?_, ?_, ?_, ?_, ?_, ?_⟩
  · rw [trigger_stopApp]; simp [ha]
  · rw [trigger_restartApp]; simp [ha]
  · intro p hp; rw [trigger_restartProc]; simp [hp, ha]
  · simp [trigger, ha]
  · simp [trigger, ha]
  · intro p hp; simp [trigger, hp, ha]

/-- **Triggered once.**  In any state: an action ordered by `trigger_jobs` has left the sets, so the next `trigger_jobs`
    (whatever is busy then) does not order it again; the second one only orders what the first one deferred. -/
theorem C06_triggered_once (c : Cfg) (h : St) (busy busy' : List Nat) (o : Out)
    (ho : o ∈ (trigger c h busy).2) : o ∉ (trigger c (trigger c h busy).1 busy').2 := by
  cases o with
  | stopApp a => rw [trigger_stopApp] at ho ⊢; simp [trigger, ho.2]
  | restartApp a => rw [trigger_restartApp] at ho ⊢; simp [trigger, ho.2]
  | restartProc p => rw [trigger_restartProc] at ho ⊢; simp [trigger, ho.2]
  | nothing p => rw [trigger_nothing]; simp [trigger]
  | fsmRestart => exact absurd ho (trigger_no_fsm c h busy).1
  | fsmShutdown => exact absurd ho (trigger_no_fsm c h busy).2

/-- **Applied once.**  After every history, one `trigger_jobs` orders no action twice. -/
theorem C06_applied_once (c : Cfg) (ops : List Op) (busy : List Nat) : (trigger c (after c ops) busy).2.Nodup := by
  obtain ⟨_, _, _, _, n1, n2, n3, n4⟩ := after_excl c ops
  simp only [trigger]
  have inj1 : ∀ l : List Nat, l.Nodup → (l.map Out.stopApp).Nodup := fun l hl =>
    nodup_map_inj Out.stopApp (fun _ _ h => by injection h) l hl
  have inj2 : ∀ l : List Nat, l.Nodup → (l.map Out.restartApp).Nodup := fun l hl =>
    nodup_map_inj Out.restartApp (fun _ _ h => by injection h) l hl
  have inj3 : ∀ l : List Nat, l.Nodup → (l.map Out.restartProc).Nodup := fun l hl =>
    nodup_map_inj Out.restartProc (fun _ _ h => by injection h) l hl
  have inj4 : ∀ l : List Nat, l.Nodup → (l.map Out.nothing).Nodup := fun l hl =>
    nodup_map_inj Out.nothing (fun _ _ h => by injection h) l hl
  rw [List.nodup_append, List.nodup_append, List.nodup_append]
  refine ⟨⟨⟨inj1 _ (n1.filter _), inj2 _ (n2.filter _), ?_⟩, inj3 _ (n3.filter _), ?_⟩, inj4 _ n4, ?_⟩
  all_goals simp only [List.mem_map, List.mem_append, List.mem_filter]
  all_goals grind

/-- **Abort clears.**  After `abort` the four sets are empty and triggering orders nothing. -/
theorem C06_abort_clears (c : Cfg) (h : St) (busy : List Nat) :
    (step c h .abort).1 = {} ∧ (step c h .abort).2 = [] ∧ (trigger c (step c h .abort).1 busy).2 = [] := by
  simp [step, abort, trigger]

/-- **Master only (dispatch).**  An instance that is not the Master never calls the handler and never orders anything,
    neither on a process crash nor on an instance loss; so does the Master when the process has not crashed. -/
theorem C06_master_only (c : Cfg) (h : St) :
    (∀ crashed forced p stopped busy, step c h (.crash false crashed forced p stopped busy) = (h, []))
    ∧ (∀ w failed withJob busy, step c h (.lost false w failed withJob busy) = (h, []))
    ∧ (∀ master forced p stopped busy, step c h (.crash master false forced p stopped busy) = (h, [])) := by
  refine ⟨?_, ?_, ?_⟩
  · intros; simp [step, crashAction]
  · intros; simp [step, handsLost]
  · intros; simp [step, crashAction]

/-- **Crash dispatch.**  On the Master, a crashed process: RESTART / SHUTDOWN go to the FSM; STOP_APPLICATION and
    RESTART_APPLICATION go through the handler like a lost process unless the state was forced; RESTART_PROCESS and
    CONTINUE are left to Supervisor (`autorestart`). -/
theorem C06_crash_dispatch (forced : Bool) :
    crashAction true true forced .restart = .fsmRestart
    ∧ crashAction true true forced .shutdown = .fsmShutdown
    ∧ crashAction true true false .stopApplication = .handler
    ∧ crashAction true true false .restartApplication = .handler
    ∧ crashAction true true true .stopApplication = .none
    ∧ crashAction true true true .restartApplication = .none
    ∧ crashAction true true forced .restartProcess = .none
    ∧ crashAction true true forced .cont = .none := by
  cases forced <;> decide

/-- **Master only (FSM).**  In the instance model, every `failJobs` order (lost processes handed to the handler) in the
    output log of an operation was emitted while the local instance was the Master: the Master recorded by the last
    publication before it in the log — or, failing one, the Master at the beginning of the operation — is the local
    instance.  (Every change of the local Master is published at once, `C06_log_tracks_master`.) -/
theorem C06_master_only_fsm (c : Supv.Inst.Cfg) (s : Supv.Inst.St) (now : Nat) (op : Supv.Inst.Op)
    (orc : List (Supv.Inst.Query × Nat)) (pre post : List Supv.Inst.Out)
    (hout : (Supv.Inst.stepOp c s now op orc).1.out = pre ++ Supv.Inst.Out.failJobs :: post) :
    Supv.Inst.lastMaster (Supv.Inst.masterOf c s) pre = some c.me :=
  Supv.Inst.stepOp_failJobs_master c s now op orc pre post hout

/-- the log tracks the local Master: after any operation the Master recorded by the log is the Master of the state -/
theorem C06_log_tracks_master (c : Supv.Inst.Cfg) (s : Supv.Inst.St) (now : Nat) (op : Supv.Inst.Op)
    (orc : List (Supv.Inst.Query × Nat)) :
    Supv.Inst.lastMaster (Supv.Inst.masterOf c s) (Supv.Inst.stepOp c s now op orc).1.out
      = Supv.Inst.masterOf c (Supv.Inst.stepOp c s now op orc).1 :=
  Supv.Inst.stepOp_tracks_master c s now op orc

/-- **Planned left alone.**  A lost process that Starter/Stopper keep for themselves (`withJob`) is not notified to the
    handler: the operation is the one without it, and the specification records no notification for it. -/
theorem C06_planned_left_alone (c : Cfg) (h : St) (m : Bool) (w : WState) (failed : List (Nat × Bool))
    (withJob busy : List Nat) (p : Nat) (hp : p ∈ withJob) :
    step c h (.lost m w failed withJob busy) = step c h (.lost m w (failed.filter (fun x => x.1 ≠ p)) withJob busy)
    ∧ ∀ s, (s, p) ∉ incoming c (.lost m w failed withJob busy) := by
  have hf : leftToHandler (failed.filter (fun x => x.1 ≠ p)) withJob = leftToHandler failed withJob := by
    simp only [leftToHandler, List.filter_filter]
    apply List.filter_congr
    intro x _
    by_cases hx : x.1 = p <;> simp [hx, hp]
  refine ⟨by simp only [step, hf], fun s => ?_⟩
  simp only [incoming]
  split
  · simp only [List.mem_flatMap, leftToHandler, List.mem_filter, not_exists, not_and, defaultNotes]
    intro x hx hmem
    have : x.1 = p := by
      simp only [List.mem_cons] at hmem
      rcases hmem with h1 | h1
      · injection h1 with _ h2; exact h2.symm
      · split at h1
        · simp only [List.mem_singleton] at h1; injection h1 with _ h2; exact h2.symm
        · simp at h1
    exact absurd hp (by simpa [this] using hx.2)
  · simp

/-! ### Lost processes are handled in every working state -/

/-- **Lost handled.**  In every working state (DISTRIBUTION, OPERATION, CONCILIATION) the Master hands every lost process
    that has no planned job to the handler and triggers it.  (Was refuted for CONCILIATION before `/repo` 896a4df:
    `ConciliationState._master_next` did not call `_WorkingState._master_next`; regression case
    `corpus/C06/kf_lost_in_conciliation.json`.) -/
theorem C06_lost_handled (c : Cfg) (h : St) (w : WState) (failed : List (Nat × Bool)) (withJob busy : List Nat)
    (hne : leftToHandler failed withJob ≠ []) :
    step c h (.lost true w failed withJob busy)
      = trigger c ((leftToHandler failed withJob).foldl (fun h x => addDefault c h x.1 x.2) h) busy := by
  simp only [step, handsLost, if_true]

/-! ### Non-vacuity -/

def exCfg : Cfg :=
  { app := fun p => p / 3, seq := fun p => p % 3 != 0,
    strat := fun p => match p % 3 with | 0 => .restartProcess | 1 => .restartApplication | _ => .stopApplication }

def exOps : List Op :=
  [.addJob .cont 0, .addJob .restartProcess 0, .addDefault 1 false, .addDefault 4 true, .trigger [0],
   .addJob .stopApplication 5, .lost true .operation [(7, true), (6, true)] [6] [0], .crash true true false 2 false []]

-- a history with deferral (application 0 busy at the first trigger), the proviso (process 0 is outside the start sequence
-- and keeps its RESTART_PROCESS job next to RESTART_APPLICATION of application 0), supersession by STOP_APPLICATION, a loss
-- with a process left to its planned job (6) and a crash; every hypothesis used above is met by it
example : (run exCfg {} exOps).2 =
    [[], [], [], [], [.restartApp 1], [], [.stopApp 1, .restartApp 2], [.stopApp 0]] := by decide
example : after exCfg (exOps.take 5) = { restartApps := [0], restartProcs := [0] } := by decide
example : triggers exCfg (.lost true .operation [(7, true), (6, true)] [6] [0]) = some [0] ∧ (2 : Nat) ∉ [0]
    ∧ leftToHandler [(7, true), (6, true)] [6] = [(7, true)] := by decide
example : top exCfg (pendAfter exCfg (exOps.take 4)) 0 = some .restartApplication
    ∧ top exCfg (pendAfter exCfg (exOps.take 4)) 1 = some .restartApplication
    ∧ top exCfg (pendAfter exCfg (exOps.take 4)) 7 = none := by decide
-- a loss seen by the Master in CONCILIATION is handled like in OPERATION
example : step exCfg {} (.lost true .conciliation [(7, true)] [] []) = ({}, [.restartApp 2])
    ∧ step exCfg {} (.lost true .operation [(7, true)] [] []) = ({}, [.restartApp 2])
    ∧ step exCfg {} (.lost false .conciliation [(7, true)] [] []) = ({}, []) := by decide
-- promotion: process 4 (start sequence) with RESTART_PROCESS in an application left stopped
example : promoted { exCfg with strat := fun _ => .restartProcess } 4 true = true
    ∧ (step { exCfg with strat := fun _ => .restartProcess } {} (.addDefault 4 true)).1 = { restartApps := [1] } := by decide
-- order independence: a non-trivial permutation
example : [(Strategy.cont, 0), (Strategy.restartApplication, 1), (Strategy.restartProcess, 0)].Perm
    [(Strategy.restartProcess, 0), (Strategy.cont, 0), (Strategy.restartApplication, 1)] := by decide

-- the instance model: a Master in OPERATION told that processes were lost orders `failJobs`; a slave does not
def exInstCfg (n : Nat) : Supv.Inst.Cfg :=
  { n := n, me := 0, nickRank := [0, 1], core := [], initial := [], optStrict := false, optList := false,
    optTimeout := false, optCore := false, optUser := false, syncTimeout := 0, inactivity := 2, autoFence := false,
    failStrat := .cont }
def exInstOracle : List (Supv.Inst.Query × Nat) := [(.lostProcs, 1), (.starterBusy, 0), (.stopperBusy, 0), (.conflicting, 0)]
example : ((Supv.Inst.stepOp (exInstCfg 1)
      { peers := [{ state := .running }], modes := [{ fsm := .operation, master := some 0, inst := [.running] }] }
      5 .running exInstOracle).1.out.any (fun o => match o with | .failJobs => true | _ => false)) = true := by decide
example : ((Supv.Inst.stepOp (exInstCfg 2)
      { peers := [{ state := .running }, { state := .running }],
        modes := [{ fsm := .operation, master := some 1, inst := [.running, .running] },
                  { fsm := .operation, master := some 1, inst := [.running, .running] }] }
      5 .running exInstOracle).1.out.any (fun o => match o with | .failJobs => true | _ => false)) = false := by decide

end Supv.Props.C06
