import Supv.Props.C08
import Supv.Props.C11
import Supv.Model.Net

/-!
# C16 — No event sequence makes an instance fail internally

The internal errors an instance can raise while handling an event are, in the modelled core: `InvalidTransition` (an instance
state assigned from a state the table refuses), a refused Supvisors transition (logged, no exception), the exceptions of the
process status synthesis (`KeyError` / `ValueError` in `update_status`).  Property theorems only:

* every assignment of an instance state in `context.py` - REGENERATED from the source by the translator together with the
  instance states under which it is reached (the guards read off the AST, through the predicates and the calls to
  `invalidate`) - is accepted by the regenerated transition table: no `InvalidTransition`, whatever the event sequence;
* the hand-written instance model assigns at the same sites under the same guards;
* every state a Supvisors state class can decide is accepted by the FSM table (C08);
* the process status synthesis never raises on any admissible history (C11).
The rest of the statement (real components running together: commander, failure handler, XML-RPC, listener entry points) is
judged on the implementation by harness/c16.py (tracebacks in the last-resort guards, escaped exceptions, hangs).
-/

namespace Supv.Props.C16
open Supv.Inst

/-- the transition table of the instance states, regenerated from `SupvisorsInstanceStatus._Transitions` -/
def accepts (g t : Nat) : Bool := g == t || (((Supv.Gen.instTable.find? (·.1 == g)).map (·.2)).getD []).contains t

/-- **C16, no InvalidTransition.**  Every assignment site of an instance state in the current `context.py`, under every
    instance state its guards let through, is a no-op (same state) or a transition of the table. -/
theorem C16_instance_assignments_accepted :
    ∀ s ∈ Supv.Gen.instStateWriters, ∀ g ∈ s.2.1, accepts g s.2.2 = true := by decide

/-- the table is not trivially permissive: an unguarded assignment of FAILED would be refused (this is what the defects
    repaired by 5dae07f and ff0ca64 were) -/
example : accepts 0 4 = false ∧ accepts 5 4 = false ∧ accepts 3 0 = false := by decide

/-- the sites of the hand-written model `Supv.Inst` (function of context.py : variable, guard states, target), in the order of
    the generated list: `setPeerState` is called at these sites under these guards and nowhere else -/
def modelWriters : List (String × List Nat × Nat) :=
  [("activate_checked:status", [2], 3),                       -- activateChecked
   ("invalidate:status", [1, 4], 0),                          -- invalidate (local instance)
   ("invalidate:status", [1, 4], 0),                          -- invalidate (no fence)
   ("invalidate:status", [1, 4], 5),                          -- invalidate (fence)
   ("load_processes:status", [1], 0),                         -- handleAllinfoNone
   ("on_authorization:status", [1], 0),                       -- handleAuth UNKNOWN
   ("on_authorization:status", [1], 2),                       -- handleAuth AUTHORIZED
   ("on_instance_failure:status", [1, 2, 3, 4], 4),           -- handleFailure
   ("on_local_tick_event:self.local_status", [0], 1),         -- handleLtick
   ("on_tick_event:status", [0], 1),                          -- handleRtick
   ("on_timer_event:status", [1, 2, 3, 4], 4)]                -- timerCheck

/-- **the model assigns where the source assigns**, under the same guards: a new site or a changed guard in `context.py`
    breaks this obligation before anything else. -/
theorem C16_model_writers_match_source : Supv.Gen.instStateWriters = modelWriters := by decide

/-- **C16, no refused Supvisors transition** (restated from C08): whatever a state class decides is accepted by the table. -/
theorem C16_fsm_decisions_accepted :
    ∀ d ∈ Supv.Gen.fsmDecisions, ∀ t ∈ d.2.1, t = d.1 ∨ t ∈ (((Supv.Gen.fsmTable.find? (·.1 == d.1)).map (·.2)).getD []) := by
  decide

/-- **C16, the status synthesis never raises** (restated from C11): for every admissible history of reports, losses, removals,
    forced states over any number of instances the synthesis returns a status (no `KeyError` / `ValueError`). -/
theorem C16_synthesis_never_raises (h : List (Nat × Supv.Proc.POp)) (hok : Supv.Props.C11.HistOk (fun _ => Supv.Spec.C11.View.init) h) :
    ∃ p, Supv.Proc.prun {} h = .ok p := by
  obtain ⟨p, hp, _⟩ := Supv.Props.C11.C11_listed_iff_spec_partial h hok
  exact ⟨p, hp⟩

end Supv.Props.C16
