import Supv.Props.C08
import Supv.Props.C11
import Supv.Model.Net
import Supv.Lemmas.InstSafe

/-!
# C16 — No event sequence makes an instance fail internally

The internal errors an instance can raise while handling an event are, in the modelled core: `InvalidTransition` (an instance
state assigned from a state the table refuses), a refused Supvisors transition (logged, no exception), the exceptions of the
process status synthesis (`KeyError` / `ValueError` in `update_status`).  Property theorems only:

* every assignment of an instance state in `context.py` - REGENERATED from the source by the translator together with the
  instance states under which it is reached (the guards read off the AST, through the predicates and the calls to
  `invalidate`) - is accepted by the regenerated transition table: no `InvalidTransition`, whatever the event sequence;
* the hand-written instance model assigns at the same sites under the same guards;
* every state a Supvisors state class can decide is accepted by the FSM table (C08);
* the process status synthesis never raises on any admissible history (C11).
* the handlers of the hand-written instance model never raise `InvalidTransition`, from ANY state (Hoare-style proof);
The rest of the statement (real components running together: commander, failure handler, XML-RPC, listener entry points) is
judged on the implementation by harness/c16.py (tracebacks in the last-resort guards, escaped exceptions, hangs).
-/

namespace Supv.Props.C16
open Supv.Inst

/-- the transition table of the instance states, regenerated from `SupvisorsInstanceStatus._Transitions` -/
def accepts (g t : Nat) : Bool := g == t || (((Supv.Gen.instTable.find? (·.1 == g)).map (·.2)).getD []).contains t

/-- **C16, no InvalidTransition.**  Every assignment site of an instance state in the current `context.py`, under every
    instance state its guards let through, is a no-op (same state) or a transition of the table. -/
theorem C16_instance_assignments_accepted :
    ∀ s ∈ Supv.Gen.instStateWriters, ∀ g ∈ s.2.1, accepts g s.2.2 = true := by decide

/-- the table is not trivially permissive: an unguarded assignment of FAILED would be refused (this is what the defects
    repaired by 5dae07f and ff0ca64 were) -/
example : accepts 0 4 = false ∧ accepts 5 4 = false ∧ accepts 3 0 = false := by decide

/-- the sites of the hand-written model `Supv.Inst` (function of context.py : variable, guard states, target), in the order of
    the generated list: `setPeerState` is called at these sites under these guards and nowhere else -/
def modelWriters : List (String × List Nat × Nat) :=
  [("activate_checked:status", [2], 3),                       -- activateChecked
   ("invalidate:status", [1, 4], 0),                          -- invalidate (local instance)
   ("invalidate:status", [1, 4], 0),                          -- invalidate (no fence)
   ("invalidate:status", [1, 4], 5),                          -- invalidate (fence)
   ("load_processes:status", [1], 0),                         -- handleAllinfoNone
   ("on_authorization:status", [1], 0),                       -- handleAuth UNKNOWN
   ("on_authorization:status", [1], 2),                       -- handleAuth AUTHORIZED
   ("on_instance_failure:status", [1, 2, 3, 4], 4),           -- handleFailure
   ("on_local_tick_event:self.local_status", [0], 1),         -- handleLtick
   ("on_tick_event:status", [0], 1),                          -- handleRtick
   ("on_timer_event:status", [1, 2, 3, 4], 4)]                -- timerCheck

/-- **the model assigns where the source assigns**, under the same guards: a new site or a changed guard in `context.py`
    breaks this obligation before anything else. -/
theorem C16_model_writers_match_source : Supv.Gen.instStateWriters = modelWriters := by decide

/-- **C16, no refused Supvisors transition** (restated from C08): whatever a state class decides is accepted by the table. -/
theorem C16_fsm_decisions_accepted :
    ∀ d ∈ Supv.Gen.fsmDecisions, ∀ t ∈ d.2.1, t = d.1 ∨ t ∈ (((Supv.Gen.fsmTable.find? (·.1 == d.1)).map (·.2)).getD []) := by
  decide

/-- **C16, the status synthesis never raises** (restated from C11): for every history of reports, losses, removals, forced states
    over any number of instances the synthesis returns a status (no `KeyError` / `ValueError`).  `HistOk` only asks that an update
    or a removal concerns an instance that has an entry - what `Context.check_process` guarantees before the status is touched;
    the two classes of histories it used to exclude (an instance lost while its copy is only STOPPING, an entry removed while
    still listed) raise no more since the repairs a0ba3bf / 958c9f3. -/
theorem C16_synthesis_never_raises (h : List (Nat × Supv.Proc.POp)) (hok : Supv.Props.C11.HistOk (fun _ => Supv.Spec.C11.View.init) h) :
    ∃ p, Supv.Proc.prun {} h = .ok p := by
  obtain ⟨p, hp, _⟩ := Supv.Props.C11.C11_listed_iff_spec_partial h hok
  exact ⟨p, hp⟩

/-- **C16, the handlers of the instance model never raise `InvalidTransition`** - from EVERY state (reachable or not), for every
    configuration, operation (local / remote TICK, STATE, AUTHORIZATION, ALL_INFO(None), INSTANCE_FAILURE, restart, shutdown,
    end_sync, in any order, stale or duplicated: the theorem does not care where the state comes from), time and oracle
    (whatever the commander, the failure handler and the process table answer).  The only refusal left is `noMaster` of
    restart / shutdown without a Master, which the XML-RPC layer answers as the documented fault BAD_SUPVISORS_STATE
    (`C17_restart_without_master`).  Proof: Hoare triples over the state-and-exception monad (`Lemmas/InstSafe.lean`); each of the
    eleven assignment sites is discharged by the guard that precedes it and the regenerated table. -/
theorem C16_instance_handlers_never_raise (c : Cfg) (s : St) (now : Nat) (op : Op) (orc : List (Query × Nat)) :
    (stepOp c s now op orc).2 = none ∨ (stepOp c s now op orc).2 = some .noMaster := by
  unfold stepOp
  have h := (safe_handle c op).run { s with now := now, out := [], oracle := orc, oracleBad := 0 } trivial
  cases hr : (handle c op).run { s with now := now, out := [], oracle := orc, oracleBad := 0 } with
  | ok r => left; rfl
  | error e =>
    right
    rw [hr] at h
    show some e = some Err.noMaster
    rw [show e = Err.noMaster from h]

/-- in particular over whole histories: no prefix of any sequence of operations, from any start state, meets an
    `InvalidTransition` -/
theorem C16_no_invalid_transition_ever (c : Cfg) (ops : List (Nat × Op × List (Query × Nat))) (s : St) (j : Nat) (a b : IState) :
    ∀ t ∈ (ops.foldl (fun (acc : St × List (Option Err)) x =>
              let r := stepOp c acc.1 x.1 x.2.1 x.2.2; (r.1, acc.2 ++ [r.2])) (s, [])).2,
      t ≠ some (.invalidTransition j a b) := by
  suffices H : ∀ (l : List (Nat × Op × List (Query × Nat))) (acc : St × List (Option Err)),
      (∀ t ∈ acc.2, t ≠ some (.invalidTransition j a b)) →
      ∀ t ∈ (l.foldl (fun (acc : St × List (Option Err)) x =>
              let r := stepOp c acc.1 x.1 x.2.1 x.2.2; (r.1, acc.2 ++ [r.2])) acc).2, t ≠ some (.invalidTransition j a b) by
    exact H ops (s, []) (by simp)
  intro l
  induction l with
  | nil => intro acc h; simpa using h
  | cons x t ih =>
    intro acc h
    simp only [List.foldl_cons]
    apply ih
    intro e he
    simp only [List.mem_append, List.mem_singleton] at he
    rcases he with he | he
    · exact h e he
    · rcases C16_instance_handlers_never_raise c acc.1 x.1 x.2.1 x.2.2 with h0 | h0 <;> rw [he, h0] <;> simp


end Supv.Props.C16
