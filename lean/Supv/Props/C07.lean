import Supv.Lemmas.InstRun
import Supv.Lemmas.InstDetect
import Supv.Spec.Graphs
import Supv.Props.C16

/-!
# C07 — Silent instances are detected in bounded time, live ones never declared lost

Model: `Supv/Model/Inst.lean`; the instance transition table, the list of active states and the comparison operator of
`is_inactive` are GENERATED from the current source.
-/

namespace Supv.Props.C07
open Supv.Inst Supv.Spec

/-- the histories on which accuracy is claimed for peer `j`: every local tick `k` is handled while the last tick received
    from `j` was tagged at most `inactivity_ticks` local ticks earlier, and no failure notification about `j` is handled
    (its XML-RPCs succeed).  Everything else — ticks with any counter, publications, handshake results (stale, duplicated),
    requests, failures of OTHER peers, any oracle stream — is unconstrained. -/
def AccHist (c : Cfg) (j : Nat) : St → List (Nat × Op × List (Query × Nat)) → Prop
  | _, [] => True
  | s, o :: rest => AccOk c j s o.2.1 ∧ AccHist c j (stepOp c s o.1 o.2.1 o.2.2).1 rest

/-- **C07 (accuracy).**  A remote peer seen RUNNING whose ticks keep arriving and whose XML-RPCs succeed is never declared
    FAILED, STOPPED or ISOLATED: it is still RUNNING after every such history, internal errors of other handlers included. -/
theorem C07_accuracy (c : Cfg) (j : Nat) (hj : j ≠ c.me) (ops : List (Nat × Op × List (Query × Nat))) (s : St)
    (hrun : peerRun j s) (hok : AccHist c j s ops) :
    peerRun j (ops.foldl (fun s o => (stepOp c s o.1 o.2.1 o.2.2).1) s) := by
  induction ops generalizing s with
  | nil => exact hrun
  | cons o t ih =>
    simp only [List.foldl_cons]
    exact ih _ (stepOp_run j c hj s o.1 o.2.1 o.2.2 hok.1 hrun) hok.2

/-- **C07 (instance graph, table clause).**  The transition table of the current source only contains documented edges. -/
theorem C07_table_within_documented : ∀ a b : IState, b ∈ a.next → b ∈ documentedInst a := by
  intro a b h
  cases a <;> cases b <;> revert h <;> decide

/-- ISOLATED is final; RUNNING can only become FAILED; a FAILED instance becomes STOPPED or ISOLATED -/
theorem C07_isolated_final : IState.isolated.next = [] ∧ IState.running.next = [.failed]
    ∧ IState.failed.next = [.stopped, .isolated] := by decide

/-- the generated enumeration is the one the model's codes assume -/
theorem C07_codes_match_source :
    Supv.Gen.enumSupvisorsInstanceStates = [("STOPPED", 0), ("CHECKING", 1), ("CHECKED", 2), ("RUNNING", 3),
      ("FAILED", 4), ("ISOLATED", 5)]
    ∧ IState.all.map IState.code = Supv.Gen.enumSupvisorsInstanceStates.map (·.2)
    ∧ Supv.Gen.instTable.map (·.1) = IState.all.map IState.code := by decide

/-- by AST of the current source: inactivity is a STRICT comparison (`counter_diff > inactivity_ticks`), evaluated for the
    active states CHECKING, CHECKED, RUNNING, FAILED only -/
theorem C07_inactive_strict : Supv.Gen.isInactiveOps = ["Gt"]
    ∧ IState.all.filter IState.active = [.checking, .checked, .running, .failed] := by decide

/-- **C07 (no early detection, one tick).**  The timer check of local tick `k` leaves alone the whole record of a RUNNING
    peer whose last tick is at most `inactivity_ticks` local ticks old. -/
theorem C07_timer_keeps_fresh (c : Cfg) (j : Nat) (r : Peer) (k : Nat) (hr : r.state = .running)
    (hfresh : k - r.localCounter ≤ c.inactivity) : KeepsRec j r (timerCheck c k) :=
  rec_timerCheck j r c k (by intro h; omega)

-- non-vacuity: a state with a RUNNING remote peer and a history satisfying `AccHist` (a remote tick, then a local tick)
example (c : Cfg) : peerRun 1 { initSt c with peers := [({} : Peer), ({ state := .running, localCounter := 7 } : Peer)] } := by
  simp [peerRun]
def exCfg : Cfg :=
  { n := 2, me := 0, nickRank := [0, 1], core := [], initial := [], optStrict := false, optList := true,
    optTimeout := false, optCore := false, optUser := false, syncTimeout := 0, inactivity := 2, autoFence := false,
    failStrat := .cont }
example : AccOk exCfg 1 { peers := [({} : Peer), ({ state := .running, localCounter := 7 } : Peer)], modes := [] } (.ltick 9) := by
  simp [AccOk, exCfg]

/-- **C07 (completeness, one timer check).**  The timer check of local tick `k`, when it returns, HAS declared FAILED every
    instance `j` of the configuration that was in an active state (CHECKING, CHECKED, RUNNING - or already FAILED) and whose
    last tick was tagged more than `inactivity_ticks` local ticks earlier; nothing else of its record changes.  Whatever the
    loop does to the other instances before and after `j` (publications, Master reset, ...) cannot prevent it.  With
    `C07_timer_keeps_fresh` this pins the threshold exactly: nothing at `k - last ≤ inactivity_ticks`, FAILED at the first
    local tick with `k - last > inactivity_ticks`, i.e. `inactivity_ticks + 1` local ticks of silence. -/
theorem C07_timer_detects (c : Cfg) (j : Nat) (r : Peer) (k : Nat) (hj : j < c.n) (hact : r.state.active = true)
    (hsilent : k - r.localCounter > c.inactivity) (s s' : St) (u : Unit)
    (h : (timerCheck c k).run s = .ok (u, s')) (hp : peerRec j r s) :
    peerRec j { r with state := .failed } s' :=
  timerCheck_detects j r c k hj hact hsilent s s' u h hp

/-- the bound in ticks: a peer whose last tick was tagged at local tick `k0` is detected by the timer check of local tick
    `k0 + inactivity_ticks + 1` (and of any later one) -/
theorem C07_detection_bound (c : Cfg) (j : Nat) (r : Peer) (k : Nat) (hj : j < c.n) (hact : r.state.active = true)
    (hk : k ≥ r.localCounter + c.inactivity + 1) (s s' : St) (u : Unit)
    (h : (timerCheck c k).run s = .ok (u, s')) (hp : peerRec j r s) :
    (s'.peers[j]?.map (·.state)) = some .failed := by
  have := timerCheck_detects j r c k hj hact (by omega) s s' u h hp
  unfold peerRec at this
  simp [this]

/-- the premise "the timer check returns" is not vacuous: by the regenerated transition table FAILED can be assigned from
    every other active state (no `InvalidTransition` can stop the loop at `j`), and re-assigning FAILED is a no-op -/
theorem C07_failed_allowed_from_active : ∀ a : IState, a.active = true → a ≠ .failed → .failed ∈ a.next := by
  intro a; cases a <;> decide

-- non-vacuity: on a concrete state the timer check of local tick 10 returns and has marked the silent RUNNING peer 1 FAILED
def detectsEx : Bool :=
  match (timerCheck exCfg 10).run { peers := [({} : Peer), ({ state := .running, localCounter := 7 } : Peer)],
                                    modes := [{ inst := [.running, .running] }, {}] } with
  | .ok (_, s') => s'.peers.map (fun p => p.state.code) == [0, 4]
  | .error _ => false
example : detectsEx = true := by decide +kernel

/-- **C07, who marks an instance FAILED / STOPPED / ISOLATED and when** (regenerated from the current `context.py` by the
    translator, G6): the hand-written model changes the state of an instance at exactly the sites of the source, under exactly
    the guards of the source - in particular a peer is declared FAILED from every active state (CHECKING included) on
    inactivity or on a proxy failure, and invalidated only from FAILED (or refused during CHECKING). -/
theorem C07_model_writers_match_source : Supv.Gen.instStateWriters = Supv.Props.C16.modelWriters :=
  Supv.Props.C16.C16_model_writers_match_source

end Supv.Props.C07
