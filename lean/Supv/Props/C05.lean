import Supv.Lemmas.Conc
import Supv.Model.Inst

/-!
# C05 — Conflicts are detected and conciliated exactly as the strategy says

Property theorems only.  Model: `Supv/Model/Conc.lean` (strategies, `Context.conflicts`, what the Stopper plans),
`Supv/Model/Proc.lean` (process status; composed for `C05_clean_exit`), `Supv/Model/Inst.lean` (FSM; detection and
return to OPERATION).  Specification: `Supv/Spec/C05.lean`.  Helper lemmas: `Supv/Lemmas/Conc.lean`.
The models are tied to `strategy.py`, `context.py`, `commander.py`, `statemachine.py` by `harness/c05.py`.

Quantifier: every view of the processes (any number of applications, processes, simultaneous conflicts, copies, any
uptimes, ties included, any iteration order of the `running_identifiers` sets), all six strategies, every order of the
stop acknowledgements.
-/

namespace Supv.Props.C05
open Supv.Conc Supv.Spec.C05
open Supv.Proc (PState Proc POp Res prun pstep)

/-! ### membership in the stop commands of one process, per strategy -/

/-! ### C05_strategy_stops -/

/-- **C05, stop clause (SENICIDE / INFANTICIDE: partial; see `C05_strategy_stops_refuted`).**
    For every view where no listed instance is STOPPING, every strategy and every process in conflict, the stop commands
    the model plans are exactly where the statement says: SENICIDE leaves alone exactly one copy, of minimal uptime,
    INFANTICIDE exactly one copy, of maximal uptime (whatever the iteration order of the set and the ties), STOP /
    RESTART / RUNNING_FAILURE none, USER all. -/
theorem C05_strategy_stops_partial (s : Strategy) (ctx : View) (hwf : WF ctx) (hns : NoStopping ctx)
    (v : PView) (hv : v ∈ ctx) (hc : inConflict v = true) : stopsOk s (modelObs s ctx) v = true := by
  have hlive := live_eq_copies ctx hns v hv
  have hcf := (inConflict_conflicts ctx hns v hv).mp hc
  have h2 := ((mem_conflicts ctx v).mp hcf).2.2
  have hnd := hwf.insts v hv
  have hne : v.copies ≠ [] := conflicts_copies_ne_nil ctx v hcf
  cases s with
  | senicide =>
    obtain ⟨k, hk⟩ := firstMin_isSome v.copies hne
    have hkm := firstMin_mem _ _ hk
    have hkept : kept (modelObs .senicide ctx) v = [k] := by
      apply kept_singleton _ v k hlive hkm hnd
      intro c hcm
      rw [requested_iff _ ctx hwf v hv, stopsOf_senicide v k hk, mem_stopsOf_keep v k hkm hnd h2]
      simp [hcf, PView.listed]; intro _; exact ⟨c, hcm, rfl⟩
    simp only [stopsOk, hkept, List.length_singleton, beq_self_eq_true, List.all_cons, List.all_nil, Bool.and_true,
      Bool.true_and]
    unfold youngest
    rw [hlive, List.all_eq_true]
    intro c hcm; simpa using firstMin_le _ _ hk c hcm
  | infanticide =>
    obtain ⟨k, hk⟩ := firstMax_isSome v.copies hne
    have hkm := firstMax_mem _ _ hk
    have hkept : kept (modelObs .infanticide ctx) v = [k] := by
      apply kept_singleton _ v k hlive hkm hnd
      intro c hcm
      rw [requested_iff _ ctx hwf v hv, stopsOf_infanticide v k hk, mem_stopsOf_keep v k hkm hnd h2]
      simp [hcf, PView.listed]; intro _; exact ⟨c, hcm, rfl⟩
    simp only [stopsOk, hkept, List.length_singleton, beq_self_eq_true, List.all_cons, List.all_nil, Bool.and_true,
      Bool.true_and]
    unfold oldest
    rw [hlive, List.all_eq_true]
    intro c hcm; simpa using firstMax_ge _ _ hk c hcm
  | user =>
    simp only [stopsOk, List.all_eq_true]
    intro c _
    have : ¬ (requested (modelObs .user ctx) v c = true) := by
      rw [requested_iff _ ctx hwf v hv, stopsOf_user]; simp
    simpa using this
  | stop =>
    simp only [stopsOk, kept, List.isEmpty_iff, List.filter_eq_nil_iff]
    intro c hcm
    have : requested (modelObs .stop ctx) v c = true := by
      rw [requested_iff _ ctx hwf v hv, stopsOf_stop, mem_stopCommands_all]
      exact ⟨hcf, List.mem_map_of_mem (f := (·.inst)) (List.mem_filter.mp hcm).1⟩
    simp [this]
  | restart =>
    simp only [stopsOk, kept, List.isEmpty_iff, List.filter_eq_nil_iff]
    intro c hcm
    have hr : v.running = true := running_of_live v (by rw [hlive]; omega)
    have : requested (modelObs .restart ctx) v c = true := by
      rw [requested_iff _ ctx hwf v hv, stopsOf_restart, hr]
      simp only [if_true]
      rw [mem_stopCommands_all]
      exact ⟨hcf, List.mem_map_of_mem (f := (·.inst)) (List.mem_filter.mp hcm).1⟩
    simp [this]
  | runningFailure =>
    simp only [stopsOk, kept, List.isEmpty_iff, List.filter_eq_nil_iff]
    intro c hcm
    have : requested (modelObs .runningFailure ctx) v c = true := by
      rw [requested_iff _ ctx hwf v hv, stopsOf_failure, mem_stopCommands_all]
      exact ⟨hcf, List.mem_map_of_mem (f := (·.inst)) (List.mem_filter.mp hcm).1⟩
    simp [this]

/-- **C05, stop clause, STOP / RESTART / RUNNING_FAILURE / USER (full).**  Whatever the view (STOPPING instances
    listed or not): every live copy of every process in conflict gets a stop command with STOP, RESTART and
    RUNNING_FAILURE, none with USER. -/
theorem C05_strategy_stops_every_copy (s : Strategy) (hs : s ≠ .senicide ∧ s ≠ .infanticide) (ctx : View)
    (hwf : WF ctx) (v : PView) (hv : v ∈ ctx) (hc : inConflict v = true) : stopsOk s (modelObs s ctx) v = true := by
  have hcf := conflicts_of_inConflict ctx v hv hc
  have h2 : 2 ≤ (live v).length := by
    simp only [inConflict, Bool.and_eq_true, decide_eq_true_eq] at hc; exact hc.2
  have hr : v.running = true := running_of_live v (by omega)
  cases s with
  | senicide => exact absurd rfl hs.1
  | infanticide => exact absurd rfl hs.2
  | user =>
    simp only [stopsOk, List.all_eq_true]
    intro c _
    have : ¬ (requested (modelObs .user ctx) v c = true) := by
      rw [requested_iff _ ctx hwf v hv, stopsOf_user]; simp
    simpa using this
  | stop =>
    simp only [stopsOk, kept, List.isEmpty_iff, List.filter_eq_nil_iff]
    intro c hcm
    have : requested (modelObs .stop ctx) v c = true := by
      rw [requested_iff _ ctx hwf v hv, stopsOf_stop, mem_stopCommands_all]
      exact ⟨hcf, List.mem_map_of_mem (f := (·.inst)) (List.mem_filter.mp hcm).1⟩
    simp [this]
  | restart =>
    simp only [stopsOk, kept, List.isEmpty_iff, List.filter_eq_nil_iff]
    intro c hcm
    have : requested (modelObs .restart ctx) v c = true := by
      rw [requested_iff _ ctx hwf v hv, stopsOf_restart, hr]
      simp only [if_true]
      rw [mem_stopCommands_all]
      exact ⟨hcf, List.mem_map_of_mem (f := (·.inst)) (List.mem_filter.mp hcm).1⟩
    simp [this]
  | runningFailure =>
    simp only [stopsOk, kept, List.isEmpty_iff, List.filter_eq_nil_iff]
    intro c hcm
    have : requested (modelObs .runningFailure ctx) v c = true := by
      rw [requested_iff _ ctx hwf v hv, stopsOf_failure, mem_stopCommands_all]
      exact ⟨hcf, List.mem_map_of_mem (f := (·.inst)) (List.mem_filter.mp hcm).1⟩
    simp [this]

/-- the full stop clause: every strategy, every well-formed view -/
def C05_strategy_stops_statement : Prop :=
  ∀ (s : Strategy) (ctx : View), WF ctx → ∀ v ∈ ctx, inConflict v = true → stopsOk s (modelObs s ctx) v = true

/-- a managed process RUNNING on instances 0 (uptime 100) and 1 (uptime 90) and listed STOPPING on instance 2
    (uptime 5, e.g. being stopped by hand on its own Supervisor) -/
def witnessStopping : View :=
  [{ pid := 0, managed := true,
     copies := [{ inst := 0, uptime := 100 }, { inst := 1, uptime := 90 }, { inst := 2, uptime := 5, stopping := true }] }]

theorem witnessStopping_wf : WF witnessStopping := ⟨by decide, by decide⟩

/-- **C05, stop clause: false of model and code for SENICIDE / INFANTICIDE when a STOPPING instance is listed.**
    `min` / `max` range over `running_identifiers`, which still holds an instance that reported STOPPING: on
    `witnessStopping` SENICIDE "keeps" the STOPPING instance and stops both running copies (known finding
    `C05:stopping-copy-counted`, replayed on the real code by `harness/c05.py`). -/
theorem C05_strategy_stops_refuted : ¬ C05_strategy_stops_statement := by
  intro h
  have := h .senicide witnessStopping witnessStopping_wf _ (List.mem_singleton.mpr rfl) (by decide)
  revert this; decide

/-- every stop command planned targets a listed instance of a member of `Context.conflicts()`: a process of a managed
    application listed on two or more instances (unconditional) -/
theorem C05_only_listed_conflicts (s : Strategy) (ctx : View) (x : Nat × Nat) (hx : x ∈ (modelObs s ctx).stops) :
    ∃ v ∈ conflicts ctx, x.1 = v.pid ∧ x.2 ∈ v.listed := by
  have hx' : x ∈ modelStops s ctx := hx
  rw [modelStops_eq, List.mem_flatMap] at hx'
  obtain ⟨w, hw, hxw⟩ := hx'
  exact ⟨w, hw, stopsOf_sub s w x hxw⟩

/-- **C05, "never stopping a process that is not in conflict" (partial).**  When no listed instance is STOPPING, every
    stop command of every strategy targets a copy of a process in conflict. -/
theorem C05_only_conflicting_partial (s : Strategy) (ctx : View) (hns : NoStopping ctx) :
    onlyConflicting ctx (modelObs s ctx) = true := by
  unfold onlyConflicting
  rw [List.all_eq_true]
  intro x hx
  obtain ⟨v, hv, hp, hi⟩ := C05_only_listed_conflicts s ctx x hx
  have hvc := ((mem_conflicts ctx v).mp hv).1
  have hin := (inConflict_conflicts ctx hns v hvc).mpr hv
  obtain ⟨c, hc, hci⟩ := List.mem_map.mp hi
  unfold stopAllowed
  rw [List.any_eq_true]
  refine ⟨v, hvc, ?_⟩
  simp only [Bool.and_eq_true, beq_iff_eq, List.any_eq_true, Bool.or_eq_true]
  exact ⟨hp.symm, c, hc, hci, Or.inr hin⟩

def C05_only_conflicting_statement : Prop :=
  ∀ (s : Strategy) (ctx : View), WF ctx → onlyConflicting ctx (modelObs s ctx) = true

/-- a managed process RUNNING on instance 0 only, still listed on instance 1 which reported STOPPING -/
def witnessLone : View :=
  [{ pid := 0, managed := true, copies := [{ inst := 0, uptime := 100 }, { inst := 1, uptime := 5, stopping := true }] }]

/-- **"never stopping a process that is not in conflict": false of model and code** when a STOPPING instance is
    listed next to a single running copy: the process is handed to the strategy (`len(running_identifiers) > 1`) and
    STOP stops its only running copy (same root cause and known finding as `C05_strategy_stops_refuted`). -/
theorem C05_only_conflicting_refuted : ¬ C05_only_conflicting_statement := by
  intro h
  have := h .stop witnessLone ⟨by decide, by decide⟩
  revert this; decide

/-! ### RESTART, RUNNING_FAILURE, USER -/

/-- **C05, RESTART "then starts one copy again".**  RESTART defers exactly one start per conflicting process that is
    `running()` (`Stopper.process_start_requests`, served by `Stopper.after` once the stops of its application are
    done), plans no start for any other process, and no other strategy plans a start. -/
theorem C05_restart_one (ctx : View) (hwf : WF ctx) :
    (∀ v ∈ conflicts ctx, v.running = true → (modelObs .restart ctx).starts.count v.pid = 1)
    ∧ (∀ p ∈ (modelObs .restart ctx).starts, ∃ v ∈ conflicts ctx, v.pid = p ∧ v.running = true)
    ∧ (∀ s, s ≠ .restart → (modelObs s ctx).starts = []) := by
  refine ⟨?_, ?_, ?_⟩
  · intro v hv hr
    rw [starts_eq]; simp only [if_true]
    have hsub : (((conflicts ctx).filter (·.running)).map (·.pid)).Sublist (ctx.map (·.pid)) :=
      List.Sublist.map _ (List.Sublist.trans List.filter_sublist List.filter_sublist)
    rw [List.Nodup.count (hsub.nodup hwf.pids)]
    have : v.pid ∈ ((conflicts ctx).filter (·.running)).map (·.pid) :=
      List.mem_map_of_mem (f := (·.pid)) (List.mem_filter.mpr ⟨hv, hr⟩)
    simp [this]
  · intro p hp
    rw [starts_eq] at hp; simp only [if_true] at hp
    obtain ⟨v, hv, rfl⟩ := List.mem_map.mp hp
    have := List.mem_filter.mp hv
    exact ⟨v, this.1, rfl, this.2⟩
  · intro s hs; rw [starts_eq]; simp [hs]

/-- **C05, RUNNING_FAILURE "applies the program's running failure strategy".**  Every member of `Context.conflicts()`
    (and nothing else) is handed to the running-failure handler (`add_default_job`), after a stop command on each of
    its listed instances, and the handler is triggered; no other strategy touches the handler. -/
theorem C05_failure_delegates (ctx : View) (hwf : WF ctx) :
    (modelObs .runningFailure ctx).failJobs = (conflicts ctx).map (·.pid)
    ∧ (modelObs .runningFailure ctx).failTriggered = true
    ∧ (∀ v ∈ conflicts ctx, ∀ i ∈ v.listed, (v.pid, i) ∈ (modelObs .runningFailure ctx).stops)
    ∧ (∀ s, s ≠ .runningFailure → (modelObs s ctx).failJobs = [] ∧ (modelObs s ctx).failTriggered = false) := by
  refine ⟨by rw [failJobs_eq]; simp, by rw [failTriggered_eq]; simp, ?_, ?_⟩
  · intro v hv i hi
    have hvc := ((mem_conflicts ctx v).mp hv).1
    show (v.pid, i) ∈ modelStops .runningFailure ctx
    rw [mem_modelStops _ ctx hwf v hvc, stopsOf_failure, mem_stopCommands_all]
    exact ⟨hv, hi⟩
  · intro s hs
    rw [failJobs_eq, failTriggered_eq]; simp [hs]

/-- **C05, USER.**  Whatever the conflicts, USER calls nothing: no stop, no start, no failure job, not even a Stopper
    trigger. -/
theorem C05_user_nothing (cs : List PView) : (conciliate .user cs).actions = [] ∧ (conciliate .user cs).err = none := by
  simp [conciliate, loop_user, epilogue]

/-- **C05: the model is accepted by the specification (partial).**  On every well-formed view without a listed STOPPING
    instance, for every strategy, the whole specification relation holds of what the model does (so the relation is
    satisfiable, and the relational judge of `harness/c05.py` accepts the model's own deterministic choice). -/
theorem C05_accepts_partial (s : Strategy) (ctx : View) (hwf : WF ctx) (hns : NoStopping ctx) :
    accepts s ctx (modelObs s ctx) = true := by
  unfold accepts
  simp only [Bool.and_eq_true]
  refine ⟨⟨⟨?_, C05_only_conflicting_partial s ctx hns⟩, ?_⟩, ?_⟩
  · rw [List.all_eq_true]
    intro v hv
    by_cases hc : inConflict v = true
    · simp [C05_strategy_stops_partial s ctx hwf hns v hv hc]
    · simp [hc]
  · obtain ⟨h1, h2, h3⟩ := C05_restart_one ctx hwf
    by_cases hs : s = .restart
    · subst hs
      simp only [startsOk, Bool.and_eq_true, List.all_eq_true]
      constructor
      · intro v hv
        by_cases hc : inConflict v = true
        · have hcf := (inConflict_conflicts ctx hns v hv).mp hc
          have hr : v.running = true := running_of_live v (by
            simp only [inConflict, Bool.and_eq_true, decide_eq_true_eq] at hc; omega)
          simp [h1 v hcf hr]
        · simp [hc]
      · intro p hp
        obtain ⟨v, hv, rfl, _⟩ := h2 p hp
        have hvc := ((mem_conflicts ctx v).mp hv).1
        rw [List.any_eq_true]
        exact ⟨v, hvc, by simp [(inConflict_conflicts ctx hns v hvc).mpr hv]⟩
    · have := h3 s hs
      cases s <;> simp_all [startsOk]
  · by_cases hs : s = .runningFailure
    · subst hs
      simp only [failureOk, Bool.and_eq_true, List.all_eq_true, failJobs_eq, failTriggered_eq, if_true]
      refine ⟨⟨?_, ?_⟩, by simp⟩
      · intro v hv
        by_cases hc : inConflict v = true
        · have hcf := (inConflict_conflicts ctx hns v hv).mp hc
          simp only [hc, Bool.not_true, Bool.false_or, List.contains_iff_mem]
          exact List.mem_map_of_mem (f := (·.pid)) hcf
        · simp [hc]
      · intro p hp
        obtain ⟨v, hv, rfl⟩ := List.mem_map.mp hp
        have hvc := ((mem_conflicts ctx v).mp hv).1
        rw [List.any_eq_true]
        exact ⟨v, hvc, by simp [(inConflict_conflicts ctx hns v hvc).mpr hv]⟩
    · have h1 := failJobs_eq s ctx
      have h2 := failTriggered_eq s ctx
      cases s <;> simp_all [failureOk]

/-! ### detection on the view -/

/-- a process in conflict in the statement's sense makes `Context.conflicting()` true -/
theorem C05_detect_view (ctx : View) (v : PView) (hv : v ∈ ctx) (hc : inConflict v = true) : conflicting ctx = true := by
  have := (mem_conflicts ctx v).mp (conflicts_of_inConflict ctx v hv hc)
  unfold conflicting
  rw [List.any_eq_true]
  exact ⟨v, hv, by simp [this.2.1, PView.conflicting]; omega⟩

/-- **C05, "unmanaged applications never trigger it".**  When every process listed on two or more instances belongs
    to an unmanaged application, `Context.conflicting()` is false, `Context.conflicts()` is empty, and no strategy plans
    anything for any process. -/
theorem C05_unmanaged_never (ctx : View) (h : ∀ v ∈ ctx, v.conflicting = true → v.managed = false) :
    conflicting ctx = false ∧ conflicts ctx = [] ∧ ∀ s, (modelObs s ctx).stops = [] ∧ (modelObs s ctx).starts = []
      ∧ (modelObs s ctx).failJobs = [] := by
  have hc : conflicts ctx = [] := by
    unfold conflicts
    rw [List.filter_eq_nil_iff]
    intro v hv
    by_cases hcf : v.conflicting = true
    · simp [h v hv hcf]
    · simp [hcf]
  refine ⟨?_, hc, ?_⟩
  · unfold conflicting
    rw [Bool.eq_false_iff]
    intro hany
    obtain ⟨v, hv, hm⟩ := List.any_eq_true.mp hany
    simp only [Bool.and_eq_true] at hm
    have := h v hv hm.2
    rw [this] at hm; simp at hm
  · intro s
    have h1 : (modelObs s ctx).stops = modelStops s ctx := rfl
    rw [h1, modelStops_eq, starts_eq, failJobs_eq, hc]
    simp


/-! ### C05_clean_exit: composition with the process model -/

/-- **C05, "once those stops are reported no conflict remains".**  Composed model `Conc` + `Proc`: take any table of
    well-formed process statuses (any number of simultaneous conflicts and copies, any uptimes), any strategy but USER
    (for RESTART: every conflicting process is `running()`, otherwise RESTART plans no stop for it), and any sequence of
    process events, in any order and interleaving, made of stopped-like reports (STOPPED, EXITED, FATAL, UNKNOWN) that
    acknowledge the stop commands planned and nothing else, each planned stop being acknowledged at least once.
    Then no event raises, and afterwards `Context.conflicting()` is false. -/
theorem C05_clean_exit (s : Strategy) (hs : s ≠ .user) (up : Nat → Nat → Nat) (tbl : List Entry)
    (hpids : (tbl.map (·.pid)).Nodup) (hwfp : ∀ e ∈ tbl, WFp e.proc)
    (hrun : s = .restart → ∀ v ∈ conflicts (viewTbl up tbl), v.running = true)
    (acks : List Ack)
    (honly : ∀ a ∈ acks, (a.pid, a.inst) ∈ (modelObs s (viewTbl up tbl)).stops ∧ a.state.isStopped = true)
    (hall : ∀ x ∈ (modelObs s (viewTbl up tbl)).stops, ∃ a ∈ acks, (a.pid, a.inst) = x) :
    (∀ e ∈ tbl, ∃ p', prun e.proc (acksFor e.pid acks) = .ok p')
    ∧ conflicting (viewTbl up (afterAcks tbl acks)) = false := by
  have hwf := viewTbl_wf up tbl hpids hwfp
  -- per entry: the events routed to it are acknowledgements; what stays listed was listed and not asked to stop
  have key : ∀ e ∈ tbl, ∃ p', prun e.proc (acksFor e.pid acks) = .ok p' ∧ p'.running.Nodup
      ∧ p'.running.length ≤ e.proc.running.length ∧ ∀ j ∈ p'.running, j ∈ e.proc.running ∧ (e.pid, j) ∉ modelStops s (viewTbl up tbl) := by
    intro e he
    have hv : viewOf e.pid e.managed (up e.pid) e.proc ∈ viewTbl up tbl := List.mem_map_of_mem he
    have hacks : ∀ x ∈ acksFor e.pid acks, IsAck e.proc x.2 := by
      intro x hx
      obtain ⟨a, ha, rfl⟩ := List.mem_map.mp hx
      obtain ⟨ha1, ha2⟩ := List.mem_filter.mp ha
      have hpid : a.pid = e.pid := by simpa using ha2
      obtain ⟨hst, hstopped⟩ := honly a ha1
      have hst' : ((viewOf e.pid e.managed (up e.pid) e.proc).pid, a.inst) ∈ modelStops s (viewTbl up tbl) := by
        rw [← hpid] at *; exact hst
      have := (mem_modelStops s _ hwf _ hv a.inst).mp hst'
      have hl := (stopsOf_sub s _ _ this.2).2
      rw [listed_viewOf] at hl
      exact ⟨a.inst, a.state, a.expected, a.etime, a.disabled, rfl, hstopped, (hwfp e he).entries _ hl⟩
    obtain ⟨p', hp', hwf', hr'⟩ := prun_acks (acksFor e.pid acks) e.proc e.proc (hwfp e he) (fun _ h => h) hacks
    refine ⟨p', hp', hwf'.nodup, by rw [hr']; exact List.length_filter_le _ _, ?_⟩
    intro j hj
    rw [hr', List.mem_filter] at hj
    refine ⟨hj.1, ?_⟩
    intro hst
    obtain ⟨a, ha, hax⟩ := hall (e.pid, j) hst
    have hcont : (List.filterMap (fun x => ackInst x.2) (acksFor e.pid acks)).contains j = true := by
      rw [List.contains_iff_mem, List.mem_filterMap]
      simp only [Prod.mk.injEq] at hax
      refine ⟨(a.now, POp.upd a.inst a.state a.expected a.etime a.disabled), ?_, by simp [ackInst, hax.2]⟩
      exact List.mem_map.mpr ⟨a, List.mem_filter.mpr ⟨ha, by simp [hax.1]⟩, rfl⟩
    rw [hcont] at hj; simp at hj
  refine ⟨fun e he => (key e he).imp (fun _ h => h.1), ?_⟩
  unfold conflicting
  rw [Bool.eq_false_iff]
  intro hany
  obtain ⟨v', hv', hm⟩ := List.any_eq_true.mp hany
  obtain ⟨e', he', rfl⟩ := List.mem_map.mp hv'
  obtain ⟨e, he, rfl⟩ := List.mem_map.mp he'
  obtain ⟨p', hp', hnd', hlen, hsurv⟩ := key e he
  simp only [hp', viewOf, Bool.and_eq_true, PView.conflicting, List.length_map, decide_eq_true_eq] at hm
  have hv : viewOf e.pid e.managed (up e.pid) e.proc ∈ viewTbl up tbl := List.mem_map_of_mem he
  by_cases hc : viewOf e.pid e.managed (up e.pid) e.proc ∈ conflicts (viewTbl up tbl)
  · have h2 := ((mem_conflicts _ _).mp hc).2.2
    have := survivors_le_one s hs _ (hwf.insts _ hv) h2 (fun h => hrun h _ hc) p'.running hnd' (by
      intro j hj
      obtain ⟨h1, h2⟩ := hsurv j hj
      refine ⟨by rw [listed_viewOf]; exact h1, ?_⟩
      intro hst
      exact h2 ((mem_modelStops s _ hwf _ hv j).mpr ⟨hc, hst⟩))
    omega
  · rw [mem_conflicts] at hc
    have : ¬ 2 ≤ e.proc.running.length := by
      intro h; apply hc
      exact ⟨hv, hm.1, by simpa [viewOf] using h⟩
    omega


/-! ### detection, conciliation order, return to OPERATION: the FSM model (`Supv.Inst`)

`Supv.Inst` asks the layers it does not model through an oracle stream: `starter.in_progress()`, `stopper.in_progress()`,
`context.conflicting()` in that order.  The answers are recorded on the real objects by the harness; `Conc.conflicting`
of the Master's view is what `context.conflicting()` answers (`C05_detect_view`, `C05_unmanaged_never`). -/

section fsm
open Supv.Inst Supv.Conc.Fsm

/-- **C05, detection.**  `OperationState._master_next` of the Master: with the answers `a` (Starter busy), `b` (Stopper
    busy), `k` (`context.conflicting()`), the next state is CONCILIATION exactly when no start/stop job is in progress and
    there is a conflict, otherwise OPERATION; never an error, whatever the rest of the state. -/
theorem C05_detect (c : Cfg) (st : St) (a b k : Nat) (rest : List (Query × Nat)) (hm : IsMaster c st)
    (ho : st.oracle = (.starterBusy, a) :: (.stopperBusy, b) :: (.conflicting, k) :: rest) :
    ∃ st', (nextOperation c).run st
      = .ok (some (if a = 0 ∧ b = 0 ∧ k ≠ 0 then SState.conciliation else SState.operation), st') := by
  unfold nextOperation
  simp only [run_bind_eq, run_isMaster, ok_bind, hm, decide_true, if_true, run_masterFailJobs]
  cases hl : st.lostProcs <;> by_cases ha : a = 0 <;> by_cases hb : b = 0 <;> by_cases hk : k = 0 <;>
    simp [run_ask, ok_bind, ho, ha, hb, hk]
  all_goals exact ⟨_, rfl⟩

/-- **C05, detection: a non-Master never decides.**  `OperationState` of a Slave asks nothing about jobs or conflicts: its
    next state is whatever state the Master publishes (`_slave_next`). -/
theorem C05_detect_slave (c : Cfg) (st : St) (hm : ¬ IsMaster c st) :
    (nextOperation c).run st = (masterState c).run st ∧ (nextConciliation c).run st = (masterState c).run st := by
  unfold nextOperation nextConciliation
  simp only [run_bind_eq, run_isMaster, ok_bind, hm, decide_false, Bool.false_eq_true, if_false, and_self]

/-- **C05, conciliation order.**  Entering CONCILIATION (`ConciliationState.enter`): the Master, and only the Master,
    gives the order `conciliate_conflicts(strategy, context.conflicts())`; and OPERATION → CONCILIATION → OPERATION are
    edges of the transition table extracted from the source. -/
theorem C05_enter_conciliates (c : Cfg) (st : St) :
    (stateEnter c .conciliation).run st
      = .ok ((), if IsMaster c st then { st with out := st.out ++ [Out.conciliate] } else st)
    ∧ SState.conciliation ∈ SState.operation.next ∧ SState.operation ∈ SState.conciliation.next := by
  refine ⟨?_, by decide, by decide⟩
  unfold stateEnter
  by_cases hm : IsMaster c st <;>
    simp only [run_bind_eq, run_isMaster, ok_bind, run_emit, run_pure, hm, decide_true, decide_false, if_true,
      Bool.false_eq_true, if_false]

/-- **C05, "Supvisors returns to OPERATION" / "stays CONCILIATION until the conflict disappears".**
    `ConciliationState._master_next` of the Master: CONCILIATION while a start/stop job is in progress (no new order); when
    idle, OPERATION iff `context.conflicting()` is false, otherwise the state stays CONCILIATION and the conciliation order
    is given again (with USER that order does nothing, `C05_user_nothing`: the state stays CONCILIATION until the conflict
    disappears).  The only other output is the hand-over of processes lost with an instance (`failJobs`, C06). -/
theorem C05_conciliation_next (c : Cfg) (st : St) (a b k : Nat) (rest : List (Query × Nat)) (hm : IsMaster c st)
    (ho : st.oracle = (.starterBusy, a) :: (.stopperBusy, b) :: (.conflicting, k) :: rest) :
    ∃ st', (nextConciliation c).run st
        = .ok (some (if a = 0 ∧ b = 0 ∧ k = 0 then SState.operation else SState.conciliation), st')
      ∧ st'.out = (if st.lostProcs then st.out ++ [Out.failJobs] else st.out)
                  ++ (if a = 0 ∧ b = 0 ∧ k ≠ 0 then [Out.conciliate] else []) := by
  unfold nextConciliation
  simp only [run_bind_eq, run_isMaster, ok_bind, hm, decide_true, if_true, run_masterFailJobs]
  cases hl : st.lostProcs <;> by_cases ha : a = 0 <;> by_cases hb : b = 0 <;> by_cases hk : k = 0 <;>
    simp [run_ask, run_emit, ok_bind, ho, ha, hb, hk]
  all_goals first | exact ⟨_, rfl, rfl⟩ | skip

/-- once the stops are acknowledged and the jobs are over (`C05_clean_exit`: `context.conflicting()` is false), the
    Master's next evaluation returns OPERATION, without any conciliation order -/
theorem C05_back_to_operation (c : Cfg) (st : St) (rest : List (Query × Nat)) (hm : IsMaster c st)
    (ho : st.oracle = (.starterBusy, 0) :: (.stopperBusy, 0) :: (.conflicting, 0) :: rest) :
    ∃ st', (nextConciliation c).run st = .ok (some SState.operation, st') ∧ Out.conciliate ∉ st'.out.drop st.out.length := by
  obtain ⟨st', h1, h2⟩ := C05_conciliation_next c st 0 0 0 rest hm ho
  refine ⟨st', by simpa using h1, ?_⟩
  rw [h2]
  cases st.lostProcs <;> simp

/-- with a conflict left (USER: nothing was stopped) and no job, the state stays CONCILIATION -/
theorem C05_user_stays (c : Cfg) (st : St) (k : Nat) (hk : k ≠ 0) (rest : List (Query × Nat)) (hm : IsMaster c st)
    (ho : st.oracle = (.starterBusy, 0) :: (.stopperBusy, 0) :: (.conflicting, k) :: rest) :
    ∃ st', (nextConciliation c).run st = .ok (some SState.conciliation, st') := by
  obtain ⟨st', h1, _⟩ := C05_conciliation_next c st 0 0 k rest hm ho
  exact ⟨st', by simpa [hk] using h1⟩

end fsm

/-! ### the requests really sent (`ApplicationStopJobs.process_job`) -/

/-- the stop requests sent are stop commands planned, and for a process with a copy in a running state every planned
    command is sent (a command is skipped only for a process whose listed instances are all STOPPING) -/
theorem C05_rpc_stops (acts : List Action) :
    (∀ x ∈ rpcStops acts, x ∈ planStops acts)
    ∧ (∀ a ∈ acts, (∀ v l, a = .stopOn v l → v.running = true) → (∀ v, a = .stopAll v → v.running = true) →
        rpcStopsOf a = a.stops) := by
  constructor
  · intro x hx
    obtain ⟨a, ha, hxa⟩ := List.mem_flatMap.mp hx
    refine List.mem_flatMap.mpr ⟨a, ha, ?_⟩
    cases a <;> simp only [rpcStopsOf] at hxa
    all_goals first
      | (split at hxa
         · exact hxa
         · cases hxa)
      | cases hxa
  · intro a _ h1 h2
    cases a with
    | stopOn v l => simp [rpcStopsOf, h1 v l rfl]
    | stopAll v => simp [rpcStopsOf, h2 v rfl]
    | restart v => by_cases hr : v.running = true <;> simp [rpcStopsOf, Action.stops, hr]
    | failJob v => rfl
    | stopperNext => rfl
    | failTrigger => rfl

/-! ### tie with the generated tables -/

/-- the strategy codes the driver decodes are those of `ttypes.ConciliationStrategies` in the current source
    (`Supv/Gen/Tables.lean` is regenerated on every run) -/
theorem C05_strategy_codes :
    Supv.Gen.enumConciliationStrategies
      = [("SENICIDE", Strategy.senicide.code), ("INFANTICIDE", Strategy.infanticide.code), ("USER", Strategy.user.code),
         ("STOP", Strategy.stop.code), ("RESTART", Strategy.restart.code), ("RUNNING_FAILURE", Strategy.runningFailure.code)]
    ∧ ∀ s : Strategy, Strategy.ofCode s.code = some s := by
  refine ⟨by decide, fun s => by cases s <;> rfl⟩

/-! ### the hypotheses are satisfiable by non-trivial values -/

/-- two simultaneous conflicts (three copies with a tie of uptime; two copies), one unmanaged duplicate, one process
    running once -/
def exampleView : View :=
  [{ pid := 0, managed := true, copies := [{ inst := 2, uptime := 7 }, { inst := 0, uptime := 7 }, { inst := 1, uptime := 30 }] },
   { pid := 1, managed := true, copies := [{ inst := 1, uptime := 12 }] },
   { pid := 2, managed := false, copies := [{ inst := 0, uptime := 1 }, { inst := 1, uptime := 2 }] },
   { pid := 3, managed := true, copies := [{ inst := 0, uptime := 50 }, { inst := 2, uptime := 0 }] }]

example : WF exampleView ∧ NoStopping exampleView := ⟨⟨by decide, by decide⟩, by unfold NoStopping; decide⟩
example : (modelObs .senicide exampleView).stops = [(0, 0), (0, 1), (3, 0)] := by decide
example : (modelObs .infanticide exampleView).stops = [(0, 2), (0, 0), (3, 2)] := by decide
example : (modelObs .restart exampleView).starts = [0, 3] := by decide
example : (modelObs .runningFailure exampleView).failJobs = [0, 3] ∧ (modelObs .runningFailure exampleView).failTriggered = true := by
  decide
example : ∃ v ∈ exampleView, inConflict v = true := ⟨_, List.mem_cons_self, by decide⟩
/-- the specification is relational on ties: keeping instance 0 instead of instance 2 (same minimal uptime) is accepted,
    keeping the older instance 1 is not -/
example : accepts .senicide exampleView { stops := [(0, 2), (0, 1), (3, 0)], starts := [], failJobs := [], failTriggered := false } = true := by
  decide
example : accepts .senicide exampleView { stops := [(0, 2), (0, 0), (3, 0)], starts := [], failJobs := [], failTriggered := false } = false := by
  decide
/-- only unmanaged duplicates: hypothesis of `C05_unmanaged_never` -/
example : ∀ v ∈ [exampleView[1], exampleView[2]], v.conflicting = true → v.managed = false := by decide

/-- a table for `C05_clean_exit`: process 0 listed on instances 0 and 1 (RUNNING), process 1 on instance 1 only -/
def exampleInfo (s : PState) : Supv.Proc.Info := { state := s, expected := true, ltime := 1, etime := 1, nowm := 9, disabled := false }
def exampleTbl : List Entry :=
  [{ pid := 0, managed := true,
     proc := { infos := [(0, exampleInfo .running), (1, exampleInfo .running), (2, exampleInfo .stopped)],
               running := [1, 0], state := .running } },
   { pid := 1, managed := true, proc := { infos := [(1, exampleInfo .running)], running := [1], state := .running } }]
def exampleUp : Nat → Nat → Nat := fun _ i => 10 * (i + 1)
/-- SENICIDE keeps instance 0 of process 0 (uptime 10 < 20): one stop command `(0, 1)`, acknowledged by EXITED -/
def exampleAcks : List Ack :=
  [{ pid := 0, inst := 1, state := .exited, expected := true, etime := 12, disabled := false, now := 13 }]

example : (exampleTbl.map (·.pid)).Nodup ∧ (∀ e ∈ exampleTbl, WFp e.proc) :=
  ⟨by decide, by intro e he; simp [exampleTbl] at he; rcases he with rfl | rfl <;> exact ⟨by decide, by decide⟩⟩
example : (modelObs .senicide (viewTbl exampleUp exampleTbl)).stops = [(0, 1)] := by decide
example : (∀ a ∈ exampleAcks, (a.pid, a.inst) ∈ (modelObs .senicide (viewTbl exampleUp exampleTbl)).stops
            ∧ a.state.isStopped = true)
    ∧ (∀ x ∈ (modelObs .senicide (viewTbl exampleUp exampleTbl)).stops, ∃ a ∈ exampleAcks, (a.pid, a.inst) = x) := by
  decide
example : conflicting (viewTbl exampleUp exampleTbl) = true
    ∧ conflicting (viewTbl exampleUp (afterAcks exampleTbl exampleAcks)) = false := by decide

/-- a Master in OPERATION whose oracle says: Starter idle, Stopper idle, conflict -/
def exampleCfg : Supv.Inst.Cfg :=
  { n := 2, me := 0, nickRank := [0, 1], core := [], initial := [0, 1], optStrict := false, optList := true,
    optTimeout := false, optCore := false, optUser := false, syncTimeout := 20480, inactivity := 2, autoFence := false,
    failStrat := .cont }
def exampleSt : Supv.Inst.St :=
  { peers := [{ state := .running }, { state := .running }],
    modes := [{ fsm := .operation, master := some 0 }, { fsm := .operation, master := some 0 }],
    oracle := [(.starterBusy, 0), (.stopperBusy, 0), (.conflicting, 1)] }
example : Supv.Conc.Fsm.IsMaster exampleCfg exampleSt := by decide
example : ∃ st', (Supv.Inst.nextOperation exampleCfg).run exampleSt = .ok (some Supv.Inst.SState.conciliation, st') := by
  obtain ⟨st', h⟩ := C05_detect exampleCfg exampleSt 0 0 1 [] (by decide) rfl
  exact ⟨st', by simpa using h⟩

end Supv.Props.C05
