import Supv.Lemmas.App

/-!
# C15 — Application state and operational status follow their definition

Property theorems only (helper lemmas: `Supv/Lemmas/App.lean`; model: `Supv/Model/App.lean`; specification:
`Supv/Spec/C15.lean`).  The model is tied to `supvisors/application.py` + `sparser.py::load_status` by the
correspondence of `harness/c15.py` (real `ApplicationStatus` / `ProcessStatus` / `ApplicationRules` / `Parser.load_status`).

Quantifier: every list of processes (any number, any combination of states, forced states, expected-exit flags,
required flags, start sequences), managed or not, every formula tree (every `ast` shape the evaluator tells apart),
every leaf resolution table, every stack budget.
-/

namespace Supv.Props.C15
open Supv.App Supv.Spec.C15

/-- the rows the statement looks at -/
abbrev rows (ps : List P) : List Row := ps.map rowOf

/-- the application state the statement defines -/
abbrev specState (ps : List P) : AState := stateOf (ps.map displayed)

/-- every pattern of the leaf table compiles, or `re.compile` raises one of the classes `_get_matches` maps to a parse
    error (`re.error`, `OverflowError`); excluded: any other exception of the regex compiler (e.g. `RecursionError`) -/
def LeavesHandled (L : List Leaf) : Prop := ∀ (k c : Nat), L[k]? = some (Leaf.reError c) → regexMapped c = true

/-! ### State -/

/-- **C15, state clause.**  The flag loop of `update_state` computes the declarative priority definition
    (STOPPING if any process is STOPPING, else STARTING if any is STARTING or BACKOFF, else RUNNING if any is RUNNING,
    else STOPPED) over the *displayed* states of ALL the processes, for every list of processes. -/
theorem C15_state_def (ps : List P) : updateState ps = stateOf (ps.map displayed) :=
  updateState_eq ps

/-- the state reported by `update` is that state whatever the formula (when no exception escapes) -/
theorem C15_state_reported (cfg : Cfg) (L : List Leaf) (ps : List P) (ld : Loaded) (s : Status)
    (h : update cfg L ps ld = .ok s) : s.state = stateOf (ps.map displayed) := by
  rw [update_rows] at h
  have hst : stateOf ((ps.map rowOf).map (·.disp)) = stateOf (ps.map displayed) := by
    rw [List.map_map]; rfl
  simp only at h
  split at h
  · cases h
  · injection h with h; subst h; exact hst
  · split at h
    · cases h
    · injection h with h; subst h; exact hst

/-! ### Required-based status -/

/-- **C15, required-based clause.**  Without a formula, `update` never raises and reports: the state of the
    definition; a major failure iff some required process is FATAL, UNKNOWN, unexpectedly EXITED, or STOPPED while
    the application is not STOPPED; a minor failure iff there is no major failure, the application is managed and
    some non-required process is FATAL, UNKNOWN or unexpectedly EXITED. -/
theorem C15_required_def (cfg : Cfg) (L : List Leaf) (ps : List P) :
    update cfg L ps .noTree = .ok { state := specState ps,
                                    major := majorOf (specState ps) (rows ps),
                                    minor := minorNarrow cfg.managed (specState ps) (rows ps) } := by
  rw [update_rows]
  have hst : stateOf ((ps.map rowOf).map (·.disp)) = stateOf (ps.map displayed) := by
    rw [List.map_map]; rfl
  simp only [statusTree, hst]

/-- the same for the strings the setter refuses (no parse, not exactly one statement, a statement that is not an
    expression) and when nothing is configured: the formula is ignored and the required-based status applies -/
theorem C15_ignored_required (cfg : Cfg) (L : List Leaf) (ps : List P) (t : Option Top)
    (ht : (∀ f, t ≠ some (.expr f)) ∧ (∀ c, t = some (.parserExc c) → c = 2 ∨ c = 3 ∨ c = 4)) :
    run cfg L ps t = .ok { state := specState ps,
                           major := majorOf (specState ps) (rows ps),
                           minor := minorNarrow cfg.managed (specState ps) (rows ps) } := by
  match t, ht with
  | none, _ => exact C15_required_def cfg L ps
  | some .syntaxError, _ => exact C15_required_def cfg L ps
  | some .multi, _ => exact C15_required_def cfg L ps
  | some .stmtNoValue, _ => exact C15_required_def cfg L ps
  | some .stmtValueNone, _ => exact C15_required_def cfg L ps
  | some (.stmtValue _), _ => exact C15_required_def cfg L ps
  | some (.parserExc c), h =>
    have hc := h.2 c rfl
    have : run cfg L ps (some (.parserExc c)) = run cfg L ps none := by simp [run, load, hc]
    rw [this]; exact C15_required_def cfg L ps
  | some (.expr f), h => exact absurd rfl (h.1 f)

/-! ### Formula-based status -/

/-- **C15, totality (partial: stack budget).**  For EVERY formula expression — every `ast` shape: callee that is not
    a name, `any`/`all` without argument, with several arguments or keywords, other functions, other operators, other
    constants, any other node — evaluated within the stack budget, when no pattern makes the regex compiler raise an
    unmapped exception: `update` returns Booleans, never an error, and the major failure is the negation of the
    denotation when the formula denotes a Boolean and `true` in every other case (construct outside the grammar, pattern
    matching nothing, invalid pattern, list where a Boolean is needed). -/
theorem C15_formula_total_partial (cfg : Cfg) (L : List Leaf) (ps : List P) (f : Formula)
    (hd : depth f ≤ cfg.stack) (hL : LeavesHandled L) :
    ∃ minor, run cfg L ps (some (.expr f))
      = .ok { state := specState ps, major := majorOfFormula L (rows ps) f, minor := minor } := by
  simp only [run, load]
  rw [update_rows]
  have hst : stateOf ((ps.map rowOf).map (·.disp)) = stateOf (ps.map displayed) := by
    rw [List.map_map]; rfl
  simp only [statusTree, formulaMajor_eq cfg L ps f hd hL, hst]
  exact ⟨_, rfl⟩

/-- **C15, soundness.**  For every formula of the statement's grammar (names and patterns combined with and / or /
    not / any(·) / all(·)) that denotes the Boolean `x`, the reported major failure is `!x`. -/
theorem C15_formula_sound (cfg : Cfg) (L : List Leaf) (ps : List P) (f : Formula) (x : Bool)
    (hd : depth f ≤ cfg.stack) (hL : LeavesHandled L)
    (hx : sem L (rows ps) f = some (.b x)) :
    wf f = true ∧
    ∃ minor, run cfg L ps (some (.expr f)) = .ok { state := specState ps, major := !x, minor := minor } := by
  obtain ⟨m, hm⟩ := C15_formula_total_partial cfg L ps f hd hL
  refine ⟨sem_some_wf L _ f _ hx, m, ?_⟩
  rw [hm]
  simp [majorOfFormula, hx]

/-- **C15, "any other construct, or a pattern matching nothing, yields a major failure" (partial: stack budget).**
    A formula that is outside the grammar, or that does not denote a Boolean, gives a major failure. -/
theorem C15_other_construct_major_partial (cfg : Cfg) (L : List Leaf) (ps : List P) (f : Formula)
    (hd : depth f ≤ cfg.stack) (hL : LeavesHandled L)
    (hno : wf f = false ∨ ∀ x, sem L (rows ps) f ≠ some (.b x)) :
    ∃ minor, run cfg L ps (some (.expr f)) = .ok { state := specState ps, major := true, minor := minor } := by
  obtain ⟨m, hm⟩ := C15_formula_total_partial cfg L ps f hd hL
  refine ⟨m, ?_⟩
  rw [hm]
  have : majorOfFormula L (rows ps) f = true := by
    rcases hno with h | h
    · exact majorOfFormula_not_wf L _ f h
    · unfold majorOfFormula
      cases hsem : sem L (rows ps) f with
      | none => rfl
      | some v =>
        cases v with
        | b x => exact absurd hsem (h x)
        | l xs => rfl
  rw [this]

/-- **C15, "rather than an error" at FULL STRENGTH.**  For EVERY formula expression, every process list and every stack budget
    (no hypothesis on the shape or the depth of the formula): loading + `update` never raises - no `AttributeError`,
    `IndexError`, `re.error`, `OverflowError`, and (since the repair of `update_status_formula`) no `RecursionError` either;
    a formula nested deeper than the interpreter stack allows is a major failure. -/
theorem C15_formula_never_raises (cfg : Cfg) (L : List Leaf) (ps : List P) (f : Formula) (hL : LeavesHandled L) :
    ∃ s, run cfg L ps (some (.expr f)) = .ok s := by
  simp only [run, load, update, statusTree, statusFormula, formulaMajor]
  cases hev : evaluate L ps cfg.stack f with
  | ok v => cases v <;> exact ⟨_, rfl⟩
  | error e' =>
    rcases evaluate_error L ps hL cfg.stack f e' hev with rfl | rfl
    · exact ⟨_, rfl⟩
    · exact ⟨_, rfl⟩

/-- beyond the stack budget the answer is a major failure -/
theorem C15_too_deep_is_major (cfg : Cfg) (L : List Leaf) (ps : List P) (f : Formula)
    (h : evaluate L ps cfg.stack f = .error .recursion) :
    ∃ s, run cfg L ps (some (.expr f)) = .ok s ∧ s.major = true := by
  simp only [run, load, update, statusTree, statusFormula, formulaMajor, h, handled]
  exact ⟨_, rfl, rfl⟩

/-- a pattern matching nothing, or an invalid pattern (`re.error`, `OverflowError`): major failure -/
theorem C15_nomatch_major (cfg : Cfg) (L : List Leaf) (ps : List P) (k : Nat)
    (hk : L[k]? = some (.matching []) ∨ L[k]? = some (.reError 0) ∨ L[k]? = some (.reError 1))
    (hstack : 1 ≤ cfg.stack) (hL : LeavesHandled L) :
    ∃ minor, run cfg L ps (some (.expr (.str k))) = .ok { state := specState ps, major := true, minor := minor } :=
  C15_other_construct_major_partial cfg L ps (.str k) (by simpa [depth] using hstack) hL
    (Or.inr (fun x => by rcases hk with hk | hk | hk <;> simp [sem, hk]))

/-- The full-strength clause WITH the denotation: for EVERY formula expression, every leaf table and every stack budget,
    `update` returns Booleans and the major failure is the one of the definition. -/
def C15_formula_total_statement : Prop :=
  ∀ (cfg : Cfg) (L : List Leaf) (ps : List P) (f : Formula),
    ∃ s, run cfg L ps (some (.expr f)) = .ok s ∧ s.major = majorOfFormula L (rows ps) f

/-- What is left of the former known finding `C15:evaluate:RecursionError:deep-nesting` after its repair: nothing raises any more
    (`C15_formula_never_raises`), but a formula nested deeper than the interpreter stack allows is answered "major failure"
    whatever it denotes - a limit of the host interpreter, not of the definition.  Witness (stack budget 2, `not not "a"` with
    `a` RUNNING: the definition says no major failure); with the real budget: 1400 nested `not`
    (`corpus/C15/fixed_deep_evaluate.json`). -/
theorem C15_formula_total_refuted : ¬ C15_formula_total_statement := by
  intro h
  obtain ⟨s, hs, hm⟩ := h { stack := 2 } [.exact 0] [{ state := .running }] (.notOp (.notOp (.str 0)))
  obtain ⟨s', hs', hm'⟩ := C15_too_deep_is_major { stack := 2 } [.exact 0] [{ state := .running }] (.notOp (.notOp (.str 0))) rfl
  rw [hs'] at hs
  injection hs with hs
  subst hs
  rw [hm'] at hm
  revert hm
  decide

/-! ### Strings that are not one expression -/

/-- the reading of DESIGN.md §7: ignored (the required-based status applies) or major failure; never an error -/
def C15_not_formula_statement : Prop :=
  ∀ (cfg : Cfg) (L : List Leaf) (ps : List P) (t : Top), (∀ f, t ≠ .expr f) →
    ∃ s, run cfg L ps (some t) = .ok s ∧
      (s.major = true ∨ requiredOk cfg.managed (rows ps) s.state s.major s.minor = true)

/-- the exceptions of `ast.parse` the setter catches (`ValueError`, `RecursionError` / `MemoryError` on very deep nesting,
    besides `SyntaxError`): the string is refused like any string that does not parse -/
theorem C15_parser_exception_ignored (cfg : Cfg) (L : List Leaf) (ps : List P) (c : Nat) (hc : c = 2 ∨ c = 3 ∨ c = 4) :
    run cfg L ps (some (.parserExc c)) = run cfg L ps none := by
  simp [run, load, hc]

/-- **C15, strings that are not one expression (full strength for what `ast.parse` can do).**  Strings that do not parse - a
    syntax error, or the parser giving up on very deep nesting (`RecursionError`, `MemoryError`; the former known findings
    `C15:setter:*:deep-nesting`, repaired) - that hold zero or several statements, and single statements that are not expressions
    (`import os`, `x = "a"`, `return`) are ignored: the required-based status applies, nothing raises. -/
theorem C15_not_formula (cfg : Cfg) (L : List Leaf) (ps : List P) (t : Top)
    (hne : ∀ f, t ≠ .expr f) (hnp : ∀ c, t = .parserExc c → c = 2 ∨ c = 3 ∨ c = 4) :
    ∃ s, run cfg L ps (some t) = .ok s ∧ requiredOk cfg.managed (rows ps) s.state s.major s.minor = true := by
  refine ⟨_, C15_ignored_required cfg L ps (some t) ⟨?_, ?_⟩, ?_⟩
  · intro f hf; injection hf with hf; exact hne f hf
  · intro c hc; injection hc with hc; exact hnp c hc
  · simp [requiredOk]

/-- the reading of DESIGN.md §7: ignored (the required-based status applies) or major failure; never an error -/
theorem C15_not_formula_statement_holds (cfg : Cfg) (L : List Leaf) (ps : List P) (t : Top)
    (hne : ∀ f, t ≠ .expr f) (hnp : ∀ c, t = .parserExc c → c = 2 ∨ c = 3 ∨ c = 4) :
    ∃ s, run cfg L ps (some t) = .ok s ∧
      (s.major = true ∨ requiredOk cfg.managed (rows ps) s.state s.major s.minor = true) := by
  obtain ⟨s, hs, hr⟩ := C15_not_formula cfg L ps t hne hnp
  exact ⟨s, hs, Or.inr hr⟩

/-! ### Frame -/

/-- **C15, frame.**  The result of `update` (state, major, minor, or the escaping exception) depends on the
    processes only through their displayed states, expected-exit flags and required flags: two process lists with
    the same rows — whatever their raw states, forced states and start sequences — give the same result, for every
    configuration, leaf table and loaded formula. -/
theorem C15_frame (cfg : Cfg) (L : List Leaf) (ps ps' : List P) (ld : Loaded)
    (h : ps.map rowOf = ps'.map rowOf) : update cfg L ps ld = update cfg L ps' ld := by
  rw [update_rows, update_rows]
  have hf : ∀ f, formulaMajor L ps cfg.stack f = formulaMajor L ps' cfg.stack f := by
    intro f
    unfold formulaMajor
    rw [evaluate_congr L ps ps' (upAt_congr ps ps' h)]
  simp only [h, hf]

/-- a forced state is all that counts: forcing a STOPPED process to RUNNING or having it RUNNING is the same -/
example (cfg : Cfg) (L : List Leaf) (ld : Loaded) (q : P) :
    update cfg L [{ state := .stopped, forced := some .running, startSeq := 3 }, q] ld
      = update cfg L [{ state := .running }, q] ld :=
  C15_frame cfg L _ _ ld rfl

/-! ### The judge accepts the model wherever the theorems apply (the specification is not vacuous) -/

/-- without a formula the judge accepts what the model reports, for every process list -/
theorem C15_judge_accepts_required (cfg : Cfg) (L : List Leaf) (ps : List P) :
    judge cfg.managed L ps none
      (.status (specState ps) (majorOf (specState ps) (rows ps)) (minorNarrow cfg.managed (specState ps) (rows ps)))
      = none := by
  have hst : ((fun x : Row => x.disp) ∘ rowOf) = displayed := rfl
  simp [judge, hst, requiredOk]

/-- with a formula the judge accepts what the model reports under `C15_formula_total_partial` -/
theorem C15_judge_accepts_formula (cfg : Cfg) (L : List Leaf) (ps : List P) (f : Formula) (minor : Bool) :
    judge cfg.managed L ps (some (.expr f)) (.status (specState ps) (majorOfFormula L (rows ps) f) minor) = none := by
  have hst : ((fun x : Row => x.disp) ∘ rowOf) = displayed := rfl
  simp [judge, hst]

/-! ### Non-vacuity: the hypotheses are satisfiable by non-trivial values -/

/-- `all("web.*") and not "db"` over web_1 RUNNING, web_2 STARTING, db FATAL: in the grammar, depth 3, denotes `true`:
    no major failure; db (not required, sequenced) gives a minor failure -/
example :
    let f : Formula := .boolOp true [.call .all [.str 0] 0, .notOp (.str 1)]
    let L : List Leaf := [.matching [0, 1], .exact 2]
    let ps : List P := [{ state := .running }, { state := .starting }, { state := .fatal }]
    wf f = true ∧ depth f ≤ ({} : Cfg).stack ∧ sem L (rows ps) f = some (.b true)
      ∧ run {} L ps (some (.expr f)) = .ok { state := .starting, major := false, minor := true } :=
  ⟨rfl, by decide, rfl, rfl⟩

example : LeavesHandled [.matching [0, 1], .exact 2, .reError 0] := by
  intro k c h
  match k with
  | 0 => simp at h
  | 1 => simp at h
  | 2 => simp at h; subst h; rfl
  | k + 3 => simp at h

/-- the shapes repaired in `/repo` (regression cases `corpus/C15/kf_*.json`): `os.system("x")`, `all()`,
    `all("a", "b")` with b FATAL, an invalid pattern, `len("a") or 1`, a pattern matching nothing: major failure;
    `import os` and `x = "a"` with a required FATAL process: ignored, the required-based major failure is reported -/
example :
    let L : List Leaf := [.exact 0, .exact 1, .reError 0, .matching []]
    let ps : List P := [{ state := .running }, { state := .fatal }]
    let bad : Except Err Status := .ok { state := .running, major := true, minor := false }
    run {} L ps (some (.expr (.call .notName [.str 0] 0))) = bad
    ∧ run {} L ps (some (.expr (.call .all [] 0))) = bad
    ∧ run {} L ps (some (.expr (.call .all [.str 0, .str 1] 0))) = bad
    ∧ run {} L ps (some (.expr (.call .any [.str 0] 1))) = bad
    ∧ run {} L ps (some (.expr (.str 2))) = bad
    ∧ run {} L ps (some (.expr (.boolOp false [.call .otherName [.str 0] 0, .const]))) = bad
    ∧ run {} L ps (some (.expr (.str 3))) = bad
    ∧ run {} L [{ state := .running }, { state := .fatal, required := true }] (some .stmtNoValue) = bad
    ∧ run {} L [{ state := .running }, { state := .fatal, required := true }] (some (.stmtValue (.str 0))) = bad :=
  ⟨rfl, rfl, rfl, rfl, rfl, rfl, rfl, rfl, rfl⟩

/-- required-based: STOPPING wins over STARTING; a required STOPPED process of a non-stopped application is a major
    failure; a non-required FATAL one of a managed application is a minor failure only without a major one -/
example :
    run {} [] [{ state := .stopping }, { state := .backoff }, { state := .stopped, required := true }] none
      = .ok { state := .stopping, major := true, minor := false }
    ∧ run {} [] [{ state := .running }, { state := .exited, expected := false }] none
      = .ok { state := .running, major := false, minor := true }
    ∧ run { managed := false } [] [{ state := .running }, { state := .exited, expected := false }] none
      = .ok { state := .running, major := false, minor := false } :=
  ⟨rfl, rfl, rfl⟩

end Supv.Props.C15
