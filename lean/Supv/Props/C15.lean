import Supv.Lemmas.App

/-!
# C15 — Application state and operational status follow their definition

Property theorems only (helper lemmas: `Supv/Lemmas/App.lean`; model: `Supv/Model/App.lean`; specification:
`Supv/Spec/C15.lean`).  The model is tied to `supvisors/application.py` + `sparser.py::load_status` by the
correspondence of `harness/c15.py` (real `ApplicationStatus` / `ProcessStatus` / `ApplicationRules` / `Parser.load_status`).

Quantifier: every list of processes (any number, any combination of states, forced states, expected-exit flags,
required flags, start sequences), managed or not, every formula tree (every `ast` shape the evaluator tells apart),
every leaf resolution table, every stack budget.
-/

namespace Supv.Props.C15
open Supv.App Supv.Spec.C15

/-- the rows the statement looks at -/
abbrev rows (ps : List P) : List Row := ps.map rowOf

/-- the application state the statement defines -/
abbrev specState (ps : List P) : AState := stateOf (ps.map displayed)

/-- every pattern of the leaf table compiles (an invalid regular expression is an input class of its own) -/
def LeavesCompile (L : List Leaf) : Prop := ∀ (k c : Nat), L[k]? ≠ some (Leaf.reError c)

/-! ### State -/

/-- **C15, state clause.**  The flag loop of `update_state` computes the declarative priority definition
    (STOPPING if any process is STOPPING, else STARTING if any is STARTING or BACKOFF, else RUNNING if any is RUNNING,
    else STOPPED) over the *displayed* states of ALL the processes, for every list of processes. -/
theorem C15_state_def (ps : List P) : updateState ps = stateOf (ps.map displayed) :=
  updateState_eq ps

/-- the state reported by `update` is that state whatever the formula (when no exception escapes) -/
theorem C15_state_reported (cfg : Cfg) (L : List Leaf) (ps : List P) (ld : Loaded) (s : Status)
    (h : update cfg L ps ld = .ok s) : s.state = stateOf (ps.map displayed) := by
  rw [update_rows] at h
  have hst : stateOf ((ps.map rowOf).map (·.disp)) = stateOf (ps.map displayed) := by
    rw [List.map_map]; rfl
  simp only at h
  split at h
  · cases h
  · injection h with h; subst h; exact hst
  · split at h
    · cases h
    · injection h with h; subst h; exact hst

/-! ### Required-based status -/

/-- **C15, required-based clause.**  Without a formula, `update` never raises and reports: the state of the
    definition; a major failure iff some required process is FATAL, UNKNOWN, unexpectedly EXITED, or STOPPED while
    the application is not STOPPED; a minor failure iff there is no major failure, the application is managed and
    some non-required process is FATAL, UNKNOWN or unexpectedly EXITED. -/
theorem C15_required_def (cfg : Cfg) (L : List Leaf) (ps : List P) :
    update cfg L ps .noTree = .ok { state := specState ps,
                                    major := majorOf (specState ps) (rows ps),
                                    minor := minorNarrow cfg.managed (specState ps) (rows ps) } := by
  rw [update_rows]
  have hst : stateOf ((ps.map rowOf).map (·.disp)) = stateOf (ps.map displayed) := by
    rw [List.map_map]; rfl
  simp only [statusTree, hst]

/-- the same for the strings the setter refuses (no parse, not exactly one statement), for a statement whose `value`
    is `None`, and when nothing is configured: the formula is ignored and the required-based status applies -/
theorem C15_ignored_required (cfg : Cfg) (L : List Leaf) (ps : List P) (t : Option Top)
    (ht : t = none ∨ t = some .syntaxError ∨ t = some .multi ∨ t = some .stmtValueNone) :
    run cfg L ps t = .ok { state := specState ps,
                           major := majorOf (specState ps) (rows ps),
                           minor := minorNarrow cfg.managed (specState ps) (rows ps) } := by
  rcases ht with rfl | rfl | rfl | rfl
  · exact C15_required_def cfg L ps
  · exact C15_required_def cfg L ps
  · exact C15_required_def cfg L ps
  · simp only [run, load]
    rw [update_rows]
    have hst : stateOf ((ps.map rowOf).map (·.disp)) = stateOf (ps.map displayed) := by
      rw [List.map_map]; rfl
    simp only [statusTree, hst]

/-! ### Formula-based status -/

/-- **C15, totality (partial).**  For every formula expression without one of the shapes recorded as known findings
    (`Strict`: every callee is a name, every `any`/`all` call has exactly one positional argument and no keyword),
    nested no deeper than the stack budget, when every pattern compiles: `update` returns Booleans, never an error,
    and the major failure is the negation of the denotation when the formula denotes a Boolean and `true` in every
    other case (construct outside the grammar, pattern matching nothing, list where a Boolean is needed). -/
theorem C15_formula_total_partial (cfg : Cfg) (L : List Leaf) (ps : List P) (f : Formula)
    (hs : Strict f = true) (hd : depth f ≤ cfg.stack) (hL : LeavesCompile L) :
    ∃ minor, run cfg L ps (some (.expr f))
      = .ok { state := specState ps, major := majorOfFormula L (rows ps) f, minor := minor } := by
  simp only [run, load]
  rw [update_rows]
  have hst : stateOf ((ps.map rowOf).map (·.disp)) = stateOf (ps.map displayed) := by
    rw [List.map_map]; rfl
  simp only [statusTree, formulaMajor_strict cfg L ps f hs hd hL, hst]
  exact ⟨_, rfl⟩

/-- **C15, soundness.**  For every formula of the statement's grammar (names and patterns combined with and / or /
    not / any(·) / all(·)) that denotes the Boolean `x`, the reported major failure is `!x`. -/
theorem C15_formula_sound (cfg : Cfg) (L : List Leaf) (ps : List P) (f : Formula) (x : Bool)
    (hw : wf f = true) (hd : depth f ≤ cfg.stack) (hL : LeavesCompile L)
    (hx : sem L (rows ps) f = some (.b x)) :
    ∃ minor, run cfg L ps (some (.expr f)) = .ok { state := specState ps, major := !x, minor := minor } := by
  obtain ⟨m, hm⟩ := C15_formula_total_partial cfg L ps f (wf_strict f hw) hd hL
  refine ⟨m, ?_⟩
  rw [hm]
  simp [majorOfFormula, hx]

/-- **C15, "any other construct, or a pattern matching nothing, yields a major failure" (partial).**
    Under the hypotheses of `C15_formula_total_partial`, a formula that is outside the grammar, or that does not denote
    a Boolean, gives a major failure. -/
theorem C15_other_construct_major_partial (cfg : Cfg) (L : List Leaf) (ps : List P) (f : Formula)
    (hs : Strict f = true) (hd : depth f ≤ cfg.stack) (hL : LeavesCompile L)
    (hno : wf f = false ∨ ∀ x, sem L (rows ps) f ≠ some (.b x)) :
    ∃ minor, run cfg L ps (some (.expr f)) = .ok { state := specState ps, major := true, minor := minor } := by
  obtain ⟨m, hm⟩ := C15_formula_total_partial cfg L ps f hs hd hL
  refine ⟨m, ?_⟩
  rw [hm]
  have : majorOfFormula L (rows ps) f = true := by
    rcases hno with h | h
    · exact majorOfFormula_not_wf L _ f h
    · unfold majorOfFormula
      cases hsem : sem L (rows ps) f with
      | none => rfl
      | some v =>
        cases v with
        | b x => exact absurd hsem (h x)
        | l xs => rfl
  rw [this]

/-- a pattern matching nothing: major failure (instance of the previous theorem, stated on the leaf itself) -/
theorem C15_nomatch_major (cfg : Cfg) (L : List Leaf) (ps : List P) (k : Nat) (hk : L[k]? = some (.matching []))
    (hstack : 1 ≤ cfg.stack) (hL : LeavesCompile L) :
    ∃ minor, run cfg L ps (some (.expr (.str k))) = .ok { state := specState ps, major := true, minor := minor } :=
  C15_other_construct_major_partial cfg L ps (.str k) (by simp [Strict]) (by simpa [depth] using hstack) hL
    (Or.inr (fun x => by simp [sem, hk]))

/-- The full-strength totality clause: for EVERY formula expression, every leaf table and every stack budget,
    `update` returns Booleans and the major failure is the one of the definition. -/
def C15_formula_total_statement : Prop :=
  ∀ (cfg : Cfg) (L : List Leaf) (ps : List P) (f : Formula),
    ∃ s, run cfg L ps (some (.expr f)) = .ok s ∧ s.major = majorOfFormula L (rows ps) f

/-- Known finding `C15:evaluate:AttributeError:call-func-not-name`: `os.system("x")` makes `evaluate` raise
    `AttributeError` (`node.func.id`), which `update_status_formula` does not handle.
    Witness replayed on the implementation by `corpus/C15/kf_call_func_not_name.json`. -/
theorem C15_formula_total_refuted : ¬ C15_formula_total_statement := by
  intro h
  obtain ⟨s, hs, _⟩ := h {} [.exact 0] [{ state := .running }] (.call .notName [.str 0] 0)
  have : run {} [.exact 0] [{ state := .running }] (some (.expr (.call .notName [.str 0] 0)))
      = .error .calleeAttr := rfl
  rw [this] at hs
  cases hs

/-- the other exception classes of the same finding family, each with its witness (replayed by `corpus/C15/kf_*.json`):
    `all()` — `IndexError`; an invalid regular expression — `re.error`; nesting beyond the stack — `RecursionError` -/
theorem C15_formula_total_refuted_witnesses :
    run {} [] [] (some (.expr (.call .all [] 0))) = .error .noArg
    ∧ run {} [.reError 0] [] (some (.expr (.str 0))) = .error (.regex 0)
    ∧ run { stack := 2 } [.exact 0] [{ state := .running }] (some (.expr (.notOp (.notOp (.str 0))))) = .error .recursion :=
  ⟨rfl, rfl, rfl⟩

/-- Known finding `C15:formula-major:call-extra-args-ignored`: `all("a", "b")` with `b` FATAL reports no major
    failure — the second argument is silently dropped (the definition gives a major failure: not in the grammar). -/
theorem C15_extra_args_ignored :
    run {} [.exact 0, .exact 1] [{ state := .running }, { state := .fatal }]
        (some (.expr (.call .all [.str 0, .str 1] 0)))
      = .ok { state := .running, major := false, minor := true }
    ∧ majorOfFormula [.exact 0, .exact 1] (rows [{ state := .running }, { state := .fatal }])
        (.call .all [.str 0, .str 1] 0) = true :=
  ⟨rfl, rfl⟩

/-! ### Strings that are not one expression -/

/-- the reading of DESIGN.md §7: ignored (the required-based status applies) or major failure; never an error -/
def C15_not_formula_statement : Prop :=
  ∀ (cfg : Cfg) (L : List Leaf) (ps : List P) (t : Top), (∀ f, t ≠ .expr f) →
    ∃ s, run cfg L ps (some t) = .ok s ∧
      (s.major = true ∨ requiredOk cfg.managed (rows ps) s.state s.major s.minor = true)

/-- Known finding `C15:status_tree:AttributeError:stmt-without-value`: `import os` (one statement, not an expression,
    no `value` attribute) is stored by the setter and makes `status_tree` raise `AttributeError` at every `update`. -/
theorem C15_not_formula_refuted : ¬ C15_not_formula_statement := by
  intro h
  obtain ⟨s, hs, _⟩ := h {} [] [] .stmtNoValue (by intro f hf; cases hf)
  have : run {} [] [] (some .stmtNoValue) = .error .stmtAttr := rfl
  rw [this] at hs
  cases hs

/-- Known finding `C15:not-a-formula:stmt-value-evaluated`: `x = "a"` (an assignment) is evaluated as the formula
    `"a"`: with `a` RUNNING and a required process `b` FATAL no major failure is reported, although the
    required-based status has one. -/
theorem C15_stmt_value_evaluated :
    run {} [.exact 0] [{ state := .running }, { state := .fatal, required := true }] (some (.stmtValue (.str 0)))
      = .ok { state := .running, major := false, minor := true }
    ∧ majorOf .running (rows [{ state := .running }, { state := .fatal, required := true }]) = true :=
  ⟨rfl, rfl⟩

/-- the two exceptions that escape the loading itself (`ast.parse` raising something else than `SyntaxError`:
    `RecursionError` / `MemoryError` on very deep nesting) -/
theorem C15_parser_exception_escapes (cfg : Cfg) (L : List Leaf) (ps : List P) (c : Nat) :
    run cfg L ps (some (.parserExc c)) = .error (.parser c) := rfl

/-- **C15, strings that are not one expression (partial).**  Strings that do not parse, that hold zero or several
    statements, and single statements whose value is `None` are ignored: the required-based status applies
    (excluded: the statement kinds of the two known findings above, and parser exceptions). -/
theorem C15_not_formula_partial (cfg : Cfg) (L : List Leaf) (ps : List P) (t : Top)
    (ht : t = .syntaxError ∨ t = .multi ∨ t = .stmtValueNone) :
    ∃ s, run cfg L ps (some t) = .ok s ∧ requiredOk cfg.managed (rows ps) s.state s.major s.minor = true := by
  refine ⟨_, C15_ignored_required cfg L ps (some t) ?_, ?_⟩
  · rcases ht with rfl | rfl | rfl <;> simp
  · simp [requiredOk]

/-! ### Frame -/

/-- **C15, frame.**  The result of `update` (state, major, minor, or the escaping exception) depends on the
    processes only through their displayed states, expected-exit flags and required flags: two process lists with
    the same rows — whatever their raw states, forced states and start sequences — give the same result, for every
    configuration, leaf table and loaded formula. -/
theorem C15_frame (cfg : Cfg) (L : List Leaf) (ps ps' : List P) (ld : Loaded)
    (h : ps.map rowOf = ps'.map rowOf) : update cfg L ps ld = update cfg L ps' ld := by
  rw [update_rows, update_rows]
  have hf : ∀ f, formulaMajor L ps cfg.stack f = formulaMajor L ps' cfg.stack f := by
    intro f
    unfold formulaMajor
    rw [evaluate_congr L ps ps' (upAt_congr ps ps' h)]
  simp only [h, hf]

/-- a forced state is all that counts: forcing a STOPPED process to RUNNING or having it RUNNING is the same -/
example (cfg : Cfg) (L : List Leaf) (ld : Loaded) (q : P) :
    update cfg L [{ state := .stopped, forced := some .running, startSeq := 3 }, q] ld
      = update cfg L [{ state := .running }, q] ld :=
  C15_frame cfg L _ _ ld rfl

/-! ### The judge accepts the model wherever the theorems apply (the specification is not vacuous) -/

/-- without a formula the judge accepts what the model reports, for every process list -/
theorem C15_judge_accepts_required (cfg : Cfg) (L : List Leaf) (ps : List P) :
    judge cfg.managed L ps none
      (.status (specState ps) (majorOf (specState ps) (rows ps)) (minorNarrow cfg.managed (specState ps) (rows ps)))
      = none := by
  have hst : ((fun x : Row => x.disp) ∘ rowOf) = displayed := rfl
  simp [judge, hst, requiredOk]

/-- with a strict formula the judge accepts what the model reports -/
theorem C15_judge_accepts_formula (cfg : Cfg) (L : List Leaf) (ps : List P) (f : Formula) (minor : Bool) :
    judge cfg.managed L ps (some (.expr f)) (.status (specState ps) (majorOfFormula L (rows ps) f) minor) = none := by
  have hst : ((fun x : Row => x.disp) ∘ rowOf) = displayed := rfl
  simp [judge, hst]

/-! ### Non-vacuity: the hypotheses are satisfiable by non-trivial values -/

/-- `all("web.*") and not "db"` over web_1 RUNNING, web_2 STARTING, db FATAL: in the grammar, strict, depth 3,
    denotes `true`: no major failure; db (not required, sequenced) gives a minor failure -/
example :
    let f : Formula := .boolOp true [.call .all [.str 0] 0, .notOp (.str 1)]
    let L : List Leaf := [.matching [0, 1], .exact 2]
    let ps : List P := [{ state := .running }, { state := .starting }, { state := .fatal }]
    wf f = true ∧ Strict f = true ∧ depth f ≤ ({} : Cfg).stack ∧ sem L (rows ps) f = some (.b true)
      ∧ run {} L ps (some (.expr f)) = .ok { state := .starting, major := false, minor := true } :=
  ⟨rfl, rfl, by decide, rfl, rfl⟩

example : LeavesCompile [.matching [0, 1], .exact 2] := by
  intro k c h
  match k with
  | 0 => simp at h
  | 1 => simp at h
  | k + 2 => simp at h

/-- a strict formula outside the grammar (`len("a") or 1`), and a pattern matching nothing: major failure -/
example : run {} [.exact 0, .matching []] [{ state := .running }]
      (some (.expr (.boolOp false [.call .otherName [.str 0] 0, .const])))
    = .ok { state := .running, major := true, minor := false }
  ∧ run {} [.exact 0, .matching []] [{ state := .running }] (some (.expr (.str 1)))
    = .ok { state := .running, major := true, minor := false } :=
  ⟨rfl, rfl⟩

/-- required-based: STOPPING wins over STARTING; a required STOPPED process of a non-stopped application is a major
    failure; a non-required FATAL one of a managed application is a minor failure only without a major one -/
example :
    run {} [] [{ state := .stopping }, { state := .backoff }, { state := .stopped, required := true }] none
      = .ok { state := .stopping, major := true, minor := false }
    ∧ run {} [] [{ state := .running }, { state := .exited, expected := false }] none
      = .ok { state := .running, major := false, minor := true }
    ∧ run { managed := false } [] [{ state := .running }, { state := .exited, expected := false }] none
      = .ok { state := .running, major := false, minor := false } :=
  ⟨rfl, rfl, rfl⟩

end Supv.Props.C15
