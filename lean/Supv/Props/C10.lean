import Supv.Lemmas.Strat
import Supv.Props.C14

/-!
# C10 — Every start/stop job terminates in bounded ticks whatever gets lost

Model: `Supv.Cmd` (`ProcessStartCommand.timed_out`, `ProcessStopCommand.timed_out`, `ApplicationJobs.check`), validated in
lock-step with the real Starter / Stopper; `DEFAULT_TICK_TIMEOUT` and the tick period are read from the source on every run.
-/

namespace Supv.Props.C10
open Supv.Cmd Supv.Proc

/-- the constants of the current source -/
theorem C10_constants : minTicks = 2 ∧ Supv.Gen.tickPeriod = 5 := by decide

/-- **C10 (a start request is given up in time).**  At a periodic check, a start request whose target has not acknowledged it
    (no STARTING / BACKOFF / RUNNING report) is given up as soon as the target's tick counter exceeds the request counter by
    more than the tick margin; once acknowledged, as soon as it exceeds it by more than the margin plus ceil(startsecs / 5).
    The only state in which it can wait for ever is RUNNING with wait_exit (the documented exception). -/
theorem C10_start_given_up (waitExit ignore : Bool) (state : PState) (req cnt secs : Nat) :
    (state ≠ .running → state ≠ .starting → state ≠ .backoff → cnt > req + minTicks →
        startCheckResult waitExit ignore state req (waitTicksOf secs) cnt = 3)
    ∧ ((state = .starting ∨ state = .backoff) → cnt > req + waitTicksOf secs →
        startCheckResult waitExit ignore state req (waitTicksOf secs) cnt = 3)
    ∧ (state = .running → startCheckResult waitExit ignore state req (waitTicksOf secs) cnt = (if waitExit && !ignore then 0 else 1))
    ∧ (startCheckResult waitExit ignore state req (waitTicksOf secs) cnt = 0 →
        (state = .running ∧ waitExit = true ∧ ignore = false) ∨ cnt ≤ req + waitTicksOf secs) := by
  unfold startCheckResult
  refine ⟨?_, ?_, ?_, ?_⟩
  · intro h1 h2 h3 h4; simp [h1, h2, h3, h4]
  · intro h h4; rcases h with h | h <;> simp [h, h4]
  · intro h; simp [h]
  · intro h
    by_cases hr : state = .running
    · left
      simp [hr] at h
      exact ⟨hr, h.1, h.2⟩
    · right
      simp only [hr, if_false] at h
      have hmin : minTicks ≤ waitTicksOf secs := by unfold waitTicksOf; omega
      split at h
      · split at h <;> simp at h; omega
      · split at h <;> simp at h; omega

/-- **C10 (a stop request is given up in time).** -/
theorem C10_stop_given_up (state : PState) (req cnt secs : Nat) :
    (state = .stopping → cnt > req + waitTicksOf secs → stopCheckResult state req (waitTicksOf secs) cnt = 3)
    ∧ (state.isStopped = false → state ≠ .stopping → cnt > req + minTicks → stopCheckResult state req (waitTicksOf secs) cnt = 3)
    ∧ (stopCheckResult state req (waitTicksOf secs) cnt = 0 → cnt ≤ req + waitTicksOf secs) := by
  unfold stopCheckResult
  refine ⟨?_, ?_, ?_⟩
  · intro h h2; simp [h]; omega
  · intro h1 h2 h3; simp [h1, h2, h3]
  · intro h
    have hmin : minTicks ≤ waitTicksOf secs := by unfold waitTicksOf; omega
    split at h
    · split at h <;> simp at h; omega
    · split at h
      · simp at h
      · split at h <;> simp at h; omega

/-- **C10 (the bound in ticks).**  The wait is `ceil(secs / 5) + 2` target ticks: at most `secs / 5 + 3`. -/
theorem C10_wait_ticks_bound (secs : Nat) : waitTicksOf secs ≤ secs / 5 + 3 ∧ 2 ≤ waitTicksOf secs := by
  have h := C10_constants
  unfold waitTicksOf ceilDiv
  rw [h.1, h.2]
  omega

/-- **C10 (BACKOFF re-arms, nothing else does).**  Among the reports of the target, only BACKOFF re-arms the request counter. -/
theorem C10_only_backoff_rearms (waitExit ignore : Bool) (v : Info) :
    (startEventResult waitExit ignore v).2 = true ↔ v.state = .backoff := by
  unfold startEventResult
  cases v.state <;> simp <;> split <;> simp


/-! ## A job is not complete while one of its sequence groups is being processed

`ApplicationJobs.next` processes the commands of a group one by one; a command that cannot be performed (no resource) forces a
FATAL event that re-enters `Commander.next` from inside that loop.  Repaired defect `C10:start-request-untracked` (and
`C03:stop-strategy-dropped-with-job`): the job, whose planned and current lists may both be empty at that instant, used to be
declared complete and dropped although the loop went on sending the requests of the remaining commands - requests nobody
followed any more.  `processing_group` now keeps it in progress. -/

/-- whatever its lists, a job whose group is being processed is in progress: `Commander.next` (`starterNext`: only jobs that
    are not in progress are removed and handed to `after`) cannot drop it -/
theorem C10_processing_job_in_progress (j : AppJobs) (h : j.processing = true) : jobInProgress j = true := by
  simp [jobInProgress, h]

/-- and outside that window nothing changed: in progress iff something is planned or pending -/
theorem C10_in_progress_outside_processing (j : AppJobs) (h : j.processing = false) :
    jobInProgress j = (!j.planned.isEmpty || !j.current.isEmpty) := by
  simp [jobInProgress, h]

/-! ## The target instance is lost

The time-outs above are counted in the ticks of the TARGET: a request that targets an instance which is not seen RUNNING any more
would never be given up.  `on_instances_invalidation` therefore removes the lost instances from the job: the pending requests are
dropped (`startJobInvalidation`, first part), and - fix 36715a1 - the planned commands of a non-distributed application, whose
instance was assigned when the job started, are assigned again (`retargetPlanned`). -/

/-- the command does not target a lost instance -/
def CleanCmd (lost : List Nat) (c : Command) : Prop := ∀ i, c.target = some i → i ∉ lost

theorem clean_of_not_any (lost : List Nat) (c : Command) (h : c.target.any (fun i => lost.contains i) = false) : CleanCmd lost c := by
  intro i hi hm
  rw [hi] at h
  simp at h
  exact h hm

/-- what `on_command_added` gives a command whose identifier has been cleared never targets an instance that is not RUNNING -/
theorem retarget_one_clean (w : W) (lost : List Nat) (view : AppJobs) (c : Command)
    (hl : ∀ i ∈ lost, w.instRunning.getD i false = false) :
    CleanCmd lost (match onCommandAdded w view { c with target := none } with | .ok c' => c' | .err _ => { c with target := none }) := by
  cases h : onCommandAdded w view { c with target := none } with
  | err e => intro i hi; cases hi
  | ok c' =>
    rcases Supv.Props.C14.C14_command_added w view _ c' h with he | ⟨i, _, ht, _, _, hrun, _⟩
    · subst he; intro i hi; cases hi
    · intro k hk hm
      rw [ht] at hk; cases hk
      rw [hl i hm] at hrun; cases hrun

/-- `on_command_added` never raises: the instance it gives a command is taken among the selected ones that know the program
    (`get_applicable_identifiers`, repair a6190c1), so `update_identifier` finds its information.  This is what makes the fallback
    branch of `retargetCmds` (model only) unreachable. -/
theorem C10_on_command_added_never_raises (w : W) (j : AppJobs) (c : Command) : ∃ c', onCommandAdded w j c = .ok c' := by
  unfold onCommandAdded
  split
  · exact ⟨_, rfl⟩
  · split
    · exact ⟨_, rfl⟩
    · split
      · rename_i i hi
        obtain ⟨_, hmem, _, _⟩ := Supv.Props.C14.C14_choice_valid w _ _ _ _ i hi
        have hen : enabledOn w c.proc i = true := by
          have := (List.mem_filter.mp hmem).2
          simpa using this
        unfold enabledOn at hen
        cases hg : getInfo (w.procs.getD c.proc {}).infos i with
        | none => rw [hg] at hen; cases hen
        | some v =>
          refine ⟨{ c with target := some i, waitTicks := waitTicksOf (w.pcfg.getD c.proc default).startsecs }, ?_⟩
          unfold updateIdentifier
          rw [hg]
      · exact ⟨_, rfl⟩

theorem retargetCmds_clean (w : W) (lost : List Nat) (j0 : AppJobs) (preG postG : List (Nat × List Command)) (seq : Nat)
    (hl : ∀ i ∈ lost, w.instRunning.getD i false = false) :
    ∀ (todo preC : List Command), (∀ c ∈ preC, CleanCmd lost c) →
      ∀ c ∈ retargetCmds w lost j0 preG postG seq preC todo, CleanCmd lost c := by
  intro todo
  induction todo with
  | nil => intro preC h c hc; exact h c hc
  | cons c0 rest ih =>
    intro preC h c hc
    unfold retargetCmds at hc
    split at hc
    · refine ih _ ?_ c hc
      intro x hx
      rcases List.mem_append.mp hx with hx | hx
      · exact h x hx
      · rw [List.mem_singleton.mp hx]; exact retarget_one_clean w lost _ c0 hl
    · rename_i hd
      refine ih _ ?_ c hc
      intro x hx
      rcases List.mem_append.mp hx with hx | hx
      · exact h x hx
      · rw [List.mem_singleton.mp hx]; exact clean_of_not_any lost c0 (by simpa using hd)

theorem retargetGroups_clean (w : W) (lost : List Nat) (j0 : AppJobs) (hl : ∀ i ∈ lost, w.instRunning.getD i false = false) :
    ∀ (todo preG : List (Nat × List Command)), (∀ g ∈ preG, ∀ c ∈ g.2, CleanCmd lost c) →
      ∀ g ∈ retargetGroups w lost j0 preG todo, ∀ c ∈ g.2, CleanCmd lost c := by
  intro todo
  induction todo with
  | nil => intro preG h g hg; exact h g hg
  | cons g0 rest ih =>
    intro preG h g hg
    unfold retargetGroups at hg
    refine ih _ ?_ g hg
    intro x hx
    rcases List.mem_append.mp hx with hx | hx
    · exact h x hx
    · rw [List.mem_singleton.mp hx]
      exact retargetCmds_clean w lost j0 preG rest g0.1 hl g0.2 [] (by intro c hc; cases hc)

/-- **C10 / C04 (the target instance is lost before the request is sent).**  After `on_instances_invalidation`, no planned command
    of a non-distributed application targets a lost instance any more - for every job, every set of lost instances (none of them
    seen RUNNING: `invalidate_failed` has just marked them) and every plan: the request `process_job` sends later goes to an
    instance chosen again among the selected ones that are seen RUNNING, or the start fails with 'No resource available'. -/
theorem C10_lost_target_planned_retargeted (w : W) (lost : List Nat) (j : AppJobs)
    (hd : (w.acfg.getD j.app default).distribution ≠ .all)
    (hl : ∀ i ∈ lost, w.instRunning.getD i false = false) :
    ∀ g ∈ (retargetPlanned w lost j).planned, ∀ c ∈ g.2, CleanCmd lost c := by
  unfold retargetPlanned
  rw [if_neg hd]
  exact retargetGroups_clean w lost _ hl _ [] (by intro g hg; cases hg)

/-- the same through `startJobInvalidation` (what the Starter calls for each of its jobs) -/
theorem C10_lost_target_after_invalidation (w : W) (lost : List Nat) (j : AppJobs) (failed : List Nat)
    (hd : (w.acfg.getD j.app default).distribution ≠ .all)
    (hl : ∀ i ∈ lost, w.instRunning.getD i false = false) :
    ∀ g ∈ (startJobInvalidation w lost j failed).1.planned, ∀ c ∈ g.2, CleanCmd lost c := by
  unfold startJobInvalidation
  simp only
  have happ : ∀ (l : List Command) (a : AppJobs × List Nat), a.1.app = j.app →
      (l.foldl (fun (acc : AppJobs × List Nat) c =>
        if c.target.any (fun i => lost.contains i) then
          (processFailure w { acc.1 with current := acc.1.current.filter (fun cc => !(cc.proc = c.proc ∧ cc.target = c.target)) } c.proc,
           acc.2.filter (· ≠ c.proc))
        else acc) a).1.app = j.app := by
    intro l
    induction l with
    | nil => intro a h; exact h
    | cons c t ih =>
      intro a h
      simp only [List.foldl_cons]
      apply ih
      split
      · simp only [processFailure]; repeat' split
        all_goals simp_all
      · exact h
  apply C10_lost_target_planned_retargeted w lost _ _ hl
  rw [happ j.current (j, failed) rfl]; exact hd

theorem processFailure_current (w : W) (j : AppJobs) (p : Nat) : (processFailure w j p).current = j.current := by
  simp only [processFailure]
  split
  · split <;> rfl
  · rfl

/-- the first part of `startJobInvalidation`: the walk over the pending requests -/
def dropStep (w : W) (lost : List Nat) (acc : AppJobs × List Nat) (c : Command) : AppJobs × List Nat :=
  if c.target.any (fun i => lost.contains i) then
    (processFailure w { acc.1 with current := acc.1.current.filter (fun cc => !(cc.proc = c.proc ∧ cc.target = c.target)) } c.proc,
     acc.2.filter (· ≠ c.proc))
  else acc

theorem dropStep_fold (w : W) (lost : List Nat) :
    ∀ (l : List Command) (acc : AppJobs × List Nat), ∀ x ∈ (l.foldl (dropStep w lost) acc).1.current,
      x ∈ acc.1.current ∧ (x ∈ l → CleanCmd lost x) := by
  intro l
  induction l with
  | nil => intro acc x hx; exact ⟨hx, fun h => by cases h⟩
  | cons c t ih =>
    intro acc x hx
    simp only [List.foldl_cons] at hx
    obtain ⟨h1, h2⟩ := ih _ x hx
    unfold dropStep at h1
    split at h1
    · rename_i hd
      rw [processFailure_current] at h1
      simp only [List.mem_filter] at h1
      refine ⟨h1.1, fun hm => ?_⟩
      rcases List.mem_cons.mp hm with he | ht
      · subst he; simp at h1
      · exact h2 ht
    · rename_i hd
      refine ⟨h1, fun hm => ?_⟩
      rcases List.mem_cons.mp hm with he | ht
      · subst he; exact clean_of_not_any lost _ (by simpa using hd)
      · exact h2 ht

/-- **C10 (the target instance is lost after the request was sent).**  After `on_instances_invalidation` no pending request of the
    job targets a lost instance: each one has been dropped (and counted as a starting failure), so that nothing is left waiting
    for the ticks of an instance that does not tick any more. -/
theorem C10_lost_target_current_dropped (w : W) (lost : List Nat) (j : AppJobs) (failed : List Nat) :
    ∀ c ∈ (startJobInvalidation w lost j failed).1.current, CleanCmd lost c := by
  intro c hc
  have hcur : (startJobInvalidation w lost j failed).1.current = (j.current.foldl (dropStep w lost) (j, failed)).1.current := by
    unfold startJobInvalidation retargetPlanned
    simp only
    split <;> rfl
  rw [hcur] at hc
  obtain ⟨h1, h2⟩ := dropStep_fold w lost j.current (j, failed) c hc
  exact h2 h1

/-- non-vacuity: SINGLE_NODE application on a node of two instances, both commands planned on instance 1; instance 1 is lost:
    the commands move to instance 0 -/
example : ((retargetPlanned { Supv.Props.C14.snW with instRunning := [true, false] } [1]
      { app := 0, strategy := .lessLoaded, identifiers := [0, 1],
        planned := [(1, [{ proc := 0, strategy := .lessLoaded, target := some 1 }, { proc := 1, strategy := .lessLoaded, target := some 1 }])] }).planned.map
      (fun g => g.2.map (·.target))) = [[some 0, some 0]] := by decide +kernel

/-- SINGLE_INSTANCE flavour: nothing is left, the identifiers are cleared (the start fails with 'No resource available') -/
def siJ : AppJobs := retargetPlanned { Supv.Props.C14.snW with instRunning := [true, false] } [1]
      { app := 0, strategy := .lessLoaded, identifiers := [1],
        planned := [(1, [{ proc := 0, strategy := .lessLoaded, target := some 1 }])] }

example : (siJ.identifiers, siJ.planned.map (fun g => g.2.map (·.target))) = ([], [[none]]) := by decide +kernel

end Supv.Props.C10
