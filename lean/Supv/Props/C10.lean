import Supv.Lemmas.Strat

/-!
# C10 — Every start/stop job terminates in bounded ticks whatever gets lost

Model: `Supv.Cmd` (`ProcessStartCommand.timed_out`, `ProcessStopCommand.timed_out`, `ApplicationJobs.check`), validated in
lock-step with the real Starter / Stopper; `DEFAULT_TICK_TIMEOUT` and the tick period are read from the source on every run.
-/

namespace Supv.Props.C10
open Supv.Cmd Supv.Proc

/-- the constants of the current source -/
theorem C10_constants : minTicks = 2 ∧ Supv.Gen.tickPeriod = 5 := by decide

/-- **C10 (a start request is given up in time).**  At a periodic check, a start request whose target has not acknowledged it
    (no STARTING / BACKOFF / RUNNING report) is given up as soon as the target's tick counter exceeds the request counter by
    more than the tick margin; once acknowledged, as soon as it exceeds it by more than the margin plus ceil(startsecs / 5).
    The only state in which it can wait for ever is RUNNING with wait_exit (the documented exception). -/
theorem C10_start_given_up (waitExit ignore : Bool) (state : PState) (req cnt secs : Nat) :
    (state ≠ .running → state ≠ .starting → state ≠ .backoff → cnt > req + minTicks →
        startCheckResult waitExit ignore state req (waitTicksOf secs) cnt = 3)
    ∧ ((state = .starting ∨ state = .backoff) → cnt > req + waitTicksOf secs →
        startCheckResult waitExit ignore state req (waitTicksOf secs) cnt = 3)
    ∧ (state = .running → startCheckResult waitExit ignore state req (waitTicksOf secs) cnt = (if waitExit && !ignore then 0 else 1))
    ∧ (startCheckResult waitExit ignore state req (waitTicksOf secs) cnt = 0 →
        (state = .running ∧ waitExit = true ∧ ignore = false) ∨ cnt ≤ req + waitTicksOf secs) := by
  unfold startCheckResult
  refine ⟨?_, ?_, ?_, ?_⟩
  · intro h1 h2 h3 h4; simp [h1, h2, h3, h4]
  · intro h h4; rcases h with h | h <;> simp [h, h4]
  · intro h; simp [h]
  · intro h
    by_cases hr : state = .running
    · left
      simp [hr] at h
      exact ⟨hr, h.1, h.2⟩
    · right
      simp only [hr, if_false] at h
      have hmin : minTicks ≤ waitTicksOf secs := by unfold waitTicksOf; omega
      split at h
      · split at h <;> simp at h; omega
      · split at h <;> simp at h; omega

/-- **C10 (a stop request is given up in time).** -/
theorem C10_stop_given_up (state : PState) (req cnt secs : Nat) :
    (state = .stopping → cnt > req + waitTicksOf secs → stopCheckResult state req (waitTicksOf secs) cnt = 3)
    ∧ (state.isStopped = false → state ≠ .stopping → cnt > req + minTicks → stopCheckResult state req (waitTicksOf secs) cnt = 3)
    ∧ (stopCheckResult state req (waitTicksOf secs) cnt = 0 → cnt ≤ req + waitTicksOf secs) := by
  unfold stopCheckResult
  refine ⟨?_, ?_, ?_⟩
  · intro h h2; simp [h]; omega
  · intro h1 h2 h3; simp [h1, h2, h3]
  · intro h
    have hmin : minTicks ≤ waitTicksOf secs := by unfold waitTicksOf; omega
    split at h
    · split at h <;> simp at h; omega
    · split at h
      · simp at h
      · split at h <;> simp at h; omega

/-- **C10 (the bound in ticks).**  The wait is `ceil(secs / 5) + 2` target ticks: at most `secs / 5 + 3`. -/
theorem C10_wait_ticks_bound (secs : Nat) : waitTicksOf secs ≤ secs / 5 + 3 ∧ 2 ≤ waitTicksOf secs := by
  have h := C10_constants
  unfold waitTicksOf ceilDiv
  rw [h.1, h.2]
  omega

/-- **C10 (BACKOFF re-arms, nothing else does).**  Among the reports of the target, only BACKOFF re-arms the request counter. -/
theorem C10_only_backoff_rearms (waitExit ignore : Bool) (v : Info) :
    (startEventResult waitExit ignore v).2 = true ↔ v.state = .backoff := by
  unfold startEventResult
  cases v.state <;> simp <;> split <;> simp

end Supv.Props.C10
