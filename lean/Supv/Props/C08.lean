import Supv.Model.Inst
import Supv.Spec.Graphs

/-!
# C08 — After disturbances the cluster returns to OPERATION; nobody stays parked

What is proved here is the static half: a state class never DECIDES a transition that `FiniteStateMachine.set_state` refuses
(a refused decision is repeated at every tick: the instance is parked).  The decisions are REGENERATED from the current source
by AST on every run (`Supv.Gen.fsmDecisions`: per state, the `SupvisorsStates` literals its state class can return from `next`,
resolved through the class hierarchy), the table likewise (`Supv.Gen.fsmTable`).  The dynamic half (return to OPERATION within
bounded ticks after the last disturbance) is liveness: explored on the real cluster, judged at quiescence, not proved.
-/

namespace Supv.Props.C08
open Supv.Inst

/-- **C08 (decisions accepted).**  In the current source, every state a state class can decide on its own is the current state
    or one of its successors in the transition table.  (On the tree before commit 5a7047d this theorem fails for
    DISTRIBUTION → SYNCHRONIZATION and CONCILIATION → ELECTION: two genuine defects, repaired.) -/
theorem C08_decisions_accepted :
    ∀ e ∈ Supv.Gen.fsmDecisions, ∀ d ∈ e.2.1, d = e.1 ∨ d ∈ lookupTable Supv.Gen.fsmTable e.1 := by decide

/-- every state has an entry, in the order of the enumeration -/
theorem C08_decisions_complete : Supv.Gen.fsmDecisions.map (·.1) = SState.all.map SState.code := by decide

/-- only the working states copy the state of the Master (`_slave_next`); the ending states decide FINAL on their own -/
theorem C08_who_follows_master :
    (Supv.Gen.fsmDecisions.filter (·.2.2)).map (·.1) = [SState.distribution.code, SState.operation.code, SState.conciliation.code] := by
  decide

/-- the model decides nothing the generated decisions do not contain: the states the model's `next` functions return as literals -/
def modelDecisions : SState → List SState
  | .off => [.off, .sync]
  | .sync => [.off, .sync, .election]
  | .election => [.off, .sync, .election, .distribution, .shuttingDown]
  | .distribution => [.off, .sync, .election, .distribution, .operation, .shuttingDown]
  | .operation => [.off, .sync, .election, .operation, .conciliation, .shuttingDown]
  | .conciliation => [.off, .sync, .election, .operation, .conciliation, .shuttingDown]
  | .restarting => [.restarting, .final]
  | .shuttingDown => [.shuttingDown, .final]
  | .final => []

def decisionsOf (k : Nat) : List Nat :=
  match Supv.Gen.fsmDecisions.find? (fun x => x.1 == k) with
  | some x => x.2.1
  | none => []

theorem C08_model_decisions_match_source :
    ∀ s ∈ SState.all, (modelDecisions s).map SState.code = decisionsOf s.code := by decide

end Supv.Props.C08
