import Supv.Model.Inst
import Supv.Spec.Graphs

/-!
# C08 — After disturbances the cluster returns to OPERATION; nobody stays parked

What is proved here is the static half: a state class never DECIDES a transition that `FiniteStateMachine.set_state` refuses
(a refused decision is repeated at every tick: the instance is parked).  The decisions are REGENERATED from the current source
by AST on every run (`Supv.Gen.fsmDecisions`: per state, the `SupvisorsStates` literals its state class can return from `next`,
resolved through the class hierarchy), the table likewise (`Supv.Gen.fsmTable`).  The dynamic half (return to OPERATION within
bounded ticks after the last disturbance) is liveness: explored on the real cluster, judged at quiescence, not proved.
-/

namespace Supv.Props.C08
open Supv.Inst

/-- **C08 (decisions accepted).**  In the current source, every state a state class can decide on its own is the current state
    or one of its successors in the transition table.  (On the tree before commit 5a7047d this theorem fails for
    DISTRIBUTION → SYNCHRONIZATION and CONCILIATION → ELECTION: two genuine defects, repaired.) -/
theorem C08_decisions_accepted :
    ∀ e ∈ Supv.Gen.fsmDecisions, ∀ d ∈ e.2.1, d = e.1 ∨ d ∈ lookupTable Supv.Gen.fsmTable e.1 := by decide

/-- every state has an entry, in the order of the enumeration -/
theorem C08_decisions_complete : Supv.Gen.fsmDecisions.map (·.1) = SState.all.map SState.code := by decide

/-- only the working states copy the state of the Master (`_slave_next`); the ending states decide FINAL on their own -/
theorem C08_who_follows_master :
    (Supv.Gen.fsmDecisions.filter (·.2.2)).map (·.1) = [SState.distribution.code, SState.operation.code, SState.conciliation.code] := by
  decide

/-- the model decides nothing the generated decisions do not contain: the states the model's `next` functions return as literals -/
def modelDecisions : SState → List SState
  | .off => [.off, .sync]
  | .sync => [.off, .sync, .election]
  | .election => [.off, .sync, .election, .distribution, .shuttingDown]
  | .distribution => [.off, .sync, .election, .distribution, .operation, .shuttingDown]
  | .operation => [.off, .sync, .election, .operation, .conciliation, .shuttingDown]
  | .conciliation => [.off, .sync, .election, .operation, .conciliation, .shuttingDown]
  | .restarting => [.restarting, .final]
  | .shuttingDown => [.shuttingDown, .final]
  | .final => []

def decisionsOf (k : Nat) : List Nat :=
  match Supv.Gen.fsmDecisions.find? (fun x => x.1 == k) with
  | some x => x.2.1
  | none => []

theorem C08_model_decisions_match_source :
    ∀ s ∈ SState.all, (modelDecisions s).map SState.code = decisionsOf s.code := by decide

/-! ## Local progress: the decisions that un-park an instance (no oracle, every configuration, every state) -/

/-- the state of the Master as the local instance holds it -/
def masterFsm (c : Cfg) (s : St) : Option SState :=
  match (s.modes.getD c.me {}).master with
  | none => none
  | some m => some (s.modes.getD m {}).fsm

/-- **C08, a Slave does not stay in ELECTION behind its Master** (the defect repaired by e607c09).  Context stable, every RUNNING
    instance acknowledges the same RUNNING Master, which is not the local instance and has reached DISTRIBUTION, OPERATION or
    CONCILIATION: `ElectionState.next` decides DISTRIBUTION and changes nothing else. -/
theorem C08_slave_leaves_election (c : Cfg) (s : St) (hst : s.stable ≠ []) (hcm : checkMasterP c s.modes = true)
    (hnm : (s.modes.getD c.me {}).master ≠ some c.me)
    (hms : masterFsm c s = some .distribution ∨ masterFsm c s = some .operation ∨ masterFsm c s = some .conciliation) :
    (nextElection c).run s = .ok (some .distribution, s) := by
  have hstb : (!s.stable.isEmpty) = true := by cases h : s.stable <;> simp_all
  unfold masterFsm at hms
  generalize hlm : s.modes.getD c.me {} = lm at *
  cases hm : lm.master with
  | none => rw [hm] at hms; rcases hms with h | h | h <;> cases h
  | some m =>
    rw [hm] at hms
    have hms' : some (s.modes.getD m {}).fsm = some SState.distribution ∨ some (s.modes.getD m {}).fsm = some SState.operation
        ∨ some (s.modes.getD m {}).fsm = some SState.conciliation := hms
    clear hms
    have hne : ¬ (some m = some c.me) := by rw [← hm]; exact hnm
    generalize hmm : s.modes.getD m {} = mm at *
    simp only [nextElection, isStable, checkMaster, isMaster, masterState, localModes, getModes, bind, StateT.bind, StateT.run,
      get, getThe, MonadStateOf.get, StateT.get, pure, StateT.pure, Except.pure, Except.bind, hstb, hcm, if_true, hlm, hm, hne,
      decide_false, Bool.false_eq_true, if_false, hmm, hms']

/-- **C08, the elected Master leaves ELECTION**: stable context, its election acknowledged by every RUNNING instance. -/
theorem C08_master_leaves_election (c : Cfg) (s : St) (hst : s.stable ≠ []) (hcm : checkMasterP c s.modes = true)
    (him : (s.modes.getD c.me {}).master = some c.me) :
    (nextElection c).run s = .ok (some .distribution, s) := by
  have hstb : (!s.stable.isEmpty) = true := by cases h : s.stable <;> simp_all
  generalize hlm : s.modes.getD c.me {} = lm at *
  simp only [nextElection, isStable, checkMaster, isMaster, localModes, getModes, bind, StateT.bind, StateT.run,
    get, getThe, MonadStateOf.get, StateT.get, pure, StateT.pure, Except.pure, Except.bind, hstb, hcm, if_true, hlm, him, decide_true]

/-- **C08, a Slave follows its Master** through DISTRIBUTION / OPERATION / CONCILIATION: the decision is the state of the Master
    (or none when no Master is known), whatever the oracle says about jobs and conflicts (a Slave asks nothing). -/
theorem C08_slave_follows_master (c : Cfg) (s : St) (hnm : (s.modes.getD c.me {}).master ≠ some c.me) :
    (nextDistribution c).run s = .ok (masterFsm c s, s) ∧ (nextOperation c).run s = .ok (masterFsm c s, s)
    ∧ (nextConciliation c).run s = .ok (masterFsm c s, s) := by
  unfold masterFsm
  generalize hlm : s.modes.getD c.me {} = lm at *
  have hne : ¬ (lm.master = some c.me) := hnm
  refine ⟨?_, ?_, ?_⟩ <;>
  · simp only [nextDistribution, nextOperation, nextConciliation, isMaster, masterState, localModes, getModes, bind, StateT.bind, StateT.run,
      get, getThe, MonadStateOf.get, StateT.get, pure, StateT.pure, Except.pure, Except.bind, hlm, hne, decide_false, Bool.false_eq_true, if_false]
    cases hm : lm.master with
    | none => rfl
    | some m => rfl

/-- the follow-the-Master decisions that `FiniteStateMachine.set_state` refuses: pairs (state of the Slave, state of its Master),
    the Slave being in a state whose class follows the Master (flag of the regenerated `fsmDecisions`), for which the regenerated
    transition table has no edge -/
def followRefused : List (Nat × Nat) :=
  (Supv.Gen.fsmDecisions.filter (·.2.2)).flatMap (fun d =>
    ((List.range 9).filter (fun y => y ≠ d.1 ∧ !(((Supv.Gen.fsmTable.find? (·.1 == d.1)).map (·.2)).getD []).contains y)).map (fun y => (d.1, y)))

/-- **C08 (known finding `C08:free:parked:DISTRIBUTION:master-in-CONCILIATION`).**  Codes: 3 DISTRIBUTION, 4 OPERATION, 5 CONCILIATION,
    8 FINAL.  Of the decisions "be where my Master is" (`C08_slave_follows_master`) the table of the CURRENT source refuses exactly
    six; a Master in DISTRIBUTION or FINAL does not stay there, but a Master in CONCILIATION does for as long as the conflicts are
    left to the user: a Slave that reaches DISTRIBUTION at that time (3, 5) stays parked.  Found on the real code by the
    free-running stage; the repair a maintainer would make is forbidden by an existing test (see known_findings.jsonl). -/
theorem C08_follow_master_refused : followRefused = [(3, 5), (3, 8), (4, 3), (4, 8), (5, 3), (5, 8)] := by decide

-- non-vacuity: instance 1 of two, both RUNNING and agreeing on Master 0 which is in OPERATION
def exCfg : Cfg := { n := 2, me := 1, nickRank := [0, 1], core := [], initial := [0, 1], optStrict := false, optList := true,
                     optTimeout := false, optCore := false, optUser := false, syncTimeout := 20480, inactivity := 2, autoFence := false,
                     failStrat := .cont }
def exSt : St :=
  { peers := [{ state := .running }, { state := .running }],
    modes := [{ fsm := .operation, master := some 0, inst := [.running, .running] },
              { fsm := .election, master := some 0, inst := [.running, .running] }],
    stable := [0, 1] }
example : exSt.stable ≠ [] ∧ checkMasterP exCfg exSt.modes = true ∧ (exSt.modes.getD exCfg.me {}).master ≠ some exCfg.me
    ∧ masterFsm exCfg exSt = some .operation := by decide

end Supv.Props.C08
