import Supv.Lemmas.Strat

/-!
# C03 — Start sequences are honoured for applications and their processes

Model: `Supv.Cmd` (Starter), validated in lock-step with the real Starter.  What is proved here is about the decision functions
the Starter runs (the plan it builds, the group it picks up, the effect of a failure); the ordering of the emitted requests
over whole executions is judged on the implementation by the monitor `Supv.Spec.Cmd` (see DESIGN.md).
-/

namespace Supv.Props.C03
open Supv.Cmd Supv.Proc

/-- **C03 (sequence 0 is never started automatically).**  The plan of an application start only holds strictly positive
    sequence numbers, and every planned command is a process of that application whose start_sequence is its group's. -/
theorem C03_seq0_never_planned (w : W) (a : Nat) (strat : Strategy) :
    ∀ g ∈ startPlan w a strat, 0 < g.1 ∧ ∀ c ∈ g.2, (w.pcfg.getD c.proc default).app = a
      ∧ (w.pcfg.getD c.proc default).startSeq = g.1 ∧ c.strategy = strat ∧ c.target = none := by
  intro g hg
  unfold startPlan at hg
  simp only [List.mem_map] at hg
  obtain ⟨s, hs, rfl⟩ := hg
  rw [List.mem_eraseDups] at hs
  simp only [List.mem_map, List.mem_filter, decide_eq_true_eq] at hs
  obtain ⟨p, ⟨hp, hpos⟩, rfl⟩ := hs
  refine ⟨hpos, ?_⟩
  intro c hc
  simp only [List.mem_map, List.mem_filter, decide_eq_true_eq] at hc
  obtain ⟨q, ⟨⟨hq, _⟩, hqs⟩, rfl⟩ := hc
  unfold appProcs at hq
  simp only [List.mem_filter, decide_eq_true_eq] at hq
  exact ⟨hq.2, hqs, rfl, rfl⟩

/-- every process of the application with a positive start_sequence is planned, in the group of its sequence -/
theorem C03_plan_complete (w : W) (a : Nat) (strat : Strategy) (p : Nat) (hp : p < w.pcfg.length)
    (ha : (w.pcfg.getD p default).app = a) (hs : 0 < (w.pcfg.getD p default).startSeq) :
    ∃ g ∈ startPlan w a strat, g.1 = (w.pcfg.getD p default).startSeq ∧ ∃ c ∈ g.2, c.proc = p := by
  have hmem : p ∈ (appProcs w a).filter (fun p => (w.pcfg.getD p default).startSeq > 0) := by
    unfold appProcs
    simp only [List.mem_filter, List.mem_range, decide_eq_true_eq]
    exact ⟨⟨hp, ha⟩, hs⟩
  let grp := (((appProcs w a).filter (fun p => (w.pcfg.getD p default).startSeq > 0)).filter
      (fun q => (w.pcfg.getD q default).startSeq = (w.pcfg.getD p default).startSeq)).map
      (fun q => ({ proc := q, strategy := strat } : Command))
  refine ⟨((w.pcfg.getD p default).startSeq, grp), ?_, rfl, ?_⟩
  · unfold startPlan
    simp only [List.mem_map]
    refine ⟨(w.pcfg.getD p default).startSeq, ?_, rfl⟩
    rw [List.mem_eraseDups]
    simp only [List.mem_map]
    exact ⟨p, hmem, rfl⟩
  · simp only [grp, List.mem_map, List.mem_filter, decide_eq_true_eq]
    exact ⟨{ proc := p, strategy := strat }, ⟨p, ⟨⟨(List.mem_filter.mp hmem).1, hs⟩, rfl⟩, rfl⟩, rfl⟩

/-- **C03 (the lowest sequence first).**  The group the Starter picks up (`pickup_logic = min`) has the lowest sequence number
    of what is planned, and picking it up removes exactly that entry: every group left has a strictly higher number when the
    sequence numbers of the plan are distinct. -/
theorem C03_pickup_lowest {α} (l : List (Nat × α)) (k : Nat) (h : minKey l = some k) :
    (∀ x ∈ l, k ≤ x.1) ∧ (∃ x ∈ l, x.1 = k) :=
  ⟨minKey_le l k h, minKey_mem l k h⟩

/-- **C03 (starting failure strategy).**  After the failure of a required process, ABORT and STOP leave nothing planned for
    the application (STOP also arms the deferred stop); CONTINUE, and the failure of a non-required process, change nothing. -/
theorem C03_failure_strategy (w : W) (j : AppJobs) (p : Nat) :
    let c := w.pcfg.getD p default
    (c.required = true ∧ c.sfail = .abort → (processFailure w j p).planned = [] ∧ (processFailure w j p).stopRequest = j.stopRequest)
    ∧ (c.required = true ∧ c.sfail = .stop → (processFailure w j p).planned = [] ∧ (processFailure w j p).stopRequest = true)
    ∧ (c.required = false ∨ c.sfail = .cont → processFailure w j p = j)
    ∧ (processFailure w j p).current = j.current := by
  simp only
  unfold processFailure
  generalize w.pcfg.getD p default = c
  refine ⟨?_, ?_, ?_, ?_⟩
  · rintro ⟨h1, h2⟩; simp [h1, h2]
  · rintro ⟨h1, h2⟩; simp [h1, h2]
  · intro h
    rcases h with h | h
    · simp [h]
    · simp [h]
  · simp only
    split
    · split <;> rfl
    · rfl

/-- **C03 (completion of a start request).**  A start request is finished exactly on RUNNING (without wait_exit) or on an
    expected exit (with wait_exit); STARTING and BACKOFF keep it in progress (BACKOFF re-arms the time-out); everything
    else — FATAL, an unexpected exit, a stopped-like or STOPPING report — is a failure. -/
theorem C03_completion (waitExit : Bool) (v : Info) :
    (startEventResult waitExit false v = (1, false) ↔
        (v.state = .running ∧ waitExit = false) ∨ (v.state = .exited ∧ waitExit = true ∧ v.expected = true))
    ∧ (startEventResult waitExit false v = (0, false) ↔ v.state = .starting ∨ (v.state = .running ∧ waitExit = true))
    ∧ (startEventResult waitExit false v = (0, true) ↔ v.state = .backoff) := by
  unfold startEventResult
  cases hs : v.state <;> cases waitExit <;> cases he : v.expected <;> simp

/-- **C03 (applications whose start_sequence is 0 are never started automatically).**  The automatic start of all applications
    (`Starter.start_applications`) only stores applications with a strictly positive start_sequence that were never started or
    are in failure; each is stored with `storeApplication`, whose plan leaves out the processes of sequence 0
    (`C03_seq0_never_planned`). -/
theorem C03_auto_start_positive_sequence (w : W) (a : Nat) :
    a ∈ autoStartApps w ↔
      a < w.acfg.length ∧ 0 < (w.acfg.getD a default).startSeq
      ∧ (neverStarted w a = true ∨ (appFailures w a).1 = true ∨ (appFailures w a).2 = true) := by
  unfold autoStartApps
  simp only [List.mem_filter, List.mem_range, Bool.and_eq_true, Bool.or_eq_true, decide_eq_true_eq]
  constructor
  · rintro ⟨h1, h2, h3⟩; exact ⟨h1, h2, by rcases h3 with (h | h) | h <;> simp [h]⟩
  · rintro ⟨h1, h2, h3⟩; exact ⟨h1, h2, by rcases h3 with h | h | h <;> simp [h]⟩

/-- **C03 (applications in increasing start_sequence).**  The Starter picks the planned applications of the lowest sequence number
    (`pickup_logic = min` at the application level too): no planned application has a lower one. -/
theorem C03_application_pickup_lowest (w : W) (k : Nat) (h : minKey w.planned = some k) :
    (∀ x ∈ w.planned, k ≤ x.1) ∧ (∃ x ∈ w.planned, x.1 = k) :=
  C03_pickup_lowest w.planned k h

/-! ## The STOP strategy over a whole application start -/

def startedIn (outs : List Out) (q : Nat) : Bool := outs.any (fun o => match o with | .start q' _ _ _ _ => q' == q | _ => false)
def stopAskedIn (outs : List Out) (q : Nat) : Bool := outs.any (fun o => match o with | .stop q' _ => q' == q | _ => false)
def forcedFatalIn (outs : List Out) (p : Nat) : Bool := outs.any (fun o => match o with | .force p' .fatal _ _ => p' == p | _ => false)

/-- the full-strength clause "STOP then stops it once in-flight starts end", on an application start from an idle Starter / Stopper
    in which every requested process starts normally (`realStartApplication`): when a required process with the STOP strategy is
    given up, every process the start requested (without wait_exit: it is RUNNING at the end) is asked to stop -/
def C03_stop_strategy_applied_statement : Prop :=
  ∀ (w : W) (a : Nat) (strat : Strategy), w.live = none → w.planned = [] → w.current = [] → w.splanned = [] → w.scurrent = [] →
    ∀ p, (w.pcfg.getD p default).app = a → (w.pcfg.getD p default).required = true → (w.pcfg.getD p default).sfail = .stop →
      forcedFatalIn (realStartApplication w a strat) p = true →
      ∀ q, (w.pcfg.getD q default).waitExit = false → startedIn (realStartApplication w a strat) q = true →
        stopAskedIn (realStartApplication w a strat) q = true

def sInfo : Info := { state := .stopped, expected := true, ltime := 0, etime := 0, nowm := 0, disabled := false }

/-- one instance; application 0: p0 (sequence 1) known on the instance, p1 (sequence 2, required, STOP) known nowhere -/
def stopW : W :=
  { ninst := 1, me := 0, node := [0], instRunning := [true], counter := [0],
    pcfg := [{ app := 0, startSeq := 1, required := false, waitExit := false, load := 0, sfail := .cont, idents := none, startsecs := 1 },
             { app := 0, startSeq := 2, required := true, waitExit := false, load := 0, sfail := .stop, idents := none, startsecs := 1 }],
    acfg := [{ startSeq := 1, strategy := .config }],
    procs := [{ infos := [(0, sInfo)], state := .stopped }, { infos := [], state := .stopped }] }

/-- the witness of the former known finding `C03:stop-strategy-dropped-with-job` (repaired: while the commands of a sequence group
    are processed the job can no longer be declared complete by the forced event of a command that cannot be performed): p0 is
    started, p1 is refused for lack of resource, and p0 IS asked to stop -/
theorem C03_stop_strategy_witness :
    startedIn (realStartApplication stopW 0 .config) 0 = true ∧ forcedFatalIn (realStartApplication stopW 0 .config) 1 = true
    ∧ stopAskedIn (realStartApplication stopW 0 .config) 0 = true := by decide +kernel

/-- **C03 (STOP strategy — partial: finite checks).**  The decision itself is right for every job (`C03_failure_strategy`: a STOP
    failure empties the plan and records the stop request); it is applied on the witness above (the failing group is the last one)
    and on the same world with one more sequence group planned after the failing one (p2, sequence 3): p0 is asked to stop and p2
    is never requested.  The general statement (`C03_stop_strategy_applied_statement`, for every world) needs an invariant of the
    re-entrant commander: not proved; it is judged on every generated case by the monitor (`C03-stop-strategy-not-applied`). -/
theorem C03_stop_strategy_applied_partial :
    let w : W := { stopW with pcfg := stopW.pcfg ++ [{ app := 0, startSeq := 3, required := false, waitExit := false, load := 0,
                                                       sfail := .cont, idents := none, startsecs := 1 }],
                              procs := stopW.procs ++ [{ infos := [(0, sInfo)], state := .stopped }] }
    startedIn (realStartApplication w 0 .config) 0 = true ∧ forcedFatalIn (realStartApplication w 0 .config) 1 = true
    ∧ stopAskedIn (realStartApplication w 0 .config) 0 = true ∧ startedIn (realStartApplication w 0 .config) 2 = false := by
  decide +kernel

/-- the variant that survived a first, narrower repair attempt (strategy applied before the forced event): the refused STOP process
    (p2, required) comes AFTER another refused process of the same last group (p1, optional): the forced event of p1 used to drop
    the job before p2 was looked at -/
def stopW2 : W :=
  { stopW with
    pcfg := [{ app := 0, startSeq := 1, required := false, waitExit := false, load := 0, sfail := .cont, idents := none, startsecs := 1 },
             { app := 0, startSeq := 2, required := false, waitExit := false, load := 0, sfail := .cont, idents := none, startsecs := 1 },
             { app := 0, startSeq := 2, required := true, waitExit := false, load := 0, sfail := .stop, idents := none, startsecs := 1 }],
    procs := [{ infos := [(0, sInfo)], state := .stopped }, { infos := [], state := .stopped }, { infos := [], state := .stopped }] }

theorem C03_stop_strategy_witness_late :
    startedIn (realStartApplication stopW2 0 .config) 0 = true ∧ forcedFatalIn (realStartApplication stopW2 0 .config) 1 = true
    ∧ forcedFatalIn (realStartApplication stopW2 0 .config) 2 = true
    ∧ stopAskedIn (realStartApplication stopW2 0 .config) 0 = true := by decide +kernel

-- non-vacuity: a plan with two groups (sequence 0 left out)
def exW : W :=
  { ninst := 1, me := 0, node := [0], instRunning := [true], counter := [0],
    pcfg := [{ app := 0, startSeq := 2, required := false, waitExit := false, load := 0, sfail := .cont, idents := none, startsecs := 1 },
             { app := 0, startSeq := 0, required := false, waitExit := false, load := 0, sfail := .cont, idents := none, startsecs := 1 },
             { app := 0, startSeq := 1, required := true, waitExit := false, load := 0, sfail := .abort, idents := none, startsecs := 1 }],
    acfg := [{ startSeq := 1, strategy := .config }], procs := [{}, {}, {}] }
example : (startPlan exW 0 .config).map (·.1) = [2, 1] ∧ minKey (startPlan exW 0 .config) = some 1 := by decide
-- non-vacuity: the application (sequence 1, never started: no payload at all) is started automatically; with sequence 0 it is not
example : autoStartApps exW = [0] ∧ autoStartApps { exW with acfg := [{ startSeq := 0, strategy := .config }] } = [] := by decide

end Supv.Props.C03
