import Supv.Model.Cmd

/-!
# C19 — Start predictions are side-effect free and match a real start

Model: `Supv.Cmd.testStartApplication` (`StarterModel`: mock copies of the processes, instance loads read from the LIVE processes,
events of a normal start played on the mocks) and `Supv.Cmd.realStartApplication` (the actual Starter in which every requested
process reports STARTING, RUNNING, and an expected EXITED with wait_exit).  Both run the same `startApplication`.
-/

namespace Supv.Props.C19
open Supv.Cmd Supv.Proc

/-- **C19 (a prediction is a value).**  In the model a prediction is a pure function of the world: asking twice gives the same
    answer and there is no world after a prediction other than the one before it.  (That the IMPLEMENTATION leaves every
    reported status untouched is what `harness/c19.py` judges on deep snapshots; defect 44b32b2 was found and repaired there.) -/
theorem C19_prediction_pure (w : W) (a : Nat) (strat : Strategy) :
    testStartApplication w a strat = testStartApplication w a strat := rfl

/-- the prediction does not depend on the jobs the Starter / Stopper currently hold, nor on earlier outputs -/
theorem C19_prediction_ignores_jobs (w : W) (a : Nat) (strat : Strategy)
    (planned : List (Nat × List AppJobs)) (current : List AppJobs) (out : List Out) :
    testStartApplication { w with planned := planned, current := current, out := out } a strat = testStartApplication w a strat := rfl

/-- the full-strength statement: the predicted placement is the placement of the actual start in which every process starts
    normally -/
def C19_prediction_matches_real_statement : Prop :=
  ∀ (w : W) (a : Nat) (strat : Strategy), w.live = none → w.planned = [] → w.current = [] →
    placements (testStartApplication w a strat) = placements (realStartApplication w a strat)

/-- two instances on two nodes, nothing running; application 0: p0 (sequence 1, load 50) then p1 (sequence 2, load 50),
    LESS_LOADED -/
def witness : W :=
  { ninst := 2, me := 0, node := [0, 1], instRunning := [true, true], counter := [0, 0],
    pcfg := [{ app := 0, startSeq := 1, required := false, waitExit := false, load := 50, sfail := .cont, idents := none, startsecs := 1 },
             { app := 0, startSeq := 2, required := false, waitExit := false, load := 50, sfail := .cont, idents := none, startsecs := 1 }],
    acfg := [{ startSeq := 1, strategy := .lessLoaded }],
    procs := [{ infos := [(0, { state := .stopped, expected := true, ltime := 0, etime := 0, nowm := 0, disabled := false }),
                          (1, { state := .stopped, expected := true, ltime := 0, etime := 0, nowm := 0, disabled := false })],
                state := .stopped },
              { infos := [(0, { state := .stopped, expected := true, ltime := 0, etime := 0, nowm := 0, disabled := false }),
                          (1, { state := .stopped, expected := true, ltime := 0, etime := 0, nowm := 0, disabled := false })],
                state := .stopped }] }

/-- Known finding `C19:prediction-differs-from-real-start`: the prediction reads the instance loads from the live processes,
    which the simulated starts of the earlier sequence groups do not change: p0 and p1 are both predicted on instance 0, an
    actual start puts p1 on instance 1 (p0 runs on 0 by then). -/
theorem C19_prediction_matches_real_refuted : ¬ C19_prediction_matches_real_statement := by
  intro h
  have := h witness 0 .lessLoaded rfl rfl rfl
  revert this
  decide +kernel

/-- the witness in full: what is predicted and what an actual start does -/
theorem C19_witness_placements :
    placements (testStartApplication witness 0 .lessLoaded) = [(0, 0), (1, 0)]
    ∧ placements (realStartApplication witness 0 .lessLoaded) = [(0, 0), (1, 1)] := by decide +kernel

/-- **C19 (partial).**  When an application has a single process to start the prediction and the actual start ask the same
    instance — stated on the witness world restricted to its first process, for every strategy (a finite check; the general
    single-group theorem needs a simulation proof between the two runs of the re-entrant commander, not done). -/
theorem C19_single_process_partial :
    ∀ strat : Strategy,
      placements (testStartApplication { witness with pcfg := witness.pcfg.take 1, procs := witness.procs.take 1 } 0 strat)
      = placements (realStartApplication { witness with pcfg := witness.pcfg.take 1, procs := witness.procs.take 1 } 0 strat) := by
  intro strat; cases strat <;> decide +kernel

end Supv.Props.C19
