import Supv.Model.Inst

/-!
# C01 — Connected instances converge on one running Master

The selection functions are those the instance model runs (`Supv.Inst.selectP`, `checkMasterP`, `masterIdsP`, `candidatesP`:
`select_master`, `check_master`, `get_master_identifiers` of statemodes.py).  The agreement theorem is a state predicate over a
cluster of any size: no induction over schedules is needed, every quiescent fixpoint is covered at once.
-/

namespace Supv.Props.C01
open Supv.Inst

theorem minByRank_mem (c : Cfg) (l : List Nat) (r : Nat) (h : minByRank c l = some r) : r ∈ l := by
  induction l generalizing r with
  | nil => simp [minByRank] at h
  | cons a t ih =>
    simp only [minByRank] at h
    split at h
    · simp at h; simp [h]
    · rename_i m hm
      split at h
      · simp at h; subst h; exact List.mem_cons_of_mem _ (ih m hm)
      · simp at h; simp [h]

theorem minByRank_some (c : Cfg) (l : List Nat) (hl : l ≠ []) : (minByRank c l).isSome = true := by
  cases l with
  | nil => exact absurd rfl hl
  | cons a t => simp only [minByRank]; split <;> (try split) <;> simp

/-- the rank of the result is minimal among the list -/
theorem minByRank_min (c : Cfg) (l : List Nat) (r : Nat) (h : minByRank c l = some r) :
    ∀ x ∈ l, c.nickRank.getD r 0 ≤ c.nickRank.getD x 0 := by
  induction l generalizing r with
  | nil => simp [minByRank] at h
  | cons a t ih =>
    simp only [minByRank] at h
    split at h
    · rename_i hn
      simp at h; subst h
      intro x hx
      cases t with
      | nil => simp at hx; subst hx; exact Nat.le_refl _
      | cons b u => have := minByRank_some c (b :: u) (by simp); simp [hn] at this
    · rename_i m hm
      have hmin := ih m hm
      split at h
      · rename_i hlt
        simp at h; subst h
        intro x hx
        simp at hx
        rcases hx with rfl | hx
        · omega
        · exact hmin x hx
      · rename_i hge
        simp at h; subst h
        intro x hx
        simp at hx
        rcases hx with rfl | hx
        · exact Nat.le_refl _
        · have := hmin x hx; omega

theorem allCands_mem (c : Cfg) (modes : List Modes) (x : Nat) (hx : x ∈ allCandsP c modes) :
    some x ∈ masterIdsP c modes ∨ (((masterIdsP c modes).filterMap id) = [] ∧ x ∈ runningIds c modes) := by
  unfold allCandsP at hx
  split at hx
  · rename_i he
    right
    refine ⟨?_, hx⟩
    cases hd : (masterIdsP c modes).filterMap id with
    | nil => rfl
    | cons a t => simp [hd, List.eraseDups_cons] at he
  · left
    rw [List.mem_eraseDups] at hx
    simpa [List.mem_filterMap] using hx

theorem allCands_of_declared (c : Cfg) (modes : List Modes) (x : Nat) (hx : some x ∈ masterIdsP c modes) :
    x ∈ allCandsP c modes ∧ allCandsP c modes = ((masterIdsP c modes).filterMap id).eraseDups := by
  have hd : x ∈ ((masterIdsP c modes).filterMap id).eraseDups := by
    rw [List.mem_eraseDups]; simpa [List.mem_filterMap] using hx
  have hne : (((masterIdsP c modes).filterMap id).eraseDups).isEmpty = false := by
    cases h : ((masterIdsP c modes).filterMap id).eraseDups with
    | nil => simp [h] at hd
    | cons a t => rfl
  unfold allCandsP
  simp [hne, hd]

theorem candidates_sub (c : Cfg) (modes : List Modes) (x : Nat) (hx : x ∈ candidatesP c modes) : x ∈ allCandsP c modes := by
  unfold candidatesP at hx
  split at hx
  · exact hx
  · have := (List.mem_filter.mp hx).2; simpa using this

theorem candidates_ne (c : Cfg) (modes : List Modes) (h : allCandsP c modes ≠ []) : candidatesP c modes ≠ [] := by
  unfold candidatesP
  split
  · exact h
  · rename_i hh; intro he; simp [he] at hh

/-- **C01 (selection rule).**  `select_master` returns a candidate of lowest nick rank, where the candidates are the core
    instances among "the Masters declared by the instances seen RUNNING if there is one, else the RUNNING instances", or all
    of those when no core instance is among them. -/
theorem C01_select_rule (c : Cfg) (modes : List Modes) (m : Nat) (h : selectP c modes = some m) :
    m ∈ candidatesP c modes
    ∧ (∀ x ∈ candidatesP c modes, c.nickRank.getD m 0 ≤ c.nickRank.getD x 0)
    ∧ (some m ∈ masterIdsP c modes ∨ (((masterIdsP c modes).filterMap id) = [] ∧ m ∈ runningIds c modes))
    ∧ ((∃ x ∈ c.core, some x ∈ masterIdsP c modes) → m ∈ c.core) := by
  unfold selectP at h
  have hmem := minByRank_mem c _ m h
  refine ⟨hmem, minByRank_min c _ m h, allCands_mem c modes m (candidates_sub c modes m hmem), ?_⟩
  rintro ⟨x, hxc, hxm⟩
  have hx := (allCands_of_declared c modes x hxm).1
  unfold candidatesP at hmem
  have hcore : (c.core.filter (· ∈ allCandsP c modes)).isEmpty = false := by
    cases hf : c.core.filter (· ∈ allCandsP c modes) with
    | nil =>
      have : x ∈ c.core.filter (· ∈ allCandsP c modes) := by
        rw [List.mem_filter]; exact ⟨hxc, by simpa using hx⟩
      rw [hf] at this; cases this
    | cons a t => rfl
  simp only [hcore, Bool.false_eq_true, if_false] at hmem
  exact (List.mem_filter.mp hmem).1

/-- **C01 (a sole recognised Master is kept).**  If every instance seen RUNNING that declares a Master declares `m`, the
    rule returns `m`, whatever instances joined or left. -/
theorem C01_keep_sole_master (c : Cfg) (modes : List Modes) (m : Nat)
    (hsome : some m ∈ masterIdsP c modes) (hsole : ∀ x, some x ∈ masterIdsP c modes → x = m) :
    selectP c modes = some m := by
  have hne : candidatesP c modes ≠ [] := by
    apply candidates_ne
    intro h
    have := (allCands_of_declared c modes m hsome).1
    rw [h] at this; cases this
  obtain ⟨r, hr⟩ := Option.isSome_iff_exists.mp (minByRank_some c _ hne)
  have hsel : selectP c modes = some r := hr
  obtain ⟨_, _, h3, _⟩ := C01_select_rule c modes r hsel
  rcases h3 with h3 | ⟨h3, _⟩
  · rw [hsel, hsole r h3]
  · have : m ∈ (masterIdsP c modes).filterMap id := by simpa [List.mem_filterMap] using hsome
    rw [h3] at this; cases this

/-- **C01 (agreement at every quiescent fixpoint), any number of instances.**
    `live`: the live, mutually reachable, non-isolated instances.  `M i` is the table of state & modes records held by
    instance `i` (its own record at index `i`, the stored copy of the last publication of `j` at index `j`).
    Connected: every live instance sees exactly the live ones RUNNING.  Quiescent: the stored copy of every other live
    instance is that instance's current record.  Each live instance holds a Master only if it sees it RUNNING, and is at
    a fixpoint of its state machine: in ELECTION `select_master` returns what it already holds, past ELECTION
    `check_master` holds.  Then all live instances hold the same Master, it is one of them, they all see it RUNNING, and it
    regards itself as the Master. -/
theorem C01_quiescent_agreement
    (n : Nat) (cfg : Nat → Cfg) (live : List Nat) (M : Nat → List Modes)
    (hcfg : ∀ i ∈ live, (cfg i).n = n ∧ (cfg i).me = i)
    (hsame : ∀ i ∈ live, ∀ j ∈ live, (cfg i).nickRank = (cfg j).nickRank ∧ (cfg i).core = (cfg j).core)
    (hne : live ≠ []) (hsub : ∀ i ∈ live, i < n)
    (hconn : ∀ i ∈ live, ∀ j, j < n → (((M i).getD i {}).inst.getD j .stopped = .running ↔ j ∈ live))
    (hquiet : ∀ i ∈ live, ∀ j ∈ live, j ≠ i → (M i).getD j {} = (M j).getD j {})
    (hlinv : ∀ i ∈ live, ∀ m, ((M i).getD i {}).master = some m →
      ((M i).getD i {}).inst.getD m .stopped = .running ∧ m < n)
    (hfix : ∀ i ∈ live,
      (((M i).getD i {}).fsm = .election ∧ selectP (cfg i) (M i) = ((M i).getD i {}).master) ∨
      (((M i).getD i {}).fsm ≠ .election ∧ checkMasterP (cfg i) (M i) = true)) :
    ∃ m ∈ live, (∀ i ∈ live, ((M i).getD i {}).master = some m
                  ∧ ((M i).getD i {}).inst.getD m .stopped = .running)
      ∧ ((M m).getD m {}).master = some m := by
  -- the instances seen RUNNING are the same list for every live instance
  let L := (List.range n).filter (fun j => decide (j ∈ live))
  have hrun : ∀ i ∈ live, runningIds (cfg i) (M i) = L := by
    intro i hi
    unfold runningIds ids
    rw [(hcfg i hi).1, (hcfg i hi).2]
    apply List.filter_congr
    intro j hj
    have hjn : j < n := by simpa using hj
    have := hconn i hi j hjn
    simp only [List.getD_eq_getElem?_getD] at this
    by_cases h : j ∈ live
    · simp [h, this.mpr h]
    · have : ¬ ((M i)[i]?.getD {}).inst[j]?.getD .stopped = .running := fun hh => h (this.mp hh)
      simp [h, this]
  have hLmem : ∀ j, j ∈ L ↔ j ∈ live := by
    intro j
    simp only [L, List.mem_filter, List.mem_range, decide_eq_true_eq]
    exact ⟨fun h => h.2, fun h => ⟨hsub j h, h⟩⟩
  have hmasters : ∀ i ∈ live, masterIdsP (cfg i) (M i) = L.map (fun j => ((M j).getD j {}).master) := by
    intro i hi
    unfold masterIdsP
    rw [hrun i hi]
    apply List.map_congr_left
    intro j hj
    have hjl : j ∈ live := (hLmem j).mp hj
    by_cases h : j = i
    · subst h; rfl
    · rw [hquiet i hi j hjl h]
  have hLne : L ≠ [] := by
    obtain ⟨a, ha⟩ := List.exists_mem_of_ne_nil live hne
    intro h
    have := (hLmem a).mpr ha
    simp [h] at this
  let MS := L.map (fun j => ((M j).getD j {}).master)
  have hlive : ∀ i ∈ live, ∀ m, ((M i).getD i {}).master = some m → m ∈ live := by
    intro i hi m hm
    obtain ⟨h1, h2⟩ := hlinv i hi m hm
    exact (hconn i hi m h2).mp h1
  -- once everybody holds `m`, the remaining clauses follow
  have finish : ∀ m, (∀ i ∈ live, ((M i).getD i {}).master = some m) →
      ∃ m ∈ live, (∀ i ∈ live, ((M i).getD i {}).master = some m
                  ∧ ((M i).getD i {}).inst.getD m .stopped = .running)
        ∧ ((M m).getD m {}).master = some m := by
    intro m hm
    obtain ⟨a, ha⟩ := List.exists_mem_of_ne_nil live hne
    have hml : m ∈ live := hlive a ha m (hm a ha)
    exact ⟨m, hml, fun i hi => ⟨hm i hi, (hlinv i hi m (hm i hi)).1⟩, hm m hml⟩
  by_cases hall : ∀ i ∈ live, ((M i).getD i {}).fsm = .election
  · -- (B) everybody in ELECTION: the deterministic rule gives everybody the same value
    obtain ⟨a, ha⟩ := List.exists_mem_of_ne_nil live hne
    have hsel : ∀ i ∈ live, ((M i).getD i {}).master = selectP (cfg a) (M a) := by
      intro i hi
      cases hfix i hi with
      | inl h =>
        rw [← h.2]
        have hmr : ∀ l, minByRank (cfg i) l = minByRank (cfg a) l := by
          intro l
          induction l with
          | nil => rfl
          | cons x t ih => simp only [minByRank, ih, (hsame i hi a ha).1]
        have hac : allCandsP (cfg i) (M i) = allCandsP (cfg a) (M a) := by
          unfold allCandsP
          rw [hmasters i hi, hmasters a ha, hrun i hi, hrun a ha]
        have hcc : candidatesP (cfg i) (M i) = candidatesP (cfg a) (M a) := by
          unfold candidatesP
          rw [hac, (hsame i hi a ha).2]
        unfold selectP
        rw [hcc, hmr]
      | inr h => exact absurd (hall i hi) h.1
    have hcne : candidatesP (cfg a) (M a) ≠ [] := by
      apply candidates_ne
      unfold allCandsP
      rw [hrun a ha]
      split
      · exact hLne
      · rename_i h; intro hh; simp [hh] at h
    obtain ⟨m, hm⟩ := Option.isSome_iff_exists.mp (minByRank_some (cfg a) _ hcne)
    exact finish m (fun i hi => by rw [hsel i hi]; exact hm)
  · -- (A) somebody is past ELECTION: its `check_master` forces everybody's Master
    have : ∃ i ∈ live, ((M i).getD i {}).fsm ≠ .election := by
      apply Classical.byContradiction
      intro hc
      apply hall
      intro i hi
      apply Classical.byContradiction
      intro hne'
      exact hc ⟨i, hi, hne'⟩
    obtain ⟨i0, hi0, hf0⟩ := this
    have hck : checkMasterP (cfg i0) (M i0) = true := by
      cases hfix i0 hi0 with
      | inl h => exact absurd h.1 hf0
      | inr h => exact h.2
    unfold checkMasterP at hck
    rw [hmasters i0 hi0] at hck
    simp only at hck
    split at hck
    · cases hck
    · rename_i hnone
      cases hM : MS with
      | nil => simp [MS] at hM; exact absurd hM hLne
      | cons h t =>
        have hM' : L.map (fun j => ((M j).getD j {}).master) = h :: t := hM
        rw [hM'] at hnone hck
        simp only at hck
        have hall2 : ∀ x ∈ (h :: t), x = h := by
          intro x hx
          simp at hx
          cases hx with
          | inl e => exact e
          | inr e =>
            simp only [List.all_eq_true] at hck
            simpa using hck x e
        cases h with
        | none => simp at hnone
        | some m =>
          apply finish m
          intro i hi
          have : ((M i).getD i {}).master ∈ MS := by
            simp only [MS, List.mem_map]
            exact ⟨i, (hLmem i).mpr hi, rfl⟩
          rw [hM] at this
          exact hall2 _ this

-- non-vacuity: two live instances in OPERATION agreeing on Master 0 satisfy the fixpoint hypotheses
def exModes : List Modes :=
  [{ fsm := .operation, master := some 0, inst := [.running, .running] },
   { fsm := .operation, master := some 0, inst := [.running, .running] }]
def exCfg (i : Nat) : Cfg :=
  { n := 2, me := i, nickRank := [0, 1], core := [], initial := [], optStrict := false, optList := true,
    optTimeout := false, optCore := false, optUser := false, syncTimeout := 0, inactivity := 2, autoFence := false,
    failStrat := .cont }
example : checkMasterP (exCfg 0) exModes = true ∧ checkMasterP (exCfg 1) exModes = true := by decide
example : selectP (exCfg 1) [{ inst := [.running, .running] }, { inst := [.running, .running] }] = some 0 := by decide

end Supv.Props.C01
