import Supv.Lemmas.InstIso
import Supv.Model.Net
import Supv.Model.Proc

/-!
# C13 — Isolation is permanent, reciprocal and airtight

Models: `Supv/Model/Inst.lean` (instance), `Supv/Model/Net.lean` (communication layer), `Supv/Model/Proc.lean` (Context glue for
process events).  The instance transition table is GENERATED from `SupvisorsInstanceStatus._Transitions`.
-/

namespace Supv.Props.C13
open Supv.Inst

/-- **C13 (permanence).**  Over every history of operations of an instance — any message kind, any order, any oracle
    stream, internal errors included — a peer that is ISOLATED stays ISOLATED (until the local Supervisor restarts, which is
    a fresh `initSt`). -/
theorem C13_permanent (j : Nat) (c : Cfg) (ops : List (Nat × Op × List (Query × Nat))) (s : St) (h : peerIso j s) :
    peerIso j (ops.foldl (fun s o => (stepOp c s o.1 o.2.1 o.2.2).1) s) := by
  induction ops generalizing s with
  | nil => exact h
  | cons o t ih =>
    simp only [List.foldl_cons]
    exact ih _ (stepOp_iso j c s o.1 o.2.1 o.2.2 h)

/-- ISOLATED has no successor in the table of the current source -/
theorem C13_isolated_terminal : IState.isolated.next = [] := by decide

/-- the frame of one ignored message: nothing but the bookkeeping of the step itself changes, nothing is emitted -/
def ignored (s : St) (now : Nat) (orc : List (Query × Nat)) : St × Option Err :=
  ({ s with now := now, out := [], oracle := orc, oracleBad := 0 }, none)

/-- **C13 (airtight), TICK.**  A tick whose origin is ISOLATED changes no status and emits nothing. -/
theorem C13_airtight_tick (c : Cfg) (s : St) (now j k : Nat) (orc : List (Query × Nat)) (h : peerIso j s) :
    stepOp c s now (.rtick j k) orc = ignored s now orc := by
  unfold peerIso at h
  simp [ignored, stepOp, handle, handleRtick, isValid, getPeer, StateT.run, bind, StateT.bind, get, getThe, MonadStateOf.get,
    StateT.get, pure, StateT.pure, Except.pure, Except.bind, h]

/-- **C13 (airtight), state publication / notification.** -/
theorem C13_airtight_state (c : Cfg) (s : St) (now j : Nat) (m : Modes) (orc : List (Query × Nat)) (h : peerIso j s) :
    stepOp c s now (.state j m) orc = ignored s now orc := by
  unfold peerIso at h
  simp [ignored, stepOp, handle, handleState, isValid, getPeer, StateT.run, bind, StateT.bind, get, getThe, MonadStateOf.get,
    StateT.get, pure, StateT.pure, Except.pure, Except.bind, h]

/-- **C13 (airtight), handshake result** (also stale or duplicated ones). -/
theorem C13_airtight_auth (c : Cfg) (s : St) (now j code ts : Nat) (orc : List (Query × Nat)) (h : peerIso j s) :
    stepOp c s now (.auth j code ts) orc = ignored s now orc := by
  unfold peerIso at h
  simp [ignored, stepOp, handle, handleAuth, isValid, getPeer, StateT.run, bind, StateT.bind, get, getThe, MonadStateOf.get,
    StateT.get, pure, StateT.pure, Except.pure, Except.bind, h]

/-- **C13 (airtight), failure notification.** -/
theorem C13_airtight_failure (c : Cfg) (s : St) (now j : Nat) (orc : List (Query × Nat)) (h : peerIso j s) :
    stepOp c s now (.failure j) orc = ignored s now orc := by
  unfold peerIso at h
  simp [ignored, stepOp, handle, handleFailure, isValid, getPeer, StateT.run, bind, StateT.bind, get, getThe, MonadStateOf.get,
    StateT.get, pure, StateT.pure, Except.pure, Except.bind, h]

/-- **C13 (airtight), failed process-information transfer.** -/
theorem C13_airtight_allinfo (c : Cfg) (s : St) (now j : Nat) (orc : List (Query × Nat)) (h : peerIso j s) :
    stepOp c s now (.allinfoNone j) orc = ignored s now orc := by
  unfold peerIso at h
  simp [ignored, stepOp, handle, handleAllinfoNone, isValid, getPeer, StateT.run, bind, StateT.bind, get, getThe,
    MonadStateOf.get, StateT.get, pure, StateT.pure, Except.pure, Except.bind, h]

/-- **C13 (stale handshake notifications).**  An authorization whose timestamp is not later than the entry in CHECKING, or
    that arrives while the peer is not CHECKING, is ignored whatever it says. -/
theorem C13_stale_auth_ignored (c : Cfg) (s : St) (now j code ts : Nat) (orc : List (Query × Nat))
    (h : ¬ ((s.peers[j]?.getD {}).state = .checking ∧ ts > (s.peers[j]?.getD {}).checkingTime)) :
    stepOp c s now (.auth j code ts) orc = ignored s now orc := by
  by_cases hv : (s.peers[j]?.getD {}).state = .isolated
  · exact C13_airtight_auth c s now j code ts orc hv
  · simp [ignored, stepOp, handle, handleAuth, isValid, getPeer, StateT.run, bind, StateT.bind, get, getThe, MonadStateOf.get,
      StateT.get, pure, StateT.pure, Except.pure, Except.bind, hv, h]

/-- **C13 (no send).**  Nothing is queued for a peer the sender holds ISOLATED, and what was queued is dropped. -/
theorem C13_no_send (g : Supv.Net.Net) (i j : Nat) (it : Supv.Net.Item) (h : g.view i j = .isolated)
    (hi : i < g.proxy.length) (hj : j < (g.proxy.getD i []).length) :
    (g.push i j it).queue i j = [] := by
  have hj' : j < g.proxy[i].length := by simpa [List.getD_eq_getElem?_getD, hi] using hj
  simp [Supv.Net.Net.push, h, Supv.Net.Net.setQueue, Supv.Net.Net.queue, hi, hj']

/-- **C13 (no send, queued messages).**  Whatever message the proxy of `i` dedicated to `j` still holds when `j` is ISOLATED
    in the view of `i`, handling it sends nothing: no inbox changes (in particular not the one of `j`), no instance handles
    anything, no failure is notified; the message is simply dropped. -/
theorem C13_no_send_queued (g : Supv.Net.Net) (now i j : Nat) (h : g.view i j = .isolated) :
    (g.exec now i j).2 = [] ∧
    ((g.exec now i j).1 = g ∨ (g.exec now i j).1 = g.setQueue i j (g.queue i j).tail) := by
  unfold Supv.Net.Net.exec
  cases hq : g.queue i j with
  | nil => simp
  | cons it rest =>
    have hv : (g.setQueue i j rest).view i j = .isolated := h
    simp only [hv, if_true, List.tail_cons]
    exact ⟨trivial, Or.inr trivial⟩

/-- dropping a queued message changes no inbox, no instance, no clock: only the proxy queue `i -> j` -/
theorem C13_setQueue_frame (g : Supv.Net.Net) (i j : Nat) (q : List Supv.Net.Item) :
    (g.setQueue i j q).inbox = g.inbox ∧ (g.setQueue i j q).insts = g.insts ∧ (g.setQueue i j q).orders = g.orders
    ∧ (g.setQueue i j q).up = g.up := ⟨rfl, rfl, rfl, rfl⟩

/-- **C13 (handshake verdicts).**  The authorization computed during the handshake is NOT_AUTHORIZED exactly when the peer
    reports the local instance as ISOLATED, INCONSISTENT exactly when it does not but one of the four strategies
    (auto_fence, supvisors_failure, starting, conciliation) differs, AUTHORIZED otherwise. -/
theorem C13_handshake_verdict (g : Supv.Net.Net) (i j : Nat) :
    (g.authCode i j = 2 ↔ g.view j i = .isolated)
    ∧ (g.authCode i j = 3 ↔ g.view j i ≠ .isolated ∧
        ¬ ((g.cfg i).autoFence = (g.cfg j).autoFence ∧ (g.cfg i).failStrat = (g.cfg j).failStrat
           ∧ (g.cfg i).starting = (g.cfg j).starting ∧ (g.cfg i).conciliation = (g.cfg j).conciliation))
    ∧ (g.authCode i j = 1 ∨ g.authCode i j = 2 ∨ g.authCode i j = 3) := by
  unfold Supv.Net.Net.authCode
  by_cases h1 : g.view j i = .isolated
  · simp [h1]
  · by_cases h2 : ((g.cfg i).autoFence = (g.cfg j).autoFence ∧ (g.cfg i).failStrat = (g.cfg j).failStrat
           ∧ (g.cfg i).starting = (g.cfg j).starting ∧ (g.cfg i).conciliation = (g.cfg j).conciliation)
    · simp [h1, h2]
    · simp [h1, h2]

/-- **C13 (events only after the handshake).**  Process state, removal and disability events from an instance that is not
    CHECKED / RUNNING leave every process status untouched (`Context` glue of `Supv.Proc`). -/
theorem C13_events_only_after_handshake (c : Supv.Proc.Ctx) (now i p : Nat) (h : c.admitted.contains i = false) :
    (∀ s e et d, Supv.Proc.step c now (.event i p s e et d) = .ok c)
    ∧ Supv.Proc.step c now (.remove i p) = .ok c
    ∧ (∀ d, Supv.Proc.step c now (.disable i p d) = .ok c)
    ∧ (∀ t s et, Supv.Proc.step c now (.force i p t s et) = .ok c) := by
  have h' : ¬ i ∈ c.admitted := by simpa using h
  refine ⟨?_, ?_, ?_, ?_⟩ <;> intros <;> simp [Supv.Proc.step, h']

-- non-vacuity: an instance state in which peer 1 is ISOLATED
example (c : Cfg) : peerIso 1 { initSt c with peers := [{}, { state := .isolated }] } := by
  simp [peerIso]

end Supv.Props.C13
