import Supv.Lemmas.Stats

/-!
# C20 — Statistics histories stay bounded, aligned and sane

Property theorems only (model: `Supv/Model/Stats.lean`; helper lemmas and the per-history predicates:
`Supv/Lemmas/Stats.lean`; monitor evaluated on the implementation: `Supv/Spec/C20.lean`).  The model is tied to
`supvisors/statscompiler.py` by the lock-step correspondence of `harness/c20.py`.

Quantifier: every finite stream of host and process measures (`Op.hpush`, `Op.ppush`) from any identifiers, with
arbitrary values, time stamps, key sets (interfaces, disks, partitions appearing or vanishing, counters wrapping),
pids (restarts under new pids, stops), pushed into both compilers starting from their initial state, under any
periods / depth.  Hypotheses that restrict the settings or the stream are spelt out per theorem:

* `0 < cfg.depth` (bounded): `options.py::to_histo` only accepts [10, 1500]; with depth 0 a new interface is stored
  with one point, untruncated (`C20_bounded_needs_positive_depth`).
* a stable number of CPU entries per identifier (aligned, spacing of the series): by the stated reading of C20 a change
  of the number of cores within one stream is outside the property; the `IndexError` of the model (and of the code)
  when that number shrinks leaves `times` one point ahead (`C20_aligned_needs_stable_cores`).
* exact arithmetic: values are exact fractions `num/den`; IEEE rounding is monitored on the implementation (judge on the
  exact value of every float), not proved — except for the shape of the repaired `cpu_statistics` expression, for which
  `C20_cpu_range_repaired_rounding` gives the argument under an abstract monotone rounding (defect
  `C20:cpu-above-100:float-rounding`, repaired by 723bafe; its replay stays in the corpus as a regression case).
-/

namespace Supv.Props.C20
open Supv.Stats

/-! ## bounded -/

/-- **C20, "every history kept per instance or process and period holds at most stats_histo points".**
    After any stream, every series of every host history (times, memory, each CPU entry, time and value series of each
    interface / disk / partition) and of every process history (times, CPU, memory) has at most `depth` points.
    Holds whatever the measures are, including when a push raises. -/
theorem C20_bounded (cfg : Cfg) (hd : 0 < cfg.depth) (ops : List Op) :
    (∀ e ∈ (run cfg {} ops).host.insts, ∀ h ∈ e.2,
        h.times.length ≤ cfg.depth ∧ h.mem.length ≤ cfg.depth ∧ (∀ l ∈ h.cpu, l.length ≤ cfg.depth)
        ∧ ∀ t ∈ h.net ++ h.disk ++ h.usage, t.uptimes.length ≤ cfg.depth ∧ ∀ v ∈ t.vals, v.length ≤ cfg.depth)
    ∧ (∀ e ∈ (run cfg {} ops).proc.holders, ∀ x ∈ e.2.entries, ∀ p ∈ x.2.2,
        p.times.length ≤ cfg.depth ∧ p.cpu.length ≤ cfg.depth ∧ p.mem.length ≤ cfg.depth) := by
  have hH := run_allHost cfg (fun _ h => h.depth = cfg.depth ∧ HostBounded h) (fun _ _ => True)
    (fun _ p _ => ⟨rfl, ⟨by simp, by simp, by simp, by simp, by simp, by simp⟩⟩)
    (fun _ s h _ hP => ⟨by rw [push_depth]; exact hP.1, push_bounded _ h s (by rw [hP.1]; exact hd) hP.2⟩)
    ops (fun _ _ _ => trivial) {} (allHost_init _)
  have hP := run_allProc cfg (fun p => p.depth = cfg.depth ∧ ProcBounded p)
    (fun _ q _ => ⟨rfl, ⟨by simp, by simp, by simp⟩⟩)
    (fun s p hP => ⟨by rw [ppush_depth]; exact hP.1, ppush_bounded _ p s hP.2⟩)
    ops {} (allProc_init _)
  refine ⟨fun e he h hh => ?_, fun e he x hx p hp => ?_⟩
  · obtain ⟨hdep, hb⟩ := hH e he h hh
    rw [← hdep]
    refine ⟨hb.times, hb.mem, hb.cpu, ?_⟩
    intro t ht
    simp only [List.mem_append] at ht
    rcases ht with (ht | ht) | ht
    · exact hb.net t ht
    · exact hb.disk t ht
    · exact hb.usage t ht
  · obtain ⟨hdep, hb⟩ := hP e he x hx p hp
    rw [← hdep]
    exact ⟨hb.times, hb.cpu, hb.mem⟩

/-- the hypothesis `0 < depth` of `C20_bounded` cannot be dropped: with depth 0 (refused by `to_histo`) a partition
    that appears with the second measure is stored with one point -/
theorem C20_bounded_needs_positive_depth :
    ∃ (cfg : Cfg) (ops : List Op), cfg.depth = 0 ∧
      ∃ e ∈ (run cfg {} ops).host.insts, ∃ h ∈ e.2, ∃ t ∈ h.usage, ¬ t.uptimes.length ≤ cfg.depth :=
  ⟨{ depth := 0, periods := [5] },
   [.hpush 0 { now := 0, cpu := [(0, 0)], mem := 1, net := [], disk := [], usage := [] },
    .hpush 0 { now := 5, cpu := [(1, 1)], mem := 1, net := [], disk := [], usage := [(0, 40)] }],
   rfl, by decide⟩

/-! ## aligned -/

/-- **C20, "the value series of one entity always have exactly as many points as their time series".**
    After any stream in which every identifier always reports the same number of CPU entries, in every host history
    the memory series and each CPU series have the length of `times`, every value series of an interface / disk /
    partition has the length of its own time series; in every process history CPU and memory have the length of
    `times` (no hypothesis needed on the process side). -/
theorem C20_aligned (cfg : Cfg) (nc : Nat → Nat) (ops : List Op)
    (hst : ∀ id s, Op.hpush id s ∈ ops → s.cpu.length = nc id) :
    (∀ e ∈ (run cfg {} ops).host.insts, ∀ h ∈ e.2,
        h.mem.length = h.times.length ∧ (∀ l ∈ h.cpu, l.length = h.times.length)
        ∧ ∀ t ∈ h.net ++ h.disk ++ h.usage, ∀ v ∈ t.vals, v.length = t.uptimes.length)
    ∧ (∀ e ∈ (run cfg {} ops).proc.holders, ∀ x ∈ e.2.entries, ∀ p ∈ x.2.2,
        p.cpu.length = p.times.length ∧ p.mem.length = p.times.length) := by
  have hH := run_allHost cfg (fun id h => HostCores (nc id) h ∧ HostAligned h) (fun id s => s.cpu.length = nc id)
    (fun _ p _ => ⟨by intro r hr; simp at hr, ⟨by simp, by simp, by simp, by simp, by simp, by simp⟩⟩)
    (fun id s h hs hP => ⟨push_cores _ h s _ hs hP.1, push_aligned _ h s _ hs hP.1 hP.2⟩)
    ops hst {} (allHost_init _)
  have hP := run_allProc cfg ProcAligned (fun _ q _ => ⟨by simp, by simp⟩) (fun s p hP => ppush_aligned _ p s hP)
    ops {} (allProc_init _)
  refine ⟨fun e he h hh => ?_, fun e he x hx p hp => ⟨(hP e he x hx p hp).cpu, (hP e he x hx p hp).mem⟩⟩
  obtain ⟨_, ha⟩ := hH e he h hh
  refine ⟨ha.mem, ha.cpu, ?_⟩
  intro t ht
  simp only [List.mem_append] at ht
  rcases ht with (ht | ht) | ht
  · exact ha.net t ht
  · exact ha.disk t ht
  · exact ha.usage t ht

/-- the hypothesis of `C20_aligned` cannot be dropped (model and code agree on it): when the number of CPU entries
    shrinks, `_push_cpu_stats` raises `IndexError` after `times` was pushed; memory stays one point behind.
    Outside C20 by the stated reading (a change of the number of cores within one stream), kept explicit. -/
theorem C20_aligned_needs_stable_cores :
    ∃ (cfg : Cfg) (ops : List Op),
      outs cfg {} ops = [.host [] none, .host [] (some .indexError)]
      ∧ ∃ e ∈ (run cfg {} ops).host.insts, ∃ h ∈ e.2, h.mem.length ≠ h.times.length :=
  ⟨{ depth := 10, periods := [5] },
   [.hpush 0 { now := 0, cpu := [(0, 0), (0, 0)], mem := 1, net := [], disk := [], usage := [] },
    .hpush 0 { now := 5, cpu := [(1, 1)], mem := 1, net := [], disk := [], usage := [] }],
   by decide, by decide⟩

/-! ## period gate -/

/-- **C20, "a new point is produced only when at least the period has elapsed since the previous one"** (one host
    history, any state).  A point comes out of a push only if the history has a reference measure — the measure of
    its previous point, or its very first measure — and at least `period` separates the two; the point spans exactly
    that interval. -/
theorem C20_period_gate (u : Units) (h : HostInst) (s : Sample) (p : HostPoint) (hp : (h.push u s).2 = .point p) :
    ∃ r, h.ref = some r ∧ h.period ≤ s.now - r.now ∧ p.t1 - p.t0 = s.now - r.now
      ∧ (h.push u s).1.ref = some s := by
  cases hr : h.ref with
  | none => simp [HostInst.push, hr] at hp
  | some r =>
    refine ⟨r, rfl, ?_⟩
    by_cases hgate : h.period ≤ s.now - r.now
    · cases hi : integrate u h r s with
      | none => simp [HostInst.push, hr, hgate, hi] at hp
      | some p' =>
        obtain ⟨h0, h1, _⟩ := integrate_some hi
        by_cases hno : p'.cpu.length < h.cpu.length
        · simp [HostInst.push, hr, hgate, hi, commit, hno] at hp
        · simp only [HostInst.push, hr, hgate, hi, commit, hno, if_true, if_false, HRes.point.injEq] at hp ⊢
          subst hp
          exact ⟨trivial, by omega, trivial⟩
    · simp [HostInst.push, hr, hgate] at hp

/-- the same for one process history -/
theorem C20_period_gate_proc (u : Units) (p : ProcInst) (s : PSample) (x : ProcPoint) (hp : (p.push u s).2 = .point x) :
    ∃ r, p.ref = some r ∧ p.period ≤ s.now - r.now ∧ x.t1 - x.t0 = s.now - r.now ∧ (p.push u s).1.ref = some s := by
  cases hr : p.ref with
  | none => simp [ProcInst.push, hr] at hp
  | some r =>
    refine ⟨r, rfl, ?_⟩
    by_cases hgate : p.period ≤ s.now - r.now
    · by_cases hz : s.now - r.now = 0
      · rw [hz] at hgate
        simp [ProcInst.push, hr, hz, hgate] at hp
      · simp only [ProcInst.push, hr, hgate, hz, if_true, if_false, PRes.point.injEq] at hp ⊢
        subst hp
        exact ⟨trivial, by simp; omega, trivial⟩
    · simp [ProcInst.push, hr, hgate] at hp

/-- **C20, period gate, at the compilers.**  Whatever the state `w` reached so far, every point returned by a push
    for period `q` comes from an existing history of that identifier (resp. process) and period whose reference
    measure is at least `q` old.  An identifier or process never seen before therefore never yields a point. -/
theorem C20_period_gate_stream (cfg : Cfg) (w : World) :
    (∀ id s q x, (q, x) ∈ (w.host.push cfg.u cfg.depth cfg.periods id s).2.1 →
        ∃ hs, AL.get? w.host.insts id = some hs ∧ ∃ h ∈ hs, h.period = q ∧ ∃ r, h.ref = some r ∧ q ≤ s.now - r.now)
    ∧ (∀ id s q x, (q, x) ∈ (w.proc.push cfg.u cfg.depth cfg.periods id s).2.1 →
        w.proc.pidOf s.ns id = some s.pid
        ∧ ∃ p ∈ w.proc.insts s.ns id, p.period = q ∧ ∃ r, p.ref = some r ∧ q ≤ s.now - r.now) := by
  refine ⟨?_, ?_⟩
  · intro id s q x hx
    unfold HostComp.push at hx
    simp only at hx
    split at hx
    · simp at hx
    · obtain ⟨h, hm, hper, hpt⟩ := pushAll_points cfg.u s _ _ hx
      obtain ⟨r, hr, hg, _⟩ := C20_period_gate cfg.u h s x hpt
      unfold HostComp.ensure at hm
      split at hm
      · rename_i a t hget
        simp only [hget, Option.getD_some] at hm
        exact ⟨_, hget, h, hm, hper, r, hr, by rw [← show h.period = q from hper]; exact hg⟩
      · simp only [AL.get?_set_self, Option.getD_some, freshHost, List.mem_map] at hm
        obtain ⟨_, _, rfl⟩ := hm
        simp at hr
  · intro id s q x hx
    unfold ProcComp.push at hx
    split at hx
    · simp at hx
    · have hx' : (q, x) ∈ (Holder.push cfg.u cfg.depth cfg.periods ((AL.get? w.proc.holders s.ns).getD {}) id s).2.1 := by
        simp only at hx
        split at hx
        · simp at hx
        · split at hx <;> exact hx
      unfold Holder.push at hx'
      split at hx'
      · simp at hx'
      · have hx'' : (q, x) ∈ (ppushAll cfg.u (Holder.current cfg.depth cfg.periods
            ((AL.get? w.proc.holders s.ns).getD {}) id s) s).2.1 := by
          simp only at hx'
          split at hx'
          · simp at hx'
          · exact hx'
        obtain ⟨p, hm, hper, hpt⟩ := ppushAll_points cfg.u s _ _ hx''
        obtain ⟨r, hr, hg, _⟩ := C20_period_gate_proc cfg.u p s x hpt
        unfold Holder.current at hm
        split at hm
        · rename_i rpid a t hget
          split at hm
          · rename_i hpid
            cases hg' : AL.get? w.proc.holders s.ns with
            | none => simp [hg', AL.get?] at hget
            | some h0 =>
              simp only [hg', Option.getD_some] at hget
              refine ⟨by simp [ProcComp.pidOf, hg', hget, hpid], p, ?_, hper, r, hr,
                by rw [← show p.period = q from hper]; exact hg⟩
              simp only [ProcComp.insts, hg', hget]
              exact hm
          · simp only [freshProc, List.mem_map] at hm
            obtain ⟨_, _, rfl⟩ := hm
            simp at hr
        · simp only [freshProc, List.mem_map] at hm
          obtain ⟨_, _, rfl⟩ := hm
          simp at hr

/-- **C20, period gate, on the stored series.**  After any stream with a stable number of CPU entries per identifier
    and non-negative periods, any two points of any time series (host `times`, the time series of every interface /
    disk / partition, process `times`) are at least one period apart. -/
theorem C20_period_gate_series (cfg : Cfg) (hper : ∀ q ∈ cfg.periods, 0 ≤ q) (nc : Nat → Nat) (ops : List Op)
    (hst : ∀ id s, Op.hpush id s ∈ ops → s.cpu.length = nc id) :
    (∀ e ∈ (run cfg {} ops).host.insts, ∀ h ∈ e.2,
        h.times.Pairwise (fun a b => a + h.period ≤ b)
        ∧ ∀ t ∈ h.net ++ h.disk ++ h.usage, t.uptimes.Pairwise (fun a b => a + h.period ≤ b))
    ∧ (∀ e ∈ (run cfg {} ops).proc.holders, ∀ x ∈ e.2.entries, ∀ p ∈ x.2.2,
        p.times.Pairwise (fun a b => a + p.period ≤ b)) := by
  have hH := run_allHost cfg (fun id h => HostCores (nc id) h ∧ 0 ≤ h.period ∧ HostSpaced h) (fun id s => s.cpu.length = nc id)
    (fun _ p hp => ⟨by intro r hr; simp at hr, hper p (mem_dedup hp),
      ⟨by simp, by intro r hr; simp at hr, by intro r hr; simp at hr, by intro r hr; simp at hr, by intro r hr; simp at hr⟩⟩)
    (fun id s h hs hP => ⟨push_cores _ h s _ hs hP.1, by rw [push_period]; exact hP.2.1,
      push_spaced _ h s _ hs hP.1 hP.2.1 hP.2.2⟩)
    ops hst {} (allHost_init _)
  have hP := run_allProc cfg (fun p => 0 ≤ p.period ∧ ProcSpaced p)
    (fun _ q hq => ⟨hper q (mem_dedup hq), ⟨by simp, by intro r hr; simp at hr⟩⟩)
    (fun s p hP => ⟨by rw [ppush_period]; exact hP.1, ppush_spaced _ p s hP.1 hP.2⟩)
    ops {} (allProc_init _)
  refine ⟨fun e he h hh => ?_, fun e he x hx p hp => ?_⟩
  · obtain ⟨_, _, hs⟩ := hH e he h hh
    cases hr : h.ref with
    | none =>
      -- no measure yet: the structures are still empty
      obtain ⟨h1, h2, h3, h4⟩ := hs.fresh hr
      simp [h1, h2, h3, h4]
    | some r =>
      refine ⟨(hs.times r hr).1, ?_⟩
      intro t ht
      simp only [List.mem_append] at ht
      rcases ht with (ht | ht) | ht
      · exact (hs.net r hr t ht).1
      · exact (hs.disk r hr t ht).1
      · exact (hs.usage r hr t ht).1
  · obtain ⟨_, hs⟩ := hP e he x hx p hp
    cases hr : p.ref with
    | none => rw [hs.fresh hr]; exact List.Pairwise.nil
    | some r => exact (hs.times r hr).1

/-! ## CPU percentages -/

/-- **C20, "CPU percentages computed from non-decreasing counters lie in [0,100] per core"** (`cpu_statistics`, exact
    arithmetic).  For any two lists of (work, idle) counters such that no counter of `latest` is below the one of
    `ref` for the same core, every computed percentage `num/den` has `den > 0` and `0 ≤ num/den ≤ 100`. -/
theorem C20_cpu_range (latest ref : List (Int × Int))
    (hmono : ∀ p ∈ latest.zip ref, p.2.1 ≤ p.1.1 ∧ p.2.2 ≤ p.1.2) :
    ∀ q ∈ cpuStats latest ref, 0 < q.2 ∧ 0 ≤ q.1 ∧ q.1 ≤ 100 * q.2 :=
  cpuStats_ok hmono

/-- the CPU percentages of a returned point are those of `cpu_statistics` between the pushed measure and the reference
    measure of the history: in range as soon as the counters did not decrease in between -/
theorem C20_cpu_range_point (u : Units) (h : HostInst) (s : Sample) (p : HostPoint) (hp : (h.push u s).2 = .point p) :
    ∃ r, h.ref = some r ∧ p.cpu = cpuStats s.cpu r.cpu
      ∧ (CpuLe r.cpu s.cpu → ∀ q ∈ p.cpu, 0 < q.2 ∧ 0 ≤ q.1 ∧ q.1 ≤ 100 * q.2) := by
  cases hr : h.ref with
  | none => simp [HostInst.push, hr] at hp
  | some r =>
    refine ⟨r, rfl, ?_⟩
    by_cases hgate : h.period ≤ s.now - r.now
    · cases hi : integrate u h r s with
      | none => simp [HostInst.push, hr, hgate, hi] at hp
      | some p' =>
        have hcpu := (integrate_some hi).2.2.1
        by_cases hno : p'.cpu.length < h.cpu.length
        · simp [HostInst.push, hr, hgate, hi, commit, hno] at hp
        · simp only [HostInst.push, hr, hgate, hi, commit, hno, if_true, if_false, HRes.point.injEq] at hp
          subst hp
          exact ⟨hcpu, fun hm => hcpu ▸ cpuStats_ok hm⟩
    · simp [HostInst.push, hr, hgate] at hp

/-- the measures of one identifier never go backwards: every later measure has counters at least those of every
    earlier one -/
def CpuMono : Op → Op → Prop
  | .hpush i s, .hpush j s' => i = j → CpuLe s.cpu s'.cpu
  | _, _ => True

/-- **C20, CPU range, on the stored series.**  After any stream in which the CPU counters of each identifier never
    decrease, every CPU percentage stored in every host history lies in [0, 100] (exact arithmetic). -/
theorem C20_cpu_range_history (cfg : Cfg) (ops : List Op) (hmono : ops.Pairwise CpuMono) :
    ∀ e ∈ (run cfg {} ops).host.insts, ∀ h ∈ e.2, ∀ l ∈ h.cpu, ∀ q ∈ l, 0 < q.2 ∧ 0 ≤ q.1 ∧ q.1 ≤ 100 * q.2 := by
  let P : List Op → Nat → HostInst → Prop := fun rest id h =>
    (∀ r, h.ref = some r → ∀ s', Op.hpush id s' ∈ rest → CpuLe r.cpu s'.cpu) ∧ HostCpuSane h
  have key := run_induction cfg (fun rest w => rest.Pairwise CpuMono ∧ w.AllHost (P rest)) ?_ ops {}
    ⟨hmono, allHost_init _⟩
  · exact fun e he h hh => (key.2 e he h hh).2
  · intro w op rest ⟨hpw, hw⟩
    obtain ⟨hhead, htail⟩ := List.pairwise_cons.mp hpw
    refine ⟨htail, ?_⟩
    refine step_allHost cfg w op (P := P (op :: rest)) (P' := P rest) ?_ ?_ ?_ hw
    · exact fun i h hP => ⟨fun r hr s' hs' => hP.1 r hr s' (List.mem_cons_of_mem _ hs'), hP.2⟩
    · intro id s _ p _
      exact ⟨by intro r hr; simp at hr, by intro l hl; simp at hl⟩
    · intro id s hop h hP
      subst hop
      refine ⟨?_, push_cpuSane _ h s (fun r hr => hP.1 r hr s List.mem_cons_self) hP.2⟩
      intro r hr s' hs'
      rcases push_ref cfg.u h s with href | href
      · rw [href] at hr
        simp only [Option.some.injEq] at hr
        subst hr
        exact hhead _ hs' rfl
      · rw [href] at hr
        exact hP.1 r hr s' (List.mem_cons_of_mem _ hs')

/-- an abstract rounding to a set of representable numbers: monotone, and exact on 0, 1 and 100 (IEEE-754
    round-to-nearest — any IEEE rounding mode — has these properties as long as nothing overflows) -/
structure Rounding (rnd : Rat → Rat) : Prop where
  mono : ∀ a b, a ≤ b → rnd a ≤ rnd b
  zero : rnd 0 = 0
  one : rnd 1 = 1
  hundred : rnd 100 = 100

/-- **C20, CPU range, the repaired expression under rounding** (`100.0 * (work / total)`, fix 723bafe).  `w` and `i` are
    the work and idle differences as the code holds them (already rounded, `w` representable), every further operation —
    the sum, the quotient, the product — is rounded by an arbitrary monotone rounding that is exact on 0, 1 and 100.
    For non-decreasing counters (`0 ≤ w`, `0 ≤ i`) the result lies in [0, 100]: the rounded quotient cannot exceed 1.
    (The former expression `100.0 * work / total` rounds the product first and has no such bound: 11.54 gives
    100.00000000000001, regression case `corpus/C20/kf_cpu_above_100_float_rounding.json`.) -/
theorem C20_cpu_range_repaired_rounding (rnd : Rat → Rat) (hr : Rounding rnd) (w i : Rat) (hw : 0 ≤ w) (hi : 0 ≤ i)
    (hwr : rnd w = w) (ht : rnd (w + i) ≠ 0) :
    0 ≤ rnd (100 * rnd (w / rnd (w + i))) ∧ rnd (100 * rnd (w / rnd (w + i))) ≤ 100 := by
  have h1 : w ≤ rnd (w + i) := by
    have := hr.mono w (w + i) (by grind)
    rwa [hwr] at this
  have hpos : 0 < rnd (w + i) := by grind
  obtain ⟨hq0, hq1⟩ := rat_div_unit hw h1 hpos
  have hx0 : 0 ≤ rnd (w / rnd (w + i)) := by have := hr.mono _ _ hq0; rwa [hr.zero] at this
  have hx1 : rnd (w / rnd (w + i)) ≤ 1 := by have := hr.mono _ _ hq1; rwa [hr.one] at this
  have hy0 : (0 : Rat) ≤ 100 * rnd (w / rnd (w + i)) := by grind
  have hy1 : 100 * rnd (w / rnd (w + i)) ≤ 100 := by grind
  exact ⟨by have := hr.mono _ _ hy0; rwa [hr.zero] at this, by have := hr.mono _ _ hy1; rwa [hr.hundred] at this⟩

/-! ## I/O rates -/

/-- **C20, "I/O rates are finite and non-negative"** (`io_statistics`, exact arithmetic), including the counter-wrap
    guard.  Over a positive duration (clock with `tps > 0` units per second) `io_statistics` never raises; a rate is
    only computed for an interface / device present in both measures none of whose two counters went backwards
    (a wrapped counter yields no rate at all, never a negative one), and each rate `num/den` has `den > 0`, `num ≥ 0`. -/
theorem C20_io_nonneg_finite (u : Units) (htps : 0 < u.tps) (last ref : List (Nat × Int × Int)) (duration : Int)
    (hd : 0 < duration) :
    ∃ res, ioStats u last ref duration = some res ∧
      ∀ kv ∈ res,
        (∃ lin lout rin rout, (kv.1, lin, lout) ∈ last ∧ (kv.1, rin, rout) ∈ ref ∧ rin ≤ lin ∧ rout ≤ lout)
        ∧ ∀ q ∈ kv.2, 0 < q.2 ∧ 0 ≤ q.1 := by
  have hne : ¬ (duration = 0 ∧ ioPairs last ref ≠ []) := by omega
  have hex : ∃ res, ioStats u last ref duration = some res := by
    simp only [ioStats, hne, if_false]; exact ⟨_, rfl⟩
  obtain ⟨res, heq⟩ := hex
  refine ⟨res, heq, ?_⟩
  intro kv hkv
  refine ⟨?_, ioStats_sane htps hd heq kv hkv⟩
  simp only [ioStats, hne, if_false, Option.some.injEq] at heq
  subst heq
  simp only [List.mem_map] at hkv
  obtain ⟨⟨k, i, o⟩, hx, rfl⟩ := hkv
  unfold ioPairs at hx
  simp only [List.mem_filterMap] at hx
  obtain ⟨⟨k', lin, lout⟩, hmem, hx⟩ := hx
  simp only at hx
  split at hx
  · rename_i kr rin rout hfind
    split at hx
    · rename_i hle
      simp only [Option.some.injEq, Prod.mk.injEq] at hx
      obtain ⟨rfl, _, _⟩ := hx
      have hk : kr = k' := by simpa using List.find?_some hfind
      subst hk
      exact ⟨lin, lout, rin, rout, hmem, List.mem_of_find?_eq_some hfind, hle.1, hle.2⟩
    · simp at hx
  · simp at hx

/-- **C20, I/O rates, on the stored series.**  With positive periods, after any stream (interfaces and disks appearing
    or vanishing, counters wrapping, any values) every network / disk I/O rate stored in every host history is a
    fraction with a positive denominator and a non-negative numerator. -/
theorem C20_io_nonneg_finite_history (cfg : Cfg) (htps : 0 < cfg.u.tps) (hper : ∀ q ∈ cfg.periods, 0 < q) (ops : List Op) :
    ∀ e ∈ (run cfg {} ops).host.insts, ∀ h ∈ e.2, ∀ t ∈ h.net ++ h.disk, ∀ l ∈ t.vals, ∀ q ∈ l, 0 < q.2 ∧ 0 ≤ q.1 := by
  have hH := run_allHost cfg (fun _ h => 0 < h.period ∧ HostIoSane h) (fun _ _ => True)
    (fun _ p hp => ⟨hper p (mem_dedup hp), ⟨by simp, by simp⟩⟩)
    (fun _ s h _ hP => ⟨by rw [push_period]; exact hP.1, push_ioSane _ h s htps hP.1 hP.2⟩)
    ops (fun _ _ _ => trivial) {} (allHost_init _)
  intro e he h hh t ht
  simp only [List.mem_append] at ht
  rcases ht with ht | ht
  · exact (hH e he h hh).2.net t ht
  · exact (hH e he h hh).2.disk t ht

/-! ## stopped processes, restarts under a new pid, processes never seen before -/

/-- **C20, "the history of a stopped process is dropped".**  Whatever the state of the compiler, after a measure with
    pid 0 for a process on an identifier no history is kept for that process on that identifier, for any period, and no
    point is returned. -/
theorem C20_stopped_dropped (cfg : Cfg) (w : World) (id : Nat) (s : PSample) (hs : s.pid = 0) :
    (step cfg w (.ppush id s)).1.proc.insts s.ns id = []
      ∧ (∀ q, (step cfg w (.ppush id s)).1.proc.find s.ns id q = none)
      ∧ (step cfg w (.ppush id s)).2 = .proc [] none := by
  obtain ⟨h1, h2⟩ := ProcComp.push_stop cfg.u cfg.depth cfg.periods w.proc id s hs
  refine ⟨h1, ?_, ?_⟩
  · intro q
    have : (step cfg w (.ppush id s)).1.proc.insts s.ns id = [] := h1
    unfold ProcComp.insts at this
    unfold ProcComp.find
    split
    · rename_i h0 hg
      simp only [hg] at this
      split
      · rename_i hg'
        simp only [hg'] at this
        simp [this]
      · rfl
    · rfl
  · simp only [step]
    rw [show (w.proc.push cfg.u cfg.depth cfg.periods id s).2 = ([], none) from h2]

/-- **C20, "processes restarting under new PIDs" / process never seen before.**  Whatever the state of the compiler,
    a measure with a live pid that is not the pid registered for the process on that identifier (another pid: the
    process was restarted; none: never seen, or stopped since) resets the histories: for every period a new history
    is started whose only content is this measure as reference — no point of the previous pid survives and no point
    is returned. -/
theorem C20_pid_change_resets (cfg : Cfg) (w : World) (id : Nat) (s : PSample) (hpid : 0 < s.pid)
    (hchg : w.proc.pidOf s.ns id ≠ some s.pid) :
    (step cfg w (.ppush id s)).1.proc.insts s.ns id
        = (dedup cfg.periods).map (fun q =>
            { pid := s.pid, period := q, depth := cfg.depth, ref := some s, refStart := s.now,
              times := [], cpu := [], mem := [] })
      ∧ (step cfg w (.ppush id s)).2 = .proc [] none := by
  obtain ⟨h1, h2⟩ := ProcComp.push_start cfg.u cfg.depth cfg.periods w.proc id s hpid hchg
  refine ⟨h1, ?_⟩
  simp only [step]
  rw [show (w.proc.push cfg.u cfg.depth cfg.periods id s).2 = ([], none) from h2]

/-- an identifier never seen before: its host histories are created on the fly, empty, with the first measure as
    reference; nothing is returned and nothing raises -/
theorem C20_unknown_identifier_starts_empty (cfg : Cfg) (w : World) (id : Nat) (s : Sample)
    (hnew : AL.get? w.host.insts id = none) :
    AL.get? (step cfg w (.hpush id s)).1.host.insts id = some ((dedup cfg.periods).map (fun q =>
        (({ period := q, depth := cfg.depth } : HostInst).first s)))
      ∧ (step cfg w (.hpush id s)).2 = .host [] none := by
  have hall : ∀ l : List Int, pushAll cfg.u (l.map fun q => ({ period := q, depth := cfg.depth } : HostInst)) s
      = (l.map (fun q => (({ period := q, depth := cfg.depth } : HostInst).first s)), [], none) := by
    intro l
    induction l with
    | nil => rfl
    | cons q t ih => simp only [List.map_cons, pushAll, HostInst.push, ih]
  simp only [step, HostComp.push, HostComp.ensure, hnew, AL.get?_set_self, Option.getD_some, freshHost, hall]
  trivial

/-- **C20, "in [0,100] per core", process side** (`ProcStatisticsInstance.integrate` then the Solaris division of
    `ProcStatisticsInstance.copy`).  Over a positive interval, with a non-decreasing `proc_work` counter, the process CPU
    percentage is a non-negative well-defined fraction; divided by the number `n` of cores it is at most 100 as soon as
    the process did not consume more than `n` CPU-seconds per second (`Δwork / vs ≤ n · Δnow / tps`). -/
theorem C20_proc_cpu_range (u : Units) (htps : 0 < u.tps) (hvs : 0 < u.vs) (r s : PSample) (n : Int)
    (hdt : 0 < s.now - r.now) (hw : r.work ≤ s.work)
    (hcap : (s.work - r.work) * u.tps ≤ n * (s.now - r.now) * u.vs) :
    0 < (procCpu u r s).2 ∧ 0 ≤ (procCpu u r s).1 ∧ (procCpu u r s).1 ≤ 100 * ((procCpu u r s).2 * n) := by
  simp only [procCpu]
  refine ⟨Int.mul_pos hvs hdt, Int.mul_nonneg (Int.mul_nonneg (by omega) (by omega)) (Int.le_of_lt htps), ?_⟩
  have h100 := Int.mul_le_mul_of_nonneg_left hcap (show (0 : Int) ≤ 100 by omega)
  grind

/-- **IRIX / Solaris view** (`ProcStatisticsCompiler.get_stats` → `copy(cpu_factor)`).  The copy handed out for a
    process, identifier and period carries the time and memory series unchanged and one CPU value per stored value:
    the stored fraction in IRIX mode, the stored fraction divided by the number of cores known for the identifier
    (1 when unknown) in Solaris mode — so the copy is bounded and aligned whenever the history is. -/
theorem C20_get_stats_copy (irix : Bool) (c : ProcComp) (ns id : Nat) (q : Int) (v : ProcView)
    (h : c.get irix ns id q = .ok (some v)) :
    ∃ p, c.find ns id q = some p ∧ v.times = p.times ∧ v.mem = p.mem
      ∧ v.cpu = p.cpu.map (fun x => (x.1, x.2 * (if irix then 1 else (AL.get? c.cores id).getD 1))) := by
  cases hf : c.find ns id q with
  | none => simp [ProcComp.get, hf] at h
  | some p =>
    refine ⟨p, rfl, ?_⟩
    cases irix
    all_goals
      simp only [ProcComp.get, hf, Bool.false_eq_true, if_false, if_true] at h
      split at h
      · simp at h
      · simp only [Except.ok.injEq, Option.some.injEq] at h
        subst h
        simp

/-! ## the hypotheses are satisfiable by non-trivial streams -/

/-- a stream used by the examples: one identifier, two CPU entries, an interface that wraps (measure 3) and comes back,
    a partition that appears (measure 2), five points for a depth of 3; a process restarted under another pid -/
def demoCfg : Cfg := { depth := 3, periods := [5120, 10240] }

def demoHost (now w i rx : Int) (usage : List (Nat × Int)) : Op :=
  .hpush 0 { now := now, cpu := [(w, i), (2 * w, 0)], mem := 40, net := [(0, rx, 2 * rx)], disk := [], usage := usage }

def demoOps : List Op :=
  [demoHost 0 0 0 1000 [], demoHost 5120 10 30 2000 [(0, 55)], demoHost 10240 20 60 5 [(0, 56)],
   .ppush 0 { ns := 1, pid := 7, now := 0, work := 0, mem := 1 },
   .ppush 0 { ns := 1, pid := 7, now := 5120, work := 3, mem := 1 },
   demoHost 15360 30 90 900 [(0, 57)], demoHost 20480 40 120 1800 [], demoHost 25600 50 150 2700 []]

/-- `C20_bounded`: the bound is reached (truncation took place: five points were produced for a depth of 3) -/
example : 0 < demoCfg.depth
    ∧ (∃ e ∈ (run demoCfg {} demoOps).host.insts, ∃ h ∈ e.2, h.times = [15360, 20480, 25600])
    ∧ (∃ e ∈ (run demoCfg {} demoOps).host.insts, ∃ h ∈ e.2, h.times.length = 2 ∧ ∃ t ∈ h.net, t.uptimes.length = 1) := by
  decide

/-- `C20_aligned`, `C20_period_gate_series`: the stream has a stable number of CPU entries -/
example : ∀ id s, Op.hpush id s ∈ demoOps → s.cpu.length = (fun _ => 2) id := by
  intro id s h
  simp only [demoOps, demoHost, List.mem_cons, Op.hpush.injEq, List.not_mem_nil, or_false, reduceCtorEq, false_or] at h
  rcases h with ⟨_, rfl⟩ | ⟨_, rfl⟩ | ⟨_, rfl⟩ | ⟨_, rfl⟩ | ⟨_, rfl⟩ | ⟨_, rfl⟩ <;> rfl

example : ∀ q ∈ demoCfg.periods, 0 < q := by decide

/-- `C20_period_gate`, `C20_cpu_range_point`: a push that returns a point -/
example : ∃ p, (HostInst.push {} ((({ period := 5, depth := 3 } : HostInst).push {}
      { now := 0, cpu := [(0, 0)], mem := 1, net := [], disk := [], usage := [] }).1)
      { now := 7, cpu := [(3, 1)], mem := 1, net := [], disk := [], usage := [] }).2 = .point p
    ∧ p.cpu = [(300, 4)] := ⟨_, rfl, rfl⟩

example : ∃ x, (ProcInst.push {} ((({ pid := 7, period := 5, depth := 3 } : ProcInst).push {}
      { ns := 0, pid := 7, now := 0, work := 0 }).1) { ns := 0, pid := 7, now := 5, work := 2 }).2 = .point x :=
  ⟨_, rfl⟩

/-- `C20_cpu_range`: non-decreasing counters, a busy core (100 %) and an idle one (0 %) -/
example : (∀ p ∈ [((10 : Int), (0 : Int)), (7, 30)].zip [((4 : Int), (0 : Int)), (7, 10)], p.2.1 ≤ p.1.1 ∧ p.2.2 ≤ p.1.2)
    ∧ cpuStats [(10, 0), (7, 30)] [(4, 0), (7, 10)] = [(600, 6), (0, 20)] := by decide

instance (a b : Op) : Decidable (CpuMono a b) := by
  cases a <;> cases b <;> unfold CpuMono <;> try unfold CpuLe <;> infer_instance

/-- `C20_cpu_range_history`: the CPU counters of the stream never decrease -/
example : demoOps.Pairwise CpuMono := by decide

/-- `C20_io_nonneg_finite`: a wrapped counter (interface 0) yields no rate, interface 1 yields 800·1024/(5120·128) -/
example : ioStats {} [(0, 5, 5000), (1, 900, 900)] [(0, 1000, 4000), (1, 100, 900)] 5120
    = some [(1, [(819200, 655360), (0, 655360)])] := by decide

/-- `C20_stopped_dropped`: a history with a point exists before the stop -/
example : ∃ p ∈ (run demoCfg {} demoOps).proc.insts 1 0, p.times.length = 1 := by decide

/-- `C20_pid_change_resets`: the process is registered under pid 7, the measure carries pid 8 -/
example : (run demoCfg {} demoOps).proc.pidOf 1 0 = some 7 ∧ (7 : Int) ≠ 8 := by decide

/-- `C20_proc_cpu_range`: two cores, 1.5 CPU-seconds consumed in one second -/
example : ((3 : Int) - 0) * 1024 ≤ 2 * (1024 - 0) * 2 := by decide

/-- `C20_get_stats_copy`: Solaris mode with 4 cores known for the identifier: the stored 300/1 % is handed out as 300/4 % -/
example : ProcComp.get false
    { holders := [(1, { entries := [(0, 7, [{ pid := 7, period := 5, depth := 3, times := [5], cpu := [(300, 1)], mem := [2] }])] })],
      cores := [(0, 4)] } 1 0 5 = .ok (some { times := [5], mem := [2], cpu := [(300, 4)] }) := rfl

/-- `C20_cpu_range_repaired_rounding`: the identity is a rounding; a busy interval -/
example : Rounding id ∧ (id ((3 : Rat) + 0) ≠ 0) := ⟨⟨fun _ _ h => h, rfl, rfl, rfl⟩, by simp only [id]; grind⟩

end Supv.Props.C20
