import Supv.Props.C14

/-!
# C04 — Start requests only go to eligible instances with spare load

Model: `Supv.Cmd` (`process_job` → `possible_identifiers` → `get_supvisors_instance` → `is_loading_valid`), validated in lock-step
with the real Starter.  The cap is read from the source on every run (`Supv.Gen.loadingValidCmps`).
-/

namespace Supv.Props.C04
open Supv.Cmd Supv.Proc

/-- **C04 (who may be asked).**  `possible_identifiers` is exactly: allowed by the program's identifiers rule (or any instance
    for the wildcard), known to that instance's Supervisor, and enabled there. -/
theorem C04_possible_identifiers (w : W) (p i : Nat) :
    i ∈ possibleIdentifiers w p ↔
      (match (w.pcfg.getD p default).idents with | none => i < w.ninst | some l => i ∈ l)
      ∧ ∃ v, getInfo (w.procs.getD p {}).infos i = some v ∧ v.disabled = false := by
  unfold possibleIdentifiers
  dsimp only
  generalize w.pcfg.getD p default = c
  generalize (w.procs.getD p {}).infos = infos
  simp only [List.mem_filter]
  cases hc : c.idents with
  | none =>
    cases hg : getInfo infos i with
    | none => simp
    | some v => simp
  | some l =>
    cases hg : getInfo infos i with
    | none => simp
    | some v => simp

/-- **C04 (every target is eligible).**  The instance chosen for process `p` — whatever the strategy and the pending
    requests — is seen RUNNING, knows the program and has it enabled, is permitted by the identifiers rule, and its node stays
    at or below 100 once the program's expected load and the starts already requested there are added. -/
theorem C04_target_eligible (w : W) (strat : Strategy) (p : Nat) (req : List (Nat × Nat)) (i : Nat)
    (h : chooseInstance w strat (possibleIdentifiers w p) (w.pcfg.getD p default).load req = some i) :
    w.instRunning.getD i false = true
    ∧ (∃ v, getInfo (w.procs.getD p {}).infos i = some v ∧ v.disabled = false)
    ∧ (match (w.pcfg.getD p default).idents with | none => i < w.ninst | some l => i ∈ l)
    ∧ nodeLoad w (w.node.getD i 0) + nodeReq w req (w.node.getD i 0) + (w.pcfg.getD p default).load ≤ 100 := by
  obtain ⟨_, hid, hrun, hfit⟩ := Supv.Props.C14.C14_choice_valid w strat _ _ req i h
  obtain ⟨hallowed, hknown⟩ := (C04_possible_identifiers w p i).mp hid
  exact ⟨hrun, hknown, hallowed, hfit⟩

/-- **C04 (no resource).**  When no candidate is eligible no instance is chosen (the Starter then forces FATAL
    "No resource available" and sends nothing: `processJob`, validated by the correspondence). -/
theorem C04_no_resource (w : W) (strat : Strategy) (p : Nat) (req : List (Nat × Nat))
    (h : validCands w (possibleIdentifiers w p) (w.pcfg.getD p default).load req = []) :
    chooseInstance w strat (possibleIdentifiers w p) (w.pcfg.getD p default).load req = none := by
  rw [Supv.Props.C14.C14_none_iff]
  split
  · rw [h]; simp
  · exact h

/-- the cap of the current source: a single `<=` against 100 in `is_loading_valid` (regenerated from the AST on every run) -/
theorem C04_cap_source : Supv.Gen.loadingValidCmps = [(["LtE"], [100])] := by decide

/-- the node load is the sum over the instances of the node, each counted ONCE (no duplicate can arise: the instances of a
    node are a sub-list of `0 .. n-1`) -/
theorem C04_node_members_nodup (w : W) (nd : Nat) :
    ((List.range w.ninst).filter (fun i => w.node.getD i 0 = nd)).Nodup :=
  List.Pairwise.filter _ List.nodup_range

end Supv.Props.C04
