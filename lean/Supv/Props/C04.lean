import Supv.Props.C14

/-!
# C04 — Start requests only go to eligible instances with spare load

Model: `Supv.Cmd` (`process_job` → `possible_identifiers` → `get_supvisors_instance` → `is_loading_valid`; for the
non-distributed applications `before` → `distribute_to_single_instance` / `distribute_to_single_node` with the application's
`possible_identifiers` / `possible_node_identifiers`), validated in lock-step with the real Starter.  The cap is read from the
source on every run (`Supv.Gen.loadingValidCmps`).
-/

namespace Supv.Props.C04
open Supv.Cmd Supv.Proc

/-- **C04 (who may be asked).**  `possible_identifiers` is exactly: allowed by the program's identifiers rule (or any instance
    for the wildcard), known to that instance's Supervisor, and enabled there. -/
theorem C04_possible_identifiers (w : W) (p i : Nat) :
    i ∈ possibleIdentifiers w p ↔
      (match (w.pcfg.getD p default).idents with | none => i < w.ninst | some l => i ∈ l)
      ∧ ∃ v, getInfo (w.procs.getD p {}).infos i = some v ∧ v.disabled = false := by
  unfold possibleIdentifiers
  dsimp only
  generalize w.pcfg.getD p default = c
  generalize (w.procs.getD p {}).infos = infos
  simp only [List.mem_filter]
  cases hc : c.idents with
  | none =>
    cases hg : getInfo infos i with
    | none => simp
    | some v => simp
  | some l =>
    cases hg : getInfo infos i with
    | none => simp
    | some v => simp

/-- **C04 (every target is eligible).**  The instance chosen for process `p` — whatever the strategy and the pending
    requests — is seen RUNNING, knows the program and has it enabled, is permitted by the identifiers rule, and its node stays
    at or below 100 once the program's expected load and the starts already requested there are added. -/
theorem C04_target_eligible (w : W) (strat : Strategy) (p : Nat) (req : List (Nat × Nat)) (i : Nat)
    (h : chooseInstance w strat (possibleIdentifiers w p) (w.pcfg.getD p default).load req = some i) :
    w.instRunning.getD i false = true
    ∧ (∃ v, getInfo (w.procs.getD p {}).infos i = some v ∧ v.disabled = false)
    ∧ (match (w.pcfg.getD p default).idents with | none => i < w.ninst | some l => i ∈ l)
    ∧ nodeLoad w (w.node.getD i 0) + nodeReq w req (w.node.getD i 0) + (w.pcfg.getD p default).load ≤ 100 := by
  obtain ⟨_, hid, hrun, hfit⟩ := Supv.Props.C14.C14_choice_valid w strat _ _ req i h
  obtain ⟨hallowed, hknown⟩ := (C04_possible_identifiers w p i).mp hid
  exact ⟨hrun, hknown, hallowed, hfit⟩

/-- **C04 (no resource).**  When no candidate is eligible no instance is chosen (the Starter then forces FATAL
    "No resource available" and sends nothing: `processJob`, validated by the correspondence). -/
theorem C04_no_resource (w : W) (strat : Strategy) (p : Nat) (req : List (Nat × Nat))
    (h : validCands w (possibleIdentifiers w p) (w.pcfg.getD p default).load req = []) :
    chooseInstance w strat (possibleIdentifiers w p) (w.pcfg.getD p default).load req = none := by
  rw [Supv.Props.C14.C14_none_iff]
  split
  · rw [h]; simp
  · exact h

/-! ## Non-distributed applications: the application's rule replaces the program's -/

/-- **C04 (who may host a whole application).**  `ApplicationStatus.possible_identifiers` is exactly: permitted by the
    application's identifiers rule, and EVERY program of the application known and enabled there. -/
theorem C04_app_possible_identifiers (w : W) (a i : Nat) :
    i ∈ appPossibleIdentifiers w a ↔
      appProcs w a ≠ [] ∧ i ∈ appRuleIdentifiers w a ∧ ∀ p ∈ appProcs w a, enabledOn w p i = true := by
  unfold appPossibleIdentifiers
  simp only
  split
  · rename_i he
    have : appProcs w a = [] := by simpa using he
    simp [this]
  · rename_i hne
    have : appProcs w a ≠ [] := by simpa using hne
    simp [List.mem_filter, List.all_eq_true, this]

/-- **C04 (which instances a SINGLE_NODE application may use).**  `possible_node_identifiers` is exactly: permitted by the
    application's rule, knowing (enabled) at least one program of the application, on a node where every program of the
    application is known and enabled by SOME instance the rule permits — not necessarily this one. -/
theorem C04_app_possible_node_identifiers (w : W) (a i : Nat) :
    i ∈ appPossibleNodeIdentifiers w a ↔
      i ∈ appRuleIdentifiers w a
      ∧ (∀ p ∈ appProcs w a, ∃ x ∈ appRuleIdentifiers w a, w.node.getD x 0 = w.node.getD i 0 ∧ enabledOn w p x = true)
      ∧ ∃ p ∈ appProcs w a, enabledOn w p i = true := by
  unfold appPossibleNodeIdentifiers
  simp only [List.mem_filter, Bool.and_eq_true, List.all_eq_true, List.any_eq_true, decide_eq_true_eq]
  constructor
  · rintro ⟨h1, h2, h3⟩
    refine ⟨h1, ?_, h3⟩
    intro p hp
    obtain ⟨x, ⟨hx1, hx2⟩, hx3⟩ := h2 p hp
    exact ⟨x, hx1, hx2, hx3⟩
  · rintro ⟨h1, h2, h3⟩
    refine ⟨h1, ?_, h3⟩
    intro p hp
    obtain ⟨x, hx1, hx2, hx3⟩ := h2 p hp
    exact ⟨x, ⟨hx1, hx2⟩, hx3⟩

/-- **C04 (SINGLE_INSTANCE: every target is eligible when the application begins).**  Every target decided by
    `distribute_to_single_instance` for a program of the application is seen RUNNING, knows the program and has it enabled, is
    permitted by the APPLICATION's rule, and its node stays at or below 100 with the whole start sequence (hence with the
    program alone). -/
theorem C04_single_instance_target_eligible (w : W) (j j' : AppJobs) (h : distributeSingleInstance w j = .ok j')
    (hnone : ∀ g ∈ j.planned, ∀ c ∈ g.2, c.target = none)
    (g : Nat × List Command) (hg : g ∈ j'.planned) (c : Command) (hc : c ∈ g.2) (i : Nat) (ht : c.target = some i)
    (hp : c.proc ∈ appProcs w j.app) :
    w.instRunning.getD i false = true ∧ enabledOn w c.proc i = true ∧ i ∈ appRuleIdentifiers w j.app
    ∧ nodeLoading w (jobLoadRequests w j) i + appStartLoad w j.app ≤ 100 := by
  rcases Supv.Props.C14.C14_single_instance_one_target w j j' h with ⟨_, rfl⟩ | ⟨i0, hi0, _, hall, _⟩
  · rw [hnone g hg c hc] at ht; cases ht
  · have := hall g hg c hc
    rw [ht] at this
    cases this
    obtain ⟨h1, h2, h3⟩ := Supv.Props.C14.C14_single_instance_carries w j i hi0
    obtain ⟨_, hr, hen⟩ := (C04_app_possible_identifiers w j.app i).mp h1
    exact ⟨h2, hen _ hp, hr, h3⟩

def info0 (dis : Bool) : Info := { state := .stopped, expected := true, ltime := 0, etime := 0, nowm := 0, disabled := dis }

/-- two RUNNING instances on one node; a SINGLE_NODE application (CONFIG) of two programs; program 1 is DISABLED on instance 0 -/
def disW : W :=
  { ninst := 2, me := 0, node := [0, 0], instRunning := [true, true], counter := [0, 0],
    pcfg := [{ app := 0, startSeq := 1, required := false, waitExit := false, load := 10, sfail := .cont, idents := none, startsecs := 1 },
             { app := 0, startSeq := 1, required := false, waitExit := false, load := 10, sfail := .cont, idents := none, startsecs := 1 }],
    acfg := [{ startSeq := 1, strategy := .config, distribution := .singleNode }],
    procs := [{ infos := [(0, info0 false), (1, info0 false)], state := .stopped },
              { infos := [(0, info0 true), (1, info0 false)], state := .stopped }] }
def disJ : AppJobs := { app := 0, planned := startPlan disW 0 .config, strategy := .config }

/-- **C04 (SINGLE_NODE: every target knows the program and has it enabled).**  HOLDS in full since /repo fix (the instance is
    chosen among the selected instances that know and enable THIS program: `get_applicable_identifiers`); before it the node
    qualified through one instance and CONFIG sent the program to another one where it was disabled or unknown (TypeError). -/
theorem C04_single_node_target_enabled (w : W) (j j' : AppJobs) (h : distributeSingleNode w j = .ok j')
    (hnone : ∀ g ∈ j.planned, ∀ c ∈ g.2, c.target = none)
    (g : Nat × List Command) (hg : g ∈ j'.planned) (c : Command) (hc : c ∈ g.2) (i : Nat) (ht : c.target = some i)
    (hp : c.proc ∈ appProcs w j.app) :
    w.instRunning.getD i false = true ∧ enabledOn w c.proc i = true ∧ i ∈ appRuleIdentifiers w j.app
    ∧ nodeLoading w (jobLoadRequests w j) i + (w.pcfg.getD c.proc default).load ≤ 100 := by
  obtain ⟨_, hnil, hsome, _⟩ := Supv.Props.C14.C14_single_node_one_node w j j' h
  by_cases hne : singleNodeIds w j = []
  · have hpl := hnil hne
    rw [hpl] at hg
    rw [hnone g hg c hc] at ht; cases ht
  · rcases hsome hne g hg c hc with ⟨g0, hg0, hc0⟩ | ⟨k, hk, hkt, hrun, hen, hfit⟩
    · rw [hnone g0 hg0 c hc0] at ht; cases ht
    · rw [ht] at hkt; cases hkt
      have hposs := (Supv.Props.C14.C14_single_node_ids w j i hk).1
      exact ⟨hrun, hen, ((C04_app_possible_node_identifiers w j.app i).mp hposs).1, hfit⟩

/-- on the former witness (program 1 disabled on instance 0) the program now goes to instance 1 -/
example : (match distributeSingleNode disW disJ with
           | .ok j' => j'.planned.map (fun g => g.2.map (fun c => (c.proc, c.target)))
           | .err _ => []) = [[(0, some 0), (1, some 1)]] := by decide +kernel

/-- as `disW`, but instance 0 does not KNOW program 1 -/
def unkW : W := { disW with procs := [{ infos := [(0, info0 false), (1, info0 false)], state := .stopped },
                                      { infos := [(1, info0 false)], state := .stopped }] }

/-- **C04 (SINGLE_NODE never raises).**  HOLDS in full since the same fix: `distribute_to_single_node` returns normally for EVERY
    world and every job - no `TypeError` (`update_identifier` of an instance that does not know the program), no `KeyError`
    (`update_identifier(None)`): a program without applicable instance is left without target and fails cleanly with
    "No resource available" when its turn comes. -/
theorem C04_single_node_no_exception (w : W) (j : AppJobs) : ∃ j', distributeSingleNode w j = .ok j' := by
  unfold distributeSingleNode
  simp only
  split
  · exact ⟨_, rfl⟩
  · apply mapPlanned_total
    intro g _ c _
    unfold nodeCommand
    split
    · rename_i i hi
      obtain ⟨_, hmem, _, _⟩ := Supv.Props.C14.C14_choice_valid w _ _ _ _ i hi
      have hen : enabledOn w c.proc i = true := (List.mem_filter.mp hmem).2
      apply updateIdentifier_known
      unfold enabledOn at hen
      cases hg : getInfo (w.procs.getD c.proc {}).infos i with
      | none => rw [hg] at hen; cases hen
      | some v => rfl
    · exact ⟨c, rfl⟩

/-- the two former witnesses of an exception (instance 0 does not know program 1; a program too heavy for the node) -/
example : (match distributeSingleNode unkW disJ with
           | .ok j' => j'.planned.map (fun g => g.2.map (fun c => (c.proc, c.target)))
           | .err _ => []) = [[(0, some 0), (1, some 1)]] := by decide +kernel

/-! ## A single process of a non-distributed application (`start_process`) -/

/-- the full-strength clause: the instance given by `distribute_to_single_instance` can take the load of every program it is given -/
def C04_single_process_load_statement : Prop :=
  ∀ (w : W) (j j' : AppJobs), distributeSingleInstance w j = .ok j' → (∀ g ∈ j.planned, ∀ c ∈ g.2, c.target = none) →
    ∀ g ∈ j'.planned, ∀ c ∈ g.2, ∀ i, c.target = some i → c.proc ∈ appProcs w j.app →
      nodeLoading w (jobLoadRequests w j) i + (w.pcfg.getD c.proc default).load ≤ 100

def rInfo : Info := { state := .running, expected := true, ltime := 0, etime := 0, nowm := 0, disabled := false }

/-- one instance already loaded at 80 by application 0; application 1 (non-distributed) has one program, of start_sequence 0 and
    load 50: its start sequence weighs 0 -/
def seq0W (d : Dist) : W :=
  { ninst := 1, me := 0, node := [0], instRunning := [true], counter := [0],
    pcfg := [{ app := 0, startSeq := 1, required := false, waitExit := false, load := 80, sfail := .cont, idents := none, startsecs := 1 },
             { app := 1, startSeq := 0, required := false, waitExit := false, load := 50, sfail := .cont, idents := none, startsecs := 1 }],
    acfg := [{ startSeq := 1, strategy := .config }, { startSeq := 0, strategy := .config, distribution := d }],
    procs := [{ infos := [(0, rInfo)], running := [0], state := .running }, { infos := [(0, info0 false)], state := .stopped }] }
/-- the job `Starter.start_process` creates for that program -/
def seq0J : AppJobs := { app := 1, planned := [(0, [{ proc := 1, strategy := .config, ignoreWaitExit := true }])], strategy := .config }

theorem C04_single_process_load_witness :
    distributeSingleInstance (seq0W .singleInstance) seq0J
      = .ok { seq0J with identifiers := [0], planned := [(0, [{ proc := 1, strategy := .config, ignoreWaitExit := true, target := some 0, waitTicks := 3 }])] } := by
  decide +kernel

/-- Known finding `C04:single-process-application-load-checked`: the instance is checked against the load of the application's start
    sequence (0: the program has start_sequence 0), the program (50) is sent to a node already at 80. -/
theorem C04_single_process_load_refuted : ¬ C04_single_process_load_statement := by
  intro h
  have := h (seq0W .singleInstance) seq0J _ C04_single_process_load_witness (by decide)
    (0, [{ proc := 1, strategy := .config, ignoreWaitExit := true, target := some 0, waitTicks := 3 }]) (by simp)
    { proc := 1, strategy := .config, ignoreWaitExit := true, target := some 0, waitTicks := 3 } (by simp) 0 rfl (by decide)
  revert this
  decide +kernel

/-- **C04 (partial).**  For a program of the application's start sequence (positive start_sequence) the instance can take its load. -/
theorem C04_single_process_load_partial (w : W) (j j' : AppJobs) (h : distributeSingleInstance w j = .ok j')
    (hnone : ∀ g ∈ j.planned, ∀ c ∈ g.2, c.target = none)
    (g : Nat × List Command) (hg : g ∈ j'.planned) (c : Command) (hc : c ∈ g.2) (i : Nat) (ht : c.target = some i)
    (hp : c.proc ∈ appProcs w j.app) (hs : 0 < (w.pcfg.getD c.proc default).startSeq) :
    nodeLoading w (jobLoadRequests w j) i + (w.pcfg.getD c.proc default).load ≤ 100 := by
  have h1 := (C04_single_instance_target_eligible w j j' h hnone g hg c hc i ht hp).2.2.2
  have h2 := load_le_appStartLoad w j.app c.proc hp hs
  omega

/-- in a SINGLE_NODE application the same program used to make `distribute_to_single_node` raise `KeyError`
    (`update_identifier(None)`); it is now left without target (see `C04_single_node_no_exception`) -/
example : distributeSingleNode (seq0W .singleNode) seq0J = .ok { seq0J with identifiers := [0] } := by decide +kernel

/-! ## The target used when the request is sent -/

/-- the full-strength clause: the target `process_job` uses is seen RUNNING when the request is sent -/
def C04_job_target_rechecked_statement : Prop :=
  ∀ (w : W) (app : Nat) (cur : List Command) (c : Command) (i : Nat),
    (jobTarget w app cur c).target = some i → w.instRunning.getD i false = true

/-- Known finding `C04:not-rechecked`: for a non-distributed application the target decided when the job was picked up is used
    as it is; here instance 1 is no longer RUNNING. -/
theorem C04_job_target_rechecked_refuted : ¬ C04_job_target_rechecked_statement := by
  intro h
  have := h { disW with instRunning := [true, false] } 0 [] { proc := 0, strategy := .config, target := some 1 } 1 (by decide)
  revert this
  decide

/-- **C04 (no re-check for a non-distributed application).**  What the code does: the command is used unchanged. -/
theorem C04_job_target_restricted (w : W) (app : Nat) (cur : List Command) (c : Command)
    (h : (w.acfg.getD app default).distribution ≠ .all) : jobTarget w app cur c = c := by
  unfold jobTarget
  rw [if_neg h]

/-- **C04 (partial: distributed applications).**  For an ALL_INSTANCES application the target is chosen when the request is sent:
    it is seen RUNNING, knows the program and has it enabled, is permitted by the program's rule, and its node stays at or
    below 100 with the program's load and the job's pending requests. -/
theorem C04_job_target_rechecked_partial (w : W) (app : Nat) (cur : List Command) (c : Command) (i : Nat)
    (hd : (w.acfg.getD app default).distribution = .all) (hn : c.target = none)
    (h : (jobTarget w app cur c).target = some i) :
    w.instRunning.getD i false = true
    ∧ (∃ v, getInfo (w.procs.getD c.proc {}).infos i = some v ∧ v.disabled = false)
    ∧ (match (w.pcfg.getD c.proc default).idents with | none => i < w.ninst | some l => i ∈ l)
    ∧ nodeLoad w (w.node.getD i 0) + nodeReq w (jobLoadRequests w { app := app, planned := [], current := cur }) (w.node.getD i 0)
        + (w.pcfg.getD c.proc default).load ≤ 100 := by
  unfold jobTarget at h
  simp only [hd, if_true] at h
  split at h
  · rename_i k hk
    simp at h; subst h
    exact C04_target_eligible w c.strategy c.proc _ k hk
  · rw [hn] at h; cases h

/-- the cap of the current source: a single `<=` against 100 in `is_loading_valid` (regenerated from the AST on every run) -/
theorem C04_cap_source : Supv.Gen.loadingValidCmps = [(["LtE"], [100])] := by decide

/-- the node load is the sum over the instances of the node, each counted ONCE (no duplicate can arise: the instances of a
    node are a sub-list of `0 .. n-1`) -/
theorem C04_node_members_nodup (w : W) (nd : Nat) :
    ((List.range w.ninst).filter (fun i => w.node.getD i 0 = nd)).Nodup :=
  List.Pairwise.filter _ List.nodup_range

-- non-vacuity: the hypotheses of `C04_single_node_no_exception_partial` and `C04_single_node_target_enabled_partial` hold on the
-- world of `Supv.Props.C14.snW` (two instances of one node that both know and enable both programs)
example : (∀ i ∈ appRuleIdentifiers Supv.Props.C14.snW 0, i < 2)
    ∧ (∀ g ∈ Supv.Props.C14.snJ.planned, ∀ c ∈ g.2, c.proc ∈ appProcs Supv.Props.C14.snW 0 ∧ 0 < (Supv.Props.C14.snW.pcfg.getD c.proc default).startSeq)
    ∧ (∀ i ∈ singleNodeIds Supv.Props.C14.snW Supv.Props.C14.snJ, ∀ p ∈ appProcs Supv.Props.C14.snW 0, enabledOn Supv.Props.C14.snW p i = true) := by
  decide +kernel
example : appPossibleIdentifiers disW 0 = [1] ∧ appPossibleNodeIdentifiers disW 0 = [0, 1] ∧ appPossibleNodeIdentifiers unkW 0 = [0, 1] := by decide

end Supv.Props.C04
