import Supv.Model.Rpc
import Supv.Spec.C17
import Supv.Gen.RpcGuards
import Supv.Lemmas.Rpc

/-!
# C17 — XML-RPC commands are gated by Supvisors state and fail cleanly

The theorems are about `Gen.rpcTable`, the guard / effect sequences the translator reads in the CURRENT
`rpcinterface.py`, interpreted by `Supv.Rpc.run`, against the hand-written documented table `Spec.C17.documented`.
A change of a gate, of a fault code, of the order of a check and an effect in the source changes `Gen/RpcGuards.lean`
and the `decide` obligations below stop checking.
-/

namespace Supv.Props.C17
open Supv.Rpc Supv.Spec.C17 Supv.Lemmas.Rpc

abbrev cr : Crashes := Supv.Gen.effectCrashes
abbrev table : List Method := Supv.Gen.rpcTable

/-! ## The generated table against the documented one (`decide` over the whole table) -/

/-- every public method of `RPCInterface` has a documented entry, and
    * documented with a state condition: its FIRST step is the state check, raising BAD_SUPVISORS_STATE, and the allowed
      set equals the documented set (FINAL being a don't-care for the "from DISTRIBUTION on" family); for `end_sync`
      the USER option is checked, by either documented fault, before anything else than state conditions;
    * documented as ungated: no state check at all. -/
theorem C17_gate_table : ∀ m ∈ table, gateMatches (docOf m.name) m = true := by decide

/-- conversely every documented method still exists -/
theorem C17_documented_exist : ∀ e ∈ documented, table.any (fun m => m.name == e.1) = true := by decide

/-- in the generated structure every effect is dominated by all the rejecting checks: after the first effect there
    is no raise of a rejection code (except re-checks of a parameter class validated before it) and no raw look-up -/
theorem C17_checks_before_effects : ∀ m ∈ table, guardsBeforeEffects [] m.steps = true := by decide

/-- fault codes, as written in the source: every state check raises BAD_SUPVISORS_STATE, every name check
    (application, process, program, instance) BAD_NAME, every strategy check INCORRECT_PARAMETERS, every managed check
    NOT_MANAGED -/
theorem C17_fault_codes : ∀ m ∈ table, m.steps.all stepFaultOk = true := by decide

/-- the documented parameter classes are validated, with their fault, before any effect, any data-dependent check and
    any raw look-up — except NOT_MANAGED for `restart_application` (see `C17_bad_param_rejected_refuted`) -/
theorem C17_param_guards : ∀ m ∈ table, paramsMatch (docOf m.name) m = true := by decide

/-! ## What this means for every call (all states, all parameter valuations) -/

/-- outside its documented states a call raises BAD_SUPVISORS_STATE and is a no-op, whatever the parameters -/
theorem C17_outside_rejected (m : Method) (hm : m ∈ table) (d : Doc) (hd : docOf m.name = some d) (s : State) (a : Args)
    (hout : d.family.allowed.contains s.fsm = false) (hfinal : d.family.finalOpen = true → s.fsm ≠ .final) :
    run cr m s a = (s, .fault .badSupvisorsState) := by
  have h := C17_gate_table m hm
  rw [hd] at h
  exact gateMatches_sound cr d m h s a hout hfinal

/-- a rejected call (BAD_SUPVISORS_STATE, BAD_NAME, INCORRECT_PARAMETERS, NOT_MANAGED) is a no-op: the state is
    unchanged and no effect was performed -/
theorem C17_rejected_is_noop (m : Method) (hm : m ∈ table) (s : State) (a : Args) (f : Fault)
    (hres : (run cr m s a).2 = .fault f) (hrej : f.isRejection = true) : (run cr m s a).1 = s :=
  noop_of_guards cr m.steps [] s a (C17_checks_before_effects m hm) (by simp) f hres hrej

/-- every state check of every method allows exactly the documented set, and nothing but a condition on the Supvisors
    state / modes raises BAD_SUPVISORS_STATE -/
theorem C17_all_gates : ∀ m ∈ table, gatesMatch (docOf m.name) m = true := by decide

/-- inside its documented states (FINAL left open for the "from DISTRIBUTION on" family), with the documented further
    conditions on the modes satisfied (`end_sync`: no Master yet and USER option; `restart_sequence`: no job in
    progress), a call is never answered BAD_SUPVISORS_STATE, whatever the parameters: it is served or rejected on
    its parameters -/
theorem C17_served_in_documented_states (m : Method) (hm : m ∈ table) (d : Doc) (hd : docOf m.name = some d) (s : State)
    (a : Args) (hin : d.family.allowed.contains s.fsm = true) (hfinal : d.family.finalOpen = true → s.fsm ≠ .final)
    (hmodes : (∀ c f, Step.raise c f ∈ m.steps → c.isStateLike = true → c.isState = false → checkPasses s a c f = true)) :
    (run cr m s a).2 ≠ .fault .badSupvisorsState := by
  have h := C17_all_gates m hm
  rw [hd] at h
  exact not_state_rejected cr d a s.fsm hin hfinal m.steps s rfl h hmodes

/-- `end_sync` without the USER option: rejected by one of the two documented faults, no-op -/
theorem C17_end_sync_needs_user (m : Method) (hm : m ∈ table) (d : Doc) (hd : docOf m.name = some d)
    (hu : d.extra.contains .userOption = true) (s : State) (a : Args) (huser : s.userOpt = false) :
    ∃ f, (f = .badSupvisorsState ∨ f = .notApplicable) ∧ run cr m s a = (s, .fault f) := by
  have h := C17_gate_table m hm
  rw [hd] at h
  exact userGate_sound cr d m h hu s a huser

/-- Clause "unknown names raise BAD_NAME, unknown strategies INCORRECT_PARAMETERS, unmanaged applications NOT_MANAGED":
    whenever the state conditions of the method let the call through and a documented parameter class is invalid, the
    call is rejected by the fault of one of the invalid classes and nothing happens. -/
def C17_bad_param_rejected_statement : Prop :=
  ∀ m ∈ table, ∀ d, docOf m.name = some d → ∀ (s : State) (a : Args),
    statePasses m.steps s a → wellFormed d a → (∃ k ∈ d.params, a.flag k = false) →
    ∃ f ∈ expected d a, run cr m s a = (s, .fault f)

/-- the call on which it fails: OPERATION, valid strategy, known but unmanaged application -/
def witnessState : State := { fsm := .operation, isMaster := true, masterSet := true }
def witnessArgs : Args := { managed := false }

/-- FALSE on the current code: `restart_application` documents NOT_MANAGED but never checks it; on an unmanaged
    application in OPERATION the request is served (`stopper.restart_application` is called). -/
theorem C17_bad_param_rejected_refuted : ¬ C17_bad_param_rejected_statement := by
  intro h
  have hw : ∃ m ∈ table, m.name = "restart_application" ∧ statePasses m.steps witnessState witnessArgs = true
      ∧ (∀ f, run cr m witnessState witnessArgs ≠ (witnessState, .fault f)) := by
    refine ⟨_, List.mem_of_elem_eq_true (a := (table.find? (fun m => m.name == "restart_application")).get (by decide))
      (by decide), by decide, by decide, ?_⟩
    intro f hf
    have h2 : (run cr ((table.find? (fun m => m.name == "restart_application")).get (by decide))
      witnessState witnessArgs).2 = .ok := by decide
    rw [hf] at h2
    cases h2
  obtain ⟨m, hm, hn, hs, hne⟩ := hw
  have hd : docOf m.name = some { family := .operation, params := [.strategy, .name, .managed] } := by
    rw [hn]; decide
  obtain ⟨f, _, hf⟩ := h m hm _ hd witnessState witnessArgs hs (by decide) ⟨.managed, by decide, by decide⟩
  exact hne f hf

/-- the statement holds for every method and every call but that one: `restart_application` with a valid strategy
    and a known, unmanaged application -/
theorem C17_bad_param_rejected_partial (m : Method) (hm : m ∈ table) (d : Doc) (hd : docOf m.name = some d)
    (s : State) (a : Args) (hs : statePasses m.steps s a) (hw : wellFormed d a)
    (hbad : ∃ k ∈ d.params, a.flag k = false)
    (hex : m.name = "restart_application" → a.managed = true ∨ a.stratOk = false ∨ a.nameOk = false) :
    ∃ f ∈ expected d a, run cr m s a = (s, .fault f) := by
  have h := C17_param_guards m hm
  rw [hd] at h
  refine paramsMatch_sound cr d m h s a hs hw hbad hex ?_
  intro hn
  rw [hn] at hd
  have hdoc : docOf "restart_application" = some { family := .operation, params := [.strategy, .name, .managed] } := by
    decide
  rw [hdoc] at hd
  cases hd
  decide

/-- Clause "fail cleanly": no exception other than an RPCError leaves an XML-RPC method. -/
def C17_clean_faults_statement : Prop :=
  ∀ m ∈ table, ∀ (s : State) (a : Args) (e : String), (run cr m s a).2 ≠ .internal e

/-- HOLDS on the current code, for every method, every state and every parameter valuation (the last exception was
    `start_args('group:*')`, which dereferenced the missing process: repaired in /repo by 5b27e8c; the table is regenerated from the
    source at every run, so the theorem is about what the code says now). -/
theorem C17_clean_faults : C17_clean_faults_statement := by
  intro m hm s a e
  have h : ∀ m ∈ table, crashGuarded cr false false m.steps = true := by decide
  exact no_internal_of_guarded cr false a e (by simp) m.steps false s (h m hm) (by simp)

/-- every effect that raises without Master (`fsm.on_restart`, `fsm.on_shutdown`) is dominated by the check that a
    Master is known, and no method indexes a map with a raw parameter -/
theorem C17_crash_guards : ∀ m ∈ table, crashGuarded cr true false m.steps = true := by decide

/-- it holds for every method, every state (Master known or not, instance Master or not) and every parameter valuation
    whose namespec is not a group namespec -/
theorem C17_clean_faults_partial (m : Method) (hm : m ∈ table) (s : State) (a : Args) (e : String)
    (hgroup : a.isGroup = false) : (run cr m s a).2 ≠ .internal e :=
  no_internal_of_guarded cr true a e (fun _ => hgroup) m.steps false s (C17_crash_guards m hm) (by simp)

/-- and for every method but `start_args`, unconditionally — in particular `restart` / `shutdown` without Master and
    `get_network_info` with a nick identifier (repaired in /repo: 83a88a0, 3678d4d) -/
theorem C17_clean_faults_partial_methods (m : Method) (hm : m ∈ table) (hname : m.name ≠ "start_args")
    (s : State) (a : Args) (e : String) : (run cr m s a).2 ≠ .internal e := by
  have h : ∀ m ∈ table, (m.name == "start_args" || crashGuarded cr false false m.steps) = true := by decide
  have h2 := h m hm
  have h3 : crashGuarded cr false false m.steps = true := by
    simp [hname] at h2
    exact h2
  exact no_internal_of_guarded cr false a e (by simp) m.steps false s h3 (by simp)

/-- `restart` on a non-Master instance that knows no Master (the Master was just reset): BAD_SUPVISORS_STATE, no-op -/
theorem C17_restart_without_master : ∀ m ∈ table, (m.name = "restart" ∨ m.name = "shutdown") →
    run cr m { fsm := .operation, isMaster := false, masterSet := false } {}
      = ({ fsm := .operation, isMaster := false, masterSet := false }, .fault .badSupvisorsState) := by decide

/-! ## Non-vacuity: the hypotheses are satisfiable by non-trivial concrete values -/

/-- a gated method outside its states (start_application in CONCILIATION, invalid parameters on top) -/
example : ∃ m ∈ table, m.name = "start_application"
    ∧ (docOf m.name).any (fun d => !d.family.allowed.contains St.conciliation) = true
    ∧ run cr m { fsm := .conciliation, isMaster := true, masterSet := true } { stratOk := false, nameOk := false }
      = ({ fsm := .conciliation, isMaster := true, masterSet := true }, .fault .badSupvisorsState) := by decide

/-- a rejected call inside the documented state: unknown application name -/
example : ∃ m ∈ table, m.name = "stop_application"
    ∧ (run cr m { fsm := .operation, masterSet := true } { nameOk := false }).2 = .fault .badName := by decide

/-- a served call performs effects: the no-op theorem is not about a model without effects -/
example : ∃ m ∈ table, m.name = "stop_process"
    ∧ (run cr m { fsm := .operation, masterSet := true } {}).1.log = ["stopper.stop_process", "stopper.next"] := by decide

/-- hypotheses of `C17_bad_param_rejected_partial` on a non-trivial call: start_process, unknown strategy AND name -/
example : ∃ m ∈ table, m.name = "start_process"
    ∧ statePasses m.steps { fsm := .operation, masterSet := true } { stratOk := false, nameOk := false } = true
    ∧ (docOf m.name).any (fun d => wellFormed d { stratOk := false, nameOk := false }
        && d.params.any (fun k => !({ stratOk := false, nameOk := false } : Args).flag k)) = true := by decide

/-- hypotheses of `C17_served_in_documented_states` on non-trivial calls: every condition on state and modes passes for
    `end_sync` in SYNCHRONIZATION (USER option, no Master yet) and for `restart_sequence` in OPERATION without jobs -/
example : ∃ m ∈ table, m.name = "end_sync"
    ∧ statePasses m.steps { fsm := .synchronization, userOpt := true } {} = true := by decide
example : ∃ m ∈ table, m.name = "restart_sequence"
    ∧ statePasses m.steps { fsm := .operation, isMaster := true, masterSet := true } {} = true
    ∧ statePasses m.steps { fsm := .operation, isMaster := true, masterSet := true, jobs := true } {} = false := by decide

/-- `end_sync` is served in SYNCHRONIZATION with the USER option and no Master -/
example : ∃ m ∈ table, m.name = "end_sync"
    ∧ (run cr m { fsm := .synchronization, userOpt := true } {}).1.log = ["fsm.on_end_sync"] := by decide

end Supv.Props.C17
