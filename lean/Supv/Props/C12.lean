import Supv.Props.C11
import Supv.Model.Net
import Supv.Spec.C12Witness

/-!
# C12 — All instances agree on where processes run, and that view is true

Property theorems only.  Two layers:

* **synthesis** (`Supv.Proc`, tied by the C11 lock-step): what an instance reports for a process is a function of the last
  report it holds from every instance - whatever the order in which the reports of the different instances were received
  (the quantifier "all interleavings of their publication").  Hence two instances holding the same last reports give the same
  listing and the same running flag (`C12_same_reports_same_answer`); the stopped-like state displayed may differ.
* **replication** (`Supv.Net` extended with the process tables `truth` and the replicated database `data`, tied by the
  global lock-step of harness/c12.py): the three mechanisms the statement is anchored in - snapshot at handshake, event stream
  to every active peer, events accepted from CHECKED / RUNNING peers only.

The end-to-end clause ("at quiescence every view is true") is FALSE of model and code: `C12_quiescent_truth_refuted`.
-/

namespace Supv.Props.C12
open Supv.Proc Supv.Spec.C11 Supv.Props.C11

/-! ## Synthesis: the answer only depends on the last reports -/

/-- the state last reported by instance `i` in history `h` (none: no entry) -/
def lastState (i : Nat) (h : List (Nat × POp)) : Option PState := (view i h).last.map (·.1)

/-- per-instance invariant of the fold: unless the last report is STOPPING, "listed" is "the last report is a running state" -/
theorem viewStep_listed_inv (i : Nat) (v : View) (now : Nat) (op : POp)
    (hv : ∀ s e, v.last = some (s, e) → s ≠ .stopping → v.listed = s.isRunning) (hn : v.last = none → v.listed = false) :
    (∀ s e, (viewStep i v now op).last = some (s, e) → s ≠ .stopping → (viewStep i v now op).listed = s.isRunning)
    ∧ ((viewStep i v now op).last = none → (viewStep i v now op).listed = false) := by
  cases op with
  | add j s e et d =>
    simp only [viewStep]
    split
    · refine ⟨?_, by simp⟩
      intro s' e' h hs
      simp at h
      obtain ⟨rfl, _⟩ := h
      cases s <;> simp_all [listedStep, PState.isRunning, PState.isStopped]
    · exact ⟨hv, hn⟩
  | upd j s e et d =>
    simp only [viewStep]
    split
    · refine ⟨?_, by simp⟩
      intro s' e' h hs
      simp at h
      obtain ⟨rfl, _⟩ := h
      cases s <;> simp_all [listedStep, PState.isRunning, PState.isStopped]
    · exact ⟨hv, hn⟩
  | lose j =>
    simp only [viewStep]
    split
    · refine ⟨?_, by simp⟩
      intro s' e' h _
      simp at h
      obtain ⟨rfl, _⟩ := h
      simp [PState.isRunning]
    · exact ⟨hv, hn⟩
  | remove j =>
    simp only [viewStep]
    split
    · exact ⟨by simp [View.init], by simp [View.init]⟩
    · exact ⟨hv, hn⟩
  | tick j t =>
    simp only [viewStep]
    split
    · exact ⟨fun s e h hs => by simpa using hv s e (by simpa using h) hs, fun h => by simpa using hn (by simpa using h)⟩
    · exact ⟨hv, hn⟩
  | force t s et => exact ⟨hv, hn⟩
  | disable j d => exact ⟨hv, hn⟩

theorem view_listed_inv (i : Nat) (h : List (Nat × POp)) :
    (∀ s e, (view i h).last = some (s, e) → s ≠ .stopping → (view i h).listed = s.isRunning)
    ∧ ((view i h).last = none → (view i h).listed = false) := by
  unfold view
  suffices H : ∀ (l : List (Nat × POp)) (v : View),
      ((∀ s e, v.last = some (s, e) → s ≠ .stopping → v.listed = s.isRunning) ∧ (v.last = none → v.listed = false)) →
      let w := l.foldl (fun v (x : Nat × POp) => viewStep i v x.1 x.2) v
      (∀ s e, w.last = some (s, e) → s ≠ .stopping → w.listed = s.isRunning) ∧ (w.last = none → w.listed = false) by
    exact H h View.init ⟨by simp [View.init], by simp [View.init]⟩
  intro l
  induction l with
  | nil => intro v hv; simpa using hv
  | cons x t ih =>
    intro v hv
    simp only [List.foldl_cons]
    exact ih _ (viewStep_listed_inv i v x.1 x.2 hv.1 hv.2)

/-- unless STOPPING, the listing of an instance is read off its last report -/
theorem listed_of_last (i : Nat) (h : List (Nat × POp)) (hns : lastState i h ≠ some .stopping) :
    (view i h).listed = ((lastState i h).map PState.isRunning).getD false := by
  obtain ⟨h1, h2⟩ := view_listed_inv i h
  unfold lastState at *
  cases hl : (view i h).last with
  | none => simp [h2 hl]
  | some se =>
    obtain ⟨s, e⟩ := se
    have : s ≠ .stopping := by intro hs; apply hns; simp [hl, hs]
    simp [h1 s e hl this]

/-- **C12, agreement.**  Two instances that hold the same last report from every instance - received in ANY order, through
    snapshots or events, with any number of earlier reports, losses and re-joins in between - list the process on the same
    instances and agree on whether it is running.  (Nobody's last report being STOPPING: see `C12_stopping_listing_differs`.) -/
theorem C12_same_reports_same_answer (h h' : List (Nat × POp))
    (hok : HistOk (fun _ => View.init) h) (hok' : HistOk (fun _ => View.init) h')
    (hsame : ∀ j, lastState j h = lastState j h') (hns : ∀ j, lastState j h ≠ some .stopping) :
    ∃ p p', prun {} h = .ok p ∧ prun {} h' = .ok p' ∧ (∀ i, i ∈ p.running ↔ i ∈ p'.running)
      ∧ p.state.isRunning = p'.state.isRunning := by
  obtain ⟨p, hp, hl⟩ := C11_listed_iff_spec_partial h hok
  obtain ⟨p', hp', hl'⟩ := C11_listed_iff_spec_partial h' hok'
  obtain ⟨q, hq, hr, _⟩ := C11_state_running_iff_partial h hok
  obtain ⟨q', hq', hr', _⟩ := C11_state_running_iff_partial h' hok'
  have e1 : q = p := by rw [hp] at hq; injection hq with hq; exact hq.symm
  have e2 : q' = p' := by rw [hp'] at hq'; injection hq' with hq'; exact hq'.symm
  subst e1 e2
  have hlist : ∀ i, (view i h).listed = (view i h').listed := fun i => by
    rw [listed_of_last i h (hns i), listed_of_last i h' (by rw [← hsame i]; exact hns i), hsame i]
  refine ⟨q, q', hp, hp', fun i => by rw [hl i, hl' i, hlist i], ?_⟩
  have key : (∃ j s e, (view j h).listed = true ∧ (view j h).last = some (s, e) ∧ s.isRunning = true) ↔
      (∃ j s e, (view j h').listed = true ∧ (view j h').last = some (s, e) ∧ s.isRunning = true) := by
    constructor
    · rintro ⟨j, s, e, hli, hla, hrn⟩
      have := hsame j
      unfold lastState at this
      rw [hla] at this
      cases hla' : (view j h').last with
      | none => simp [hla'] at this
      | some se' =>
        obtain ⟨s', e'⟩ := se'
        simp [hla'] at this
        exact ⟨j, s', e', by rw [← hlist j]; exact hli, hla', this ▸ hrn⟩
    · rintro ⟨j, s, e, hli, hla, hrn⟩
      have := hsame j
      unfold lastState at this
      rw [hla] at this
      cases hla' : (view j h).last with
      | none => simp [hla'] at this
      | some se' =>
        obtain ⟨s', e'⟩ := se'
        simp [hla'] at this
        exact ⟨j, s', e', by rw [hlist j]; exact hli, hla', this ▸ hrn⟩
  cases hA : q.state.isRunning <;> cases hB : q'.state.isRunning <;> try rfl
  · have := (hr'.mp hB); have := hr.mpr (key.mpr this); simp [hA] at this
  · have := (hr.mp hA); have := hr'.mpr (key.mp this); simp [hB] at this

/-- the hypotheses are satisfiable by two different reception orders of the reports of two instances -/
example : HistOk (fun _ => View.init) [(1, POp.add 0 .stopped true 5 false), (2, POp.add 1 .running true 6 false), (3, POp.upd 0 .exited true 9 false)]
    ∧ HistOk (fun _ => View.init) [(1, POp.add 1 .running true 6 false), (4, POp.add 0 .exited true 9 false)] := by
  refine ⟨⟨trivial, trivial, by simp [OpOk, stepViews, viewStep, View.init, listedStep], trivial⟩, ⟨trivial, trivial, trivial⟩⟩

/-- **"Which of several stopped-like states is displayed may differ"**: same last reports from both instances, received in a
    different order, different stopped-like state - and the same (empty) listing, the same running flag. -/
theorem C12_stopped_display_may_differ :
    ∃ h h' p p', prun {} h = .ok p ∧ prun {} h' = .ok p' ∧ (∀ j, lastState j h = lastState j h')
      ∧ p.state ≠ p'.state ∧ p.state.isStopped = true ∧ p'.state.isStopped = true ∧ p.running = p'.running :=
  ⟨[(1, .add 0 .exited true 5 false), (2, .add 1 .fatal true 6 false)],
   [(1, .add 1 .fatal true 6 false), (2, .add 0 .exited true 5 false)], _, _, rfl, rfl,
   by intro j; simp only [lastState, view, List.foldl, viewStep]; split <;> split <;> first | omega | simp_all [View.init],
   by decide, by decide, by decide, by decide⟩

/-- With a last report STOPPING the listing depends on the path: an instance that learnt STOPPING from a handshake snapshot
    does not list the instance, one that followed RUNNING -> STOPPING does (the code's reading; judged as the signature
    `C12:listing-disagreement-while-stopping`). -/
theorem C12_stopping_listing_differs :
    ∃ h h' p p', prun {} h = .ok p ∧ prun {} h' = .ok p' ∧ (∀ j, lastState j h = lastState j h') ∧ p.running ≠ p'.running :=
  ⟨[(1, .add 0 .running true 5 false), (2, .upd 0 .stopping true 6 false)], [(3, .add 0 .stopping true 6 false)], _, _, rfl, rfl,
   by intro j; simp only [lastState, view, List.foldl, viewStep]; split <;> simp_all [View.init],
   by decide⟩

/-! ## Replication -/
open Supv.Inst Supv.Net

/-- **Mechanism "events accepted from CHECKED / RUNNING peers only".**  A process event received from an instance that the
    receiver does not see CHECKED or RUNNING leaves the whole replicated database of the receiver (and of everybody) unchanged. -/
theorem C12_event_only_from_admitted (g : Net) (now j src p : Nat) (st : PState) (ex : Bool) (et : Nat)
    (h : g.view j src ≠ .checked ∧ g.view j src ≠ .running) : (g.applyEvent now j src p st ex et).data = g.data := by
  unfold Net.applyEvent
  have h1 : (g.view j src == IState.checked) = false := by simpa using h.1
  have h2 : (g.view j src == IState.running) = false := by simpa using h.2
  simp [h1, h2, Net.setFate]

/-- an accepted event makes the receiver hold exactly the reported state for (program, sender) -/
theorem C12_event_accepted_holds (g : Net) (now j src p : Nat) (st : PState) (ex : Bool) (et : Nat) (x' : Proc)
    (hv : g.view j src = .checked ∨ g.view j src = .running) (hi : ((g.proc j p).infos.get? src).isSome = true)
    (hu : updateInfo (g.proc j p) src st ex et none now = .ok x') :
    (x'.infos.get? src).map (·.state) = some st := by
  unfold updateInfo at hu
  cases hg : (g.proc j p).infos.get? src with
  | none => simp [hg] at hi
  | some v =>
    simp only [hg] at hu
    have : ∀ q r, updateStatus q src st = .ok r → r.infos = q.infos := by
      intro q r hq
      unfold updateStatus at hq
      simp only at hq
      repeat' split at hq
      all_goals first | (injection hq with hq; subst hq; rfl) | (cases hq)
    rw [this _ _ hu]
    unfold resetForced
    split <;> simp [Supv.Proc.Infos.get?_set_same]

theorem fateOf_setFate (g : Net) (a b p : Nat) (f : Fate) : (g.setFate a b p f).fateOf a b p = f := by
  unfold Net.fateOf Net.setFate
  simp only
  have : ∀ l : List ((Nat × Nat × Nat) × Fate),
      (l.filter (fun x => x.1 != (a, b, p)) ++ [((a, b, p), f)]).find? (fun x => x.1 == (a, b, p)) = some ((a, b, p), f) := by
    intro l
    induction l with
    | nil => simp
    | cons x t ih =>
      by_cases hx : x.1 = (a, b, p)
      · have h1 : (x.1 != (a, b, p)) = false := by simp [hx]
        rw [List.filter_cons, h1]; simpa using ih
      · have h1 : (x.1 != (a, b, p)) = true := by simpa using hx
        have h2 : (x.1 == (a, b, p)) = false := by simpa using hx
        rw [List.filter_cons, h1]
        simp only [if_true, List.cons_append, List.find?_cons, h2]
        exact ih
  rw [this]; rfl

/-- **Mechanism "event stream to every ACTIVE peer".**  The proxy of `i` dedicated to `j` drops a process event (nothing reaches
    the inbox of `j`, no failure is notified) when `i` does not see `j` in an active state; the only trace is the ghost fate
    (for an ISOLATED peer: `C13_no_send_queued`). -/
theorem C12_publish_filter (g : Net) (now i j p : Nat) (st : PState) (ex : Bool) (et : Nat) (rest : List Item)
    (hq : g.queue i j = .pev p st ex et :: rest) (hv : (g.view i j).active = false) (hni : g.view i j ≠ .isolated) :
    (g.exec now i j).1.inbox = g.inbox ∧ (g.exec now i j).1.data = g.data ∧ (g.exec now i j).1.fateOf i j p = .filtered (g.view i j) := by
  have hview : ∀ q, (g.setQueue i j q).view i j = g.view i j := fun q => rfl
  unfold Net.exec
  simp only [hq, hview, hv, hni, if_false]
  refine ⟨rfl, rfl, ?_⟩
  exact fateOf_setFate _ i j p _

/-- **C12, end-to-end statement**: in every reachable quiescent state of the cluster ("all pending messages delivered and no
    handshake in progress"), for every live instance `i`, every live instance `j` such that `i` and `j` see each other RUNNING
    (`j = i` included: an instance reads its own Supervisor through the same handshake) and every program `p` of `j`, the last
    report `i` holds from `j` about `p` is the state of `p` in the Supervisor of `j`. -/
def C12_quiescent_truth_statement : Prop :=
  ∀ (cfgs : List Cfg) (t0 nproc : Nat) (known : List (List Nat)) (s : Sched),
    let g := ((Net.init cfgs t0).withProcs nproc known).run s
    g.quiescent = true → ∀ i j p, g.up.getD i false = true → g.up.getD j false = true →
      g.view i j = .running → g.view j i = .running →
      p ∈ known.getD j [] → g.held i j p = some ((g.truth.getD j []).getD p {}).state

/-- **Known finding `C12:stale:refused-while-CHECKING` (false of model and code).**  Instance 3, alone: its first TICK starts the
    handshake with itself, the proxy reads the process table of its Supervisor, then program 0 starts; the event reaches the
    Context while the local instance is still CHECKING and is dropped; the (older) snapshot is loaded afterwards.  At
    quiescence the instance reports STOPPED for a program its own Supervisor is STARTING.  The schedule is the minimized
    replay `corpus/C12/kf_refused_while_checking.json`, found and replayed on the real code by harness/c12.py. -/
theorem C12_quiescent_truth_refuted : ¬ C12_quiescent_truth_statement := by
  intro h
  have := h Supv.Spec.C12Witness.Refused.cfgs Supv.Spec.C12Witness.Refused.startTime Supv.Spec.C12Witness.Refused.nproc
    Supv.Spec.C12Witness.Refused.known Supv.Spec.C12Witness.Refused.sched (by decide +kernel) 3 3 0
    (by decide +kernel) (by decide +kernel) (by decide +kernel) (by decide +kernel) (by decide +kernel)
  revert this
  decide +kernel

/-- **Known finding `C12:stale:filtered-while-STOPPED`, second root cause.**  Instance 1 reads the process table of instance 0
    during its handshake; instance 0, which still sees instance 1 STOPPED, does not send it its next process event
    (`publish` only sends to active peers); both end up seeing each other RUNNING and nothing ever repairs the view of 1.
    Minimized replay `corpus/C12/kf_filtered_while_stopped.json`. -/
theorem C12_quiescent_truth_refuted_filtered :
    let g := ((Net.init Supv.Spec.C12Witness.Filtered.cfgs Supv.Spec.C12Witness.Filtered.startTime).withProcs
      Supv.Spec.C12Witness.Filtered.nproc Supv.Spec.C12Witness.Filtered.known).run Supv.Spec.C12Witness.Filtered.sched
    g.quiescent = true ∧ g.view 1 0 = .running ∧ g.view 0 1 = .running ∧ g.held 1 0 0 = some .stopped
      ∧ ((g.truth.getD 0 []).getD 0 {}).state = .starting ∧ g.fateOf 0 1 0 = .filtered .stopped := by
  decide +kernel

end Supv.Props.C12
