import Supv.Lemmas.Strat
import Supv.Lemmas.InstOrd

/-!
# C09 — Stop sequences are honoured; restart/shutdown is orderly and reaches everyone

Model: `Supv.Cmd` (Stopper) and `Supv.Inst` (ending states of the FSM).  Proved here: the plan the Stopper builds, the group it
picks up, and the ending states of the instance FSM.  The ordering of the emitted stop requests over whole executions is judged
on the implementation by the monitor `Supv.Spec.Cmd`.
-/

namespace Supv.Props.C09
open Supv.Cmd Supv.Proc

/-- **C09 (only where running).**  Every planned stop command targets an instance where the process is listed as running, the
    process belongs to the application and its stop_sequence is its group's; no group is empty. -/
theorem C09_only_where_running (w : W) (a : Nat) :
    ∀ g ∈ stopPlan w a, g.2 ≠ [] ∧ ∀ c ∈ g.2, (w.pcfg.getD c.proc default).app = a
      ∧ (w.pcfg.getD c.proc default).stopSeq = g.1 ∧ c.target ∈ (w.procs.getD c.proc {}).running := by
  intro g hg
  unfold stopPlan at hg
  simp only [List.mem_filter, List.mem_map] at hg
  obtain ⟨⟨s, _, rfl⟩, hne⟩ := hg
  refine ⟨by intro h; rw [h] at hne; exact absurd hne (by decide), ?_⟩
  intro c hc
  rw [List.mem_flatten] at hc
  obtain ⟨l, hl, hcl⟩ := hc
  rw [List.mem_map] at hl
  obtain ⟨q, hq, rfl⟩ := hl
  rw [List.mem_filter] at hq
  obtain ⟨hq, hqs⟩ := hq
  rw [List.mem_map] at hcl
  obtain ⟨i, hi, rfl⟩ := hcl
  unfold appProcs at hq
  rw [List.mem_filter] at hq
  exact ⟨by simpa using hq.2, by simpa using hqs, hi⟩

/-- **C09 (the highest sequence first).**  The group the Stopper picks up (`pickup_logic = max`) has the highest sequence number
    of what is planned. -/
theorem C09_pickup_highest {α} (l : List (Nat × α)) (k : Nat) (h : maxKey l = some k) : ∀ x ∈ l, x.1 ≤ k :=
  maxKey_ge l k h

/-- **C09 (stop of all applications).**  `Stopper.stop_applications` stores exactly the applications that have a running process
    (each with the plan of `C09_only_where_running`), then triggers the Stopper ONCE: the applications of the highest
    stop_sequence are picked up first (`C09_application_pickup_highest`). -/
theorem C09_stop_all_apps (w : W) (a : Nat) :
    a ∈ stopAllApps w ↔ a < w.acfg.length ∧ hasRunningProcesses w a = true := by
  unfold stopAllApps
  simp [List.mem_filter]

/-- **C09 (applications in decreasing stop_sequence).**  The Stopper picks the planned applications of the highest sequence number. -/
theorem C09_application_pickup_highest (w : W) (k : Nat) (h : maxKey w.splanned = some k) : ∀ x ∈ w.splanned, x.1 ≤ k :=
  maxKey_ge w.splanned k h

/-- **C09 (completion of a stop request).**  A stop request is finished exactly when the target reports a stopped state; it is
    given up when STOPPING lasts longer than the wait ticks, or when no STOPPING is seen within the tick margin. -/
theorem C09_stop_completion (state : PState) (req wait cnt : Nat) :
    (stopCheckResult state req wait cnt = 1 ↔ state.isStopped = true)
    ∧ (stopCheckResult state req wait cnt = 3 ↔
        (state = .stopping ∧ req + wait < cnt) ∨ (state ≠ .stopping ∧ state.isStopped = false ∧ cnt > req + minTicks)) := by
  unfold stopCheckResult
  cases state <;> simp [PState.isStopped] <;> (try split) <;> simp_all <;> omega


/-! ## restart / shutdown: one order to each Supervisor, on the way to FINAL (instance FSM model, any history) -/

section Orders
open Supv.Inst

/-- the state after a history of operations, and the number of orders (`restartLocal` / `shutdownLocal`) the local Supervisor was
    sent along it -/
def runOrders (c : Cfg) : St → List (Nat × Supv.Inst.Op × List (Query × Nat)) → St × Nat
  | s, [] => (s, 0)
  | s, x :: t =>
    let s1 := (stepOp c s x.1 x.2.1 x.2.2).1
    let r := runOrders c s1 t
    (r.1, orders s1.out + r.2)

/-- **C09, "each live instance's Supervisor receives exactly one restart / shutdown order ... afterwards every instance is in
    FINAL"** (the at-most-one and the FINAL part, for EVERY history of operations of an instance - ticks, publications of the
    Master, handshakes, failures, restart / shutdown / end_sync requests, any oracle for the Stopper and the Starter - from any
    well-formed state): at most one order is ever sent to the local Supervisor; once it has been sent the instance is in FINAL and
    stays there; an instance that is already in FINAL sends none. -/
theorem C09_one_order_then_final (c : Cfg) (ops : List (Nat × Supv.Inst.Op × List (Query × Nat))) :
    ∀ s : St, c.me < s.modes.length →
      (runOrders c s ops).2 ≤ 1
      ∧ ((runOrders c s ops).2 = 1 → fsmOf c (runOrders c s ops).1 = .final)
      ∧ (fsmOf c s = .final → (runOrders c s ops).2 = 0)
      ∧ Path (fsmOf c s) (fsmOf c (runOrders c s ops).1) ∧ (runOrders c s ops).1.modes.length = s.modes.length := by
  induction ops with
  | nil => intro s _; exact ⟨by simp [runOrders], fun h => by simp [runOrders] at h, fun _ => rfl, Path.refl _, rfl⟩
  | cons x t ih =>
    intro s hwf
    obtain ⟨hm, hl⟩ := stepOp_moves c s x.1 x.2.1 x.2.2 hwf
    obtain ⟨o1, o2⟩ := stepOp_ord c s x.1 x.2.1 x.2.2 hwf
    obtain ⟨i1, i2, i3, i4, i5⟩ := ih (stepOp c s x.1 x.2.1 x.2.2).1 (by rw [hl]; exact hwf)
    simp only [runOrders]
    refine ⟨?_, ?_, ?_, Path.trans hm i4, i5.trans hl⟩
    · by_cases h1 : orders (stepOp c s x.1 x.2.1 x.2.2).1.out = 1
      · have := i3 (o2 h1).1; omega
      · omega
    · intro htot
      by_cases h1 : orders (stepOp c s x.1 x.2.1 x.2.2).1.out = 1
      · have hf := (o2 h1).1
        rw [hf] at i4
        exact path_from_final i4
      · exact i2 (by omega)
    · intro hs
      have h0 : orders (stepOp c s x.1 x.2.1 x.2.2).1.out = 0 := by
        by_cases h1 : orders (stepOp c s x.1 x.2.1 x.2.2).1.out = 1
        · exact absurd hs (o2 h1).2
        · omega
      rw [hs] at hm
      have := i3 (path_from_final hm)
      omega

/-- **the order is sent in the very step that reaches FINAL**, and only after the Stopper has finished on the Master: the Master
    leaves RESTARTING / SHUTTING_DOWN only when the oracle says the Stopper is idle (`nextEnding`), a Slave when its Master has
    left the ending state (`nextEnding`, second branch) -/
theorem C09_order_with_final (c : Cfg) (s : St) (now : Nat) (op : Supv.Inst.Op) (orc : List (Query × Nat)) (hwf : c.me < s.modes.length)
    (h : orders (stepOp c s now op orc).1.out = 1) :
    fsmOf c (stepOp c s now op orc).1 = .final ∧ fsmOf c s ≠ .final := (stepOp_ord c s now op orc hwf).2 h

end Orders

end Supv.Props.C09
