import Supv.Lemmas.Strat

/-!
# C09 — Stop sequences are honoured; restart/shutdown is orderly and reaches everyone

Model: `Supv.Cmd` (Stopper) and `Supv.Inst` (ending states of the FSM).  Proved here: the plan the Stopper builds, the group it
picks up, and the ending states of the instance FSM.  The ordering of the emitted stop requests over whole executions is judged
on the implementation by the monitor `Supv.Spec.Cmd`.
-/

namespace Supv.Props.C09
open Supv.Cmd Supv.Proc

/-- **C09 (only where running).**  Every planned stop command targets an instance where the process is listed as running, the
    process belongs to the application and its stop_sequence is its group's; no group is empty. -/
theorem C09_only_where_running (w : W) (a : Nat) :
    ∀ g ∈ stopPlan w a, g.2 ≠ [] ∧ ∀ c ∈ g.2, (w.pcfg.getD c.proc default).app = a
      ∧ (w.pcfg.getD c.proc default).stopSeq = g.1 ∧ c.target ∈ (w.procs.getD c.proc {}).running := by
  intro g hg
  unfold stopPlan at hg
  simp only [List.mem_filter, List.mem_map] at hg
  obtain ⟨⟨s, _, rfl⟩, hne⟩ := hg
  refine ⟨by intro h; rw [h] at hne; exact absurd hne (by decide), ?_⟩
  intro c hc
  rw [List.mem_flatten] at hc
  obtain ⟨l, hl, hcl⟩ := hc
  rw [List.mem_map] at hl
  obtain ⟨q, hq, rfl⟩ := hl
  rw [List.mem_filter] at hq
  obtain ⟨hq, hqs⟩ := hq
  rw [List.mem_map] at hcl
  obtain ⟨i, hi, rfl⟩ := hcl
  unfold appProcs at hq
  rw [List.mem_filter] at hq
  exact ⟨by simpa using hq.2, by simpa using hqs, hi⟩

/-- **C09 (the highest sequence first).**  The group the Stopper picks up (`pickup_logic = max`) has the highest sequence number
    of what is planned. -/
theorem C09_pickup_highest {α} (l : List (Nat × α)) (k : Nat) (h : maxKey l = some k) : ∀ x ∈ l, x.1 ≤ k :=
  maxKey_ge l k h

/-- **C09 (stop of all applications).**  `Stopper.stop_applications` stores exactly the applications that have a running process
    (each with the plan of `C09_only_where_running`), then triggers the Stopper ONCE: the applications of the highest
    stop_sequence are picked up first (`C09_application_pickup_highest`). -/
theorem C09_stop_all_apps (w : W) (a : Nat) :
    a ∈ stopAllApps w ↔ a < w.acfg.length ∧ hasRunningProcesses w a = true := by
  unfold stopAllApps
  simp [List.mem_filter]

/-- **C09 (applications in decreasing stop_sequence).**  The Stopper picks the planned applications of the highest sequence number. -/
theorem C09_application_pickup_highest (w : W) (k : Nat) (h : maxKey w.splanned = some k) : ∀ x ∈ w.splanned, x.1 ≤ k :=
  maxKey_ge w.splanned k h

/-- **C09 (completion of a stop request).**  A stop request is finished exactly when the target reports a stopped state; it is
    given up when STOPPING lasts longer than the wait ticks, or when no STOPPING is seen within the tick margin. -/
theorem C09_stop_completion (state : PState) (req wait cnt : Nat) :
    (stopCheckResult state req wait cnt = 1 ↔ state.isStopped = true)
    ∧ (stopCheckResult state req wait cnt = 3 ↔
        (state = .stopping ∧ req + wait < cnt) ∨ (state ≠ .stopping ∧ state.isStopped = false ∧ cnt > req + minTicks)) := by
  unfold stopCheckResult
  cases state <;> simp [PState.isStopped] <;> (try split) <;> simp_all <;> omega

end Supv.Props.C09
