import Supv.Lemmas.Proc

/-!
# C11 — Process status is a deterministic synthesis of per-instance reports

Property theorems only (helper lemmas: `Supv/Lemmas/Proc.lean`; model: `Supv/Model/Proc.lean`; specification:
`Supv/Spec/C11.lean`).  The model is tied to `supvisors/process.py` + `context.py` by the lock-step correspondence of
`harness/c11.py`.

Quantifier: every finite history of process-level operations (snapshots, events in any order, instance losses,
removals, forced states, disability, ticks) over any number of instances.
-/

namespace Supv.Props.C11
open Supv.Proc Supv.Spec.C11

/-- the histories on which the listing clause is claimed: every operation is `OpOk` in the views of its prefix -/
def HistOk : (Nat → View) → List (Nat × POp) → Prop
  | _, [] => True
  | V, (now, op) :: rest => OpOk V op ∧ HistOk (stepViews V now op) rest

def foldViews (V : Nat → View) (h : List (Nat × POp)) : Nat → View :=
  h.foldl (fun V x => stepViews V x.1 x.2) V

theorem foldViews_apply (h : List (Nat × POp)) (V : Nat → View) (i : Nat) :
    foldViews V h i = h.foldl (fun v (x : Nat × POp) => viewStep i v x.1 x.2) (V i) := by
  induction h generalizing V with
  | nil => rfl
  | cons x t ih => simp only [foldViews, List.foldl_cons] at *; rw [ih]; rfl

theorem prun_rel (h : List (Nat × POp)) (p : Proc) (V : Nat → View) (hrel : Rel p V) (hok : HistOk V h) :
    (prun p h).Holds (fun p' => Rel p' (foldViews V h)) := by
  induction h generalizing p V with
  | nil => simpa [prun, foldViews] using hrel
  | cons x t ih =>
    obtain ⟨now, op⟩ := x
    obtain ⟨h1, h2⟩ := hok
    obtain ⟨p', hp', hrel'⟩ := (pstep_rel p V now op hrel h1).exists
    simp only [prun, hp']
    exact ih p' _ hrel' h2

theorem rel_init : Rel ({} : Proc) (fun _ => View.init) := by
  refine ⟨by simp, by simp, by intro; rfl, by simp, ?_, by simp [Infos.get?, View.init], by simp [View.init], ?_⟩
  · intro j v h; simp [Infos.get?] at h
  · simp [PState.isRunning]

/-- **C11, listing clause (partial).**  For every admissible history, the synthesis never raises and an instance
    is listed as running iff the fold of *its own* reports says so: last report STARTING/BACKOFF/RUNNING, or STOPPING
    after having been listed; not listed after a stopped-like report, a loss or a removal.
    Partial: `HistOk` excludes the two input classes recorded as known findings (see the `_refuted` theorems). -/
theorem C11_listed_iff_spec_partial (h : List (Nat × POp)) (hok : HistOk (fun _ => View.init) h) :
    ∃ p, prun {} h = .ok p ∧ ∀ i, i ∈ p.running ↔ (view i h).listed = true := by
  obtain ⟨p, hp, hrel⟩ := (prun_rel h {} _ rel_init hok).exists
  refine ⟨p, hp, fun i => ?_⟩
  rw [hrel.listed i, foldViews_apply]
  rfl

/-- **C11, conflict clause.**  The listing never holds an instance twice, so "conflict flagged iff the list has two
    or more entries" (`conflicting` is `length > 1` by definition) counts *distinct* instances. -/
theorem C11_running_nodup_partial (h : List (Nat × POp)) (hok : HistOk (fun _ => View.init) h) :
    ∃ p, prun {} h = .ok p ∧ p.running.Nodup ∧ (conflicting p = true ↔ 2 ≤ p.running.length) := by
  obtain ⟨p, hp, hrel⟩ := (prun_rel h {} _ rel_init hok).exists
  exact ⟨p, hp, hrel.nodup, by simp [conflicting]; omega⟩

/-- **C11, state clause (running part).**  The synthetic state is a running state iff some listed instance last
    reported a running state; it is never stopped-like while an instance is listed; and every entry agrees with the
    last report of its instance. -/
theorem C11_state_running_iff_partial (h : List (Nat × POp)) (hok : HistOk (fun _ => View.init) h) :
    ∃ p, prun {} h = .ok p
      ∧ (p.state.isRunning = true ↔ ∃ j s e, (view j h).listed = true ∧ (view j h).last = some (s, e) ∧ s.isRunning = true)
      ∧ (p.state.isStopped = true → ∀ j, (view j h).listed = false) := by
  obtain ⟨p, hp, hrel⟩ := (prun_rel h {} _ rel_init hok).exists
  have hv : ∀ j, foldViews (fun _ => View.init) h j = view j h := fun j => by rw [foldViews_apply]; rfl
  refine ⟨p, hp, ?_, ?_⟩
  · rw [hrel.stateRunning]
    constructor
    · rintro ⟨j, hj, w, hw, hr⟩
      have hl := (hrel.listed j).mp hj
      have he := hrel.entries j
      rw [hw, hv] at he
      cases hlast : (view j h).last with
      | none => simp [hlast] at he
      | some se =>
        obtain ⟨s, e⟩ := se
        simp [hlast] at he
        exact ⟨j, s, e, by rw [← hv]; exact hl, hlast, he ▸ hr⟩
    · rintro ⟨j, s, e, hl, hlast, hr⟩
      have hj : j ∈ p.running := (hrel.listed j).mpr (by rw [hv]; exact hl)
      obtain ⟨w, hw, _⟩ := hrel.listedOk j hj
      have he := hrel.entries j
      rw [hw, hv, hlast] at he
      simp at he
      exact ⟨j, hj, w, hw, he ▸ hr⟩
  · intro hst j
    have hnil := hrel.stoppedEmpty hst
    have := hrel.listed j
    rw [hnil, hv] at this
    cases hl : (view j h).listed
    · rfl
    · simp [hl] at this

/-- **C11, loss frame.**  Losing an instance never touches the entries of the other instances (any state, any
    history, whether or not the lost instance was listed). -/
theorem C11_lose_frame (p : Proc) (now i j : Nat) (hij : j ≠ i) :
    ∀ p', pstep p now (.lose i) = .ok p' → p'.infos.get? j = p.infos.get? j := by
  intro p' hp
  simp only [pstep, invalidateIdentifier] at hp
  split at hp
  · split at hp
    · rename_i v hv
      simp only [updateInfo, hv] at hp
      -- `updateStatus` keeps `infos`
      have : ∀ q r, updateStatus q i .fatal = .ok r → r.infos = q.infos := by
        intro q r hq
        unfold updateStatus at hq
        simp only at hq
        repeat' split at hq
        all_goals first | (injection hq with hq; subst hq; rfl) | (cases hq)
      rw [this _ _ hp]
      unfold resetForced
      split <;> simp [Infos.get?_set_other _ _ _ _ hij]
    · cases hp
  · injection hp with hp; subst hp; rfl

/-! ### Full strength: every history the implementation accepts

Both input classes that used to be excluded (`C11:lose-while-only-stopping`, `C11:remove-entry-not-stopped`) have been repaired
in the code (a0ba3bf, and the repair of `ProcessStatus.remove_identifier`), so that the only hypothesis left is that the history
does not make the synthesis raise - which is exactly "`upd` / `remove` about an instance that has no entry", refused by
`Context.check_process` before it reaches the status. -/

/-- an operation the model accepts from a related state is admissible -/
theorem opOk_of_ok (p : Proc) (V : Nat → View) (now : Nat) (op : POp) (hrel : Rel p V) :
    ∀ p', pstep p now op = .ok p' → OpOk V op := by
  intro p' hp
  cases op with
  | upd j s e et dis =>
    simp only [OpOk]
    have hent := hrel.entries j
    cases hg : p.infos.get? j with
    | none => simp [pstep, updateInfo, hg] at hp
    | some w => rw [hg] at hent; cases hl : (V j).last <;> simp_all
  | remove j =>
    simp only [OpOk]
    have hent := hrel.entries j
    cases hg : p.infos.get? j with
    | none => simp [pstep, hg] at hp
    | some w => rw [hg] at hent; cases hl : (V j).last <;> simp_all
  | add _ _ _ _ _ => trivial
  | lose _ => trivial
  | force _ _ _ => trivial
  | disable _ _ => trivial
  | tick _ _ => trivial

theorem prun_rel_of_ok (h : List (Nat × POp)) (p : Proc) (V : Nat → View) (hrel : Rel p V) :
    ∀ p', prun p h = .ok p' → Rel p' (foldViews V h) := by
  induction h generalizing p V with
  | nil => intro p' hp; simp only [prun] at hp; injection hp with hp; subst hp; simpa [foldViews] using hrel
  | cons x t ih =>
    obtain ⟨now, op⟩ := x
    intro p' hp
    simp only [prun] at hp
    cases h1 : pstep p now op with
    | err e => rw [h1] at hp; cases hp
    | ok p1 =>
      rw [h1] at hp
      have hok := opOk_of_ok p V now op hrel p1 h1
      obtain ⟨p1', hp1', hrel1⟩ := (pstep_rel p V now op hrel hok).exists
      rw [h1] at hp1'; injection hp1' with hp1'; subst hp1'
      exact ih p1 _ hrel1 p' hp

/-- the full-strength listing statement, for *every* history the synthesis accepts -/
def C11_listed_iff_spec_statement : Prop :=
  ∀ h : List (Nat × POp), ∀ p, prun {} h = .ok p → ∀ i, i ∈ p.running ↔ (view i h).listed = true

/-- **C11, listing clause (full strength).**  For EVERY history of snapshots, events in any order, instance losses, removals,
    forced states, disability changes and ticks, over any number of instances, that does not make the synthesis raise: an
    instance is listed as running iff the fold of its own reports says so. -/
theorem C11_listed_iff_spec : C11_listed_iff_spec_statement := by
  intro h p hp i
  have hrel := prun_rel_of_ok h {} _ rel_init p hp
  rw [hrel.listed i, foldViews_apply]
  rfl

/-- **C11, conflict clause (full strength).**  The listing never holds an instance twice, so "conflict flagged iff the list has
    two or more entries" counts distinct instances - for every history the synthesis accepts. -/
theorem C11_running_nodup (h : List (Nat × POp)) (p : Proc) (hp : prun {} h = .ok p) :
    p.running.Nodup ∧ (conflicting p = true ↔ 2 ≤ p.running.length) := by
  have hrel := prun_rel_of_ok h {} _ rel_init p hp
  exact ⟨hrel.nodup, by simp [conflicting]; omega⟩

/-- **C11, state clause, running part (full strength).**  For every history the synthesis accepts: the synthetic state is a
    running state iff some listed instance last reported a running state. -/
theorem C11_state_running_iff (h : List (Nat × POp)) (p : Proc) (hp : prun {} h = .ok p) :
    p.state.isRunning = true ↔ ∃ j s e, (view j h).listed = true ∧ (view j h).last = some (s, e) ∧ s.isRunning = true := by
  have hrel := prun_rel_of_ok h {} _ rel_init p hp
  have hv : ∀ j, foldViews (fun _ => View.init) h j = view j h := fun j => by rw [foldViews_apply]; rfl
  rw [hrel.stateRunning]
  constructor
  · rintro ⟨j, hj, w, hw, hr⟩
    have hl := (hrel.listed j).mp hj
    have he := hrel.entries j
    rw [hw, hv] at he
    cases hlast : (view j h).last with
    | none => simp [hlast] at he
    | some se =>
      obtain ⟨s, e⟩ := se
      simp [hlast] at he
      exact ⟨j, s, e, by rw [← hv]; exact hl, hlast, he ▸ hr⟩
  · rintro ⟨j, s, e, hl, hlast, hr⟩
    have hj : j ∈ p.running := (hrel.listed j).mpr (by rw [hv]; exact hl)
    obtain ⟨w, hw, _⟩ := hrel.listedOk j hj
    have he := hrel.entries j
    rw [hw, hv, hlast] at he
    simp at he
    exact ⟨j, hj, w, hw, he ▸ hr⟩

/-- **C11, state clause, stopped part (full strength).**  The synthetic state is never stopped-like while an instance is listed. -/
theorem C11_stopped_state_lists_nobody (h : List (Nat × POp)) (p : Proc) (hp : prun {} h = .ok p)
    (hst : p.state.isStopped = true) : p.running = [] :=
  (prun_rel_of_ok h {} _ rel_init p hp).stoppedEmpty hst

/-- the only way to raise: an update or a removal about an instance that has no entry (`KeyError`; `Context.check_process`
    filters them out) -/
theorem C11_raises_only_without_entry (h : List (Nat × POp)) (hok : HistOk (fun _ => View.init) h) :
    ∃ p, prun {} h = .ok p := by
  obtain ⟨p, hp, _⟩ := (prun_rel h {} _ rel_init hok).exists
  exact ⟨p, hp⟩

/-- **C11 (a lost instance is never left listed) - repaired defect `C11:lose-while-only-stopping`.**  Whatever the process
    (any entries, any synthetic state - in particular when its only listed copies are STOPPING), once the loss of instance `i`
    has been processed without error `i` is no longer among the running identifiers. -/
theorem resetForced_running (q : Proc) (x : Option PState) : (resetForced q x).running = q.running := by
  unfold resetForced; split <;> rfl

/-- `updateStatus` with a stopped-like state erases the instance from the list -/
theorem updateStatus_fatal_running (q r : Proc) (i : Nat) (hq : updateStatus q i .fatal = .ok r) :
    r.running = q.running.erase i := by
  unfold updateStatus at hq
  have hrun : updRunning q i .fatal = q.running.erase i := by simp [updRunning, PState.isStopped]
  simp only [hrun] at hq
  repeat' split at hq
  all_goals first | (injection hq with hq; subst hq; rfl) | (cases hq)

theorem C11_lose_unlists (p : Proc) (now i : Nat) (hnd : p.running.Nodup) :
    ∀ p', pstep p now (.lose i) = .ok p' → i ∉ p'.running := by
  intro p' hp
  simp only [pstep, invalidateIdentifier] at hp
  split at hp
  · split at hp
    · rename_i v hv
      simp only [updateInfo, hv] at hp
      rw [updateStatus_fatal_running _ _ _ hp, resetForced_running]
      intro hm
      exact ((List.Nodup.mem_erase_iff hnd).mp hm).1 rfl
    · cases hp
  · rename_i hc
    injection hp with hp; subst hp
    simpa using hc

/-- the witness history of the former known finding, now in agreement with the statement: STARTING, STOPPING, then the loss -/
example : ∃ p, prun {} [(1, .add 1 .starting true 117 false), (2, .upd 1 .stopping true 121 false), (3, .lose 1)] = .ok p
    ∧ p.running = [] ∧ p.state = .fatal := ⟨_, rfl, by decide, by decide⟩

/-- **C11 (a removed entry is never left listed) - repaired defect `C11:remove-entry-not-stopped`.**  The witness history of the
    former known finding (an entry removed while its last report is RUNNING), now in agreement with the statement. -/
example : ∃ p, prun {} [(1, .add 0 .running false 106 false), (1, .add 1 .running false 107 false), (2, .remove 0)] = .ok p
    ∧ p.running = [1] ∧ (view 0 [(1, .add 0 .running false 106 false), (1, .add 1 .running false 107 false), (2, .remove 0)]).listed = false :=
  ⟨_, rfl, by decide, by decide⟩

/-! ### Non-vacuity: admissible histories with a conflict, a loss and a removal exist -/

example : HistOk (fun _ => View.init)
    [(1, .add 1 .running true 1 false), (2, .add 2 .starting true 2 false), (3, .upd 1 .stopping true 3 false),
     (4, .lose 2), (5, .upd 1 .stopped true 6 false), (6, .remove 1)] := by
  refine ⟨trivial, trivial, by simp [OpOk, stepViews, viewStep, View.init, listedStep, PState.isRunning, PState.isStopped],
          trivial, by simp [OpOk, stepViews, viewStep, View.init, listedStep, PState.isRunning, PState.isStopped], ?_, trivial⟩
  · simp [OpOk, stepViews, viewStep, View.init, listedStep, PState.isRunning, PState.isStopped]

example : ∃ p, prun {} [(1, .add 1 .running true 1 false), (2, .add 2 .starting true 2 false),
                        (3, .upd 1 .stopping true 3 false)] = .ok p
           ∧ p.running = [1, 2] ∧ p.state = .starting ∧ conflicting p = true :=
  ⟨_, rfl, by decide, by decide, by decide⟩

end Supv.Props.C11
