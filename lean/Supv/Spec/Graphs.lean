import Supv.Model.Inst

/-!
# Documented state graphs (hand-written from the documentation and the property statements C02 / C07 — never generated)
-/

namespace Supv.Spec
open Supv.Inst

/-- C02: OFF → SYNCHRONIZATION → ELECTION → DISTRIBUTION → OPERATION ⇄ CONCILIATION, the documented returns to OFF,
    SYNCHRONIZATION and ELECTION, the exits RESTARTING / SHUTTING_DOWN leading only to FINAL, FINAL terminal. -/
def documentedFsm : SState → List SState
  | .off => [.sync]
  | .sync => [.off, .election]
  | .election => [.off, .sync, .distribution, .restarting, .shuttingDown]
  | .distribution => [.off, .sync, .election, .operation, .restarting, .shuttingDown]
  | .operation => [.off, .sync, .election, .conciliation, .restarting, .shuttingDown]
  | .conciliation => [.off, .sync, .election, .operation, .restarting, .shuttingDown]
  | .restarting => [.final]
  | .shuttingDown => [.final]
  | .final => []

/-- C07: "STOPPED, CHECKING, CHECKED, RUNNING, FAILED and back to STOPPED or to ISOLATED as documented; ISOLATED is
    final" (CHECKING may fall back to STOPPED / be refused to ISOLATED during the handshake). -/
def documentedInst : IState → List IState
  | .stopped => [.checking]
  | .checking => [.stopped, .checked, .failed, .isolated]
  | .checked => [.running, .failed]
  | .running => [.failed]
  | .failed => [.stopped, .isolated]
  | .isolated => []

/-- a sequence of states is a walk of a graph -/
def isWalk {α : Type} [DecidableEq α] (g : α → List α) : List α → Bool
  | a :: b :: rest => (a == b || (g a).contains b) && isWalk g (b :: rest)
  | _ => true

/-- states that require a known Master seen RUNNING on entry (C02) -/
def needsMaster : SState → Bool
  | .distribution | .operation | .conciliation | .restarting | .shuttingDown => true
  | _ => false

end Supv.Spec
