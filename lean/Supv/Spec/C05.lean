import Supv.Model.Conc

/-!
# C05 — specification: what the statement asks of a conciliation, judged on what an implementation did

Written from the property text, not from the code.  Input: the processes as the Master sees them (`Conc.View`) and the
strategy; observation `Obs`: the `(process, instance)` stop requests, the starts planned, the processes handed to the
running-failure handler.

Reading of the statement:
* a *copy* of the statement is an instance where the process is **running (STARTING, BACKOFF or RUNNING)**: the `live`
  copies.  An instance that reported STOPPING stays listed (C11) but is not running: stopping it again is neither asked nor
  forbidden, and it is not a candidate for "the copy to keep";
* a process is *in conflict* when its application is managed and it has two or more live copies;
* "most recently started" / "oldest" = minimal / maximal uptime among the live copies; **ties are free** (any copy of
  minimal, resp. maximal, uptime may be the one kept);
* "never stopping a process that is not in conflict": every stop request targets a listed copy, and a live one only if
  its process is in conflict.
-/

namespace Supv.Spec.C05
open Supv.Conc

/-- what the implementation did -/
structure Obs where
  /-- stop requests `(process, instance)` -/
  stops : List (Nat × Nat)
  /-- starts planned (one entry per planned start) -/
  starts : List Nat
  /-- processes handed to the running-failure handler -/
  failJobs : List Nat
  /-- the running-failure handler was told to apply its jobs -/
  failTriggered : Bool
  deriving Repr, Inhabited

/-- the copies the statement speaks of -/
def live (v : PView) : List Copy := v.copies.filter (fun c => !c.stopping)

/-- "running on two or more instances", application managed -/
def inConflict (v : PView) : Bool := v.managed && decide (2 ≤ (live v).length)

def requested (o : Obs) (v : PView) (c : Copy) : Bool := o.stops.contains (v.pid, c.inst)

/-- the live copies left alone -/
def kept (o : Obs) (v : PView) : List Copy := (live v).filter (fun c => !requested o v c)

def youngest (v : PView) (k : Copy) : Bool := (live v).all (fun c => decide (k.uptime ≤ c.uptime))
def oldest (v : PView) (k : Copy) : Bool := (live v).all (fun c => decide (c.uptime ≤ k.uptime))

/-- "requests stops exactly where the strategy says", for one process in conflict -/
def stopsOk (s : Strategy) (o : Obs) (v : PView) : Bool :=
  match s with
  | .senicide => (kept o v).length == 1 && (kept o v).all (youngest v)
  | .infanticide => (kept o v).length == 1 && (kept o v).all (oldest v)
  | .user => (live v).all (fun c => !requested o v c)
  | .stop | .restart | .runningFailure => (kept o v).isEmpty

/-- one stop request is legitimate: a listed copy; a live one only of a process in conflict -/
def stopAllowed (ctx : View) (x : Nat × Nat) : Bool :=
  ctx.any (fun v => v.pid == x.1 && v.copies.any (fun c => c.inst == x.2 && (c.stopping || inConflict v)))

/-- "never stopping a process that is not in conflict" -/
def onlyConflicting (ctx : View) (o : Obs) : Bool := o.stops.all (stopAllowed ctx)

/-- RESTART "then starts one copy again": exactly one start per process in conflict, none for any other process;
    the other strategies plan no start -/
def startsOk (s : Strategy) (ctx : View) (o : Obs) : Bool :=
  match s with
  | .restart =>
    ctx.all (fun v => !inConflict v || o.starts.count v.pid == 1)
    && o.starts.all (fun p => ctx.any (fun v => v.pid == p && inConflict v))
  | _ => o.starts.isEmpty

/-- RUNNING_FAILURE "applies the program's running failure strategy": every process in conflict is handed to the
    running-failure handler, which is triggered; nothing else is handed over; the other strategies hand over nothing -/
def failureOk (s : Strategy) (ctx : View) (o : Obs) : Bool :=
  match s with
  | .runningFailure =>
    ctx.all (fun v => !inConflict v || o.failJobs.contains v.pid)
    && o.failJobs.all (fun p => ctx.any (fun v => v.pid == p && inConflict v))
    && (o.failTriggered || !ctx.any inConflict)
  | _ => o.failJobs.isEmpty && !o.failTriggered

/-- the specification relation -/
def accepts (s : Strategy) (ctx : View) (o : Obs) : Bool :=
  ctx.all (fun v => !inConflict v || stopsOk s o v) && onlyConflicting ctx o && startsOk s ctx o && failureOk s ctx o

/-- the clauses rejected, with the process (and instance) concerned -/
def judge (s : Strategy) (ctx : View) (o : Obs) : List String :=
  (ctx.filter (fun v => inConflict v && !stopsOk s o v)).map (fun v => s!"stops:{v.pid}")
  ++ (o.stops.filter (fun x => !stopAllowed ctx x)).map (fun x => s!"only-conflicting:{x.1}.{x.2}")
  ++ (if startsOk s ctx o then [] else
        (ctx.filter (fun v => s == .restart && inConflict v && o.starts.count v.pid != 1)).map (fun v => s!"starts:{v.pid}")
        ++ ((o.starts.filter (fun p => !(s == .restart && ctx.any (fun v => v.pid == p && inConflict v)))).eraseDups).map
             (fun p => s!"starts-extra:{p}"))
  ++ (if failureOk s ctx o then [] else ["failure-delegation"])

/-- root-cause tag of an input: a managed process listed on two or more instances one of which is STOPPING (the code
    counts that instance as a copy of the conflict; the statement does not) -/
def stoppingCounted (ctx : View) : Bool :=
  ctx.any (fun v => v.managed && v.conflicting && v.copies.any (·.stopping))

end Supv.Spec.C05
