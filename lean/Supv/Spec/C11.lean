import Supv.Model.Proc

/-!
# C11 — declarative specification of the process status synthesis

Written from the property statement, not from the code: everything is a *per-instance fold* over the history of
reports of that instance, followed by a synthesis of the current per-instance views.  The theorems of
`Supv/Props/C11.lean` relate the incremental model (`Supv.Proc.pstep`) to this specification; the driver evaluates
it on what the implementation reported (the judge).
-/

namespace Supv.Spec.C11
open Supv.Proc

/-- "listed as running on exactly the instances whose last report is STARTING, BACKOFF or RUNNING (an instance
    reporting STOPPING stays listed until it reports a stopped state)" -/
def listedStep (was : Bool) (s : PState) : Bool :=
  if s.isRunning then true else if s.isStopped then false else was

/-- what is known from one instance: its latest report, when it was received (local time), and whether the
    process counts as running there -/
structure View where
  last : Option (PState × Bool)   -- state, expected flag of the latest report; `none`: no entry
  gone : Option (PState × Nat) := none  -- last report (state, reception time) of an entry that was removed since
  rtime : Nat                     -- local reception time of the latest report
  etime : Nat                     -- remote time carried by the latest report
  nowm : Nat                      -- remote time of the latest TICK or report
  listed : Bool
  deriving Repr, DecidableEq

def View.init : View := { last := none, gone := none, rtime := 0, etime := 0, nowm := 0, listed := false }

/-- fold of the history for instance `i` -/
def viewStep (i : Nat) (v : View) (now : Nat) : POp → View
  | .add j s e et _ => if j = i then { last := some (s, e), gone := none, rtime := now, etime := et, nowm := et, listed := listedStep v.listed s } else v
  | .upd j s e et _ => if j = i then { last := some (s, e), gone := none, rtime := now, etime := et, nowm := et, listed := listedStep v.listed s } else v
  | .lose j =>
    -- "losing an instance turns what ran there into FATAL"
    if j = i ∧ v.listed then { v with last := some (.fatal, false), rtime := now, etime := v.nowm, listed := false } else v
  | .remove j => if j = i then { View.init with gone := v.last.map (fun x => (x.1, v.rtime)) } else v
  | .tick j t => if j = i ∧ v.last.isSome then { v with nowm := t } else v
  | _ => v

def view (i : Nat) : List (Nat × POp) → View
  | h => h.foldl (fun v (x : Nat × POp) => viewStep i v x.1 x.2) View.init

/-- the instances mentioned by a history (in order of first mention) -/
def mentioned : List (Nat × POp) → List Nat
  | [] => []
  | (_, op) :: rest =>
    let r := mentioned rest
    match op with
    | .add j .. | .upd j .. | .lose j | .remove j | .disable j _ | .tick j _ => if r.contains j then r else j :: r
    | .force .. => r

def listedSet (h : List (Nat × POp)) : List Nat := (mentioned h).filter (fun i => (view i h).listed)

/-- rank of the running-like states: "the most advanced running state under conflict" -/
def advance : PState → Nat
  | .running => 4 | .backoff => 3 | .starting => 2 | .stopping => 1 | _ => 0

/-- The state the statement allows for the synthesis (relational: reception-time ties are left open). -/
def stateAllowed (h : List (Nat × POp)) (st : PState) : Bool :=
  let ids := mentioned h
  let listed := listedSet h
  let states (l : List Nat) := l.filterMap (fun i => ((view i h).last).map (·.1))
  match listed with
  | [] =>
    let all := states ids
    if all.contains .stopping then st == .stopping
    else
      -- the stopped-like state most recently received
      let tmax := (ids.filterMap (fun i => let v := view i h; v.last.map (fun _ => v.rtime))).foldl max 0
      ids.any (fun i => let v := view i h; v.rtime == tmax && (v.last.map (·.1)) == some st)
      -- a removal is not a reception: the statement does not say that the display must forget the report of an
      -- entry removed since ("the stopped-like state most recently received"), so that report is accepted too
      || ids.any (fun i => match (view i h).gone with
                           | some (s, t) => s == st && st.isStopped && tmax ≤ t
                           | none => false)
  | [i] => ((view i h).last.map (·.1)) == some st
  | _ =>
    let ss := states listed
    ss.contains st && ss.all (fun s => advance s ≤ advance st)

/-- forced state according to the statement: a forced state "overrides the display until the next event received
    for that process, is dismissed if newer information from the targeted instance has already arrived" -/
def forcedStep (h : List (Nat × POp)) (f : Option PState) (op : POp) : Option PState :=
  match op with
  | .force target s et =>
    let v := view target h
    if v.last.isNone || v.etime ≤ et then some s else f
  | .add _ s .. => if s == .stopped then f else none
  | .upd .. => none
  | .lose j => if (view j h).listed then none else f
  | _ => f

/-- forced state after a history (`hist` is consumed left to right, `pre` is the prefix already consumed) -/
def forcedAfter : List (Nat × POp) → List (Nat × POp) → Option PState → Option PState
  | _, [], f => f
  | pre, x :: rest, f => forcedAfter (pre ++ [x]) rest (forcedStep pre f x.2)

/-- what the implementation reports for a process -/
structure Obs where
  running : List Nat
  state : PState
  displayed : PState
  conflict : Bool
  deriving Repr

/-- The judge: does an observation satisfy the statement after history `h`?  Returns the first violated clause. -/
def judge (h : List (Nat × POp)) (o : Obs) : Option String :=
  let listed := listedSet h
  if !(listed.all o.running.contains && o.running.all listed.contains) then some "listing"
  else if o.conflict != decide (listed.length ≥ 2) then some "conflict-flag"
  else if !(stateAllowed h o.state) then some "state"
  else
    match forcedAfter [] h none with
    | some f => if o.displayed == f then none else some "forced-display"
    | none => if o.displayed == o.state then none else some "forced-display"

/-- Root-cause tags of the input classes on which the code used to depart from the statement (they keyed the known findings
    `lose-while-only-stopping` and `remove-entry-not-stopped`, both repaired since): none is left, a departure is a plain violation. -/
def causeTag (_h : List (Nat × POp)) : POp → Option String
  | _ => none

end Supv.Spec.C11
