import Supv.Model.Rules

/-!
# C18 — declarative specification of rule and option resolution, and the judge

Written from the property statement and the documentation (`docs/configuration.rst`), not from the code:

* lookup: an element with the exact name beats any pattern; among patterns every *longest* match is acceptable
  (ties are left open, the documentation says "arbitrarily the first of them");
* a rule value is the value given by the FIRST element, walking from the element itself down its `reference`
  chain (`LOOP_CHECK` elements at most), whose text is in the domain of that rule; else the inherited default;
* `required` needs a start sequence, `stop_sequence` defaults to `start_sequence`;
* `@` / `#` only make sense in a pattern element, `@` prevails over `#`;
* `@`: the k-th process of the homogeneous group (by process index) gets the k-th applicable instance, processes in
  excess stay unassigned; `#`: the k-th process gets instance `k mod n`;
* options: in the documented range, else the default (the value the option has when absent).

The lexical grammars (`pyInt`, `strtobool`, `list_of_strings`, …) and the alias expansion are shared with the model;
the loaders, the imperative override order, `check_dependencies` and `check_options` are not.
The driver evaluates `judge*` on what the IMPLEMENTATION returned.
-/

namespace Supv.Spec.C18
open Supv.Rules

def firstSome {α} : List (Option α) → Option α
  | [] => none
  | some a :: _ => some a
  | none :: t => firstSome t

/-- the element, then the models reached through `reference`, `n` elements at most -/
def chain (d : Doc) : Nat → Elt → List Elt
  | 0, _ => []
  | n + 1, e => e :: (match findModel d e with | some m => chain d n m | none => [])

/-- documented value of a rule: first in-domain value along the chain, else the default -/
def fieldOf {α} (p : Elt → Option α) (ch : List Elt) (dflt : α) : α := (firstSome (ch.map p)).getD dflt

def pStart (e : Elt) : Option Int := parseSeq (e.text "start_sequence")
def pStop (e : Elt) : Option Int := parseSeq (e.text "stop_sequence")
def pRequired (e : Elt) : Option Bool := parseBool (e.text "required")
def pWaitExit (e : Elt) : Option Bool := parseBool (e.text "wait_exit")
def pLoad (e : Elt) : Option Int := parseLoad (e.text "expected_loading")
def pSfs (e : Elt) : Option String := parseEnum sfsNames (e.text "starting_failure_strategy")
def pRfs (e : Elt) : Option String := parseEnum rfsNames (e.text "running_failure_strategy")
def pDist (e : Elt) : Option String := parseEnum distNames (e.text "distribution")
def pStrategy (e : Elt) : Option String := parseEnum startNames (e.text "starting_strategy")
def pIdsText (e : Elt) : Option String := e.text "identifiers"

/-- documented meaning of one resolved identifier list (signs included) -/
def idsOfList (resolved : List String) : Ids :=
  let hasAt := resolved.contains "@"
  let hasHash := resolved.contains "#"
  let plain := resolved.filter (fun x => x != "@" && x != "#")
  let eff := if plain.contains "*" || ((hasAt || hasHash) && plain.isEmpty) then ["*"] else plain
  if hasAt then { identifiers := [], atIds := eff, hashIds := [] }
  else if hasHash then { identifiers := [], atIds := [], hashIds := eff }
  else { identifiers := eff, atIds := [], hashIds := [] }

/-- documented identifiers of a program: those of the first element of the chain that gives identifiers;
    signs are dropped outside a pattern element -/
def specIds (d : Doc) (ch : List Elt) (isPattern : Bool) (dflt : Ids) : Ids :=
  let raw := match firstSome (ch.map pIdsText) with
    | none => dflt
    | some v => idsOfList (checkIdentifierList d v)
  if !isPattern && (!raw.atIds.isEmpty || !raw.hashIds.isEmpty) then { identifiers := ["*"], atIds := [], hashIds := [] }
  else if !raw.atIds.isEmpty then { raw with hashIds := [] }
  else raw

/-- documented rules of a program given the element chosen by the lookup -/
def specProc (d : Doc) (cand : Option Elt × Bool) (r0 : ProcRules) : ProcRules :=
  let ch := match cand.1 with | some e => chain d LOOP_CHECK e | none => []
  let start := fieldOf pStart ch r0.startSeq
  let stop := fieldOf pStop ch r0.stopSeq
  { ids := specIds d ch cand.2 r0.ids
    startSeq := start
    stopSeq := if stop < 0 then start else stop
    required := fieldOf pRequired ch r0.required && start != 0
    waitExit := fieldOf pWaitExit ch r0.waitExit
    load := fieldOf pLoad ch r0.load
    sfs := fieldOf pSfs ch r0.sfs
    rfs := fieldOf pRfs ch r0.rfs }

/-! ### lookup candidates -/

/-- every value of the pattern dict whose match is a longest one; patterns that are not regular expressions
    never match -/
def longestMatches {α} (d : Doc) (name : String) (pats : List (String × α)) : List α :=
  let ms := pats.filterMap (fun kv => match matchRes d kv.1 name with | .len n => some (n, kv.2) | _ => none)
  let best := ms.foldl (fun b x => max b x.1) 0
  (ms.filter (fun x => x.1 == best)).map (·.2)

def anyBadPattern {α} (d : Doc) (name : String) (pats : List (String × α)) : Bool :=
  pats.any (fun kv => matchRes d kv.1 name == .err)

def appCandidates (d : Doc) (app : String) : List (Option AppElt) :=
  match d.apps.find? (fun a => a.elt.name == some app) with
  | some a => [some a]
  | none =>
    match longestMatches d app (patternDict (·.elt.pattern) d.apps) with
    | [] => [none]
    | l => l.map some

def progCandidatesIn (d : Doc) (a : AppElt) (proc : String) : List (Option Elt × Bool) :=
  match a.programs.find? (fun p => p.name == some proc) with
  | some p => [(some p, false)]
  | none =>
    match longestMatches d proc (patternDict (·.pattern) a.programs) with
    | [] => [(none, false)]
    | l => l.map (fun p => (some p, true))

def progCandidates (d : Doc) (app proc : String) : List (Option Elt × Bool) :=
  (appCandidates d app).flatMap (fun a => match a with
    | none => [(none, false)]
    | some a => progCandidatesIn d a proc)

/-- a pattern that is not a regular expression is consulted by this lookup -/
def lookupHitsBadPattern (d : Doc) (app : String) (proc : Option String) : Bool :=
  match d.apps.find? (fun a => a.elt.name == some app) with
  | some a =>
    (match proc with
     | some p => (a.programs.find? (fun q => q.name == some p)).isNone && anyBadPattern d p (patternDict (·.pattern) a.programs)
     | none => false)
  | none =>
    anyBadPattern d app (patternDict (·.elt.pattern) d.apps) ||
    (match proc with
     | some p => (longestMatches d app (patternDict (·.elt.pattern) d.apps)).any (fun a =>
         (a.programs.find? (fun q => q.name == some p)).isNone && anyBadPattern d p (patternDict (·.pattern) a.programs))
     | none => false)

/-- the class of documents on which `values set on the element supersede referenced ones` fails for identifiers
    in the current code: an element below the first one that gives identifiers uses a sign -/
def signResidue (d : Doc) (ch : List Elt) : Bool :=
  let texts := ch.filterMap pIdsText
  match texts with
  | [] => false
  | _ :: deeper => deeper.any (fun v => let l := checkIdentifierList d v; l.contains "@" || l.contains "#")

/-- first field on which two program rules differ -/
def diffProc (a b : ProcRules) : String :=
  if a.ids != b.ids then "identifiers"
  else if a.startSeq != b.startSeq then "start_sequence"
  else if a.stopSeq != b.stopSeq then "stop_sequence"
  else if a.required != b.required then "required"
  else if a.waitExit != b.waitExit then "wait_exit"
  else if a.load != b.load then "expected_loading"
  else if a.sfs != b.sfs then "starting_failure_strategy"
  else if a.rfs != b.rfs then "running_failure_strategy"
  else "none"

/-- **Judge of a program query**: `none` = accepted, else (clause, cause tag) -/
def judgeProc (d : Doc) (app proc : String) (r0 : ProcRules) (obs : Except Err ProcRules) : Option (String × String) :=
  match obs with
  | .error e =>
    some (s!"exception:{e}", if lookupHitsBadPattern d app (some proc) then "lookup:invalid-regex" else "")
  | .ok r =>
    let cands := progCandidates d app proc
    let specs := cands.map (fun c => specProc d c r0)
    if specs.contains r then none
    else
      let chainOf (c : Option Elt × Bool) : List Elt := match c.1 with | some e => chain d LOOP_CHECK e | none => []
      -- a candidate explains everything but the identifiers, and an element below its first identifiers uses a sign
      let residue := cands.any (fun c => { specProc d c r0 with ids := r.ids } == r && signResidue d (chainOf c))
      if residue then some ("identifiers", "supersede:sign-residue")
      else
        match cands with
        | [] => some ("lookup", "")
        | c :: _ =>
          let field := diffProc (specProc d c r0) r
          some (if cands.length == 1 then field else s!"lookup-or-{field}", "")

/-! ### applications -/

/-- documented identifiers of an application whose element gives `#`: the N-th application (name ending with
    `-N` / `_N`, N ≥ 1) goes to the N-th name of the list; `none` = the convention is not met (the application cannot
    be started automatically) -/
def appHashTarget (instances : List String) (app : String) (hashIds : List String) : Option (List String) :=
  match appIndexDigits app with
  | none => none
  | some ds =>
    let n := natOfDigits ds
    let ref := if hashIds.contains "*" then instances else hashIds
    if n == 0 then none else some ref

/-- documented application rules given the element chosen by the lookup (every acceptable result); the `identifiers` of
    an application that uses `@` (not documented for applications) or `#` beyond the length of the list (roll-over, not
    documented) are open: `false` in the second component means "identifiers not judged" -/
def specApp (d : Doc) (instances : List String) (app : String) (cand : Option AppElt) (r0 : AppRules) : List (AppRules × Bool) :=
  match cand with
  | none => [({ r0 with stopSeq := if r0.stopSeq < 0 then r0.startSeq else r0.stopSeq }, true)]
  | some a =>
    let ch := [a.elt]
    let start := fieldOf pStart ch r0.startSeq
    let stop := fieldOf pStop ch r0.stopSeq
    let raw : Ids := match pIdsText a.elt with
      | none => r0.ids
      | some v => idsOfList (checkIdentifierList d v)
    let formula := match a.elt.text "operational_status" with
      | some v => if d.formulasOk.contains v then some v else r0.statusFormula
      | none => r0.statusFormula
    let base : AppRules :=
      { managed := true
        distribution := fieldOf pDist ch r0.distribution
        ids := raw
        startSeq := start
        stopSeq := if stop < 0 then start else stop
        startingStrategy := fieldOf pStrategy ch r0.startingStrategy
        sfs := fieldOf pSfs ch r0.sfs
        rfs := fieldOf pRfs ch r0.rfs
        statusFormula := formula }
    if !raw.atIds.isEmpty then [(base, false), ({ base with startSeq := 0 }, false)]
    else if raw.hashIds.isEmpty then [(base, true)]
    else
      match appHashTarget instances app raw.hashIds with
      | none => [({ base with startSeq := 0 }, true)]
      | some ref =>
        let n := natOfDigits ((appIndexDigits app).getD [])
        if n ≤ ref.length then [({ base with ids := { raw with identifiers := [ref.getD (n - 1) ""] } }, true)]
        else [(base, false)]

def diffApp (a b : AppRules) (withIds : Bool) : String :=
  if a.managed != b.managed then "managed"
  else if a.distribution != b.distribution then "distribution"
  else if withIds && a.ids != b.ids then "identifiers"
  else if a.startSeq != b.startSeq then "start_sequence"
  else if a.stopSeq != b.stopSeq then "stop_sequence"
  else if a.startingStrategy != b.startingStrategy then "starting_strategy"
  else if a.sfs != b.sfs then "starting_failure_strategy"
  else if a.rfs != b.rfs then "running_failure_strategy"
  else if a.statusFormula != b.statusFormula then "operational_status"
  else "none"

/-- **Judge of an application query** -/
def judgeApp (d : Doc) (instances : List String) (app : String) (r0 : AppRules) (obs : Except Err AppRules) :
    Option (String × String) :=
  match obs with
  | .error e => some (s!"exception:{e}", if lookupHitsBadPattern d app none then "lookup:invalid-regex" else "")
  | .ok r =>
    let cands := appCandidates d app
    let diffs := cands.flatMap (fun c => (specApp d instances app c r0).map (fun (s, withIds) => diffApp s r withIds))
    if diffs.contains "none" then none
    else some (if cands.length == 1 then diffs.headD "lookup" else s!"lookup-or-{diffs.headD "lookup"}", "")

/-! ### homogeneous groups -/

def countOf (l : List String) (x : String) : Nat := l.count x

/-- `before`: the processes in index order with their rules before the resolution; `after`: the same processes after.
    Fresh and homogeneous group (every process carries the same sign list and nothing is assigned yet): the documented
    assignment is checked exactly; otherwise only the invariants of the statement. -/
def judgeGroup (m : Mapper) (before : List GProc) (after : Except Err (List GProc)) : Option (String × String) :=
  let atProcs := before.filter (fun p => !p.ids.atIds.isEmpty)
  let hashProcs := before.filter (fun p => !p.ids.hashIds.isEmpty && p.ids.atIds.isEmpty)
  match after with
  | .error e =>
    let tag :=
      if e == "KeyError" then "hash:assigned-outside-reference"
      else if e == "ValueError" then "hash:empty-reference"
      else ""
    some (s!"exception:{e}", tag)
  | .ok aft =>
    let idsOfName (n : String) : Option Ids := (aft.find? (·.name == n)).map (·.ids)
    -- '@' : injective (also with respect to what was assigned in the group before), no roll-over
    let atAfter := atProcs.filterMap (fun p => (idsOfName p.name).map (fun i => (p, i)))
    let atAssigned := atAfter.filterMap (fun pi => if pi.2.atIds.isEmpty then pi.2.identifiers.head? else none)
    let prior := before.filterMap (fun p => if p.ids.atIds.isEmpty then p.ids.identifiers.head? else none)
    let atNodup := atAssigned.all (fun x => countOf atAssigned x == 1 && !prior.contains x)
    let homogAt := !atProcs.isEmpty && atProcs.length == before.length &&
      before.all (fun p => p.ids.atIds == (atProcs.headD default).ids.atIds && p.ids.identifiers.isEmpty && p.ids.hashIds.isEmpty)
    let homogHash := !hashProcs.isEmpty && hashProcs.length == before.length &&
      before.all (fun p => p.ids.hashIds == (hashProcs.headD default).ids.hashIds && p.ids.identifiers.isEmpty)
    if !atNodup then some ("at-injective", "")
    else if homogAt then
      let ref := refIdentifiers m (atProcs.headD default).ids.atIds
      let expected : List (List String) := (List.range before.length).map (fun k => match ref[k]? with | some i => [i] | none => [])
      let got := before.map (fun p => ((idsOfName p.name).map (·.identifiers)).getD ["?"])
      if got == expected then none else some ("at-assignment", "")
    else if homogHash then
      let ref := refIdentifiers m (hashProcs.headD default).ids.hashIds
      if ref.isEmpty then
        if before.all (fun p => ((idsOfName p.name).map (·.identifiers)) == some []) then none else some ("hash-assignment", "")
      else
        let expected : List (List String) := (List.range before.length).map (fun k => [ref.getD (k % ref.length) ""])
        let got := before.map (fun p => ((idsOfName p.name).map (·.identifiers)).getD ["?"])
        if got == expected then none else some ("hash-assignment", "")
    else none

/-! ### options -/

def specRanged (lo hi : Int) (dflt : Int) (t : Option String) : Int :=
  match t.bind pyInt with
  | some v => if lo ≤ v ∧ v ≤ hi then v else dflt
  | none => dflt

def specEnum (names : List String) (dflt : String) (t : Option String) : String :=
  match t with
  | some v => if names.contains (upper v) then upper v else dflt
  | none => dflt

def specBool (dflt : Bool) (t : Option String) : Bool :=
  match t.bind svBoolean with
  | some b => b
  | none => dflt

def periodInRange : Period → Bool
  | .nan => false
  | .val n d => d ≤ n && n ≤ 3600 * d

def periodsSorted : List Period → Bool
  | .val a b :: .val c d :: t => a * d ≤ c * b && periodsSorted (.val c d :: t)
  | _ => true

/-- the text lists option names only -/
def synchroTextValid (v : String) : Bool :=
  ((listOfStrings v).filter (· != "")).all (fun x => syncNames.contains (upper x))

/-- documented synchro options before the clean-up: the listed names, else the documented default -/
def specSynchroBase (t : Option String) : List String :=
  match t with
  | none => syncDefault
  | some v =>
    if synchroTextValid v then dedup (((listOfStrings v).filter (· != "")).map upper) else syncDefault

/-- CORE dropped without core identifiers, STRICT dropped without a supvisors list -/
def specSynchro (t : Option String) (coreEmpty listEmpty : Bool) : List String :=
  (specSynchroBase t).filter (fun x => !(x == "CORE" && coreEmpty) && !(x == "STRICT" && listEmpty))

/-- **Judge of an option dictionary**: first violated clause, with the option name -/
def judgeOptions (cfg : Config) (obs : Except Err Options) : Option (String × String) :=
  let get (k : String) := lookupStr cfg k
  let coreEmpty := (match get "core_identifiers" with | some v => ((listOfStrings v).filter (· != "")).isEmpty | none => true)
  let listEmpty := (match get "supvisors_list" with | some v => ((listOfStrings v).filter (· != "")).isEmpty | none => true)
  let expSync := specSynchro (get "synchro_options") coreEmpty listEmpty
  match obs with
  | .error e =>
    if e == "ValueError" && expSync.isEmpty then none
    else some (s!"exception:{e}", if expSync.isEmpty then "" else "option:synchro_options:refused")
  | .ok o =>
    if expSync.isEmpty then some ("synchro-empty-not-refused", "option:synchro_options:empty-accepted")
    else if o.multicastTtl != specRanged 0 255 1 (get "multicast_ttl") then some ("range", "option:multicast_ttl")
    else if o.eventPort != specRanged 1 65535 0 (get "event_port") then some ("range", "option:event_port")
    else if o.synchroTimeout != specRanged 15 1200 15 (get "synchro_timeout") then some ("range", "option:synchro_timeout")
    else if o.inactivityTicks != specRanged 2 720 2 (get "inactivity_ticks") then some ("range", "option:inactivity_ticks")
    else if o.statsHisto != specRanged 10 1500 200 (get "stats_histo") then some ("range", "option:stats_histo")
    else if o.eventLink != specEnum linkNames "NONE" (get "event_link") then some ("range", "option:event_link")
    else if o.conciliation != specEnum concNames "USER" (get "conciliation_strategy") then some ("range", "option:conciliation_strategy")
    else if o.startingStrategy != specEnum startNames "CONFIG" (get "starting_strategy") then some ("range", "option:starting_strategy")
    else if o.autoFence != specBool false (get "auto_fence") then some ("range", "option:auto_fence")
    else if o.irixMode != specBool false (get "stats_irix_mode") then some ("range", "option:stats_irix_mode")
    else if !(o.collectingPeriod == .val 5 1 || periodInRange o.collectingPeriod) then
      some ("range", if o.collectingPeriod == .nan then "option:to_period:nan" else "option:stats_collecting_period")
    else if !(o.statsPeriods == [.val 10 1] ||
              (o.statsPeriods.all periodInRange && 1 ≤ o.statsPeriods.length && o.statsPeriods.length ≤ 3 && periodsSorted o.statsPeriods)) then
      some ("range", if o.statsPeriods.contains .nan then "option:to_periods:nan" else "option:stats_periods")
    else if o.synchroOptions != expSync then
      some ("synchro-cleanup",
        if (match get "synchro_options" with | none => true | some v => !synchroTextValid v)
        then "option:synchro-default-mutated" else "option:synchro_options")
    else
      let expFail := specEnum failNames "CONTINUE" (get "supvisors_failure_strategy")
      let expFail := if expSync.contains "TIMEOUT" then "CONTINUE" else expFail
      if o.failureStrategy != expFail then some ("timeout-forces-continue", "option:supvisors_failure_strategy")
      else none

end Supv.Spec.C18
