import Supv.Model.Cmd

/-!
# Specifications of the commander properties (C03 C04 C09 C10 C14), written from the property statements

`Judge` is a monitor folded over the operations and the requests the IMPLEMENTATION emitted; it reads the process table,
loads and configuration from the world `W` (lock-stepped with the implementation) but none of the commander's internal
plans.  Loads are SET-BASED sums (independent of the code's list walks) and the pending requests are those of the whole
Starter (every start requested and not yet acknowledged), as the statements say.
-/

namespace Supv.Spec.Cmd
open Supv.Proc Supv.Cmd

/-- a request emitted by the implementation; a start carries the rank of the application start it belongs to (which user
    request) and the strategy that was requested -/
inductive Req where
  | start (p i : Nat) (run : Nat) (strat : Strategy)
  | stop (p i : Nat)
  | force (p : Nat) (state : PState) (noResource : Bool) (run : Nat)
  deriving Repr, DecidableEq

/-- one application start (one `start_application` request that was accepted), in the monitor's view -/
structure Run where
  id : Nat
  app : Nat
  handled : List Nat := []      -- processes for which a start or a forced state was emitted in this run
  touched : List Nat := []      -- processes that reported anything since the first request of the run
  aborted : Option (String × Nat) := none   -- a required process failed with ABORT / STOP (cause, its start sequence)
  deriving Repr

/-- an outstanding start request -/
structure Pending where
  p : Nat
  i : Nat
  counter : Nat      -- tick counter of the target when the request was sent (re-armed on BACKOFF)
  run : Nat
  /-- the Starter reported no start in progress while this request was outstanding: it is not followed any more -/
  orphaned : Bool := false
  deriving Repr

structure Judge where
  reqs : List Pending := []
  stops : List (Nat × Nat × Nat) := []    -- outstanding stop requests: process, target, counter
  runs : List Run := []
  stopRuns : List Nat := []               -- applications being stopped (monitor's view)
  stopSet : List Nat := []                -- processes that were running or stopping when a stop of their application was requested
  givenUp : List Nat := []                -- processes whose stop was given up on time-out (forced STOPPED)
  /-- applications for which stop requests overlapped (a new stop / restart while an earlier one was still going on): the
      monitor cannot tell which stop a request belongs to, the "still running" clause is not judged for them any more -/
  overlap : List Nat := []
  deriving Repr, Inhabited

def pc (w : W) (p : Nat) : PCfg := w.pcfg.getD p default
def pr (w : W) (p : Nat) : Proc := w.procs.getD p {}

/-- load of what runs on instance `i`: sum over the processes listed as running there -/
def instLoadS (w : W) (i : Nat) : Nat :=
  ((List.range w.pcfg.length).filter (fun p => (pr w p).state.isRunning && (pr w p).running.contains i)).foldl
    (fun acc p => acc + (pc w p).load) 0

/-- node load: sum over the SET of instances of the node -/
def nodeLoadS (w : W) (nd : Nat) : Nat :=
  (((List.range w.ninst).filter (fun i => w.node.getD i 0 == nd)).eraseDups).foldl (fun acc i => acc + instLoadS w i) 0

def pendingInst (w : W) (reqs : List Pending) (i : Nat) : Nat :=
  (reqs.filter (fun r => r.i == i)).foldl (fun acc r => acc + (pc w r.p).load) 0
def pendingNode (w : W) (reqs : List Pending) (nd : Nat) : Nat :=
  (reqs.filter (fun r => w.node.getD r.i 0 == nd)).foldl (fun acc r => acc + (pc w r.p).load) 0

/-- C04: "an instance that the requester sees RUNNING, whose Supervisor knows the program and has it enabled, that the
    applicable identifiers rule permits" -/
def known (w : W) (p i : Nat) : Bool :=
  match (pr w p).infos.get? i with | some v => !v.disabled | none => false
def allowed (w : W) (p i : Nat) : Bool :=
  match (pc w p).idents with | none => true | some l => l.contains i
def candidate (w : W) (p i : Nat) : Bool := w.instRunning.getD i false && known w p i && allowed w p i
/-- "... and whose node load ... stays at or below 100 once the program's expected_loading is added" -/
def fits (w : W) (reqs : List Pending) (p i : Nat) : Bool :=
  let nd := w.node.getD i 0
  nodeLoadS w nd + pendingNode w reqs nd + (pc w p).load ≤ 100
def eligible (w : W) (reqs : List Pending) (p i : Nat) : Bool := candidate w p i && fits w reqs p i

/-- lexicographic strict order on load keys -/
def ltKey (a b : Nat × Nat) : Bool := a.1 < b.1 || (a.1 == b.1 && a.2 < b.2)

/-- C14: no eligible instance is strictly better than `i` for the strategy (ties are free) -/
def optimal (w : W) (reqs : List Pending) (strat : Strategy) (p i : Nat) : Bool :=
  let il (j : Nat) := instLoadS w j + pendingInst w reqs j
  let nl (j : Nat) := nodeLoadS w (w.node.getD j 0) + pendingNode w reqs (w.node.getD j 0)
  let order := match (pc w p).idents with | none => List.range w.ninst | some l => l
  let elig := order.filter (eligible w reqs p)
  match strat with
  | .config => elig.head? == some i
  | .lessLoaded => elig.all (fun j => !ltKey (il j, nl j) (il i, nl i))
  | .mostLoaded => elig.all (fun j => !ltKey (il i, nl i) (il j, nl j))
  | .lessLoadedNode => elig.all (fun j => !ltKey (nl j, il j) (nl i, il i))
  | .mostLoadedNode => elig.all (fun j => !ltKey (nl i, il i) (nl j, il j))
  | .local => i == w.me

/-- the requests of the same application start only (what the code's `process_job` counts): used to attribute a rejection
    to the known root cause "requests of other application jobs ignored" -/
def ownReqs (reqs : List Pending) (run : Nat) : List Pending := reqs.filter (fun r => r.run == run)

def findRun (j : Judge) (id : Nat) : Option Run := j.runs.find? (·.id == id)
def setRun (j : Judge) (r : Run) : Judge :=
  if j.runs.any (·.id == r.id) then { j with runs := j.runs.map (fun x => if x.id == r.id then r else x) }
  else { j with runs := j.runs ++ [r] }

/-- verdicts for one emitted request, and the updated monitor -/
def onReq (w : W) (j : Judge) : Req → Judge × List String
  | .start p i rid strat =>
    let app := (pc w p).app
    let isNew := (findRun j rid).isNone
    let run := (findRun j rid).getD { id := rid, app := app }
    let v04 :=
      (if w.instRunning.getD i false then [] else [s!"C04-target-not-running:{p}>{i}"]) ++
      (if known w p i then [] else [s!"C04-program-unknown-or-disabled:{p}>{i}"]) ++
      (if allowed w p i then [] else [s!"C04-rule-forbids:{p}>{i}"]) ++
      (if fits w j.reqs p i then [] else
        (if fits w (ownReqs j.reqs rid) p i then [s!"C04-overload-by-requests-of-other-jobs:{p}>{i}"]
         else [s!"C04-overload:{p}>{i}"])) ++
      (if (pr w p).state.isStopped then [] else [s!"C04-not-stopped:{p}>{i}"]) ++
      (if j.reqs.any (fun r => r.p == p && !r.orphaned) then [s!"C04-requested-twice:{p}>{i}"] else [])
    let v14 :=
      if !(eligible w j.reqs p i) then []      -- reported under C04
      else if optimal w j.reqs strat p i then []
      else if optimal w (ownReqs j.reqs rid) strat p i then [s!"C14-not-optimal-by-requests-of-other-jobs:{p}>{i}"]
      else [s!"C14-not-optimal:{p}>{i}:{strat.code}"]
    -- C03: lower positive sequences of the same application are finished or given up
    let sp := (pc w p).startSeq
    let lower := (List.range w.pcfg.length).filter (fun q => (pc w q).app == app && 0 < (pc w q).startSeq && (pc w q).startSeq < sp)
    let v03a := lower.flatMap (fun q => if j.reqs.any (fun r => r.p == q) then [s!"C03-lower-sequence-in-flight:{p}:{q}"] else [])
    let v03b := lower.flatMap (fun q =>
      if !isNew && !(run.handled.contains q) && !(run.touched.contains q) && (pr w q).state.isStopped
      then [s!"C03-lower-sequence-skipped:{p}:{q}"] else [])
    -- processes sharing the sequence of the failed one are "asked together": only later sequences are judged
    let v03c := match run.aborted with
      | some (cause, sq) => if sp > sq then [s!"C03-start-after-{cause}:{p}"] else []
      | none => []
    let v03d := if sp == 0 then [s!"C03-sequence-0-started:{p}"] else []
    let j1 := setRun j { run with handled := run.handled ++ [p] }
    ({ j1 with reqs := j1.reqs ++ [{ p := p, i := i, counter := w.counter.getD i 0, run := rid }] },
     v04 ++ v14 ++ v03a ++ v03b ++ v03c ++ v03d)
  | .force p (st : PState) noRes frun =>
    -- a forced FATAL gives the start up; with a required process and ABORT / STOP nothing further may be requested
    let c : PCfg := pc w p
    let pend := j.reqs.find? (fun r => r.p == p)
    -- the run concerned: the one of the outstanding request, or (no resource) the most recent run of the application
    let rid : Option Nat := match pend with
      | some r => some r.run
      | none => if frun == 999 then none else some frun
    let cause := if noRes then "abort(no-resource)" else "abort(time-out)"
    let j1 := match rid.map (fun k => (findRun j k).getD { id := k, app := c.app }) with
      | some run =>
        let aborted := if st == PState.fatal && c.required && (c.sfail == SFail.abort || c.sfail == SFail.stop)
          then some (run.aborted.getD (cause, c.startSeq)) else run.aborted
        setRun j { run with handled := run.handled ++ [p], aborted := aborted }
      | none => j
    -- any event handled for the process while its target reports BACKOFF re-arms the request (a forced STOPPED included)
    let rearm (r : Pending) : Pending :=
      if r.p == p && ((pr w p).infos.get? r.i).map (·.state) == some PState.backoff then { r with counter := w.counter.getD r.i 0 } else r
    ({ j1 with reqs := if st == PState.fatal then j1.reqs.filter (fun r => r.p != p) else j1.reqs.map rearm,
               stops := if st == PState.stopped then j1.stops.filter (fun r => r.1 != p) else j1.stops,
               givenUp := if st == PState.stopped then j1.givenUp ++ [p] else j1.givenUp }, [])
  | .stop p i =>
    let app := (pc w p).app
    -- C09: only where running; higher stop sequences of the same application are stopped or given up
    let v1 := if (pr w p).state.isRunning && (pr w p).running.contains i then [] else [s!"C09-stop-where-not-running:{p}>{i}"]
    let sp := (pc w p).stopSeq
    let higher := (List.range w.pcfg.length).filter (fun q => (pc w q).app == app && (pc w q).stopSeq > sp)
    let v2 := higher.flatMap (fun q =>
      if j.stops.any (fun r => r.1 == q) then [s!"C09-higher-sequence-in-flight:{p}:{q}"]
      else if j.givenUp.contains q then []
      else if !(j.stopSet.contains q) || j.overlap.contains app then []      -- started after the stop was requested / overlapping user requests
      else if j.stopRuns.contains app && (pr w q).state.isRunning then [s!"C09-higher-sequence-still-running:{p}:{q}"]
      -- root cause of its own: a process that was already STOPPING when the application stop began is not waited for
      else if j.stopRuns.contains app && (pr w q).state == .stopping then [s!"C09-higher-sequence-already-stopping-not-waited:{p}:{q}"]
      else [])
    ({ j with stops := j.stops ++ [(p, i, w.counter.getD i 0)] }, v1 ++ v2)

/-- a report from instance `i` about process `p` (the world already contains it) -/
def onEvent (w : W) (j : Judge) (p i : Nat) (st : PState) (expected : Bool) : Judge :=
  let c := pc w p
  let pend := j.reqs.find? (fun r => r.p == p && r.i == i)
  let inflight := pend.isSome
  -- terminal for a start request: RUNNING (no wait_exit), EXITED, FATAL, or an unexpected stopped-like / STOPPING report
  let success := (st == .running && !c.waitExit) || (st == .exited && c.waitExit && expected)
  let failed := st == .fatal || (st == .exited && !(c.waitExit && expected)) || st == .stopped || st == .stopping || st == .unknown
  let j1 := if inflight && (success || failed) then { j with reqs := j.reqs.filter (fun r => !(r.p == p && r.i == i)) } else j
  let j2 := if inflight && st == .backoff then
      { j1 with reqs := j1.reqs.map (fun r => if r.p == p && r.i == i then { r with counter := w.counter.getD i 0 } else r) } else j1
  -- every run of the application has seen this process report
  let j3 := { j2 with runs := j2.runs.map (fun run => if run.app == c.app then { run with touched := run.touched ++ [p] } else run) }
  let j4 := match pend >>= (fun r => findRun j3 r.run) with
    | some run =>
      if failed && c.required && (c.sfail == .abort || c.sfail == .stop)
      then setRun j3 { run with aborted := some (run.aborted.getD ("abort(failure)", c.startSeq)) } else j3
    | none => j3
  -- stop requests: acknowledged by a stopped-like report from the target
  -- a process that reported a stopped state has been stopped: a later life of it is not part of this stop any more
  if st.isStopped then { j4 with stops := j4.stops.filter (fun r => !(r.1 == p && r.2.1 == i)),
                                 stopSet := j4.stopSet.filter (· != p) } else j4

/-- instance `i` has just been lost (`w`: the world after the loss).  C03 / C10: every start request outstanding on it is
    given up (host lost) - with a required process and ABORT / STOP nothing further may be requested for that start -, the
    process is reported FATAL; every stop request outstanding on it is abandoned and the process is no longer listed there. -/
def onLose (w : W) (j : Judge) (i : Nat) : Judge × List String :=
  let lostReqs := j.reqs.filter (fun r => r.i == i)
  let j1 := lostReqs.foldl (fun (j : Judge) r =>
    let c := pc w r.p
    match findRun j r.run with
    | some run =>
      if c.required && (c.sfail == .abort || c.sfail == .stop)
      then setRun j { run with aborted := some (run.aborted.getD ("abort(host-lost)", c.startSeq)) } else j
    | none => j) j
  let v1 := (lostReqs.filter (fun r => !r.orphaned)).flatMap (fun r =>
    if displayed (pr w r.p) == .fatal then [] else [s!"C10-lost-start-not-reported-fatal:{r.p}>{i}"])
  let lostStops := j.stops.filter (fun r => r.2.1 == i)
  let v2 := lostStops.flatMap (fun r =>
    if (pr w r.1).running.contains i then [s!"C10-lost-stop-still-listed:{r.1}>{i}"] else [])
  ({ j1 with reqs := j1.reqs.filter (fun r => r.i != i), stops := j1.stops.filter (fun r => r.2.1 != i),
             givenUp := j1.givenUp ++ lostStops.map (·.1) }, v1 ++ v2)

/-- C10: at a periodic check, every outstanding request whose deadline has passed must be given up in that check
    (forced FATAL / STOPPED emitted for the process). `emitted`: the requests of this check. -/
def onCheck (w : W) (j : Judge) (emitted : List Req) : List String :=
  let forced (p : Nat) (s : PState) := emitted.any (fun r => match r with | .force q st _ _ => q == p && st == s | _ => false)
  let v1 := (j.reqs.filter (fun pd => !pd.orphaned)).flatMap (fun pd =>
    let p := pd.p; let i := pd.i; let r := pd.counter
    match (pr w p).infos.get? i with
    | none => []
    | some v =>
      let cnt := w.counter.getD i 0
      let c := pc w p
      let acked := v.state == .starting || v.state == .backoff
      let late := if acked then cnt > r + waitTicksOf c.startsecs else if v.state == .running then false else cnt > r + minTicks
      if late && !(forced p .fatal) then [s!"C10-start-not-given-up:{p}>{i}:cnt={cnt}:req={r}"] else [])
  let v2 := j.stops.flatMap (fun (p, i, r) =>
    match (pr w p).infos.get? i with
    | none => []
    | some v =>
      let cnt := w.counter.getD i 0
      let c := pc w p
      let late := if v.state == .stopping then cnt > r + waitTicksOf c.stopwaitsecs else if v.state.isStopped then false else cnt > r + minTicks
      if late && !(forced p .stopped) then [s!"C10-stop-not-given-up:{p}>{i}:cnt={cnt}:req={r}"] else [])
  v1 ++ v2

/-- C10: a start request is outstanding but the Starter reports nothing in progress: the request is no longer followed
    (no time-out, no report). Reported once per request. -/
def onIdle (j : Judge) (starting : Bool) : Judge × List String :=
  if starting then (j, []) else
  let fresh := j.reqs.filter (fun r => !r.orphaned)
  ({ j with reqs := j.reqs.map (fun r => { r with orphaned := true }) },
   fresh.map (fun r => s!"C10-start-request-untracked:{r.p}>{r.i}"))

end Supv.Spec.Cmd
