import Supv.Model.Cmd

/-!
# Specifications of the commander properties (C03 C04 C09 C10 C14), written from the property statements

`Judge` is a monitor folded over the operations and the requests the IMPLEMENTATION emitted; it reads the process table,
loads and configuration from the world `W` (lock-stepped with the implementation) but none of the commander's internal
plans.  Loads are SET-BASED sums (independent of the code's list walks) and the pending requests are those of the whole
Starter (every start requested and not yet acknowledged), as the statements say.
-/

namespace Supv.Spec.Cmd
open Supv.Proc Supv.Cmd

/-- a request emitted by the implementation; a start carries the rank of the application start it belongs to (which user
    request) and the strategy that was requested -/
inductive Req where
  | start (p i : Nat) (run : Nat) (strat : Strategy) (single : Bool := false)
  | stop (p i : Nat)
  | force (p : Nat) (state : PState) (noResource : Bool) (run : Nat)
  deriving Repr, DecidableEq

/-- one application start (one `start_application` request that was accepted), in the monitor's view -/
structure Run where
  id : Nat
  app : Nat
  handled : List Nat := []      -- processes for which a start or a forced state was emitted in this run
  touched : List Nat := []      -- processes that reported anything since the first request of the run
  aborted : Option (String × Nat) := none   -- a required process failed with ABORT / STOP (cause, its start sequence)
  /-- the start comes from the automatic start of all applications (`startapps`), not from a user request -/
  auto : Bool := false
  /-- a start request of this run has already been emitted -/
  begun : Bool := false
  /-- non-distributed application: the instance the first start request of this run was sent to -/
  first : Option Nat := none
  /-- non-distributed application: the world when the first start request of this run was emitted, and the rank of that
      operation (the placement of the whole application is decided then) -/
  snap : Option W := none
  beginOp : Nat := 0
  /-- non-distributed application: an instance has been lost since the placement was decided: the planned commands that targeted it
      have been placed again at that time (`ApplicationStartJobs.on_instances_invalidation`), from loads and requests the monitor does
      not reconstruct: the placement INSIDE the node is no longer judged for this run (the target itself is still compared with the
      model's at every request by the lock-step) -/
  lostSince : Bool := false
  /-- C03, STOP strategy: a required process with starting_failure_strategy STOP failed in this run; the processes of the
      application that were running at that time or were requested by this run, have not reported a stopped state and have not
      been asked to stop since: "STOP then stops it once in-flight starts end" -/
  stopDue : Option (List Nat) := none
  /-- every STOP failure of this run so far was a refusal for lack of resource (root cause of its own: the forced FATAL re-enters
      `Commander.next`, which may drop the job before `process_failure` records the stop request) -/
  stopNoRes : Bool := true
  deriving Repr

/-- an outstanding start request -/
structure Pending where
  p : Nat
  i : Nat
  counter : Nat      -- tick counter of the target when the request was sent (re-armed on BACKOFF)
  run : Nat
  /-- the Starter reported no start in progress while this request was outstanding: it is not followed any more -/
  orphaned : Bool := false
  /-- a `start_process` request: the process is started out of its application's sequence, wait_exit is not considered -/
  single : Bool := false
  deriving Repr

structure Judge where
  reqs : List Pending := []
  stops : List (Nat × Nat × Nat) := []    -- outstanding stop requests: process, target, counter
  runs : List Run := []
  stopRuns : List Nat := []               -- applications being stopped (monitor's view)
  stopSet : List Nat := []                -- processes that were running or stopping when a stop of their application was requested
  givenUp : List Nat := []                -- processes whose stop was given up on time-out (forced STOPPED)
  /-- applications for which stop requests overlapped (a new stop / restart while an earlier one was still going on): the
      monitor cannot tell which stop a request belongs to, the "still running" clause is not judged for them any more -/
  overlap : List Nat := []
  /-- processes that were already STOPPING when a stop of their application was requested (known root cause: they are neither
      asked nor waited for), until they report a stopped state -/
  wasStopping : List Nat := []
  /-- a stop of ALL applications is in progress (C09, second sentence): the applications that had a process running or
      stopping when it began; empty when none is going on, or when it began while other stops were still in progress -/
  stopAll : List Nat := []
  /-- rank of the current operation -/
  opIdx : Nat := 0
  /-- single process starts requested by the user (`startproc`): process, rank of the operation, world at that time (in a
      non-distributed application whose start is going on, the placement of the new command is decided then) -/
  added : List (Nat × Nat × W) := []
  deriving Repr, Inhabited

def pc (w : W) (p : Nat) : PCfg := w.pcfg.getD p default
def pr (w : W) (p : Nat) : Proc := w.procs.getD p {}

/-- load of what runs on instance `i`: sum over the processes listed as running there -/
def instLoadS (w : W) (i : Nat) : Nat :=
  ((List.range w.pcfg.length).filter (fun p => (pr w p).state.isRunning && (pr w p).running.contains i)).foldl
    (fun acc p => acc + (pc w p).load) 0

/-- node load: sum over the SET of instances of the node -/
def nodeLoadS (w : W) (nd : Nat) : Nat :=
  (((List.range w.ninst).filter (fun i => w.node.getD i 0 == nd)).eraseDups).foldl (fun acc i => acc + instLoadS w i) 0

def pendingInst (w : W) (reqs : List Pending) (i : Nat) : Nat :=
  (reqs.filter (fun r => r.i == i)).foldl (fun acc r => acc + (pc w r.p).load) 0
def pendingNode (w : W) (reqs : List Pending) (nd : Nat) : Nat :=
  (reqs.filter (fun r => w.node.getD r.i 0 == nd)).foldl (fun acc r => acc + (pc w r.p).load) 0

/-- C04: "an instance that the requester sees RUNNING, whose Supervisor knows the program and has it enabled, that the
    applicable identifiers rule permits" -/
def known (w : W) (p i : Nat) : Bool :=
  match (pr w p).infos.get? i with | some v => !v.disabled | none => false
/-- the distribution rule of an application -/
def adist (w : W) (a : Nat) : Dist := (w.acfg.getD a default).distribution
def appAllowed (w : W) (a i : Nat) : Bool :=
  match (w.acfg.getD a default).idents with | none => true | some l => l.contains i
/-- "the applicable identifiers rule (the program's rule, or the application's when its distribution is restricted)" -/
def allowed (w : W) (p i : Nat) : Bool :=
  if adist w (pc w p).app == .all then (match (pc w p).idents with | none => true | some l => l.contains i)
  else appAllowed w (pc w p).app i
/-- the declared order of the applicable rule -/
def declaredOrder (w : W) (p : Nat) : List Nat :=
  if adist w (pc w p).app == .all then (match (pc w p).idents with | none => List.range w.ninst | some l => l)
  else (match (w.acfg.getD (pc w p).app default).idents with | none => List.range w.ninst | some l => l)
def candidate (w : W) (p i : Nat) : Bool := w.instRunning.getD i false && known w p i && allowed w p i
/-- "... and whose node load ... stays at or below 100 once the program's expected_loading is added" -/
def fits (w : W) (reqs : List Pending) (p i : Nat) : Bool :=
  let nd := w.node.getD i 0
  nodeLoadS w nd + pendingNode w reqs nd + (pc w p).load ≤ 100
def eligible (w : W) (reqs : List Pending) (p i : Nat) : Bool := candidate w p i && fits w reqs p i

/-- lexicographic strict order on load keys -/
def ltKey (a b : Nat × Nat) : Bool := a.1 < b.1 || (a.1 == b.1 && a.2 < b.2)

/-- C14: no eligible instance is strictly better than `i` for the strategy (ties are free) -/
def optimal (w : W) (reqs : List Pending) (strat : Strategy) (p i : Nat) : Bool :=
  let il (j : Nat) := instLoadS w j + pendingInst w reqs j
  let nl (j : Nat) := nodeLoadS w (w.node.getD j 0) + pendingNode w reqs (w.node.getD j 0)
  let order := declaredOrder w p
  let elig := order.filter (eligible w reqs p)
  match strat with
  | .config => elig.head? == some i
  | .lessLoaded => elig.all (fun j => !ltKey (il j, nl j) (il i, nl i))
  | .mostLoaded => elig.all (fun j => !ltKey (il i, nl i) (il j, nl j))
  | .lessLoadedNode => elig.all (fun j => !ltKey (nl j, il j) (nl i, il i))
  | .mostLoadedNode => elig.all (fun j => !ltKey (nl i, il i) (nl j, il j))
  | .local => i == w.me

/-! ### Non-distributed applications (C14, second sentence; C04 with the application's rule) -/

/-- the load key the strategy compares (instance load first, or node load first), starts already requested included -/
def keyOf (w : W) (reqs : List Pending) (strat : Strategy) (j : Nat) : Nat × Nat :=
  let il := instLoadS w j + pendingInst w reqs j
  let nl := nodeLoadS w (w.node.getD j 0) + pendingNode w reqs (w.node.getD j 0)
  match strat with
  | .lessLoaded | .mostLoaded => (il, nl)
  | _ => (nl, il)
/-- key `a` is strictly better than key `b` for the strategy -/
def betterKey (strat : Strategy) (a b : Nat × Nat) : Bool :=
  match strat with
  | .lessLoaded | .lessLoadedNode => ltKey a b
  | .mostLoaded | .mostLoadedNode => ltKey b a
  | _ => false

/-- "the whole start sequence": the expected_loading of every process of the application with a positive start_sequence -/
def appLoadS (w : W) (a : Nat) : Nat :=
  ((List.range w.pcfg.length).filter (fun q => (pc w q).app == a && 0 < (pc w q).startSeq)).foldl (fun acc q => acc + (pc w q).load) 0

/-- the node of `i` can take the whole start sequence of application `a` -/
def carries (w : W) (reqs : List Pending) (a i : Nat) : Bool :=
  nodeLoadS w (w.node.getD i 0) + pendingNode w reqs (w.node.getD i 0) + appLoadS w a ≤ 100

/-- instance `j` is eligible for the WHOLE application under the strictest reading: seen RUNNING, permitted by the application's
    rule, knows and enables EVERY program of the application, its node can take the whole start sequence.  The choice made is
    only compared with such instances (a choice that beats them is right under every reading of the statement). -/
def eligAppStrict (w : W) (reqs : List Pending) (a j : Nat) : Bool :=
  w.instRunning.getD j false && appAllowed w a j
  && ((List.range w.pcfg.length).filter (fun q => (pc w q).app == a)).all (fun q => known w q j) && carries w reqs a j

/-- SINGLE_INSTANCE: no instance eligible for the whole application is strictly better than the chosen one -/
def optimalApp (w : W) (reqs : List Pending) (strat : Strategy) (p i : Nat) : Bool :=
  let a := (pc w p).app
  let order := declaredOrder w p
  match strat with
  | .config => !order.contains i || !(order.takeWhile (· != i)).any (eligAppStrict w reqs a)
  | .local => i == w.me
  | _ => order.all (fun j => !(eligAppStrict w reqs a j && betterKey strat (keyOf w reqs strat j) (keyOf w reqs strat i)))

/-- SINGLE_NODE: no instance of ANOTHER node, eligible for the whole application, is strictly better than every instance of the
    chosen node `nd` (the node is the node of the instance the strategy prefers) -/
def optimalNode (w : W) (reqs : List Pending) (strat : Strategy) (p nd : Nat) : Bool :=
  let a := (pc w p).app
  let order := declaredOrder w p
  let cand := order.filter (fun k => w.node.getD k 0 == nd && w.instRunning.getD k false)
  match strat with
  | .config => !(order.takeWhile (fun k => w.node.getD k 0 != nd)).any (eligAppStrict w reqs a)
  | .local => nd == w.node.getD w.me 0
  | _ => cand.isEmpty || order.all (fun j => !(w.node.getD j 0 != nd && eligAppStrict w reqs a j
            && cand.all (fun k => betterKey strat (keyOf w reqs strat j) (keyOf w reqs strat k))))

/-- SINGLE_NODE: among the instances of the chosen node eligible for the program (`i` itself is taken as eligible), none is
    strictly better than `i` for the strategy -/
def optimalInNode (w : W) (reqs : List Pending) (strat : Strategy) (p i : Nat) : Bool :=
  let nd := w.node.getD i 0
  let elig := (declaredOrder w p).filter (fun k => w.node.getD k 0 == nd && (k == i || eligible w reqs p k))
  match strat with
  | .config => elig.head? == some i
  | .local => i == w.me
  | _ => elig.all (fun k => !betterKey strat (keyOf w reqs strat k) (keyOf w reqs strat i))

/-- the requests of the same application start only (what the code's `process_job` counts): used to attribute a rejection
    to the known root cause "requests of other application jobs ignored" -/
def ownReqs (reqs : List Pending) (run : Nat) : List Pending := reqs.filter (fun r => r.run == run)

def findRun (j : Judge) (id : Nat) : Option Run := j.runs.find? (·.id == id)
def setRun (j : Judge) (r : Run) : Judge :=
  if j.runs.any (·.id == r.id) then { j with runs := j.runs.map (fun x => if x.id == r.id then r else x) }
  else { j with runs := j.runs ++ [r] }

/-- a required process with the STOP strategy failed in `run`: what will have to be stopped -/
def armStop (w : W) (run : Run) (c : PCfg) (noRes : Bool := false) : Run :=
  if c.required && c.sfail == .stop then
    let running := (List.range w.pcfg.length).filter (fun q => (pc w q).app == run.app && (pr w q).state.isRunning)
    { run with stopDue := some ((run.stopDue.getD []) ++ running ++ run.handled), stopNoRes := run.stopNoRes && noRes }
  else run

/-- process `q` reported a stopped state, or was asked to stop: no start owes its stop any more -/
def stopSettled (j : Judge) (q : Nat) : Judge :=
  { j with runs := j.runs.map (fun run => match run.stopDue with
      | some l => { run with stopDue := some (l.filter (· != q)) }
      | none => run) }

/-- what a report `st` of instance `i` about process `p` means for a start request outstanding there: RUNNING (without
    wait_exit) or an expected exit (with wait_exit) finishes it; FATAL, any other exit, a stopped-like or STOPPING report fails it
    (with a required process and ABORT / STOP nothing further may be requested for that start); BACKOFF re-arms it -/
def onStartReport (w : W) (j : Judge) (p i : Nat) (st : PState) (expected : Bool) : Judge :=
  let c := pc w p
  let pend := j.reqs.find? (fun r => r.p == p && r.i == i)
  let inflight := pend.isSome
  let success := (st == .running && (!c.waitExit || pend.any (·.single))) || (st == .exited && c.waitExit && expected)
  let failed := st == .fatal || (st == .exited && !(c.waitExit && expected)) || st == .stopped || st == .stopping || st == .unknown
  let j1 := if inflight && (success || failed) then { j with reqs := j.reqs.filter (fun r => !(r.p == p && r.i == i)) } else j
  let j2 := if inflight && st == .backoff then
      { j1 with reqs := j1.reqs.map (fun r => if r.p == p && r.i == i then { r with counter := w.counter.getD i 0 } else r) } else j1
  match pend >>= (fun r => findRun j2 r.run) with
  | some run =>
    if failed && c.required && (c.sfail == .abort || c.sfail == .stop)
    then setRun j2 (armStop w { run with aborted := some (run.aborted.getD ("abort(failure)", c.startSeq)) } c) else j2
  | none => j2

/-- verdicts for one emitted request, and the updated monitor; `opReqs`: everything emitted by the operation -/
def onReq (w : W) (opReqs : List Req) (j : Judge) : Req → Judge × List String
  | .start p i rid strat single =>
    let app := (pc w p).app
    -- a run registered by `startapps` that has emitted nothing yet is as new as one seen for the first time
    let isNew := match findRun j rid with | none => true | some r => r.auto && r.handled.isEmpty
    let run := (findRun j rid).getD { id := rid, app := app }
    let dist := adist w app
    -- a non-distributed application is placed as a whole when its start begins: `w0` is the world at that time, `fresh` tells
    -- that this request belongs to the operation in which the placement was decided
    -- a single command added while the start was going on is placed when it is added
    let addedAt := (j.added.find? (fun x => x.1 == p)).filter (fun x => single && run.snap.isSome && run.beginOp < x.2.1)
    let w0 := match addedAt with | some x => x.2.2 | none => run.snap.getD w
    let fresh := match addedAt with | some x => x.2.1 == j.opIdx | none => run.snap.isNone || run.beginOp == j.opIdx
    let own := ownReqs j.reqs rid
    let v04 :=
      -- no discount for a placement decided earlier: when an instance is lost the planned commands of a non-distributed
      -- application leave it (`ApplicationStartJobs.on_instances_invalidation`)
      (if w.instRunning.getD i false then [] else [s!"C04-target-not-running:{p}>{i}"]) ++
      (if known w p i then []
       else if dist != .all && !fresh && (known w0 p i || run.lostSince) then [s!"C04-not-rechecked:program-disabled:{p}>{i}"]
       -- root cause of its own: the instance is taken from the selection made for the APPLICATION (`self.identifiers`: the
       -- instances of the node, or the single instance when a command is added later) without looking at THIS program there
       else if dist == .singleNode || (dist != .all && addedAt.isSome) then [s!"C04-selection-program-unknown-or-disabled:{p}>{i}"]
       else [s!"C04-program-unknown-or-disabled:{p}>{i}"]) ++
      (if allowed w p i then [] else [s!"C04-rule-forbids:{p}>{i}"]) ++
      (if fits w j.reqs p i then [] else
        (if fits w own p i then [s!"C04-overload-by-requests-of-other-jobs:{p}>{i}"]
         else if dist != .all && !fresh && (fits w0 [] p i || run.lostSince) then [s!"C04-not-rechecked:overload:{p}>{i}"]
         -- root cause of its own: a single process of a non-distributed application is placed by `before` for the load of the
         -- application's start sequence (which leaves out a program of sequence 0), not for the program's load
         else if dist != .all && single && (pc w p).startSeq == 0 && carries w0 [] app i
           then [s!"C04-single-process-application-load-checked:{p}>{i}"]
         else [s!"C04-overload:{p}>{i}"])) ++
      (if (pr w p).state.isStopped then [] else [s!"C04-not-stopped:{p}>{i}"]) ++
      (if j.reqs.any (fun r => r.p == p && !r.orphaned) then [s!"C04-requested-twice:{p}>{i}"] else [])
    let v14 :=
      if !(eligible w j.reqs p i) then []      -- reported under C04
      else match dist with
      | .all =>
        if optimal w j.reqs strat p i then []
        else if optimal w own strat p i then [s!"C14-not-optimal-by-requests-of-other-jobs:{p}>{i}"]
        else [s!"C14-not-optimal:{p}>{i}:{strat.code}"]
      | .singleInstance =>
        match run.first with
        | some f => if f == i then [] else [s!"C14-single-instance-split:{p}>{i}:{f}"]
        | none =>
          -- the application begins: "one instance able to carry the whole start sequence", chosen by the strategy
          (if carries w j.reqs app i then []
           else if carries w own app i then [s!"C14-not-optimal-by-requests-of-other-jobs:cannot-carry-application:{p}>{i}"]
           else [s!"C14-single-instance-cannot-carry-application:{p}>{i}"]) ++
          -- (a single process joins the start of its application, placed with the strategy of that start: not judged)
          (if single || optimalApp w j.reqs strat p i then []
           else if optimalApp w own strat p i then [s!"C14-not-optimal-by-requests-of-other-jobs:{p}>{i}"]
           else [s!"C14-not-optimal-for-application-load:{p}>{i}:{strat.code}"])
      | .singleNode =>
        let nd := w.node.getD i 0
        (match run.first with
         | some f => if w.node.getD f 0 == nd then [] else [s!"C14-single-node-split:{p}>{i}:{f}"]
         | none =>
           if single || optimalNode w j.reqs strat p nd then []
           else if optimalNode w own strat p nd then [s!"C14-not-optimal-by-requests-of-other-jobs:{p}>{i}"]
           else [s!"C14-not-optimal-for-application-load:{p}>{i}:{strat.code}"]) ++
        -- inside the node the strategy applies to each program; the code decides every placement when the application
        -- begins, from the loads of that time and without the starts it is itself about to request (known root cause)
        (if run.first.any (fun f => w.node.getD f 0 != nd) || single || run.lostSince then []
         else if optimalInNode w j.reqs strat p i then []
         else if optimalInNode w own strat p i then [s!"C14-not-optimal-by-requests-of-other-jobs:{p}>{i}"]
         else if optimalInNode w0 [] strat p i then [s!"C14-single-node-placement-not-refreshed:{p}>{i}"]
         else [s!"C14-single-node-not-optimal-in-node:{p}>{i}:{strat.code}"])
    -- C03: lower positive sequences of the same application are finished or given up
    let sp := (pc w p).startSeq
    let lower := (List.range w.pcfg.length).filter (fun q => (pc w q).app == app && 0 < (pc w q).startSeq && (pc w q).startSeq < sp)
    let v03a := lower.flatMap (fun q => if j.reqs.any (fun r => r.p == q) then [s!"C03-lower-sequence-in-flight:{p}:{q}"] else [])
    let v03b := lower.flatMap (fun q =>
      if !isNew && !(run.handled.contains q) && !(run.touched.contains q) && (pr w q).state.isStopped
      then [s!"C03-lower-sequence-skipped:{p}:{q}"] else [])
    -- processes sharing the sequence of the failed one are "asked together": only later sequences are judged
    let v03c := match run.aborted with
      | some (cause, sq) => if sp > sq then [s!"C03-start-after-{cause}:{p}"] else []
      | none => []
    let v03d := if sp == 0 then [s!"C03-sequence-0-started:{p}"] else []
    -- C03, automatic start of all applications: "applications whose start_sequence is 0 are never started automatically";
    -- "an application only begins once all applications with a lower positive start_sequence are done"
    let aseq (b : Nat) := (w.acfg.getD b default).startSeq
    let v03e := if run.auto && aseq app == 0 then [s!"C03-application-sequence-0-started:{app}"] else []
    let v03f := if run.auto && !run.begun then
        let lower := ((j.runs.filter (fun r => r.auto && r.app != app && 0 < aseq r.app && aseq r.app < aseq app)).map (·.app)).eraseDups
        lower.flatMap (fun b =>
          -- the most recent automatic start of `b`, and every start of `b` requested since (a user request replaces a planned one)
          let k0 := ((j.runs.filter (fun r => r.auto && r.app == b)).map (·.id)).foldl max 0
          let runsB := j.runs.filter (fun r => r.app == b && r.id ≥ k0)
          if j.reqs.any (fun r => !r.orphaned && (pc w r.p).app == b && j.runs.any (fun x => x.id == r.run && x.auto))
          then [s!"C03-lower-application-in-flight:{p}:{b}"]
          else if runsB.any (·.aborted.isSome) then []
          else
            let left := (List.range w.pcfg.length).filter (fun q => (pc w q).app == b && 0 < (pc w q).startSeq && (pr w q).state.isStopped
                    && runsB.all (fun r => !(r.handled.contains q) && !(r.touched.contains q)))
            -- dealt with later in this very operation: the job of `b` was dropped while its group was still being processed
            -- (known root cause of C10:start-request-untracked: re-entrant Commander.next inside the group loop)
            let later (q : Nat) := opReqs.any (fun r => match r with | .start q' _ _ _ _ => q' == q | .force q' _ _ _ => q' == q | _ => false)
            if left.isEmpty then []
            else if left.all later then [s!"C10-start-request-untracked:lower-application-still-processing:{p}:{b}"]
            else [s!"C03-lower-application-skipped:{p}:{b}"])
      else []
    let j1 := setRun j { run with handled := run.handled ++ [p], begun := true, first := some (run.first.getD i),
                                  stopDue := run.stopDue.map (· ++ [p]),
                                  snap := (if dist != .all && run.snap.isNone then some { w with out := [] } else run.snap),
                                  beginOp := (if run.snap.isNone then j.opIdx else run.beginOp) }
    -- a process started on its own (`start_process`) is out of the sequencing clauses of C03
    ({ j1 with added := (if single then j1.added.filter (fun x => x.1 != p) else j1.added),
               reqs := j1.reqs ++ [{ p := p, i := i, counter := w.counter.getD i 0, run := rid, single := single }] },
     v04 ++ v14 ++ (if single then [] else v03a ++ v03b ++ v03c ++ v03d ++ v03e ++ v03f))
  | .force p (st : PState) noRes frun =>
    -- a forced FATAL gives the start up; with a required process and ABORT / STOP nothing further may be requested
    let c : PCfg := pc w p
    let pend := j.reqs.find? (fun r => r.p == p)
    -- the run concerned: the one of the outstanding request, or (no resource) the most recent run of the application
    let rid : Option Nat := match pend with
      | some r => some r.run
      | none => if frun == 999 then none else some frun
    let cause := if noRes then "abort(no-resource)" else "abort(time-out)"
    let j1 := match rid.map (fun k => (findRun j k).getD { id := k, app := c.app }) with
      | some run =>
        let aborted := if st == PState.fatal && c.required && (c.sfail == SFail.abort || c.sfail == SFail.stop)
          then some (run.aborted.getD (cause, c.startSeq)) else run.aborted
        let run1 := { run with handled := run.handled ++ [p], aborted := aborted }
        setRun j (if st == PState.fatal then armStop w run1 c noRes else run1)
      | none => j
    -- any event handled for the process while its target reports BACKOFF re-arms the request (a forced STOPPED included)
    let rearm (r : Pending) : Pending :=
      if r.p == p && ((pr w p).infos.get? r.i).map (·.state) == some PState.backoff then { r with counter := w.counter.getD r.i 0 } else r
    let j2 : Judge :=
      { j1 with reqs := (if st == PState.fatal then j1.reqs.filter (fun r => r.p != p) else j1.reqs.map rearm),
                stops := (if st == PState.stopped then j1.stops.filter (fun r => r.1 != p) else j1.stops),
                givenUp := (if st == PState.stopped then j1.givenUp ++ [p] else j1.givenUp) }
    -- the forced state of a stop given up is handled as an event of the LOCAL instance: a start request outstanding there ends
    -- on what that instance last reported about the process
    let j3 := if st == PState.fatal then j2 else match (pr w p).infos.get? w.me with
      | some v => onStartReport w j2 p w.me v.state v.expected
      | none => j2
    ({ j3 with added := (if st == PState.fatal then j3.added.filter (fun x => x.1 != p) else j3.added) }, [])
  | .stop p i =>
    let app := (pc w p).app
    -- C09: only where running; higher stop sequences of the same application are stopped or given up
    let v1 := if (pr w p).state.isRunning && (pr w p).running.contains i then [] else [s!"C09-stop-where-not-running:{p}>{i}"]
    let sp := (pc w p).stopSeq
    let higher := (List.range w.pcfg.length).filter (fun q => (pc w q).app == app && (pc w q).stopSeq > sp)
    let v2 := higher.flatMap (fun q =>
      if j.stops.any (fun r => r.1 == q) then [s!"C09-higher-sequence-in-flight:{p}:{q}"]
      else if j.givenUp.contains q then []
      else if !(j.stopSet.contains q) || j.overlap.contains app then []      -- started after the stop was requested / overlapping user requests
      else if j.stopRuns.contains app && j.wasStopping.contains q && ((pr w q).state.isRunning || (pr w q).state == .stopping)
        then [s!"C09-higher-sequence-already-stopping-not-waited:{p}:{q}"]
      else if j.stopRuns.contains app && (pr w q).state.isRunning then [s!"C09-higher-sequence-still-running:{p}:{q}"]
      -- root cause of its own: a process that was already STOPPING when the application stop began is not waited for
      else if j.stopRuns.contains app && (pr w q).state == .stopping then [s!"C09-higher-sequence-already-stopping-not-waited:{p}:{q}"]
      else [])
    -- C09, stop of all applications: "applications are stopped in decreasing application stop_sequence under the same rule"
    let astop (b : Nat) := (w.acfg.getD b default).stopSeq
    let v3 := if j.stopAll.contains app && !j.overlap.contains app then
        (j.stopAll.filter (fun b => b != app && !j.overlap.contains b && astop b > astop app)).flatMap (fun b =>
          -- the processes of `b` that were running or stopping when the stop began, have not reported a stopped state since,
          -- and whose stop was not given up
          let qs := (List.range w.pcfg.length).filter (fun q => (pc w q).app == b && j.stopSet.contains q && !j.givenUp.contains q)
          if qs.any (fun q => !j.wasStopping.contains q && (j.stops.any (fun r => r.1 == q) || (pr w q).state.isRunning))
          then [s!"C09-higher-application-still-running:{p}:{b}"]
          else match qs.find? (fun q => (pr w q).state == .stopping || (j.wasStopping.contains q && (pr w q).state.isRunning)) with
            | some q => [s!"C09-higher-sequence-already-stopping-not-waited:{p}:{q}"]
            | none => [])
      else []
    let j5 := stopSettled j p
    ({ j5 with stops := j5.stops ++ [(p, i, w.counter.getD i 0)] }, v1 ++ v2 ++ v3)

/-- a report from instance `i` about process `p` (the world already contains it) -/
def onEvent (w : W) (j : Judge) (p i : Nat) (st : PState) (expected : Bool) : Judge :=
  let c := pc w p
  let j2 := onStartReport w j p i st expected
  -- every run of the application has seen this process report
  let j4 := { j2 with runs := j2.runs.map (fun run => if run.app == c.app then { run with touched := run.touched ++ [p] } else run) }
  -- stop requests: acknowledged by a stopped-like report from the target
  -- a process that reported a stopped state has been stopped: a later life of it is not part of this stop any more
  if st.isStopped then
    let j5 := stopSettled j4 p
    { j5 with stops := j5.stops.filter (fun r => !(r.1 == p && r.2.1 == i)),
              stopSet := j5.stopSet.filter (· != p), wasStopping := j5.wasStopping.filter (· != p) }
  else j4

/-- instance `i` has just been lost (`w`: the world after the loss).  C03 / C10: every start request outstanding on it is
    given up (host lost) - with a required process and ABORT / STOP nothing further may be requested for that start -, the
    process is reported FATAL; every stop request outstanding on it is abandoned and the process is no longer listed there. -/
def onLose (w : W) (j : Judge) (i : Nat) : Judge × List String :=
  let lostReqs := j.reqs.filter (fun r => r.i == i)
  let j1 := lostReqs.foldl (fun (j : Judge) r =>
    let c := pc w r.p
    match findRun j r.run with
    | some run =>
      if c.required && (c.sfail == .abort || c.sfail == .stop)
      then setRun j (armStop w { run with aborted := some (run.aborted.getD ("abort(host-lost)", c.startSeq)) } c) else j
    | none => j) j
  let v1 := (lostReqs.filter (fun r => !r.orphaned)).flatMap (fun r =>
    if displayed (pr w r.p) == .fatal then [] else [s!"C10-lost-start-not-reported-fatal:{r.p}>{i}"])
  let lostStops := j.stops.filter (fun r => r.2.1 == i)
  let v2 := lostStops.flatMap (fun r =>
    if (pr w r.1).running.contains i then [s!"C10-lost-stop-still-listed:{r.1}>{i}"] else [])
  ({ j1 with reqs := j1.reqs.filter (fun r => r.i != i), stops := j1.stops.filter (fun r => r.2.1 != i),
             givenUp := j1.givenUp ++ lostStops.map (·.1),
             runs := j1.runs.map (fun r => if r.snap.isSome then { r with lostSince := true } else r) }, v1 ++ v2)

/-- C10: at a periodic check, every outstanding request whose deadline has passed must be given up in that check
    (forced FATAL / STOPPED emitted for the process). `emitted`: the requests of this check. -/
def onCheck (w : W) (j : Judge) (emitted : List Req) : List String :=
  let forced (p : Nat) (s : PState) := emitted.any (fun r => match r with | .force q st _ _ => q == p && st == s | _ => false)
  let v1 := (j.reqs.filter (fun pd => !pd.orphaned)).flatMap (fun pd =>
    let p := pd.p; let i := pd.i; let r := pd.counter
    match (pr w p).infos.get? i with
    | none => []
    | some v =>
      let cnt := w.counter.getD i 0
      let c := pc w p
      let acked := v.state == .starting || v.state == .backoff
      let late := if acked then cnt > r + waitTicksOf c.startsecs else if v.state == .running then false else cnt > r + minTicks
      if late && !(forced p .fatal) then [s!"C10-start-not-given-up:{p}>{i}:cnt={cnt}:req={r}"] else [])
  let v2 := j.stops.flatMap (fun (p, i, r) =>
    match (pr w p).infos.get? i with
    | none => []
    | some v =>
      let cnt := w.counter.getD i 0
      let c := pc w p
      let late := if v.state == .stopping then cnt > r + waitTicksOf c.stopwaitsecs else if v.state.isStopped then false else cnt > r + minTicks
      if late && !(forced p .stopped) then [s!"C10-stop-not-given-up:{p}>{i}:cnt={cnt}:req={r}"] else [])
  v1 ++ v2

/-- C10: a start request is outstanding but the Starter reports nothing in progress: the request is no longer followed
    (no time-out, no report). Reported once per request. -/
def onIdle (j : Judge) (starting : Bool) : Judge × List String :=
  if starting then (j, []) else
  let fresh := j.reqs.filter (fun r => !r.orphaned)
  ({ j with reqs := j.reqs.map (fun r => { r with orphaned := true }) },
   fresh.map (fun r => s!"C10-start-request-untracked:{r.p}>{r.i}"))

/-- C03, STOP strategy, evaluated at the end of every operation: once the in-flight starts of a run whose stop is due have
    ended (no start request of it is outstanding) and the Stopper reports nothing in progress (no stop is waiting its turn),
    nothing that had to be stopped may still be running without having been asked to stop. -/
def onOpEnd (w : W) (j : Judge) (stopping : Bool) : Judge × List String :=
  j.runs.foldl (fun (acc : Judge × List String) run =>
    match run.stopDue with
    | none => acc
    | some l =>
      let left := l.filter (fun q => (pr w q).state.isRunning)
      -- the job of the run may also still have commands planned: a `start_process` that joined it after the failure (the stop is
      -- applied by `Starter.after`, when the job ends); the Starter of the world is in lock-step with the real one
      if acc.1.reqs.any (fun r => r.run == run.id && !r.orphaned) || stopping
         || w.current.any (fun jb => jb.app == run.app && jb.runId == run.id && jobInProgress jb) then
        (setRun acc.1 { run with stopDue := some left }, acc.2)
      else (setRun acc.1 { run with stopDue := none },
            if left.isEmpty then acc.2
            else if run.stopNoRes then acc.2 ++ [s!"C03-stop-strategy-dropped-with-job:{run.app}"]
            else acc.2 ++ [s!"C03-stop-strategy-not-applied:{run.app}"])) (j, [])

end Supv.Spec.Cmd
