import Supv.Model.Rpc

/-!
# C17 — the DOCUMENTED gating of the XML-RPC methods, and the judge

Hand-written from the property statement and from the documentation (`docs/xml_rpc.rst` renders the docstrings of
`RPCInterface`: the `:raises RPCError:` clauses), never generated.  `documented` says, per method, in which Supvisors
states it is served and which parameter classes it validates; `judge` is the statement evaluated on ONE observed call
(state before the call, truth of the parameter classes, outcome, whether anything observable changed).

Readings (DESIGN.md §7): FINAL is a don't-care for the "from DISTRIBUTION on" family; `end_sync` without the USER option
may be answered by BAD_SUPVISORS_STATE or by the documented NOT_APPLICABLE.
-/

namespace Supv.Spec.C17
open Supv.Rpc

inductive Family
  | ungated                 -- documented without any state condition (identification, handshake, local settings)
  | fromDistribution        -- "from DISTRIBUTION on": DISTRIBUTION .. SHUTTING_DOWN (FINAL left open)
  | operation               -- OPERATION only
  | operationConciliation   -- OPERATION or CONCILIATION
  | conciliation            -- CONCILIATION only
  | synchronizationUser     -- SYNCHRONIZATION, with the USER option
  deriving DecidableEq, Repr, Inhabited

def Family.allowed : Family → List St
  | .ungated => St.all
  | .fromDistribution => [.distribution, .operation, .conciliation, .restarting, .shuttingDown]
  | .operation => [.operation]
  | .operationConciliation => [.operation, .conciliation]
  | .conciliation => [.conciliation]
  | .synchronizationUser => [.synchronization]

def Family.finalOpen : Family → Bool
  | .fromDistribution => true
  | _ => false

structure Doc where
  family : Family
  params : List PKind := []   -- parameter classes documented as validated (BAD_NAME / INCORRECT_PARAMETERS / NOT_MANAGED)
  extra : List Check := []    -- further documented conditions on the Supvisors state and modes
  deriving DecidableEq, Repr, Inhabited

/-- the documented table -/
def documented : List (String × Doc) := [
  -- status of Supvisors itself and of its instances: no state condition documented
  ("get_api_version", { family := .ungated }),
  ("get_supvisors_state", { family := .ungated }),
  ("get_all_instances_state_modes", { family := .ungated }),
  ("get_instance_state_modes", { family := .ungated, params := [.inst] }),
  ("get_master_identifier", { family := .ungated }),
  ("get_strategies", { family := .ungated }),
  ("get_statistics_status", { family := .ungated }),
  ("get_network_info", { family := .ungated, params := [.inst] }),
  ("get_all_instances_info", { family := .ungated }),
  ("get_instance_info", { family := .ungated, params := [.inst] }),
  -- used by the handshake in SYNCHRONIZATION; the BAD_NAME of `get_local_process_info` is raised by Supervisor itself
  ("get_all_local_process_info", { family := .ungated }),
  ("get_local_process_info", { family := .ungated }),
  ("get_all_inner_process_info", { family := .ungated, params := [.inst] }),
  ("get_inner_process_info", { family := .ungated, params := [.inst, .name] }),
  -- "WARN: do NOT check OPERATION (it is used internally in DISTRIBUTION state)"
  ("start_args", { family := .ungated, params := [.name] }),
  ("change_log_level", { family := .ungated, params := [.value] }),
  ("enable_host_statistics", { family := .ungated }),
  ("enable_process_statistics", { family := .ungated }),
  ("update_collecting_period", { family := .ungated }),
  ("get_logger_levels", { family := .ungated }),
  -- status queries on applications and processes: from DISTRIBUTION on
  ("get_all_applications_info", { family := .fromDistribution }),
  ("get_application_info", { family := .fromDistribution, params := [.name] }),
  ("get_application_rules", { family := .fromDistribution, params := [.name] }),
  ("get_all_process_info", { family := .fromDistribution }),
  ("get_process_info", { family := .fromDistribution, params := [.name] }),
  ("get_process_rules", { family := .fromDistribution, params := [.name] }),
  ("get_conflicts", { family := .fromDistribution }),
  -- "... or has no Master instance to perform the request"
  ("restart", { family := .fromDistribution, extra := [.masterKnown] }),
  ("shutdown", { family := .fromDistribution, extra := [.masterKnown] }),
  -- start / restart / test_start / update_numprocs / enable / disable / restart_sequence: OPERATION only
  ("start_application", { family := .operation, params := [.strategy, .name, .managed] }),
  ("test_start_application", { family := .operation, params := [.strategy, .name, .managed] }),
  ("restart_application", { family := .operation, params := [.strategy, .name, .managed] }),
  ("start_process", { family := .operation, params := [.strategy, .name] }),
  ("test_start_process", { family := .operation, params := [.strategy, .name] }),
  ("start_any_process", { family := .operation, params := [.strategy] }),
  ("restart_process", { family := .operation, params := [.strategy, .name] }),
  ("update_numprocs", { family := .operation, params := [.name, .value] }),
  ("enable", { family := .operation, params := [.name] }),
  ("disable", { family := .operation, params := [.name] }),
  ("restart_sequence", { family := .operation, extra := [.jobsIdle] }),
  -- stop requests: OPERATION or CONCILIATION
  ("stop_application", { family := .operationConciliation, params := [.name, .managed] }),
  ("stop_process", { family := .operationConciliation, params := [.name] }),
  ("conciliate", { family := .conciliation, params := [.strategy] }),
  ("end_sync", { family := .synchronizationUser, params := [.inst], extra := [.masterUnset, .userOption] })
]

def docOf (name : String) : Option Doc := (documented.find? (fun e => e.1 == name)).map (·.2)

/-- the fault the statement attaches to each parameter class -/
def faultOfKind : PKind → Fault
  | .strategy => .incorrectParameters
  | .name => .badName
  | .inst => .badName
  | .managed => .notManaged
  | .value => .incorrectParameters

/-- the faults by which a call with these parameters may be rejected: one per documented parameter class that is
    invalid (the statement gives no precedence between them) -/
def expected (d : Doc) (a : Args) : List Fault :=
  d.params.filterMap (fun k => if a.flag k then none else some (faultOfKind k))

/-! ## Structural comparison of a generated method with its documented entry (decidable, used by `decide`) -/

/-- same membership for every state, FINAL excepted when it is a don't-care -/
def sameStates (finalOpen : Bool) (doc gen : List St) : Bool :=
  St.all.all (fun x => (finalOpen && x == .final) || (doc.contains x == gen.contains x))

/-- the allowed set of the state check that comes first, if the method starts with one raising BAD_SUPVISORS_STATE -/
def firstGate : List Step → Option (List St)
  | .raise (.state al) .badSupvisorsState :: _ => some al
  | _ => none

def okUserFault (f : Fault) : Bool := f == .badSupvisorsState || f == .notApplicable

/-- nothing but conditions on the Supvisors state and modes, raising a documented fault, up to the USER check -/
def userGate : List Step → Bool
  | .raise c f :: rest => okUserFault f && (c == .userOption || (c.isStateLike && userGate rest))
  | _ => false

def noStateCheck (steps : List Step) : Bool :=
  steps.all (fun st => match st with
    | .raise c _ => !c.isState
    | _ => true)

def gateMatches : Option Doc → Method → Bool
  | none, _ => false
  | some d, m =>
    (if d.family == .ungated then noStateCheck m.steps
     else match firstGate m.steps with
          | some al => sameStates d.family.finalOpen d.family.allowed al
          | none => false)
    && (!d.extra.contains .userOption || userGate m.steps)

/-- EVERY state check of the method (an inlined public method repeats it) allows the documented set, and
    BAD_SUPVISORS_STATE is only raised by conditions on the Supvisors state and modes -/
def allGatesMatch (d : Doc) (steps : List Step) : Bool :=
  steps.all (fun st => match st with
    | .raise (.state al) _ => sameStates d.family.finalOpen d.family.allowed al
    | .raise c f => f != .badSupvisorsState || c.isStateLike
    | _ => true)

def gatesMatch : Option Doc → Method → Bool
  | none, _ => false
  | some d, m => allGatesMatch d m.steps

/-- fault code of a raise step against the statement: state check, name checks, strategy check, managed check -/
def stepFaultOk : Step → Bool
  | .raise c f =>
    (match c.kind with
     | some k => f == faultOfKind k
     | none => !c.isState || f == .badSupvisorsState)
  | _ => true

/-- the steps start with checks on the state / modes and with parameter checks carrying the fault of their class, and
    every class of `todo` is met before anything else (data-dependent check, effect, raw look-up) -/
def paramShape : List Step → List PKind → Bool
  | [], todo => todo.isEmpty
  | .raise c f :: rest, todo =>
    todo.isEmpty ||
    (match c.kind with
     | some k => f == faultOfKind k && paramShape rest (todo.filter (· != k))
     | none => c.isStateLike && paramShape rest todo)
  | _ :: _, todo => todo.isEmpty

/-- documented parameter checks that the current code does not make (genuine defects, `known_findings.jsonl`) -/
def knownGaps : List (String × PKind) := [("restart_application", .managed)]

def effParams (name : String) (d : Doc) : List PKind := d.params.filter (fun k => !knownGaps.contains (name, k))

def paramsMatch : Option Doc → Method → Bool
  | none, _ => false
  | some d, m => paramShape m.steps (effParams m.name d)

/-- every condition of the method on the Supvisors state and modes lets the call through -/
def statePasses (steps : List Step) (s : State) (a : Args) : Bool :=
  steps.all (fun st => match st with
    | .raise c f => !c.isStateLike || checkPasses s a c f
    | _ => true)

def PKind.all : List PKind := [.strategy, .name, .inst, .managed, .value]

/-- parameter classes the method does not document are vacuously valid -/
def wellFormed (d : Doc) (a : Args) : Bool := PKind.all.all (fun k => d.params.contains k || a.flag k)

/-- no raw look-up, and every effect that raises a non-RPC exception when no Master is known comes after the check
    that a Master is known (`established`); `deref` tells whether an untested process dereference is tolerated -/
def crashGuarded (cr : Crashes) (deref : Bool) : Bool → List Step → Bool
  | _, [] => true
  | g, .raise c _ :: rest => crashGuarded cr deref (g || c == .masterKnown) rest
  | g, .effect n :: rest => (g || !cr.any (fun x => x.1 == n)) && crashGuarded cr deref g rest
  | _, .lookupInst :: _ => false
  | g, .derefProcess :: rest => deref && crashGuarded cr deref g rest

/-- what the harness observed on the implementation -/
inductive Outcome
  | ok
  | fault (f : Fault)
  | otherFault (code : String)   -- an RPCError whose code is not one of `Supv.Rpc.Fault`
  | internal (exc : String)      -- any other exception
  deriving DecidableEq, Repr, Inhabited

def Outcome.isRejection : Outcome → Bool
  | .fault f => f.isRejection
  | _ => false

/-- `none`: accepted; `some clause`: the observed call violates that clause of the statement.
    `s` is the state BEFORE the call, `a` the truth of the parameter classes in the world of the call,
    `changed`: the observable snapshot after the call differs from the one before (or something was emitted). -/
def judge (d : Doc) (s : State) (a : Args) (o : Outcome) (changed : Bool) : Option String :=
  let noEffect : Option String := if o.isRejection && changed then some "effect-despite-rejection" else none
  match o with
  | .internal e => some ("non-rpc-exception:" ++ e)
  | _ =>
    if !d.family.allowed.contains s.fsm then
      if d.family.finalOpen && s.fsm == .final then noEffect
      else if o != .fault .badSupvisorsState then some "not-gated"
      else noEffect
    else if d.extra.contains .userOption && !s.userOpt then
      -- "end_sync in SYNCHRONIZATION with the USER option": either documented fault, and nothing happens
      if o == .fault .badSupvisorsState then noEffect
      else if o == .fault .notApplicable then (if changed then some "effect-despite-rejection" else none)
      else some "served-without-USER-option"
    else if (d.extra.contains .masterUnset && s.masterSet) || (d.extra.contains .jobsIdle && s.jobs)
        || (d.extra.contains .masterKnown && !(s.isMaster || s.masterSet)) then
      -- documented further condition on the modes: the statement is silent; only "rejected => no effect" applies
      noEffect
    else
      let exp := expected d a
      if !exp.isEmpty then
        match o with
        | .fault f => if exp.contains f then noEffect else some "wrong-fault-for-bad-parameter"
        | _ => some "bad-parameter-not-rejected"
      else
        match o with
        | .fault .badSupvisorsState => some "not-served-in-documented-state"
        | _ => noEffect

end Supv.Spec.C17
