import Supv.Model.Rfh

/-!
# C06 — declarative specification of "running failure strategies are applied once, by the Master, with precedence"

Written from the property statement, not from the code.  The specification keeps ONE thing: the list of *pending
notifications* `(strategy, process)` — what has been notified to the handler and has not been acted upon yet.  Everything
the statement asks is a function of that list:

* the action due to an application is the **strongest** notified strategy of its processes, in the order
  STOP_APPLICATION > RESTART_APPLICATION > RESTART_PROCESS > CONTINUE (`top`);
* nothing is done for an application that has a start/stop job in progress, and its notifications stay pending;
* an action that has been ordered is no longer pending (applied once); `abort` forgets everything;
* only the Master notifies the handler (crash dispatch, lost processes), and a lost process that already has a start or
  stop job planned is not notified.

Two readings of the statement are made explicit here (and again in the theorems of `Supv/Props/C06.lean`):

* **proviso** — RESTART_APPLICATION restarts the *start sequence* of the application; a failed process that is outside
  that sequence (unmanaged application or `start_sequence = 0`) keeps its own RESTART_PROCESS / CONTINUE job next to the
  application restart (`procFree`).  STOP_APPLICATION supersedes everything.
* **promotion** — RESTART_PROCESS becomes RESTART_APPLICATION when the application is left fully stopped *and the process
  belongs to the start sequence* (restarting the application would not start a process outside of it).
-/

namespace Supv.Spec.C06
open Supv.Rfh

abbrev Note := Strategy × Nat

/-- precedence order of the statement -/
def rank : Strategy → Nat
  | .stopApplication => 3 | .restartApplication => 2 | .restartProcess => 1 | _ => 0

/-- "RESTART_PROCESS becoming RESTART_APPLICATION when the application is left fully stopped" -/
def promoted (c : Cfg) (p : Nat) (stopped : Bool) : Bool :=
  c.strat p == .restartProcess && stopped && c.seq p

/-- what applying the configured strategy of `p` notifies -/
def defaultNotes (c : Cfg) (p : Nat) (stopped : Bool) : List Note :=
  (c.strat p, p) :: (if promoted c p stopped then [(.restartApplication, p)] else [])

/-- some process of application `a` has been notified with strategy `s` -/
def notified (c : Cfg) (P : List Note) (s : Strategy) (a : Nat) : Bool :=
  P.any (fun n => n.1 == s && c.app n.2 == a)

/-- the strongest notified strategy of application `a` -/
def top (c : Cfg) (P : List Note) (a : Nat) : Option Strategy :=
  if notified c P .stopApplication a then some .stopApplication
  else if notified c P .restartApplication a then some .restartApplication
  else if notified c P .restartProcess a then some .restartProcess
  else if notified c P .cont a then some .cont
  else none

/-- the process-level jobs of `p` are not superseded by the action due to its application (the proviso) -/
def procFree (c : Cfg) (P : List Note) (p : Nat) : Bool :=
  match top c P (c.app p) with
  | some .stopApplication => false
  | some .restartApplication => !c.seq p
  | _ => true

def wantStop (c : Cfg) (P : List Note) (a : Nat) : Bool := top c P a == some .stopApplication
def wantRestartApp (c : Cfg) (P : List Note) (a : Nat) : Bool := top c P a == some .restartApplication
def wantRestartProc (c : Cfg) (P : List Note) (p : Nat) : Bool :=
  P.contains (.restartProcess, p) && procFree c P p
def wantContinue (c : Cfg) (P : List Note) (p : Nat) : Bool :=
  P.contains (.cont, p) && !P.contains (.restartProcess, p) && procFree c P p

/-- what stays pending after the handler has been triggered: the notifications of the busy applications, CONTINUE
    excepted (it asks for nothing) -/
def deferred (c : Cfg) (busy : List Nat) (P : List Note) : List Note :=
  P.filter (fun n => decide (c.app n.2 ∈ busy) && decide (n.1 ≠ .cont))

/-- the notifications an operation brings before anything is triggered -/
def incoming (c : Cfg) : Op → List Note
  | .addJob s p => [(s, p)]
  | .addDefault p stopped => defaultNotes c p stopped
  | .crash master crashed forced p stopped _ =>
    if crashAction master crashed forced (c.strat p) = .handler then defaultNotes c p stopped else []
  | .lost master w failed withJob _ =>
    if handsLost master w then (leftToHandler failed withJob).flatMap (fun x => defaultNotes c x.1 x.2) else []
  | _ => []

/-- does the operation trigger the handler, and with which busy applications -/
def triggers (c : Cfg) : Op → Option (List Nat)
  | .trigger busy => some busy
  | .crash master crashed forced p _ busy =>
    if crashAction master crashed forced (c.strat p) = .handler then some busy else none
  | .lost master w failed withJob busy =>
    if handsLost master w ∧ leftToHandler failed withJob ≠ [] then some busy else none
  | _ => none

/-- pending notifications after an operation -/
def pend (c : Cfg) (P : List Note) (op : Op) : List Note :=
  match op with
  | .abort => []
  | _ =>
    match triggers c op with
    | some busy => deferred c busy (P ++ incoming c op)
    | none => P ++ incoming c op

def pendAfter (c : Cfg) (ops : List Op) : List Note := ops.foldl (pend c) []

/-! ### The judge: evaluated by the driver on what the IMPLEMENTATION did -/

/-- what the harness observed on the implementation after one operation -/
structure Obs where
  stopApps : List Nat
  restartApps : List Nat
  restartProcs : List Nat
  continueProcs : List Nat
  /-- the actions ordered during the operation, in order -/
  outs : List Out
  /-- `none`: the handler was not called by the FSM glue; `some l`: `add_default_job` called for the processes `l`, then
      `trigger_jobs` (only meaningful for `crash` / `lost`) -/
  handed : Option (List Nat) := none
  deriving Repr

def sameSet (l m : List Nat) : Bool := l.all m.contains && m.all l.contains

/-- mutual exclusion of the job sets, with the proviso -/
def exclB (c : Cfg) (o : Obs) : Bool :=
  o.stopApps.all (fun a => !o.restartApps.contains a)
  && (o.restartProcs ++ o.continueProcs).all (fun p =>
        !o.stopApps.contains (c.app p) && !(o.restartApps.contains (c.app p) && c.seq p))
  && o.restartProcs.all (fun p => !o.continueProcs.contains p)

def isAction : Out → Bool
  | .stopApp _ | .restartApp _ | .restartProc _ => true
  | _ => false

/-- the application an action is about -/
def outApp (c : Cfg) : Out → Option Nat
  | .stopApp a | .restartApp a => some a
  | .restartProc p => some (c.app p)
  | _ => none

/-- is this action due, given the pending notifications `P` and the busy applications -/
def due (c : Cfg) (P : List Note) (busy : List Nat) : Out → Bool
  | .stopApp a => wantStop c P a && !busy.contains a
  | .restartApp a => wantRestartApp c P a && !busy.contains a
  | .restartProc p => wantRestartProc c P p && !busy.contains (c.app p)
  | _ => true

/-- every action that is due according to `P` -/
def allDue (c : Cfg) (P : List Note) (busy : List Nat) : List Out :=
  let procs := (P.map (·.2)).eraseDups
  let apps := (procs.map c.app).eraseDups
  (apps.filter (fun a => due c P busy (.stopApp a))).map .stopApp
  ++ (apps.filter (fun a => due c P busy (.restartApp a))).map .restartApp
  ++ (procs.filter (fun p => due c P busy (.restartProc p))).map .restartProc

/-- is the job behind this action still in the observed sets -/
def stillQueued (o : Obs) : Out → Bool
  | .stopApp a => o.stopApps.contains a
  | .restartApp a => o.restartApps.contains a
  | .restartProc p => o.restartProcs.contains p
  | _ => false

/-- clauses about one triggering of the handler: `P` = pending notifications when it is triggered -/
def judgeTrigger (c : Cfg) (P : List Note) (busy : List Nat) (o : Obs) : Option String :=
  let acts := o.outs.filter isAction
  if acts.any (fun x => match outApp c x with | some a => busy.contains a | none => false) then some "acted-while-busy"
  else if !acts.all (due c P busy) then some "precedence"
  else if !(allDue c P busy).all acts.contains then some "action-missing"
  else if !(acts.eraseDups.length == acts.length) then some "applied-twice"
  else if acts.any (stillQueued o) then some "job-not-consumed"
  else if !((deferred c busy P).all (fun n =>
      match n.1 with
      | .stopApplication => !wantStop c P (c.app n.2) || o.stopApps.contains (c.app n.2)
      | .restartApplication => !wantRestartApp c P (c.app n.2) || o.restartApps.contains (c.app n.2)
      | .restartProcess => !wantRestartProc c P n.2 || o.restartProcs.contains n.2
      | _ => true)) then some "deferred-job-lost"
  else none

/-- The judge: does the observation made on the implementation after `op` satisfy the statement, `P` being the
    notifications pending before `op`?  Returns the first violated clause. -/
def judge (c : Cfg) (P : List Note) (op : Op) (o : Obs) : Option String :=
  if !exclB c o then some "mutual-exclusion" else
  match op with
  | .addJob .. | .addDefault .. => if o.outs.any isAction then some "acted-without-trigger" else none
  | .abort =>
    if o.stopApps.isEmpty && o.restartApps.isEmpty && o.restartProcs.isEmpty && o.continueProcs.isEmpty && o.outs.isEmpty
    then none else some "abort-keeps-jobs"
  | .trigger busy => judgeTrigger c (P ++ incoming c op) busy o
  | .crash master crashed _forced p stopped busy =>
    let s := c.strat p
    if !(master && crashed) then
      -- "the Master - and only the Master"; nothing without a crash
      if o.handed.isSome || !o.outs.isEmpty then some (if master then "acted-without-crash" else "not-master-acted") else none
    else match s with
      | .restart => if o.outs == [.fsmRestart] && o.handed.isNone then none else some "crash-dispatch"
      | .shutdown => if o.outs == [.fsmShutdown] && o.handed.isNone then none else some "crash-dispatch"
      | .stopApplication | .restartApplication =>
        -- a forced state (a start request given up) is not the crash of a running process: both answers accepted
        match o.handed with
        | some l => if l == [p] then judgeTrigger c (P ++ defaultNotes c p stopped) busy o else some "crash-dispatch"
        | none => if _forced && o.outs.isEmpty then none else some "crash-not-handled"
      | _ =>
        -- RESTART_PROCESS / CONTINUE on a crash: the statement asks nothing (left to Supervisor's autorestart); if the
        -- handler is used nevertheless, its clauses apply
        match o.handed with
        | some l => if l == [p] then judgeTrigger c (P ++ defaultNotes c p stopped) busy o else some "crash-dispatch"
        | none => if o.outs.isEmpty then none else some "crash-dispatch"
  | .lost master _w failed withJob busy =>
    if !master then
      if o.handed.isSome || !o.outs.isEmpty then some "not-master-acted" else none
    else
      -- every working state: the Master applies the strategy of every lost process not left to a planned job
      let l := leftToHandler failed withJob
      match o.handed with
      | none => if l.isEmpty && o.outs.isEmpty then none else some "lost-not-handled"
      | some hd =>
        if hd.any withJob.contains then some "planned-not-left-alone"
        else if !sameSet hd (l.map (·.1)) then some "lost-not-handled"
        else judgeTrigger c (P ++ l.flatMap (fun x => defaultNotes c x.1 x.2)) busy o

end Supv.Spec.C06
