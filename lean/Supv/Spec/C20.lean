import Supv.Model.Stats

/-!
# C20 — declarative specification: a monitor of what the statement promises, evaluated on the IMPLEMENTATION

Written from the property statement, not from the code.  The monitor follows the stream of measures and, for every
history ("kept per instance or process and period"), remembers only what the statement talks about:

* the measure the previous point was produced from (or the first measure seen, for a history without point yet);
* how many points were produced since the history (re)started — a history restarts when its process stops (pid 0) or
  comes back under another pid (the process that owned the old history has stopped).

On each push the implementation reports the points it returned (with the *exact* rational value of every float, or
`inf`/`nan`) and the lengths of every series it keeps for the entity.  `hostJudge` / `procJudge` return the violated
clauses:

| clause | statement |
|---|---|
| `bounded` | every history holds at most `stats_histo` points |
| `aligned` | the value series of one entity have exactly as many points as their time series |
| `period-gate` | a new point is produced only when at least the period has elapsed since the previous one |
| `growth-without-point` | (same clause, on the stored series) a series never holds more points than were produced |
| `cpu-above-100`, `cpu-below-0`, `cpu-not-finite` | CPU percentages from non-decreasing counters lie in [0,100] per core |
| `io-negative`, `io-not-finite` | I/O rates are finite and non-negative |
| `proc-cpu-negative`, `proc-cpu-not-finite` | lower bound / finiteness of the process CPU percentage |
| `stopped-not-dropped`, `pid-change-not-reset` | the history of a stopped process is dropped |

Nothing else is asked: no clause requires that a point *be* produced, no clause looks at exceptions, dict orders or
values that are merely passed through.  The suffix `:float-rounding` of `cpu-above-100` only refines the *signature*
of the finding (the reported value is within 2^-40 of the exact percentage, which itself is in range).
-/

namespace Supv.Spec.C20
open Supv.Stats

/-- a number reported by the implementation: the exact value `num/den` (`den > 0`) of the float, or not finite -/
inductive Num where
  | fin (num den : Int)
  | inf
  | nan
  deriving Repr, Inhabited, DecidableEq

/-- lengths of one `net_io` / `disk_io` / `disk_usage` entry -/
structure TimedLen where
  key : Nat
  up : Nat
  vals : List Nat
  deriving Repr, Inhabited

/-- lengths of every series of one host history -/
structure HostLen where
  times : Nat
  cpu : List Nat
  mem : Nat
  net : List TimedLen
  disk : List TimedLen
  usage : List TimedLen
  deriving Repr, Inhabited

/-- the judged values of a returned host point -/
structure HostPt where
  cpu : List Num
  net : List (Nat × List Num)
  disk : List (Nat × List Num)
  deriving Repr, Inhabited

/-- what the implementation showed after a host push: one `HostLen` per period index, the points returned -/
structure HostObs where
  insts : List HostLen
  points : List (Nat × HostPt)
  deriving Repr, Inhabited

structure ProcLen where
  times : Nat
  cpu : Nat
  mem : Nat
  deriving Repr, Inhabited

/-- what the implementation showed after a process push: for the namespec, every identifier with its pid and the
    lengths per period index; the points returned (period index, CPU value) -/
structure ProcObs where
  entries : List (Nat × Int × List ProcLen)
  points : List (Nat × Num)
  deriving Repr, Inhabited

/-- monitor of one host history -/
structure HTrack where
  id : Nat
  pidx : Nat
  /-- the measure the previous point was produced from (the first measure when there is no point yet) -/
  ref : Sample
  /-- points produced so far -/
  count : Nat
  deriving Repr, Inhabited

/-- monitor of the histories of one process on one identifier -/
structure PTrack where
  ns : Nat
  id : Nat
  pid : Int
  /-- per period index: reference measure, points produced since the process was first seen under this pid -/
  refs : List (PSample × Nat)
  deriving Repr, Inhabited

structure St where
  host : List HTrack := []
  proc : List PTrack := []
  deriving Repr, Inhabited

/-- 2^40 -/
def tolDen : Nat := 1099511627776

/-- `|a/b - c/d| ≤ |c/d| · 2^-40` for `b, d > 0` -/
def closeTo (a b c d : Int) : Bool := (a * d - c * b).natAbs * tolDen ≤ c.natAbs * b.natAbs

/-- "CPU percentages computed from non-decreasing counters lie in [0,100] per core" -/
def cpuClause (q : Num) (lw li rw ri : Int) : Option String :=
  if rw ≤ lw ∧ ri ≤ li then
    match q with
    | .inf | .nan => some "cpu-not-finite"
    | .fin a b =>
      if a < 0 then some "cpu-below-0"
      else if a > 100 * b then
        -- signature refinement only: the exact percentage 100·work/(work+idle) is in range and the float is next to it
        let work := lw - rw
        let total := work + (li - ri)
        if total > 0 ∧ closeTo a b (100 * work) total then some "cpu-above-100:float-rounding" else some "cpu-above-100"
      else none
  else none

/-- "I/O rates are finite and non-negative" -/
def ioClause : Num → Option String
  | .inf | .nan => some "io-not-finite"
  | .fin a _ => if a < 0 then some "io-negative" else none

def procCpuClause (q : Num) (r s : PSample) : Option String :=
  if r.work ≤ s.work then
    match q with
    | .inf | .nan => some "proc-cpu-not-finite"
    | .fin a _ => if a < 0 then some "proc-cpu-negative" else none
  else none

def firstSome {α : Type} (l : List (Option α)) : List α := (l.filterMap id).take 1

/-- clauses on a returned host point, given the reference measure `r` of the monitor -/
def hostPointClauses (period : Int) (r s : Sample) (x : HostPt) : List String :=
  (if s.now - r.now < period then ["period-gate"] else [])
  ++ firstSome ((x.cpu.zip (s.cpu.zip r.cpu)).map (fun (q, (l, rf)) => cpuClause q l.1 l.2 rf.1 rf.2))
  ++ firstSome ((x.net ++ x.disk).flatMap (fun kv => kv.2.map ioClause))

/-- clauses on the stored series of one host history -/
def hostLenClauses (depth count : Nat) (h : HostLen) : List String :=
  let timed := h.net ++ h.disk ++ h.usage
  let series : List Nat := [h.times, h.mem] ++ h.cpu ++ timed.flatMap (fun t => t.up :: t.vals)
  (if series.any (· > depth) then ["bounded"] else [])
  ++ (if h.mem != h.times || h.cpu.any (· != h.times) || timed.any (fun t => t.vals.any (· != t.up)) then ["aligned"] else [])
  ++ (if h.times > count || timed.any (·.up > count) then ["growth-without-point"] else [])

/-- one period index of a host push -/
def hostOne (cfg : Cfg) (id : Nat) (s : Sample) (obs : HostObs) (acc : List HTrack × List String) (pj : Int × Nat) :
    List HTrack × List String :=
  let mine := fun (t : HTrack) => t.id == id && t.pidx == pj.2
  let pt := (obs.points.find? (·.1 == pj.2)).map (·.2)
  let r : HTrack × List String :=
    match acc.1.find? mine, pt with
    | none, none => ({ id := id, pidx := pj.2, ref := s, count := 0 }, [])
    | none, some _ => ({ id := id, pidx := pj.2, ref := s, count := 0 }, ["period-gate:no-reference"])
    | some t, none => (t, [])
    | some t, some x => ({ t with ref := s, count := t.count + 1 }, hostPointClauses pj.1 t.ref s x)
  let v2 := match obs.insts[pj.2]? with
    | some h => hostLenClauses cfg.depth r.1.count h
    | none => []
  (r.1 :: acc.1.filter (fun t => !mine t), acc.2 ++ (r.2 ++ v2).map (fun c => s!"{c}@host:{id}:period{pj.2}"))

/-- the judge of a host push -/
def hostJudge (cfg : Cfg) (st : St) (id : Nat) (s : Sample) (obs : HostObs) : St × List String :=
  let r := (dedup cfg.periods).zipIdx.foldl (hostOne cfg id s obs) (st.host, [])
  ({ st with host := r.1 }, r.2)

/-- one period index of a process push on a history that goes on (same pid) -/
def procOne (s : PSample) (obs : ProcObs) (acc : List (PSample × Nat) × List String) (x : (Int × Nat) × (PSample × Nat)) :
    List (PSample × Nat) × List String :=
  match (obs.points.find? (·.1 == x.1.2)).map (·.2) with
  | none => (acc.1 ++ [x.2], acc.2)
  | some q =>
    (acc.1 ++ [(s, x.2.2 + 1)],
     acc.2 ++ ((if s.now - x.2.1.now < x.1.1 then ["period-gate"] else []) ++ (procCpuClause q x.2.1 s).toList).map
       (fun c => s!"{c}@period{x.1.2}"))

/-- clauses on the stored series of the histories of one identifier (`counts`: points produced per period index) -/
def procLenClauses (depth : Nat) (counts : List Nat) (stale : String) (lens : List ProcLen) : List String :=
  lens.zipIdx.flatMap fun (l, j) =>
    ((if l.times > depth || l.cpu > depth || l.mem > depth then ["bounded"] else [])
     ++ (if l.cpu != l.times || l.mem != l.times then ["aligned"] else [])
     ++ (if l.times > counts[j]?.getD 0 then [stale] else [])).map (fun c => s!"{c}@period{j}")

/-- the judge of a process push -/
def procJudge (cfg : Cfg) (st : St) (id : Nat) (s : PSample) (obs : ProcObs) : St × List String :=
  let mine := fun (t : PTrack) => t.ns == s.ns && t.id == id
  let periods := (dedup cfg.periods).zipIdx
  let old := st.proc.find? mine
  let others := st.proc.filter (fun t => !mine t)
  -- the monitor after this measure, the clauses on the returned points, the name of the "too many points" clause
  let r : List PTrack × List String × String :=
    if s.pid = 0 then (others, [], "stopped-not-dropped")
    else
      let fresh : PTrack := { ns := s.ns, id := id, pid := s.pid, refs := periods.map (fun _ => (s, 0)) }
      let noRef := if obs.points.isEmpty then [] else ["period-gate:no-reference"]
      match old with
      | none => (fresh :: others, noRef, "growth-without-point")
      | some t =>
        if t.pid = s.pid then
          let u := (periods.zip t.refs).foldl (procOne s obs) ([], [])
          ({ t with refs := u.1 } :: others, u.2, "growth-without-point")
        else (fresh :: others, noRef, "pid-change-not-reset")
  let v := obs.entries.flatMap fun (eid, _, lens) =>
    let counts := match r.1.find? (fun t => t.ns == s.ns && t.id == eid) with
      | some t => t.refs.map (·.2)
      | none => []
    (procLenClauses cfg.depth counts (if eid == id then r.2.2 else "growth-without-point") lens).map
      (fun c => s!"{c}:id{eid}")
  ({ st with proc := r.1 }, (r.2.1 ++ v).map (fun c => s!"{c}@proc:{s.ns}:{id}"))

end Supv.Spec.C20
