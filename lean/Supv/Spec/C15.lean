import Supv.Model.App

/-!
# C15 — declarative specification of the application state and operational status

Written from the property statement, not from the code.  `stateOf`, `majorOf`, `minorNarrow`/`minorWide` are
membership / existence definitions over the rows (displayed state, expected-exit flag, required flag) of the
application's processes; `sem` is a compositional denotation of the formulas of the statement's grammar
(process names and patterns combined with and / or / not / any / all).  The theorems of `Supv/Props/C15.lean` relate
the loop-and-exception model (`Supv.App`) to these definitions; the driver evaluates `judge` on what the
IMPLEMENTATION reported.

Readings (DESIGN.md §7):
* a string that does not parse, or is not one expression, is "not a formula": both "ignored — the required-based
  status applies" and "major failure" are accepted; an exception never is;
* "a minor failure when only non-required processes of a managed application are so": the statement does not say
  whether a non-required process that is merely STOPPED while the application is not counts; both readings are
  accepted (`minorNarrow`: FATAL / UNKNOWN / unexpectedly EXITED only; `minorWide`: STOPPED-while-not-stopped too);
* with a formula the statement only speaks of the major failure: the minor failure is not judged then.
-/

namespace Supv.Spec.C15
open Supv.App

/-! ### Application state -/

/-- "STOPPING if any of its processes is STOPPING, otherwise STARTING if any is STARTING or BACKOFF, otherwise
    RUNNING if any is RUNNING, otherwise STOPPED" — over the displayed states -/
def stateOf (ds : List PState) : AState :=
  if PState.stopping ∈ ds then .stopping
  else if PState.starting ∈ ds ∨ PState.backoff ∈ ds then .starting
  else if PState.running ∈ ds then .running
  else .stopped

/-! ### Required-based status -/

/-- what the statement looks at in one process -/
structure Row where
  disp : PState
  expected : Bool
  required : Bool
  deriving DecidableEq, Repr

def rowOf (p : P) : Row := { disp := displayed p, expected := p.expected, required := p.required }

/-- "FATAL, UNKNOWN or unexpectedly EXITED" -/
def failing (r : Row) : Bool :=
  r.disp = .fatal ∨ r.disp = .unknown ∨ (r.disp = .exited ∧ r.expected = false)

/-- "… or STOPPED while the application is not" -/
def so (st : AState) (r : Row) : Bool :=
  failing r || (r.disp = .stopped ∧ st ≠ .stopped)

/-- "a major failure is reported when a required process is FATAL, UNKNOWN or unexpectedly EXITED, or STOPPED while
    the application is not" -/
def majorOf (st : AState) (rows : List Row) : Bool :=
  rows.any (fun r => r.required && so st r)

/-- "a minor failure when only non-required processes of a managed application are so" — narrow reading -/
def minorNarrow (managed : Bool) (st : AState) (rows : List Row) : Bool :=
  managed && !majorOf st rows && rows.any (fun r => !r.required && failing r)

/-- the same, wide reading ("so" includes STOPPED while the application is not) -/
def minorWide (managed : Bool) (st : AState) (rows : List Row) : Bool :=
  managed && !majorOf st rows && rows.any (fun r => !r.required && so st r)

/-- the required-based clause, relational on the one point the statement leaves open -/
def requiredOk (managed : Bool) (rows : List Row) (st : AState) (major minor : Bool) : Bool :=
  major == majorOf st rows && (minor == minorNarrow managed st rows || minor == minorWide managed st rows)

/-! ### Formulas -/

/-- what a process name stands for in a formula: the process is up (starting, running, backing off, or exited
    expectedly) -/
def up (r : Row) : Bool := r.disp.isRunning || (r.disp = .exited ∧ r.expected)

def upAt (rows : List Row) (i : Nat) : Bool :=
  match rows[i]? with
  | some r => up r
  | none => false

mutual
/-- the grammar of the statement: names and patterns combined with and / or / not / any(·) / all(·) -/
def wf : Formula → Bool
  | .str _ => true
  | .notOp x => wf x
  | .boolOp _ vs => wfAll vs
  | .call .all [a] 0 => wf a
  | .call .any [a] 0 => wf a
  | _ => false
def wfAll : List Formula → Bool
  | [] => true
  | f :: t => wf f && wfAll t
end

mutual
/-- Denotation of a formula: a Boolean, a list of Booleans (a pattern matching several processes, to be consumed
    by `any` / `all`), or `none` when the formula is not in the grammar or cannot be resolved (a pattern matching
    nothing, an invalid pattern, a list where a Boolean is needed). -/
def sem (L : List Leaf) (rows : List Row) : Formula → Option Val
  | .str k =>
    match L[k]? with
    | some (.exact p) => some (.b (upAt rows p))
    | some (.matching [p]) => some (.b (upAt rows p))
    | some (.matching (p :: q :: r)) => some (.l ((p :: q :: r).map (upAt rows)))
    | _ => none
  | .notOp x =>
    match sem L rows x with
    | some (.b v) => some (.b (!v))
    | _ => none
  | .boolOp isAnd vs =>
    match semBools L rows vs with
    | some bs => some (.b (if isAnd then bs.all id else bs.any id))
    | none => none
  | .call .all [a] 0 =>
    match sem L rows a with
    | some v => some (.b (v.toList.all id))
    | none => none
  | .call .any [a] 0 =>
    match sem L rows a with
    | some v => some (.b (v.toList.any id))
    | none => none
  | _ => none
/-- operands of and / or: every one must denote a Boolean -/
def semBools (L : List Leaf) (rows : List Row) : List Formula → Option (List Bool)
  | [] => some []
  | f :: t =>
    match sem L rows f, semBools L rows t with
    | some (.b x), some bs => some (x :: bs)
    | _, _ => none
end

/-- "the major failure is the negation of the formula …; any other construct, or a pattern matching nothing, yields
    a major failure" -/
def majorOfFormula (L : List Leaf) (rows : List Row) (f : Formula) : Bool :=
  match sem L rows f with
  | some (.b x) => !x
  | _ => true

/-! ### Judge -/

/-- what the implementation reported -/
inductive Obs where
  | raised                                          -- an exception escaped (loading or `update`)
  | status (st : AState) (major minor : Bool)
  deriving Repr, DecidableEq

/-- Does the observation satisfy the statement?  Returns the first violated clause. -/
def judge (managed : Bool) (L : List Leaf) (ps : List P) (formula : Option Top) (o : Obs) : Option String :=
  let rows := ps.map rowOf
  match o with
  | .raised => some "exception"
  | .status st major minor =>
    if st ≠ stateOf (rows.map (·.disp)) then some "state"
    else
      match formula with
      | none =>
        if major != majorOf st rows then some "required-major"
        else if !requiredOk managed rows st major minor then some "required-minor"
        else none
      | some (.expr f) => if major == majorOfFormula L rows f then none else some "formula-major"
      | some _ => if major || requiredOk managed rows st major minor then none else some "not-a-formula"

/-! ### Root-cause tags (key the signatures of the two repaired findings, should they return) -/

mutual
/-- the formula holds an `any` / `all` call with further positional arguments or keywords (which the current code
    silently drops) -/
def extraArgs : Formula → Bool
  | .call fn args nkw =>
    ((fn = .all ∨ fn = .any) && (decide (2 ≤ args.length) || (decide (1 ≤ args.length) && decide (0 < nkw)))) || extraArgsAny args
  | .boolOp _ vs => extraArgsAny vs
  | .notOp x => extraArgs x
  | .unaryOther x => extraArgs x
  | _ => false
def extraArgsAny : List Formula → Bool
  | [] => false
  | f :: t => extraArgs f || extraArgsAny t
end

def causeTag : Option Top → Option String
  | some (.expr f) => if extraArgs f then some "call-extra-args-ignored" else none
  | some (.stmtValue _) => some "stmt-value-evaluated"
  | _ => none

end Supv.Spec.C15
