import Supv.Model.Proc
import Supv.Spec.C11
import Supv.Drv.Util

/-!
Driver for C11.  Input: one line per operation, `<op> | <implementation observation>`.
Output: `<model observation> | <judge verdict on the implementation observation>`.
-/

namespace Supv.Drv.C11
open Supv.Proc Supv.Drv

structure St where
  ctx : Ctx := {}
  dead : Bool := false                       -- the model raised: the case is over
  hist : List (Nat × List (Nat × POp)) := [] -- per process: time-stamped process-level history (judge input)
  tags : List String := []                   -- root-cause tags met so far in this case
  deriving Inhabited

def histOf (st : St) (pid : Nat) : List (Nat × POp) :=
  match st.hist.find? (·.1 == pid) with
  | some x => x.2
  | none => []

def pushHist (st : St) (pid now : Nat) (op : POp) : St :=
  if st.hist.any (·.1 == pid) then
    { st with hist := st.hist.map (fun x => if x.1 == pid then (x.1, x.2 ++ [(now, op)]) else x) }
  else { st with hist := st.hist ++ [(pid, [(now, op)])] }

def dropHist (st : St) (pid : Nat) : St := { st with hist := st.hist.filter (·.1 != pid) }

def obsProc (pid : Nat) (p : Proc) : String :=
  s!"{pid}={csv (sortNat p.running)}/{p.state.code}/{(displayed p).code}/{b2s p.expectedExit}/{b2s (conflicting p)}"

def obsCtx (c : Ctx) : String :=
  let ids := sortNat (c.procs.map (·.1))
  " ".intercalate (ids.filterMap (fun pid => (c.procs.get? pid).map (obsProc pid)))

def parseSnap (s : String) : Option Snap :=
  match s.splitOn ":" with
  | [p, st, e, et, d] =>
    match p.toNat?, st.toNat? >>= PState.ofCode, et.toNat? with
    | some p, some st, some et => some { proc := p, state := st, expected := s2b e, etime := et, disabled := s2b d }
    | _, _, _ => none
  | _ => none

def parseOp (ws : List String) : Option (Nat × Op) :=
  match ws with
  | "load" :: now :: i :: snaps =>
    match now.toNat?, i.toNat?, snaps.mapM parseSnap with
    | some now, some i, some sn => some (now, .load i sn)
    | _, _, _ => none
  | ["event", now, i, p, s, e, et, d] =>
    match now.toNat?, i.toNat?, p.toNat?, s.toNat? >>= PState.ofCode, et.toNat? with
    | some now, some i, some p, some s, some et => some (now, .event i p s (s2b e) et (s2b d))
    | _, _, _, _, _ => none
  | ["force", now, sender, p, target, s, et] =>
    match now.toNat?, sender.toNat?, p.toNat?, target.toNat?, s.toNat? >>= PState.ofCode, et.toNat? with
    | some now, some sd, some p, some t, some s, some et => some (now, .force sd p t s et)
    | _, _, _, _, _, _ => none
  | ["lose", now, i] =>
    match now.toNat?, i.toNat? with
    | some now, some i => some (now, .lose i)
    | _, _ => none
  | ["remove", now, i, p] =>
    match now.toNat?, i.toNat?, p.toNat? with
    | some now, some i, some p => some (now, .remove i p)
    | _, _, _ => none
  | ["disable", now, i, p, d] =>
    match now.toNat?, i.toNat?, p.toNat? with
    | some now, some i, some p => some (now, .disable i p (s2b d))
    | _, _, _ => none
  | ["tick", now, i, t] =>
    match now.toNat?, i.toNat?, t.toNat? with
    | some now, some i, some t => some (now, .tick i t)
    | _, _, _ => none
  | _ => none

/-- process-level operations that the `Context` op applies (the guards of the glue, read on the model state) -/
def project (c : Ctx) : Op → List (Nat × POp)
  | .load i snaps => snaps.map (fun sn => (sn.proc, POp.add i sn.state sn.expected sn.etime sn.disabled))
  | .event i pid s e et dis => if c.admitted.contains i && hasInfo c pid i then [(pid, .upd i s e et dis)] else []
  | .force sender pid target s et =>
    if c.admitted.contains sender && (c.procs.get? pid).isSome then [(pid, .force target s et)] else []
  | .lose i =>
    if c.admitted.contains i then (c.known.filter (·.1 == i)).map (fun x => (x.2, POp.lose i)) else []
  | .remove i pid => if c.admitted.contains i && hasInfo c pid i then [(pid, .remove i)] else []
  | .disable i pid dis => if c.admitted.contains i && hasInfo c pid i then [(pid, .disable i dis)] else []
  | .tick i t => (c.known.filter (·.1 == i)).map (fun x => (x.2, POp.tick i t))

/-- parse `pid=running/state/displayed/exp/conflict` -/
def parseObs (s : String) : Option (Nat × Supv.Spec.C11.Obs) :=
  match s.splitOn "=" with
  | [pid, rest] =>
    match rest.splitOn "/" with
    | [run, st, disp, _e, conf] =>
      match pid.toNat?, parseCsv run, st.toNat? >>= PState.ofCode, disp.toNat? >>= PState.ofCode with
      | some pid, some run, some st, some disp =>
        some (pid, { running := run, state := st, displayed := disp, conflict := s2b conf })
      | _, _, _, _ => none
    | _ => none
  | _ => none

def judgeAll (st : St) (implObs : List String) : String :=
  let verdicts := implObs.filterMap (fun w =>
    match parseObs w with
    | some (pid, o) => (Supv.Spec.C11.judge (histOf st pid) o).map (fun cl => s!"{pid}:{cl}")
    | none => if w.startsWith "err:" then none else some s!"?:unparsable:{w}")
  -- a process the specification knows (an entry exists) must be reported
  let missing := st.hist.filterMap (fun (pid, h) =>
    if (Supv.Spec.C11.mentioned h).any (fun i => (Supv.Spec.C11.view i h).last.isSome)
        && !(implObs.any (fun w => w.startsWith s!"{pid}=")) then some s!"{pid}:missing" else none)
  let all := verdicts ++ missing
  if all.isEmpty then "J:ok" else "J:" ++ ",".intercalate all

def stepLine (st : St) (line : String) : St × String :=
  let parts := line.splitOn "|"
  let opWords := words (parts.getD 0 "")
  let implObs := words (parts.getD 1 "")
  match opWords with
  | ["new"] => ({}, "new | J:ok | T:-")
  | _ =>
    if st.dead then (st, "dead | J:ok | T:-") else
    match parseOp opWords with
    | none => (st, "bad-op | J:ok | T:-")
    | some (now, op) =>
      let pops := project st.ctx op
      let newTags := pops.filterMap (fun (x : Nat × POp) =>
        (Supv.Spec.C11.causeTag (histOf st x.1) x.2).map (fun t => s!"{x.1}:{t}"))
      let tags := newTags.foldl (fun acc t => if acc.contains t then acc else acc ++ [t]) st.tags
      let st := { st with tags := tags }
      let tagStr := if tags.isEmpty then "T:-" else "T:" ++ ",".intercalate tags
      match step st.ctx now op with
      | .err e => ({ st with dead := true }, s!"err:{e} | J:ok | {tagStr}")
      | .ok c' =>
        let st1 := pops.foldl (fun s (x : Nat × POp) => pushHist s x.1 now x.2) { st with ctx := c' }
        -- a process whose last entry was removed is forgotten (a later snapshot creates a fresh status)
        let st2 := match op with
          | .remove _ pid => if (c'.procs.get? pid).isNone then dropHist st1 pid else st1
          | _ => st1
        let implErr := implObs.any (·.startsWith "err:")
        (st2, obsCtx c' ++ " | " ++ (if implErr then "J:ok" else judgeAll st2 implObs) ++ " | " ++ tagStr)

def main : IO Unit := runLoop ({} : St) stepLine

end Supv.Drv.C11
