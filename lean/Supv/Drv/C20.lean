import Supv.Model.Stats
import Supv.Spec.C20
import Supv.Drv.Util

/-!
Driver for C20.  Input: one line per operation, `<op> | <implementation observation>`.
Output: `<model observation> | <judge verdict on the implementation observation>`.

Operations
* `new <tps> <vs> <depth> <irix 0/1> <judged 0/1> <periods csv>` — both compilers are re-created
* `hpush <id> <now> <cpu w,i,…|_> <mem> <net k,in,out,…|_> <disk …|_> <usage k,v,…|_>`
* `ppush <id> <ns> <pid> <now> <work> <mem> <nb_cores|_>`
* `hget <id> <period index>` / `pget <ns> <id> <period index>` — full dump of one history (not judged)

Observations: words `tag=payload`; every number is a normalised fraction `num/den`; a leading `~` marks a value that
the implementation computes in floating point (compared by the harness within a relative tolerance, in exact
arithmetic); the other numbers are passed through by the code and must be equal.  Dict contents are printed sorted.
-/

namespace Supv.Drv.C20
open Supv.Stats Supv.Drv
open Supv.Spec.C20 (Num TimedLen HostLen HostPt HostObs ProcLen ProcObs)

/-! ### printing -/

def showQ (q : Q) : String :=
  if q.2 = 0 then "zerodiv" else
  let g : Int := Int.gcd q.1 q.2
  if q.2 < 0 then s!"{-q.1 / g}/{-q.2 / g}" else s!"{q.1 / g}/{q.2 / g}"

def join (sep : String) (l : List String) : String := if l.isEmpty then "_" else sep.intercalate l

def byKey {α : Type} (f : α → Nat) (l : List α) : List α := l.mergeSort (fun a b => f a ≤ f b)

def showTimedLens (ts : List Timed) : String :=
  join "," ((byKey (·.key) ts).map fun t => s!"{t.key}:{t.uptimes.length}:" ++ ":".intercalate (t.vals.map (toString ·.length)))

def firstLast (u : Units) (l : List Int) : String :=
  match l.head?, l.getLast? with
  | some a, some b => s!"{showQ (a, u.tps)};{showQ (b, u.tps)}"
  | _, _ => "_;_"

def showHostLens (u : Units) (j : Nat) (h : HostInst) : String :=
  s!"h{j}={h.times.length};{join "," (h.cpu.map (toString ·.length))};{h.mem.length};{showTimedLens h.net};"
    ++ s!"{showTimedLens h.disk};{showTimedLens h.usage};{firstLast u h.times}"

def showRates (l : List (Nat × List Q)) : String :=
  join "," ((byKey (·.1) l).map fun kv => s!"{kv.1}:" ++ ":".intercalate (kv.2.map (fun q => "~" ++ showQ q)))

def showHostPoint (u : Units) (j : Nat) (p : HostPoint) : String :=
  s!"p{j}={showQ (p.t0, u.tps)};{showQ (p.t1, u.tps)};{join "," (p.cpu.map (fun q => "~" ++ showQ q))};{showQ (p.mem, u.vs)};"
    ++ s!"{showRates p.net};{showRates p.disk};"
    ++ join "," ((byKey (·.1) p.usage).map fun kv => s!"{kv.1}:{showQ (kv.2, u.vs)}")

def showErr : Option Err → String
  | none => "ok"
  | some .indexError => "IndexError"
  | some .zeroDivision => "ZeroDivisionError"

def showCores (m : List (Nat × Int)) (id : Nat) : String :=
  match AL.get? m id with
  | some n => toString n
  | none => "_"

def periodIdx (cfg : Cfg) (p : Int) : Nat := (dedup cfg.periods).idxOf p

def hostObs (cfg : Cfg) (c : HostComp) (id : Nat) (pts : List (Int × HostPoint)) (e : Option Err) : String :=
  let hs := (AL.get? c.insts id).getD []
  " ".intercalate ([s!"res={showErr e}", s!"cores={showCores c.cores id}"]
    ++ hs.zipIdx.map (fun (h, j) => showHostLens cfg.u j h)
    ++ pts.map (fun (p, x) => showHostPoint cfg.u (periodIdx cfg p) x))

def showProcInst (u : Units) (p : ProcInst) : String :=
  let fl := match p.times.head?, p.times.getLast? with
    | some a, some b => s!"{showQ (a, u.tps)}:{showQ (b, u.tps)}"
    | _, _ => "_:_"
  s!"{p.times.length}:{p.cpu.length}:{p.mem.length}:{fl}"

def procObs (cfg : Cfg) (c : ProcComp) (ns id : Nat) (pts : List (Int × ProcPoint)) (e : Option Err) : String :=
  let (present, entries) := match AL.get? c.holders ns with
    | some h => ("1", h.entries)
    | none => ("0", [])
  " ".intercalate ([s!"res={showErr e}", s!"cores={showCores c.cores id}", s!"holder={present}"]
    ++ (byKey (·.1) entries).map (fun x => s!"e{x.1}={x.2.1};{join "," (x.2.2.map (showProcInst cfg.u))}")
    ++ pts.map (fun (p, x) =>
        s!"p{periodIdx cfg p}={x.pid};{showQ (x.t0, cfg.u.tps)};{showQ (x.t1, cfg.u.tps)};~{showQ x.cpu};{showQ (x.mem, cfg.u.vs)}"))

def plus (l : List String) : String := join "+" l

def showTimedFull (u : Units) (approx : Bool) (ts : List Timed) : String :=
  join "," ((byKey (·.key) ts).map fun t =>
    s!"{t.key}:{plus (t.uptimes.map (fun x => showQ (x, u.tps)))}:"
      ++ ":".intercalate (t.vals.map (fun l => plus (l.map (fun q => (if approx then "~" else "") ++ showQ q)))))

def hostDump (u : Units) : Option HostInst → String
  | none => "res=none"
  | some h =>
    s!"res=ok times={plus (h.times.map (fun x => showQ (x, u.tps)))} mem={plus (h.mem.map (fun x => showQ (x, u.vs)))} "
      ++ s!"cpu={join ";" (h.cpu.map (fun l => plus (l.map (fun q => "~" ++ showQ q))))} net={showTimedFull u true h.net} "
      ++ s!"disk={showTimedFull u true h.disk} usage={showTimedFull u false h.usage}"

def procDump (u : Units) : Except Err (Option ProcView) → String
  | .error e => s!"res={showErr (some e)}"
  | .ok none => "res=none"
  | .ok (some v) =>
    s!"res=ok times={plus (v.times.map (fun x => showQ (x, u.tps)))} mem={plus (v.mem.map (fun x => showQ (x, u.vs)))} "
      ++ s!"cpu={plus (v.cpu.map (fun q => "~" ++ showQ q))}"

/-! ### parsing -/

def ints (s : String) : Option (List Int) :=
  if s == "_" then some [] else (s.splitOn ",").mapM String.toInt?

def pairs : List Int → List (Int × Int)
  | a :: b :: t => (a, b) :: pairs t
  | _ => []

def triples : List Int → List (Nat × Int × Int)
  | k :: a :: b :: t => (k.toNat, a, b) :: triples t
  | _ => []

def kvs : List Int → List (Nat × Int)
  | k :: a :: t => (k.toNat, a) :: kvs t
  | _ => []

def parseSample (now cpu mem net disk usage : String) : Option Sample :=
  match now.toInt?, ints cpu, mem.toInt?, ints net, ints disk, ints usage with
  | some now, some cpu, some mem, some net, some disk, some usage =>
    some { now := now, cpu := pairs cpu, mem := mem, net := triples net, disk := triples disk, usage := kvs usage }
  | _, _, _, _, _, _ => none

def parsePSample (ns pid now work mem nb : String) : Option PSample :=
  match ns.toNat?, pid.toInt?, now.toInt?, work.toInt?, mem.toInt? with
  | some ns, some pid, some now, some work, some mem =>
    if nb == "_" then some { ns := ns, pid := pid, now := now, work := work, mem := mem }
    else nb.toInt?.map fun n => { ns := ns, pid := pid, now := now, work := work, mem := mem, nbCores := some n }
  | _, _, _, _, _ => none

def parseNum (s : String) : Option Num :=
  let s := if s.startsWith "~" then (s.drop 1).toString else s
  if s == "inf" || s == "-inf" then some .inf
  else if s == "nan" then some .nan
  else match s.splitOn "/" with
    | [a, b] =>
      match a.toInt?, b.toInt? with
      | some a, some b => if b > 0 then some (.fin a b) else none
      | _, _ => none
    | _ => none

def list (sep : String) (s : String) : List String := if s == "_" then [] else s.splitOn sep

def parseTimedLens (s : String) : Option (List TimedLen) :=
  (list "," s).mapM fun item =>
    match item.splitOn ":" with
    | k :: up :: vals =>
      match k.toNat?, up.toNat?, vals.mapM String.toNat? with
      | some k, some up, some vals => some { key := k, up := up, vals := vals }
      | _, _, _ => none
    | _ => none

def parseHostLen (s : String) : Option HostLen :=
  match s.splitOn ";" with
  | [nt, cpu, nm, net, disk, usage, _, _] =>
    match nt.toNat?, (list "," cpu).mapM String.toNat?, nm.toNat?, parseTimedLens net, parseTimedLens disk, parseTimedLens usage with
    | some nt, some cpu, some nm, some net, some disk, some usage =>
      some { times := nt, cpu := cpu, mem := nm, net := net, disk := disk, usage := usage }
    | _, _, _, _, _, _ => none
  | _ => none

def parseRates (s : String) : Option (List (Nat × List Num)) :=
  (list "," s).mapM fun item =>
    match item.splitOn ":" with
    | k :: vals =>
      match k.toNat?, vals.mapM parseNum with
      | some k, some vals => some (k, vals)
      | _, _ => none
    | _ => none

def parseHostPt (s : String) : Option HostPt :=
  match s.splitOn ";" with
  | [_, _, cpu, _, net, disk, _] =>
    match (list "," cpu).mapM parseNum, parseRates net, parseRates disk with
    | some cpu, some net, some disk => some { cpu := cpu, net := net, disk := disk }
    | _, _, _ => none
  | _ => none

/-- `tag<digits>=payload` -/
def tagged (tag : String) (w : String) : Option (Nat × String) :=
  if w.startsWith tag then
    match ((w.drop tag.length).toString).splitOn "=" with
    | [j, payload] => j.toNat?.map (fun j => (j, payload))
    | _ => none
  else none

def parseHostObs (ws : List String) : Option HostObs :=
  let hs := ws.filterMap (tagged "h")
  let ps := ws.filterMap (tagged "p")
  match hs.mapM (fun x => (parseHostLen x.2).map (fun h => (x.1, h))), ps.mapM (fun x => (parseHostPt x.2).map (fun p => (x.1, p))) with
  | some hs, some ps => some { insts := (byKey (·.1) hs).map (·.2), points := ps }
  | _, _ => none

def parseProcLen (s : String) : Option ProcLen :=
  match s.splitOn ":" with
  | nt :: nc :: nm :: _ =>
    match nt.toNat?, nc.toNat?, nm.toNat? with
    | some nt, some nc, some nm => some { times := nt, cpu := nc, mem := nm }
    | _, _, _ => none
  | _ => none

def parseProcObs (ws : List String) : Option ProcObs :=
  let es := ws.filterMap (tagged "e")
  let ps := ws.filterMap (tagged "p")
  let es' := es.mapM fun x =>
    match x.2.splitOn ";" with
    | [pid, insts] =>
      match pid.toInt?, (list "," insts).mapM parseProcLen with
      | some pid, some lens => some (x.1, pid, lens)
      | _, _ => none
    | _ => none
  let ps' := ps.mapM fun x =>
    match x.2.splitOn ";" with
    | [_, _, _, cpu, _] => (parseNum cpu).map (fun q => (x.1, q))
    | _ => none
  match es', ps' with
  | some es, some ps => some { entries := es, points := ps }
  | _, _ => none

/-! ### the loop -/

structure St where
  cfg : Cfg := { depth := 0, periods := [] }
  judged : Bool := true
  w : World := {}
  spec : Supv.Spec.C20.St := {}
  deriving Inhabited

def verdict (judged : Bool) (v : List String) : String :=
  if !judged then "J:skip" else if v.isEmpty then "J:ok" else "J:" ++ ",".intercalate v

def stepLine (st : St) (line : String) : St × String :=
  let parts := line.splitOn "|"
  let opWords := words (parts.getD 0 "")
  let implObs := words (parts.getD 1 "")
  match opWords with
  | ["new", tps, vs, depth, irix, judged, periods] =>
    match tps.toInt?, vs.toInt?, depth.toNat?, ints periods with
    | some tps, some vs, some depth, some periods =>
      ({ cfg := { u := { tps := tps, vs := vs }, depth := depth, periods := periods, irix := s2b irix }, judged := s2b judged },
       "new | J:ok")
    | _, _, _, _ => (st, "bad-op | J:ok")
  | ["hpush", id, now, cpu, mem, net, disk, usage] =>
    match id.toNat?, parseSample now cpu mem net disk usage with
    | some id, some s =>
      let r := step st.cfg st.w (.hpush id s)
      let o := match r.2 with
        | .host pts e => hostObs st.cfg r.1.host id pts e
        | _ => "?"
      match parseHostObs implObs with
      | some obs =>
        let j := Supv.Spec.C20.hostJudge st.cfg st.spec id s obs
        ({ st with w := r.1, spec := j.1 }, o ++ " | " ++ verdict st.judged j.2)
      | none => ({ st with w := r.1 }, o ++ " | J:unparsable")
    | _, _ => (st, "bad-op | J:ok")
  | ["ppush", id, ns, pid, now, work, mem, nb] =>
    match id.toNat?, parsePSample ns pid now work mem nb with
    | some id, some s =>
      let r := step st.cfg st.w (.ppush id s)
      let o := match r.2 with
        | .proc pts e => procObs st.cfg r.1.proc s.ns id pts e
        | _ => "?"
      match parseProcObs implObs with
      | some obs =>
        let j := Supv.Spec.C20.procJudge st.cfg st.spec id s obs
        ({ st with w := r.1, spec := j.1 }, o ++ " | " ++ verdict st.judged j.2)
      | none => ({ st with w := r.1 }, o ++ " | J:unparsable")
    | _, _ => (st, "bad-op | J:ok")
  | ["hget", id, j] =>
    match id.toNat?, j.toNat? with
    | some id, some j =>
      let h := match (dedup st.cfg.periods)[j]? with
        | some p => st.w.host.get id p
        | none => none
      (st, hostDump st.cfg.u h ++ " | J:ok")
    | _, _ => (st, "bad-op | J:ok")
  | ["pget", ns, id, j] =>
    match ns.toNat?, id.toNat?, j.toNat? with
    | some ns, some id, some j =>
      let r := match (dedup st.cfg.periods)[j]? with
        | some p => st.w.proc.get st.cfg.irix ns id p
        | none => .ok none
      (st, procDump st.cfg.u r ++ " | J:ok")
    | _, _, _ => (st, "bad-op | J:ok")
  | _ => (st, "bad-op | J:ok")

def main : IO Unit := runLoop ({} : St) stepLine

end Supv.Drv.C20
