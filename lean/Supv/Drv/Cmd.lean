import Supv.Model.Cmd
import Supv.Drv.Util

/-!
Driver of the commander model.  Input: `world ...` / `app ...` / `proc ...` configuration lines, then
`op <now> <operation...> | <implementation observation>`.  Output: `<model observation> | <judge verdicts>`.
-/

namespace Supv.Drv.Cmd
open Supv.Proc Supv.Cmd Supv.Drv

def parseNatList (s : String) : List Nat :=
  if s == "-" then [] else (s.splitOn ",").filterMap (·.toNat?)

def showOut : Out → String
  | .start p i => s!"start:{p}>{i}"
  | .force p s nr => s!"force:{p}:{s.code}:{if nr then 1 else 0}"
  | .stop p i => s!"stop:{p}>{i}"

def obs (w : W) : String :=
  let prog := !w.planned.isEmpty || !w.current.isEmpty
  let sprog := !w.splanned.isEmpty || !w.scurrent.isEmpty
  s!"out=[{String.intercalate "," (w.out.map showOut)}] starting={prog} stopping={sprog}"

def FUEL := 200

def pstate (s : String) : PState := (PState.ofCode s.toNat!).getD .unknown

def action (rest : List String) : Option (M Unit) :=
  match rest with
  | ["info", i, p, st, ex, et, lt, dis] => some (do
      -- add_info (snapshot)
      let x ← proc p.toNat!
      let s := pstate st
      let x1 := { x with infos := setInfo x.infos i.toNat! { state := s, expected := s2b ex, ltime := lt.toNat!, etime := et.toNat!,
                                                             nowm := et.toNat!, disabled := s2b dis },
                         forced := none }
      setProc p.toNat! (updateStatusT x1 i.toNat! s))
  | ["event", i, p, st, ex, et, lt] => some (do
      let x ← proc p.toNat!
      let s := pstate st
      let dis := match getInfo x.infos i.toNat! with | some v => v.disabled | none => false
      let x1 := { x with infos := setInfo x.infos i.toNat! { state := s, expected := s2b ex, ltime := lt.toNat!, etime := et.toNat!,
                                                             nowm := et.toNat!, disabled := dis }, forced := none }
      setProc p.toNat! (updateStatusT x1 i.toNat! s)
      starterOnEvent FUEL p.toNat! i.toNat!
      stopperOnEvent FUEL p.toNat! i.toNat!)
  | ["startapp", a, strat] => some (startApplication FUEL a.toNat! (Strategy.ofCode strat.toNat!))
  | ["tick", i] => some (modify fun w => { w with counter := w.counter.set i.toNat! (w.counter.getD i.toNat! 0 + 1) })
  | ["check"] => some (do starterCheck FUEL; stopperCheck FUEL)
  | ["stopapp", a] => some (stopApplication FUEL a.toNat!)
  | ["restartapp", a, strat] => some (restartApplication FUEL a.toNat! (Strategy.ofCode strat.toNat!))
  | _ => none

def stepLine (w : W) (line : String) : W × String :=
  let parts := line.splitOn "|"
  match words (parts.getD 0 "") with
  | ["world", ninst, me, nodes, running] =>
    ({ ninst := ninst.toNat!, me := me.toNat!, node := parseNatList nodes, instRunning := (parseNatList running).map (· == 1),
       counter := List.replicate ninst.toNat! 0, pcfg := [], acfg := [], procs := [] }, "ok")
  | ["app", sseq, strat, stseq] =>
    ({ w with acfg := w.acfg ++ [{ startSeq := sseq.toNat!, strategy := Strategy.ofCode strat.toNat!, stopSeq := stseq.toNat! }] }, "ok")
  | ["proc", app, sseq, req, we, load, sf, idents, startsecs, stseq, stopwait] =>
    let c : PCfg := { app := app.toNat!, startSeq := sseq.toNat!, required := s2b req, waitExit := s2b we, load := load.toNat!,
                      sfail := if sf == "ABORT" then .abort else if sf == "STOP" then .stop else .cont,
                      idents := if idents == "*" then none else some (parseNatList idents), startsecs := startsecs.toNat!,
                      stopSeq := stseq.toNat!, stopwaitsecs := stopwait.toNat! }
    ({ w with pcfg := w.pcfg ++ [c], procs := w.procs ++ [{}] }, "ok")
  | "op" :: now :: rest =>
    let w := { w with now := now.toNat!, out := [] }
    match action rest with
    | none => (w, "bad-op")
    | some a => let (_, w') := a.run w; (w', obs w' ++ " | J:ok")
  | _ => (w, "bad-op")

def main : IO Unit := runLoop (default : W) stepLine

end Supv.Drv.Cmd
