import Supv.Model.Cmd
import Supv.Spec.Cmd
import Supv.Drv.Util

/-!
Driver of the commander model.  Input: `world ...` / `app ...` / `proc ...` configuration lines, then
`op <now> <operation...> | <implementation observation>`.  Output: `<model observation> | <judge verdicts>`.
-/

namespace Supv.Drv.Cmd
open Supv.Proc Supv.Cmd Supv.Drv Supv.Spec.Cmd

def parseNatList (s : String) : List Nat :=
  if s == "-" then [] else (s.splitOn ",").filterMap (·.toNat?)

def showOut : Out → String
  | .start p i k st sg => s!"start:{p}>{i}@{k}/{st.code}{if sg then "s" else ""}"
  | .force p s nr k => s!"force:{p}:{s.code}:{if nr then 1 else 0}@{k}"
  | .stop p i => s!"stop:{p}>{i}"

def obs (w : W) : String :=
  let prog := !w.planned.isEmpty || !w.current.isEmpty
  let sprog := !w.splanned.isEmpty || !w.scurrent.isEmpty
  -- a Python exception aborted the operation: what was emitted before it, and its class (the case ends there)
  match w.exc with
  | some cls => s!"out=[{String.intercalate "," (w.out.map showOut)}] exc={cls}"
  | none => s!"out=[{String.intercalate "," (w.out.map showOut)}] starting={prog} stopping={sprog}"

def FUEL := 200

def pstate (s : String) : PState := (PState.ofCode s.toNat!).getD .unknown

def resOr (r : Res Proc) (x : Proc) : Proc := match r with | .ok y => y | .err _ => x

def eventOp (i p : Nat) (s : PState) (ex : Bool) (et lt : Nat) (dis : Option Bool) : M Unit := do
  -- Context.on_process_state_event: accepted from CHECKED / RUNNING instances, about a process known on the instance
  if acceptsEvents (← get) i then
    let x ← proc p
    if (getInfo x.infos i).isSome then
      setProc p (resOr (updateInfo x i s ex et dis lt) x)
      noteStopMark p i s
      starterOnEvent FUEL p i
      stopperOnEvent FUEL p i

def action (rest : List String) : Option (M String) :=
  match rest with
  | ["info", i, p, st, ex, et, lt, dis] => some (do
      -- add_info (handshake snapshot)
      let x ← proc p.toNat!
      setProc p.toNat! (resOr (addInfo x i.toNat! (pstate st) (s2b ex) et.toNat! (s2b dis) lt.toNat!) x)
      clearStopMark p.toNat! i.toNat!
      return "")
  | ["event", i, p, st, ex, et, lt] => some (do
      eventOp i.toNat! p.toNat! (pstate st) (s2b ex) et.toNat! lt.toNat! none; return "")
  | ["event", i, p, st, ex, et, lt, dis] => some (do
      eventOp i.toNat! p.toNat! (pstate st) (s2b ex) et.toNat! lt.toNat! (some (s2b dis)); return "")
  | ["startapp", a, strat] => some (do startApplication FUEL a.toNat! (Strategy.ofCode strat.toNat!); return "")
  | ["tick", i] => some (do modify fun w => { w with counter := w.counter.set i.toNat! (w.counter.getD i.toNat! 0 + 1) }; return "")
  | ["check"] => some (do starterCheck FUEL; stopperCheck FUEL; return "")
  | ["stopapp", a] => some (do stopApplication FUEL a.toNat!; return "")
  | ["stopapps"] => some (do stopApplications FUEL; return "")
  | ["startapps"] => some (do
      let stored ← startApplications FUEL
      return s!" auto=[{",".intercalate (stored.map (fun (k, a) => s!"{k}:{a}"))}]")
  | ["startproc", p, strat] => some (do startProcess FUEL p.toNat! (Strategy.ofCode strat.toNat!); return "")
  | ["restartapp", a, strat] => some (do restartApplication FUEL a.toNat! (Strategy.ofCode strat.toNat!); return "")
  | ["lose", i] => some (do
      let f ← loseInstance FUEL i.toNat!
      return s!" failed=[{",".intercalate (f.map toString)}]")
  | ["lose", i, i2] => some (do
      let f ← loseInstances FUEL (sortNat [i.toNat!, i2.toNat!])
      return s!" failed=[{",".intercalate ((sortNat f).map toString)}]")
  | ["inst", i, k] => some (do
      modify fun w => { w with instRunning := w.instRunning.set i.toNat! (k == "2"), instChecked := w.instChecked.set i.toNat! (k == "1") }
      return "")
  | ["force", p, i, st, et] => some (do
      -- a forced state received for the process (`force_state`: dismissed when newer information from the target has arrived)
      let x ← proc p.toNat!
      setProc p.toNat! (forceState x i.toNat! (pstate st) et.toNat!).1
      return "")
  | ["remove", i, p] => some (do
      -- Context.on_process_removed_event: the entry of the instance is deleted (`remove_identifier`)
      let w ← get
      let x ← proc p.toNat!
      if acceptsEvents w i.toNat! && (getInfo x.infos i.toNat!).isSome then
        setProc p.toNat! (match Supv.Proc.removeIdentifier x i.toNat! with | .ok y => y | .err _ => { x with infos := x.infos.del i.toNat! })
      return "")
  | ["disable", i, p, dis] => some (do
      disableProcess i.toNat! p.toNat! (s2b dis)
      let x ← proc p.toNat!
      return s!" dis={match getInfo x.infos i.toNat! with | some v => (if v.disabled then "1" else "0") | none => "-"}")
  | _ => none

/-- the requests the implementation emitted: the bracketed list after `out=[` -/
def parseReqs (obs : String) : List Req :=
  match obs.splitOn "out=[" with
  | _ :: rest :: _ =>
    match rest.splitOn "]" with
    | inner :: _ =>
      if inner.isEmpty then [] else
      (inner.splitOn ",").filterMap (fun x =>
        match x.splitOn ":" with
        | ["start", pi] => match pi.splitOn ">" with
          | [p, rest] => match rest.splitOn "@" with
            | [i, ks] => match ks.splitOn "/" with
              | [k, st] =>
                let sg := st.endsWith "s"
                match p.toNat?, i.toNat?, k.toNat?, ((st.splitOn "s").headD "").toNat? with
                | some p, some i, some k, some st => some (Req.start p i k (Strategy.ofCode st) sg)
                | _, _, _, _ => none
              | _ => none
            | _ => none
          | _ => none
        | ["stop", pi] => match pi.splitOn ">" with
          | [p, i] => match p.toNat?, i.toNat? with | some p, some i => some (Req.stop p i) | _, _ => none
          | _ => none
        | ["force", p, st, nrk] => match nrk.splitOn "@" with
          | [nr, k] => match p.toNat?, st.toNat? >>= PState.ofCode, k.toNat? with
            | some p, some st, some k => some (Req.force p st (nr == "1") k)
            | _, _, _ => none
          | _ => none
        | _ => none)
    | [] => []
  | _ => []

/-- the application starts stored by `start_applications`, as the implementation reported them: `auto=[rank:application,...]` -/
def parseAuto (obs : String) : List (Nat × Nat) :=
  match obs.splitOn "auto=[" with
  | _ :: rest :: _ =>
    match rest.splitOn "]" with
    | inner :: _ => (inner.splitOn ",").filterMap (fun x => match x.splitOn ":" with
        | [k, a] => match k.toNat?, a.toNat? with | some k, some a => some (k, a) | _, _ => none
        | _ => none)
    | [] => []
  | _ => []

structure D where
  w : W := default
  j : Judge := {}
  deriving Inhabited

/-- the processes of application `a` that are running or stopping -/
def activeOf (w : W) (a : Nat) : List Nat :=
  (List.range w.pcfg.length).filter (fun q => (pc w q).app == a && ((pr w q).state.isRunning || (pr w q).state == .stopping))

/-- a stop of application `a` is requested -/
def beginStop (w0 : W) (j : Judge) (a : Nat) : Judge :=
  let busy := j.stops.any (fun r => (pc w0 r.1).app == a) || !w0.splanned.isEmpty || !w0.scurrent.isEmpty
  { j with stopRuns := j.stopRuns ++ [a], givenUp := j.givenUp.filter (fun q => (pc w0 q).app != a), stopSet := j.stopSet ++ activeOf w0 a,
           wasStopping := j.wasStopping ++ (activeOf w0 a).filter (fun q => (pr w0 q).state == .stopping),
           -- a stop the monitor was not told about (the STOP starting failure strategy) may still be going on: its requests are outstanding
           -- ... or have been dropped with a lost instance while its job goes on: the Stopper of the world (in lock-step with the real one)
           -- still holds a job for the application
           overlap := if (busy && j.stopRuns.contains a) || j.stops.any (fun r => (pc w0 r.1).app == a)
                         || w0.scurrent.any (·.app == a) || w0.splanned.any (fun kjs => kjs.2.any (·.app == a))
                      then j.overlap ++ [a] else j.overlap }

/-- fold the monitor over one operation: `w0` world before, `w1` world after, `reqs` what the implementation emitted -/
def judgeOp (w0 w1 : W) (j : Judge) (rest : List String) (reqs : List Req) (starting stopping : Bool) (implObs : String) : Judge × List String :=
  let (j0, pre) : Judge × List String := match rest with
    | ["startapps"] =>
      -- the application starts stored by the automatic start are known from now on (what their processes report is recorded)
      ((parseAuto implObs).foldl (fun (j : Judge) (ka : Nat × Nat) => setRun j { id := ka.1, app := ka.2, auto := true }) j, [])
    | ["stopapps"] =>
      let busy := !j.stops.isEmpty || !w0.splanned.isEmpty || !w0.scurrent.isEmpty
      let apps := (List.range w0.acfg.length).filter (fun a => !(activeOf w0 a).isEmpty)
      ({ (apps.foldl (fun (j : Judge) a => beginStop w0 j a) j) with stopAll := if busy then [] else apps }, [])
    | "event" :: i :: p :: st :: ex :: _ =>
      if acceptsEvents w0 i.toNat! && ((pr w0 p.toNat!).infos.get? i.toNat!).isSome
      then (onEvent w1 j p.toNat! i.toNat! (pstate st) (s2b ex), []) else (j, [])
    | ["lose", i] => onLose w1 j i.toNat!
    | ["lose", i, i2] => let (j1, v1) := onLose w1 j i.toNat!; let (j2, v2) := onLose w1 j1 i2.toNat!; (j2, v1 ++ v2)
    | ["restartapp", a, _] =>
      if hasRunningProcesses w0 a.toNat! then (beginStop w0 j a.toNat!, []) else (j, [])
    | ["stopapp", a] => (beginStop w0 j a.toNat!, [])
    | ["check"] => (j, onCheck w1 j reqs)
    | ["startproc", p, _] =>
      -- the first request counts (a process already planned is not considered again), and only for a stopped process
      if j.added.any (fun x => x.1 == p.toNat!) || !(pr w0 p.toNat!).state.isStopped then (j, [])
      else ({ j with added := j.added ++ [(p.toNat!, j.opIdx, { w1 with out := [] })] }, [])
    | _ => (j, [])
  -- whatever made a process change state in this operation (a report, the loss of its instance, a handshake snapshot) is seen
  -- by every application start of its application
  let changed := (List.range w1.pcfg.length).filter (fun q => (pr w0 q).state != (pr w1 q).state)
  let j0 := if changed.isEmpty then j0 else
    { j0 with runs := j0.runs.map (fun run => { run with touched := run.touched ++ changed.filter (fun q => (pc w1 q).app == run.app) }) }
  -- a process that became stopped-like by any means (the loss of its instance, a handshake snapshot) has been stopped: a later life
  -- of it is not part of the stops requested before
  let halted := changed.filter (fun q => (pr w1 q).state.isStopped)
  let j0 := if halted.isEmpty then j0 else
    let j0' := halted.foldl stopSettled j0
    { j0' with stopSet := j0'.stopSet.filter (fun q => !halted.contains q), wasStopping := j0'.wasStopping.filter (fun q => !halted.contains q) }
  let (j1, v1) := reqs.foldl (fun (acc : Judge × List String) r => let (j', v) := onReq w1 reqs acc.1 r; (j', acc.2 ++ v)) (j0, pre)
  let (j2, v2) := onIdle j1 starting
  let (j3, v3) := onOpEnd w1 j2 stopping
  -- the stop of all applications is over when the Stopper reports nothing in progress
  ({ j3 with stopAll := (if stopping then j3.stopAll else []), opIdx := j3.opIdx + 1 }, v1 ++ v2 ++ v3)

def stepLine (d : D) (line : String) : D × String :=
  let w := d.w
  let lift (r : W × String) : D × String := ({ d with w := r.1, j := {} }, r.2)
  let parts := line.splitOn "|"
  match words (parts.getD 0 "") with
  | ["world", ninst, me, nodes, running] => lift
    ({ ninst := ninst.toNat!, me := me.toNat!, node := parseNatList nodes, instRunning := (parseNatList running).map (· == 1),
       instChecked := List.replicate ninst.toNat! false, counter := List.replicate ninst.toNat! 0, pcfg := [], acfg := [], procs := [] }, "ok")
  | ["app", sseq, strat, stseq] => lift
    ({ w with acfg := w.acfg ++ [{ startSeq := sseq.toNat!, strategy := Strategy.ofCode strat.toNat!, stopSeq := stseq.toNat! }] }, "ok")
  | ["app", sseq, strat, stseq, dist, idents] => lift
    ({ w with acfg := w.acfg ++ [{ startSeq := sseq.toNat!, strategy := Strategy.ofCode strat.toNat!, stopSeq := stseq.toNat!,
                                   distribution := Dist.ofCode dist.toNat!,
                                   idents := if idents == "*" then none else some (parseNatList idents) }] }, "ok")
  | ["proc", app, sseq, req, we, load, sf, idents, startsecs, stseq, stopwait] =>
    let c : PCfg := { app := app.toNat!, startSeq := sseq.toNat!, required := s2b req, waitExit := s2b we, load := load.toNat!,
                      sfail := if sf == "ABORT" then .abort else if sf == "STOP" then .stop else .cont,
                      idents := if idents == "*" then none else some (parseNatList idents), startsecs := startsecs.toNat!,
                      stopSeq := stseq.toNat!, stopwaitsecs := stopwait.toNat! }
    lift ({ w with pcfg := w.pcfg ++ [c], procs := w.procs ++ [{}] }, "ok")
  | ["op", now, "teststart", a, strat] =>
    -- prediction: the world is not touched
    let w := { w with now := now.toNat!, out := [] }
    let outs := testStartApplication w a.toNat! (Strategy.ofCode strat.toNat!)
    let items := outs.filterMap (fun o => match o with
      | .start p i _ _ _ => some (p, s!"{p}>{i}")
      | .force p _ true _ => some (p, s!"{p}!")
      | _ => none)
    let sorted := (sortNat (items.map (·.1))).eraseDups.flatMap (fun p => (items.filter (·.1 == p)).map (·.2))
    ({ d with w := w }, s!"pred=[{",".intercalate sorted}] | J:ok")
  | "op" :: now :: rest =>
    let w := { w with now := now.toNat!, out := [] }
    match action rest with
    | none => (d, "bad-op")
    | some a =>
      let (extra, w') := a.run w
      let implObs := parts.getD 1 ""
      let (j', verdicts0) := judgeOp w w' d.j rest (parseReqs implObs) ((implObs.splitOn "starting=true").length > 1)
        ((implObs.splitOn "stopping=true").length > 1) implObs
      -- the implementation dropped a job object while its group was being processed (root cause of the untracked requests):
      -- what is emitted in such an operation is attributed to that root cause
      let verdicts := if (implObs.splitOn "orphan=1").length > 1 then ["C10-start-request-untracked:job-dropped-while-processing"]
        -- the implementation raised: the operation was cut short, the exception itself is what is reported (by the harness)
        else if (implObs.splitOn "exc=").length > 1 then [] else verdicts0
      ({ w := w', j := j' }, obs w' ++ (if w'.exc.isSome then "" else extra) ++ " | " ++ (if verdicts.isEmpty then "J:ok" else "J:" ++ ";".intercalate verdicts))
  | _ => (d, "bad-op")

def main : IO Unit := runLoop (default : D) stepLine

end Supv.Drv.Cmd
