import Supv.Model.Rules
import Supv.Spec.C18
import Supv.Drv.Util

/-!
Driver for C18.  Input: one line per operation, `<op> | <implementation observation>`.
Output: `<model observation> | J:<verdict of the judge on the implementation observation> | T:<cause tag>`.
Strings travel hex-encoded (`~` = empty string, `_` = absent, `=<hex>` = present, `-` = empty list).
-/

namespace Supv.Drv.C18
open Supv.Rules Supv.Drv

/-! ### transport -/

def hexVal (c : Char) : Nat :=
  if c.isDigit then c.toNat - '0'.toNat else c.toNat - 'a'.toNat + 10

def unhexL : List Char → List Char
  | a :: b :: t => Char.ofNat (hexVal a * 16 + hexVal b) :: unhexL t
  | _ => []

def unhex (s : String) : String := if s == "~" then "" else String.ofList (unhexL s.toList)

def hexDigit (n : Nat) : Char := if n < 10 then Char.ofNat ('0'.toNat + n) else Char.ofNat ('a'.toNat + n - 10)

def hexS (s : String) : String :=
  if s == "" then "~" else String.ofList (s.toList.flatMap (fun c => [hexDigit (c.toNat / 16), hexDigit (c.toNat % 16)]))

/-- `_` = absent, `=<hex>` = present -/
def optStr (s : String) : Option String := if s == "_" then none else some (unhex (String.ofList (s.toList.drop 1)))
def showOpt (o : Option String) : String := match o with | none => "_" | some s => "=" ++ hexS s

def csvS (l : List String) : String := if l.isEmpty then "-" else ",".intercalate (l.map hexS)
def parseCsvS (s : String) : List String := if s == "-" then [] else (s.splitOn ",").map unhex

def showInt (i : Int) : String := toString i
def parseInt (s : String) : Int := s.toInt?.getD 0

def showIds (i : Ids) : String := s!"ids={csvS i.identifiers} at={csvS i.atIds} hash={csvS i.hashIds}"

def showProc (r : ProcRules) : String :=
  s!"{showIds r.ids} start={showInt r.startSeq} stop={showInt r.stopSeq} req={b2s r.required} wait={b2s r.waitExit} load={showInt r.load} sfs={r.sfs} rfs={r.rfs}"

def showApp (r : AppRules) : String :=
  s!"managed={b2s r.managed} dist={r.distribution} {showIds r.ids} start={showInt r.startSeq} stop={showInt r.stopSeq} strat={r.startingStrategy} sfs={r.sfs} rfs={r.rfs} formula={showOpt r.statusFormula}"

def field (ws : List String) (k : String) : String :=
  match ws.find? (fun w => w.startsWith (k ++ "=")) with
  | some w => String.ofList (w.toList.drop (k.length + 1))
  | none => ""

def parseIds (ws : List String) : Ids :=
  { identifiers := parseCsvS (field ws "ids"), atIds := parseCsvS (field ws "at"), hashIds := parseCsvS (field ws "hash") }

def parseProc (ws : List String) : ProcRules :=
  { ids := parseIds ws, startSeq := parseInt (field ws "start"), stopSeq := parseInt (field ws "stop"),
    required := s2b (field ws "req"), waitExit := s2b (field ws "wait"), load := parseInt (field ws "load"),
    sfs := field ws "sfs", rfs := field ws "rfs" }

def parseApp (ws : List String) : AppRules :=
  { managed := s2b (field ws "managed"), distribution := field ws "dist", ids := parseIds ws,
    startSeq := parseInt (field ws "start"), stopSeq := parseInt (field ws "stop"), startingStrategy := field ws "strat",
    sfs := field ws "sfs", rfs := field ws "rfs", statusFormula := optStr (field ws "formula") }

def implErr (ws : List String) : Option String :=
  match ws with
  | [w] => if w.startsWith "err:" then some (String.ofList (w.toList.drop 4)) else none
  | _ => none

def showPeriod : Period → String
  | .nan => "nan"
  | .val n d => s!"{n}/{d}"

def parsePeriod (s : String) : Period :=
  if s == "nan" then .nan
  else match s.splitOn "/" with
    | [a, b] => .val (a.toNat?.getD 0) (b.toNat?.getD 1)
    | _ => .nan

def showOptions (o : Options) : String :=
  let lst := match o.supvisorsList with | none => "_" | some l => "=" ++ csvS l
  let mg := match o.multicastGroup with | none => "_" | some (a, p) => s!"={hexS a}:{showInt p}"
  s!"list={lst} mgroup={mg} miface={showOpt o.multicastInterface} ttl={showInt o.multicastTtl} link={o.eventLink} port={showInt o.eventPort} fence={b2s o.autoFence} sync={csvS o.synchroOptions} to={showInt o.synchroTimeout} ticks={showInt o.inactivityTicks} core={csvS (o.coreIdentifiers.mergeSort (fun a b => a ≤ b))} conc={o.conciliation} strat={o.startingStrategy} fail={o.failureStrategy} host={b2s o.hostStats} proc={b2s o.procStats} period={showPeriod o.collectingPeriod} periods={",".intercalate (o.statsPeriods.map showPeriod)} histo={showInt o.statsHisto} irix={b2s o.irixMode} tail={showInt o.tailLimit} tailf={showInt o.tailfLimit}"

def parseOptions (ws : List String) : Options :=
  let lst := field ws "list"
  let mg := field ws "mgroup"
  { supvisorsList := if lst == "_" then none else some (parseCsvS (String.ofList (lst.toList.drop 1)))
    multicastGroup := if mg == "_" then none else
      match (String.ofList (mg.toList.drop 1)).splitOn ":" with
      | [a, p] => some (unhex a, parseInt p)
      | _ => none
    multicastInterface := optStr (field ws "miface")
    multicastTtl := parseInt (field ws "ttl"), eventLink := field ws "link", eventPort := parseInt (field ws "port")
    autoFence := s2b (field ws "fence"), synchroOptions := parseCsvS (field ws "sync")
    synchroTimeout := parseInt (field ws "to"), inactivityTicks := parseInt (field ws "ticks")
    coreIdentifiers := parseCsvS (field ws "core"), conciliation := field ws "conc", startingStrategy := field ws "strat"
    failureStrategy := field ws "fail", hostStats := s2b (field ws "host"), procStats := s2b (field ws "proc")
    collectingPeriod := parsePeriod (field ws "period")
    statsPeriods := ((field ws "periods").splitOn ",").map parsePeriod
    statsHisto := parseInt (field ws "histo"), irixMode := s2b (field ws "irix")
    tailLimit := parseInt (field ws "tail"), tailfLimit := parseInt (field ws "tailf") }

/-! ### state -/

structure St where
  doc : Doc := {}
  mapper : Mapper := {}
  group : Group := {}
  dfltSync : List String := syncDefault
  deriving Inhabited

def parseChild (s : String) : Option (String × String) :=
  match s.splitOn ":" with
  | [t, v] => some (unhex t, unhex v)
  | _ => none

def mkElt (n p : String) (children : List String) : Elt :=
  { name := optStr n, pattern := optStr p, children := children.filterMap parseChild }

def parsePair (s : String) : Option (String × String) :=
  match s.splitOn ":" with
  | [a, b] => some (unhex a, unhex b)
  | _ => none

def verdict (v : Option (String × String)) : String :=
  match v with
  | none => "J:ok | T:-"
  | some (c, t) => s!"J:{c} | T:{if t == "" then "-" else t}"

def withCov (out cov : String) : String := out ++ " | C:" ++ cov

def r0Proc (sfs rfs : String) : ProcRules := { sfs := sfs, rfs := rfs }

/-! ### coverage flags (statistics of the generator only; never compared) -/

def nMatching {α} (d : Doc) (name : String) (pats : List (String × α)) : Nat :=
  (pats.filter (fun kv => match matchRes d kv.1 name with | .len _ => true | _ => false)).length

def covApp (d : Doc) (app : String) : String :=
  match d.apps.find? (fun a => a.elt.name == some app) with
  | some _ => "look=exact nmatch=0"
  | none =>
    let n := nMatching d app (patternDict (·.elt.pattern) d.apps)
    s!"look={if n == 0 then "none" else "pat"} nmatch={n}"

def covProc (d : Doc) (app proc : String) : String :=
  match getApplicationElement d app with
  | .ok (some a) =>
    match a.programs.find? (fun p => p.name == some proc) with
    | some p => s!"look=exact nmatch=0 chain={(Supv.Spec.C18.chain d LOOP_CHECK p).length} ties=1"
    | none =>
      let n := nMatching d proc (patternDict (·.pattern) a.programs)
      let ch := match getProgramIn d a proc with
        | .ok (some e, _) => (Supv.Spec.C18.chain d LOOP_CHECK e).length
        | _ => 0
      s!"look={if n == 0 then "none" else "pat"} nmatch={n} chain={ch} ties={(Supv.Spec.C18.progCandidates d app proc).length}"
  | .ok none => "look=noapp nmatch=0 chain=0 ties=1"
  | .error _ => "look=error nmatch=0 chain=0 ties=1"

def covGroup (g : Group) : String :=
  s!"sign={if optNonEmpty g.atIds then "at" else if optNonEmpty g.hashIds then "hash" else "none"} size={g.procs.length}"

def covOpts (cfg : Config) (dflt : List String) : String :=
  let bad (k : String) (ok : String → Bool) : Nat := match lookupStr cfg k with | some v => if ok v then 0 else 1 | none => 0
  let n := bad "multicast_ttl" (fun v => (toRanged 0 255 v).isSome) + bad "event_port" (fun v => (toRanged 1 65535 v).isSome)
    + bad "synchro_timeout" (fun v => (toRanged 15 1200 v).isSome) + bad "inactivity_ticks" (fun v => (toRanged 2 720 v).isSome)
    + bad "stats_histo" (fun v => (toRanged 10 1500 v).isSome) + bad "event_link" (fun v => (toEnumUpper linkNames v).isSome)
    + bad "conciliation_strategy" (fun v => (toEnumUpper concNames v).isSome) + bad "starting_strategy" (fun v => (toEnumUpper startNames v).isSome)
    + bad "supvisors_failure_strategy" (fun v => (toEnumUpper failNames v).isSome) + bad "auto_fence" (fun v => (svBoolean v).isSome)
    + bad "stats_irix_mode" (fun v => (svBoolean v).isSome) + bad "synchro_options" (fun v => (toSynchroOptions v).isSome)
    + bad "stats_enabled" (fun v => (toStatisticsType v).isSome) + bad "stats_collecting_period" (fun v => (toPeriod v).isSome)
    + bad "stats_periods" (fun v => (toPeriods v).isSome) + bad "tail_limit" (fun v => (byteSize v).isSome)
    + bad "tailf_limit" (fun v => (byteSize v).isSome) + bad "multicast_group" (fun v => (toMulticastGroup v).isSome)
    + bad "multicast_interface" (fun v => (toIpAddress v).isSome)
  let o := convertOptions dflt cfg
  let cleaned := synchroCleanup o != o.synchroOptions
  let forced := match checkOptions o with | .ok o' => o'.failureStrategy != o.failureStrategy | .error _ => false
  s!"fallback={n} cleaned={b2s cleaned} forced={b2s forced} keys={cfg.length}"

/-- the group members named by `proc:index` words, with their rules resolved by the MODEL -/
def modelMembers (st : St) (app sfs rfs : String) (ws : List String) : List GProc :=
  ws.filterMap (fun w => match w.splitOn ":" with
    | [p, i] =>
      match loadProgramRules st.doc app (unhex p) (r0Proc sfs rfs) with
      | .ok r => some { name := unhex p, index := i.toNat?.getD 0, ids := r.ids }
      | .error _ => none
    | _ => none)

def showMember (p : GProc) : String := s!"{hexS p.name}={csvS p.ids.identifiers}/{csvS p.ids.atIds}/{csvS p.ids.hashIds}"

/-- implementation observation of a group: `name:index=ids/at/hash>ids/at/hash` (before > after) or `err:X` as last word -/
def parseImplGroup (ws : List String) : List GProc × Except Err (List GProc) :=
  let items := ws.filterMap (fun w =>
    match w.splitOn "=" with
    | [ni, rest] =>
      match ni.splitOn ":", rest.splitOn ">" with
      | [n, i], [b, a] =>
        let mk (s : String) : Ids := match s.splitOn "/" with
          | [x, y, z] => { identifiers := parseCsvS x, atIds := parseCsvS y, hashIds := parseCsvS z }
          | _ => {}
        some (({ name := unhex n, index := i.toNat?.getD 0, ids := mk b } : GProc),
              ({ name := unhex n, index := i.toNat?.getD 0, ids := mk a } : GProc))
      | _, _ => none
    | _ => none)
  let err := ws.findSome? (fun w => if w.startsWith "err:" then some (String.ofList (w.toList.drop 4)) else none)
  (sortByIndex (items.map (·.1)), match err with | some e => .error e | none => .ok (items.map (·.2)))

def runGroup (st : St) (fresh : Bool) (app sfs rfs : String) (ws implWs : List String) : St × String :=
  let g0 : Group := if fresh then {} else st.group
  let g1 := (modelMembers st app sfs rfs ws).foldl Group.add g0
  let (before, after) := parseImplGroup implWs
  let j := verdict (Supv.Spec.C18.judgeGroup st.mapper before after)
  match g1.resolve st.mapper with
  | .ok g2 => ({ st with group := g2 }, withCov (" ".intercalate (g2.procs.map showMember) ++ " | " ++ j) (covGroup g1))
  | .error e => ({ st with group := g1 }, withCov (" ".intercalate (g1.procs.map showMember) ++ s!" err:{e} | " ++ j) (covGroup g1))

def stepLine (st : St) (line : String) : St × String :=
  let parts := line.splitOn "|"
  let ws := words (parts.getD 0 "")
  let impl := words (parts.getD 1 "")
  let okLine := "ok | J:ok | T:-"
  match ws with
  | ["doc"] => ({ st with doc := {}, group := {} }, okLine)
  | ["alias", n, t] =>
    ({ st with doc := { st.doc with aliases := st.doc.aliases ++ [(unhex n, (optStr t).getD "")] } }, okLine)
  | "model" :: n :: p :: ch => ({ st with doc := { st.doc with models := st.doc.models ++ [mkElt n p ch] } }, okLine)
  | "app" :: n :: p :: ch => ({ st with doc := { st.doc with apps := st.doc.apps ++ [{ elt := mkElt n p ch }] } }, okLine)
  | "prog" :: n :: p :: ch =>
    match st.doc.apps.reverse with
    | [] => (st, "bad-op | J:ok | T:-")
    | a :: rest =>
      ({ st with doc := { st.doc with apps := ({ a with programs := a.programs ++ [mkElt n p ch] } :: rest).reverse } }, okLine)
  | ["match", p, n, r] =>
    let res : MatchRes := if r == "err" then .err else match r.toNat? with | some k => .len k | none => .no
    ({ st with doc := { st.doc with matchTable := st.doc.matchTable ++ [(unhex p, unhex n, res)] } }, okLine)
  | ["formula", f] => ({ st with doc := { st.doc with formulasOk := st.doc.formulasOk ++ [unhex f] } }, okLine)
  | ["mapper", ins, nicks, stereos] =>
    let m : Mapper :=
      { instances := parseCsvS ins
        nicks := if nicks == "-" then [] else (nicks.splitOn ",").filterMap parsePair
        stereotypes := if stereos == "-" then [] else (stereos.splitOn ",").filterMap (fun s =>
          match s.splitOn ":" with
          | [a, b] => some (unhex a, (b.splitOn "+").map unhex)
          | _ => none) }
    ({ st with mapper := m }, okLine)
  | ["qapp", app, strat] =>
    let app := unhex app
    let r0 : AppRules := { startingStrategy := strat }
    let obs : Except Err AppRules := match implErr impl with | some e => .error e | none => .ok (parseApp impl)
    let j := verdict (Supv.Spec.C18.judgeApp st.doc st.mapper.instances app r0 obs)
    match loadApplicationRules st.doc st.mapper.instances app r0 with
    | .ok r => (st, withCov (showApp r ++ " | " ++ j) (covApp st.doc app))
    | .error e => (st, withCov (s!"err:{e} | " ++ j) (covApp st.doc app))
  | ["qprog", app, proc, sfs, rfs] =>
    let app := unhex app
    let proc := unhex proc
    let r0 := r0Proc sfs rfs
    let obs : Except Err ProcRules := match implErr impl with | some e => .error e | none => .ok (parseProc impl)
    let j := verdict (Supv.Spec.C18.judgeProc st.doc app proc r0 obs)
    match loadProgramRules st.doc app proc r0 with
    | .ok r => (st, withCov (showProc r ++ " | " ++ j) (covProc st.doc app proc))
    | .error e => (st, withCov (s!"err:{e} | " ++ j) (covProc st.doc app proc))
  | "group" :: app :: sfs :: rfs :: members => runGroup st true (unhex app) sfs rfs members impl
  | "groupadd" :: app :: sfs :: rfs :: members => runGroup st false (unhex app) sfs rfs members impl
  | ["optsreset"] => ({ st with dfltSync := syncDefault }, okLine)
  | "opts" :: kvs =>
    let cfg : Config := kvs.filterMap parsePair
    let obs : Except Err Options := match implErr impl with | some e => .error e | none => .ok (parseOptions impl)
    let j := verdict (Supv.Spec.C18.judgeOptions cfg obs)
    let (res, dflt') := buildOptions st.dfltSync cfg
    match res with
    | .ok o => ({ st with dfltSync := dflt' }, withCov (showOptions o ++ " | " ++ j) (covOpts cfg st.dfltSync))
    | .error e => ({ st with dfltSync := dflt' }, withCov (s!"err:{e} | " ++ j) (covOpts cfg st.dfltSync))
  | _ => (st, "bad-op | J:ok | T:-")

def main : IO Unit := runLoop ({} : St) stepLine

end Supv.Drv.C18
