import Supv.Model.App
import Supv.Spec.C15
import Supv.Drv.Util

/-!
Driver for C15.  One case per input line (cases are independent):

  `case <managed> <stack> | <proc> … | <leaf> … | <top> | <implementation observation>`

* proc  = `state:forced:expected:required:startseq` (state codes of supervisor; forced `-` when none); `-` alone = no process
* leaf  = `E<p>` (exact process name) · `M<p,q,…>` / `M-` (regex matches) · `R<cls>` (`re.compile` raises, class code)
* top   = `NONE` · `SYNTAX` · `PARSEREXC <cls>` · `MULTI` · `STMT_NOVALUE` · `STMT_NONE` · `STMT_VALUE <sexpr>` · `EXPR <sexpr>`
* sexpr = `(S k)` `(C)` `(OTHER)` `(NOT x)` `(UOTHER x)` `(AND x…)` `(OR x…)` `(CALL fn nkw x…)`, fn: 0 all, 1 any, 2 other name, 3 not a name
* observation = `ok:<STATE>/<major>/<minor>` or `raised:<site>:<ExceptionClass>`

Output: `<model observation> | J:<verdict of the specification on the implementation observation> | T:<cause tag>`.
The model observation of an escaping exception carries one more field, the shape that caused it
(`raised:evaluate:AttributeError:call-func-not-name`), used by the harness to build finding signatures.
-/

namespace Supv.Drv.C15
open Supv.App Supv.Drv

def tokenize (s : String) : List String :=
  ((s.replace "(" " ( ").replace ")" " ) ").splitOn " " |>.filter (· ≠ "")

def calleeOf : Nat → Callee
  | 0 => .all | 1 => .any | 2 => .otherName | _ => .notName

mutual
partial def parseF : List String → Option (Formula × List String)
  | "(" :: "S" :: k :: ")" :: r => k.toNat?.map (fun k => (.str k, r))
  | "(" :: "C" :: ")" :: r => some (.const, r)
  | "(" :: "OTHER" :: ")" :: r => some (.other, r)
  | "(" :: "NOT" :: r => do
    let (x, r) ← parseF r
    match r with | ")" :: r => some (.notOp x, r) | _ => none
  | "(" :: "UOTHER" :: r => do
    let (x, r) ← parseF r
    match r with | ")" :: r => some (.unaryOther x, r) | _ => none
  | "(" :: "AND" :: r => do let (xs, r) ← parseL r []; some (.boolOp true xs, r)
  | "(" :: "OR" :: r => do let (xs, r) ← parseL r []; some (.boolOp false xs, r)
  | "(" :: "CALL" :: fn :: nkw :: r => do
    let fn ← fn.toNat?
    let nkw ← nkw.toNat?
    let (xs, r) ← parseL r []
    some (.call (calleeOf fn) xs nkw, r)
  | _ => none
partial def parseL : List String → List Formula → Option (List Formula × List String)
  | ")" :: r, acc => some (acc.reverse, r)
  | toks, acc => do let (x, r) ← parseF toks; parseL r (x :: acc)
end

def parseFormula (ws : List String) : Option Formula :=
  match parseF (tokenize (" ".intercalate ws)) with
  | some (f, []) => some f
  | _ => none

def parseProc (s : String) : Option P :=
  match s.splitOn ":" with
  | [st, fo, e, r, sq] =>
    match st.toNat? >>= PState.ofCode, sq.toNat? with
    | some st, some sq =>
      if fo == "-" then some { state := st, forced := none, expected := s2b e, required := s2b r, startSeq := sq }
      else match fo.toNat? >>= PState.ofCode with
        | some f => some { state := st, forced := some f, expected := s2b e, required := s2b r, startSeq := sq }
        | none => none
    | _, _ => none
  | _ => none

def parseLeaf (s : String) : Option Leaf :=
  let rest := (s.drop 1).toString
  if s.startsWith "E" then rest.toNat?.map Leaf.exact
  else if s.startsWith "M" then (parseCsv rest).map Leaf.matching
  else if s.startsWith "R" then rest.toNat?.map Leaf.reError
  else none

def parseTop (ws : List String) : Option (Option Top) :=
  match ws with
  | ["NONE"] => some none
  | ["SYNTAX"] => some (some .syntaxError)
  | ["PARSEREXC", c] => c.toNat?.map (fun c => some (.parserExc c))
  | ["MULTI"] => some (some .multi)
  | ["STMT_NOVALUE"] => some (some .stmtNoValue)
  | ["STMT_NONE"] => some (some .stmtValueNone)
  | "STMT_VALUE" :: r => (parseFormula r).map (fun f => some (.stmtValue f))
  | "EXPR" :: r => (parseFormula r).map (fun f => some (.expr f))
  | _ => none

def stateOfName : String → Option AState
  | "STOPPED" => some .stopped | "STARTING" => some .starting | "RUNNING" => some .running
  | "STOPPING" => some .stopping | _ => none

def parseObs (s : String) : Option Supv.Spec.C15.Obs :=
  if s.startsWith "raised:" then some .raised
  else if s.startsWith "ok:" then
    match ((s.drop 3).toString).splitOn "/" with
    | [st, ma, mi] => (stateOfName st).map (fun st => .status st (s2b ma) (s2b mi))
    | _ => none
  else none

def showErr : Err → String
  | .parse => "evaluate:ApplicationStatusParseError:handled"     -- never escapes today
  | .regex c => s!"evaluate:{excName c}:invalid-regex"
  | .recursion => "evaluate:RecursionError:deep-nesting"
  | .parser c => s!"setter:{excName c}:deep-nesting"

def showResult : Except Err Status → String
  | .ok s => s!"ok:{s.state.name}/{b2s s.major}/{b2s s.minor}"
  | .error e => "raised:" ++ showErr e

def stepLine (_ : Unit) (line : String) : Unit × String :=
  match line.splitOn "|" with
  | [hd, procs, leaves, top, obs] =>
    match words hd with
    | ["case", managed, stack] =>
      let pw := words procs
      let lw := words leaves
      match stack.toNat?, (if pw == ["-"] then some [] else pw.mapM parseProc),
            (if lw == ["-"] then some [] else lw.mapM parseLeaf), parseTop (words top) with
      | some stack, some ps, some L, some t =>
        let cfg : Cfg := { managed := s2b managed, stack := stack }
        let m := showResult (run cfg L ps t)
        let verdict :=
          match parseObs (obs.trimAscii.toString) with
          | some o =>
            match Supv.Spec.C15.judge cfg.managed L ps t o with
            | none => "J:ok"
            | some clause => "J:" ++ clause
          | none => "J:unparsable-observation"
        -- a formula nested deeper than the interpreter stack allows is answered "major failure" whatever it denotes
        let deep := match t with
          | some (.expr f) => (match evaluate L ps stack f with | .error .recursion => true | _ => false)
          | _ => false
        let tag := if deep then "beyond-interpreter-stack" else match Supv.Spec.C15.causeTag t with | some x => x | none => "-"
        ((), s!"{m} | {verdict} | T:{tag}")
      | _, _, _, _ => ((), "bad-case | J:ok | T:-")
    | _ => ((), "bad-op | J:ok | T:-")
  | _ => ((), "bad-line | J:ok | T:-")

def main : IO Unit := runLoop () stepLine

end Supv.Drv.C15
