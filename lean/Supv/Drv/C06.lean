import Supv.Model.Rfh
import Supv.Spec.C06
import Supv.Drv.Util

/-!
Driver for C06.  Input: one line per operation, `<op> | <implementation observation>`.
Output: `<model observation> | J:<judge verdict on the implementation observation> | M:<judge verdict on the model's own observation>`.

    new
    proc <p> <app> <seq 0|1> <STRATEGY_NAME>
    add <STRATEGY_NAME> <p>
    default <p> <stopped 0|1>
    trigger <busy csv>
    abort
    crash <master> <crashed> <forced> <p> <stopped> <busy csv>
    lost <master> <D|O|C> <p:stopped,...|-> <withJob csv> <busy csv>

Observation: `S=<csv> RA=<csv> RP=<csv> C=<csv> out=<tokens|-> handed=<csv|none>` (sets sorted, orders sorted by kind and index).
-/

namespace Supv.Drv.C06
open Supv.Rfh Supv.Drv

structure Decl where
  p : Nat
  app : Nat
  seq : Bool
  strat : Strategy
  deriving Inhabited

structure DSt where
  decls : List Decl := []
  h : St := {}
  pending : List Supv.Spec.C06.Note := []
  deriving Inhabited

def cfgOf (ds : List Decl) : Cfg :=
  { app := fun p => match ds.find? (·.p == p) with | some d => d.app | none => 0
    seq := fun p => match ds.find? (·.p == p) with | some d => d.seq | none => false
    strat := fun p => match ds.find? (·.p == p) with | some d => d.strat | none => .cont }

def kindRank : Out → Nat
  | .stopApp _ => 0 | .restartApp _ => 1 | .restartProc _ => 2 | .nothing _ => 3 | .fsmRestart => 4 | .fsmShutdown => 5
def outId : Out → Nat
  | .stopApp a | .restartApp a | .restartProc a | .nothing a => a
  | _ => 0
def outTok : Out → String
  | .stopApp a => s!"stopApp:{a}" | .restartApp a => s!"restartApp:{a}" | .restartProc p => s!"restartProc:{p}"
  | .nothing p => s!"nothing:{p}" | .fsmRestart => "fsmRestart" | .fsmShutdown => "fsmShutdown"

def insertOut (x : Out) : List Out → List Out
  | [] => [x]
  | y :: t => if kindRank x < kindRank y ∨ (kindRank x = kindRank y ∧ outId x ≤ outId y) then x :: y :: t else y :: insertOut x t
def sortOuts (l : List Out) : List Out := l.foldr insertOut []

def parseOut (s : String) : Option Out :=
  match s.splitOn ":" with
  | ["stopApp", a] => a.toNat?.map .stopApp
  | ["restartApp", a] => a.toNat?.map .restartApp
  | ["restartProc", a] => a.toNat?.map .restartProc
  | ["nothing", a] => a.toNat?.map .nothing
  | ["fsmRestart"] => some .fsmRestart
  | ["fsmShutdown"] => some .fsmShutdown
  | _ => none

def obsStr (h : St) (outs : List Out) (handed : Option (List Nat)) : String :=
  let o := if outs.isEmpty then "-" else ",".intercalate ((sortOuts outs).map outTok)
  let hd := match handed with | none => "none" | some l => csv (sortNat l)
  s!"S={csv (sortNat h.stopApps)} RA={csv (sortNat h.restartApps)} RP={csv (sortNat h.restartProcs)} C={csv (sortNat h.continueProcs)} out={o} handed={hd}"

def field (w pre : String) : Option String :=
  if w.startsWith pre then some (w.drop pre.length).toString else none

def parseObs (ws : List String) : Option Supv.Spec.C06.Obs :=
  match ws with
  | [s, ra, rp, cc, o, hd] =>
    match field s "S=" >>= parseCsv, field ra "RA=" >>= parseCsv, field rp "RP=" >>= parseCsv, field cc "C=" >>= parseCsv,
          field o "out=", field hd "handed=" with
    | some s, some ra, some rp, some cc, some o, some hd =>
      let outs := if o == "-" then some [] else (o.splitOn ",").mapM parseOut
      let handed : Option (Option (List Nat)) := if hd == "none" then some none else (parseCsv hd).map some
      match outs, handed with
      | some outs, some handed =>
        some { stopApps := s, restartApps := ra, restartProcs := rp, continueProcs := cc, outs := outs, handed := handed }
      | _, _ => none
    | _, _, _, _, _, _ => none
  | _ => none

def parseFailed (s : String) : Option (List (Nat × Bool)) :=
  if s == "-" then some [] else
  (s.splitOn ",").mapM (fun w => match w.splitOn ":" with
    | [p, st] => p.toNat?.map (fun p => (p, s2b st))
    | _ => none)

def parseW : String → Option WState
  | "D" => some .distribution | "O" => some .operation | "C" => some .conciliation | _ => none

def parseOp (ws : List String) : Option Op :=
  match ws with
  | ["add", s, p] => match Strategy.ofName s, p.toNat? with
    | some s, some p => some (.addJob s p) | _, _ => none
  | ["default", p, st] => p.toNat?.map (fun p => .addDefault p (s2b st))
  | ["trigger", busy] => (parseCsv busy).map .trigger
  | ["abort"] => some .abort
  | ["crash", m, cr, f, p, st, busy] => match p.toNat?, parseCsv busy with
    | some p, some busy => some (.crash (s2b m) (s2b cr) (s2b f) p (s2b st) busy) | _, _ => none
  | ["lost", m, w, failed, wj, busy] => match parseW w, parseFailed failed, parseCsv wj, parseCsv busy with
    | some w, some failed, some wj, some busy => some (.lost (s2b m) w failed wj busy) | _, _, _, _ => none
  | _ => none

/-- what the model's FSM glue hands to the handler (for the observation) -/
def handedOf (c : Cfg) : Op → Option (List Nat)
  | .crash m cr f p _ _ => if crashAction m cr f (c.strat p) = .handler then some [p] else none
  | .lost m w failed wj _ =>
    if handsLost m w then
      match leftToHandler failed wj with
      | [] => none
      | l => some (l.map (·.1))
    else none
  | _ => none

def stepLine (st : DSt) (line : String) : DSt × String :=
  let parts := line.splitOn "|"
  let opWords := words (parts.getD 0 "")
  let implWords := words (parts.getD 1 "")
  match opWords with
  | ["new"] => ({}, "new | J:ok | M:ok")
  | ["proc", p, a, sq, s] =>
    match p.toNat?, a.toNat?, Strategy.ofName s with
    | some p, some a, some s =>
      ({ st with decls := st.decls.filter (·.p != p) ++ [{ p := p, app := a, seq := s2b sq, strat := s }] }, "ok | J:ok | M:ok")
    | _, _, _ => (st, "bad-proc | J:ok | M:ok")
  | _ =>
    match parseOp opWords with
    | none => (st, "bad-op | J:ok | M:ok")
    | some op =>
      let c := cfgOf st.decls
      let r := step c st.h op
      let verdict :=
        if implWords.any (·.startsWith "err:") then "J:ok"      -- an exception is reported by the harness itself
        else match parseObs implWords with
          | none => "J:?unparsable"
          | some o => match Supv.Spec.C06.judge c st.pending op o with
            | none => "J:ok"
            | some cl => s!"J:{cl}"
      -- non-vacuity of the judge, measured: the model's own observation is judged too
      let selfVerdict :=
        match Supv.Spec.C06.judge c st.pending op
            { stopApps := r.1.stopApps, restartApps := r.1.restartApps, restartProcs := r.1.restartProcs,
              continueProcs := r.1.continueProcs, outs := r.2, handed := handedOf c op } with
        | none => "M:ok"
        | some cl => s!"M:{cl}"
      ({ st with h := r.1, pending := Supv.Spec.C06.pend c st.pending op },
       obsStr r.1 r.2 (handedOf c op) ++ " | " ++ verdict ++ " | " ++ selfVerdict)

def main : IO Unit := runLoop ({} : DSt) stepLine

end Supv.Drv.C06
