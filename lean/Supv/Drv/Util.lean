/-! Shared helpers of the line-protocol drivers (trusted: parsing of op lines, canonical printing). -/

namespace Supv.Drv

def words (s : String) : List String :=
  (s.trimAscii.toString.splitOn " ").filter (· ≠ "")

def insertSorted (x : Nat) : List Nat → List Nat
  | [] => [x]
  | y :: t => if x ≤ y then x :: y :: t else y :: insertSorted x t

def sortNat (l : List Nat) : List Nat := l.foldr insertSorted []

def csv (l : List Nat) : String :=
  if l.isEmpty then "-" else ",".intercalate (l.map toString)

def parseCsv (s : String) : Option (List Nat) :=
  if s == "-" then some [] else (s.splitOn ",").mapM String.toNat?

def b2s (b : Bool) : String := if b then "1" else "0"
def s2b (s : String) : Bool := s == "1"

/-- read stdin line by line, thread a state, print one output line per input line -/
partial def loop {σ : Type} (h : IO.FS.Stream) (out : IO.FS.Stream) (st : σ) (f : σ → String → σ × String) : IO Unit := do
  let line ← h.getLine
  if line.isEmpty then return ()
  let (st', o) := f st line
  out.putStrLn o
  loop h out st' f

def runLoop {σ : Type} (init : σ) (f : σ → String → σ × String) : IO Unit := do
  loop (← IO.getStdin) (← IO.getStdout) init f

end Supv.Drv
