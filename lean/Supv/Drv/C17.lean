import Supv.Model.Rpc
import Supv.Spec.C17
import Supv.Gen.RpcGuards
import Supv.Drv.Util

/-!
Driver for C17.  Input: one line per call of the matrix,
`call <method> <fsm> <isMaster> <masterSet> <userOpt> <jobs> <stratOk> <nameOk> <instOk> <instExact> <managed> <valueOk> <isGroup> | <outcome> <changed>`
where the left part is the state BEFORE the call and the truth of the parameter classes in that world, the right part what
the IMPLEMENTATION did (`ok`, `fault:<NAME>`, `other:<code>`, `exc:<Class>`; `changed` = 1 when the observable snapshot
moved or something was emitted).
Output: `<model outcome> | <judge verdict on the implementation observation>`; model outcome = `rej:<FAULT>` (the
generated step list rejects, deterministically), `exc:<Class>`, or `pass:<data-dependent faults the method may report>`.
-/

namespace Supv.Drv.C17
open Supv.Rpc Supv.Drv

def parseOutcome (w : String) : Option Supv.Spec.C17.Outcome :=
  if w == "ok" then some .ok
  else if w.startsWith "fault:" then
    match Fault.ofName? ((w.drop 6).toString) with
    | some f => some (.fault f)
    | none => some (.otherFault ((w.drop 6).toString))
  else if w.startsWith "other:" then some (.otherFault ((w.drop 6).toString))
  else if w.startsWith "exc:" then some (.internal ((w.drop 4).toString))
  else none

def showModel (m : Method) (r : State × Result) : String :=
  match r.2 with
  | .fault f => "rej:" ++ f.name
  | .internal e => "exc:" ++ e
  | .ok => "pass:" ++ (if (dataFaultsOf m).isEmpty then "-" else ",".intercalate ((dataFaultsOf m).map Fault.name))

def stepLine (_ : Unit) (line : String) : Unit × String :=
  let parts := line.splitOn "|"
  let ws := words (parts.getD 0 "")
  let obs := words (parts.getD 1 "")
  match ws with
  | ["call", meth, fsm, isM, mSet, user, jobs, strat, name, inst, exact, managed, value, grp] =>
    match St.ofName? fsm, Supv.Gen.rpcTable.find? (fun m => m.name == meth) with
    | some st, some m =>
      let s : State := { fsm := st, isMaster := s2b isM, masterSet := s2b mSet, userOpt := s2b user, jobs := s2b jobs }
      let a : Args := { stratOk := s2b strat, nameOk := s2b name, instOk := s2b inst, instExact := s2b exact,
                        managed := s2b managed, valueOk := s2b value, isGroup := s2b grp }
      let model := showModel m (run Supv.Gen.effectCrashes m s a)
      let verdict :=
        match obs, Supv.Spec.C17.docOf meth with
        | [o, ch], some d =>
          match parseOutcome o with
          | some oc =>
            match Supv.Spec.C17.judge d s a oc (s2b ch) with
            | none => "J:ok"
            | some cl => "J:" ++ cl
          | none => "J:?unparsable-outcome"
        | _, none => "J:undocumented-method"
        | _, _ => "J:?unparsable-observation"
      ((), model ++ " | " ++ verdict)
    | none, _ => ((), "?bad-state | J:?")
    | _, none => ((), "unknown-method | " ++ (if (Supv.Spec.C17.docOf meth).isSome then "J:?" else "J:undocumented-method"))
  | _ => ((), "?unparsable | J:?")

def main : IO Unit := runLoop () stepLine

end Supv.Drv.C17
