import Supv.Model.Net
import Supv.Spec.Graphs
import Supv.Drv.Util

/-!
Driver of the cluster model (global lock-step).  Input lines:
  `reset` / `cfg ...` (one per instance) / `start <now>` / `act <now> <action...> [; <oracle>] | <impl observation>`
Output: `<model observation> | <judge verdicts on the implementation observation>`.
-/

namespace Supv.Drv.Net
open Supv.Inst Supv.Net Supv.Drv

def parseNatList (s : String) : List Nat := if s == "-" then [] else (s.splitOn ",").filterMap (·.toNat?)
def parseOptNat (s : String) : Option Nat := if s == "-" then none else s.toNat?

def showErr : Option Err → String
  | none => "ok" | some (.invalidTransition ..) => "InvalidTransition" | some .noMaster => "NoMaster"

def obsInst (g : Net) (i : Nat) : String :=
  let s := g.inst i
  let lm := s.modes.getD i {}
  let master := match lm.master with | none => "-" | some m => toString m
  s!"{lm.fsm.code}/{master}/{String.intercalate "" (lm.inst.map (fun x => toString x.code))}/{if lm.degraded then 1 else 0}"

def showOut : Out → Option String
  | .startApps => some "startApps" | .conciliate => some "conciliate" | .stopApps => some "stopApps"
  | .failJobs => some "failJobs" | .restartLocal => some "restartLocal" | .shutdownLocal => some "shutdownLocal"
  | .refused a b => some s!"refused{a.code}>{b.code}"
  | _ => none

def obs (g : Net) (o : Obs) : String :=
  let insts := String.intercalate " " ((List.range g.n).map (obsInst g))
  let qs := String.intercalate "," ((List.range g.n).map fun i => String.intercalate "" ((List.range g.n).map fun j => toString (g.queue i j).length))
  let ib := String.intercalate "" ((List.range g.n).map fun j => toString (g.inbox.getD j []).length)
  let errs := String.intercalate "," (((o.filter fun (_, e, _) => e.isSome).map fun (i, e, _) => s!"{i}:{showErr e}")
    ++ (g.raised.eraseDups.map fun i => s!"{i}:Other"))
  let acts := String.intercalate "," (o.flatMap fun (i, _, outs) => outs.filterMap (fun x => (showOut x).map (fun t => s!"{i}:{t}")))
  -- FSM states published by each touched instance during this action (the trace between two observations)
  let trace := String.intercalate "," (o.flatMap fun (i, _, outs) => outs.filterMap (fun x => match x with
    | .pub m => some s!"{i}:{m.fsm.code}" | _ => none))
  let itr := String.intercalate "," (o.flatMap fun (i, _, outs) => outs.filterMap (fun x => match x with
    | .inst j st => some s!"{i}:{j}:{st.code}" | _ => none))
  let bad := (List.range g.n).foldl (fun acc i => acc + (g.inst i).oracleBad) 0
  -- the replicated process database: per instance, per program, synthetic state and the instances listed
  let pv := if g.nproc == 0 then "" else
    " pv=[" ++ String.intercalate "/" ((List.range g.n).map fun i => String.intercalate "," ((List.range g.nproc).map fun p =>
      let x := g.proc i p
      let run := sortNat x.running
      s!"{x.state.code}:{if run.isEmpty then "-" else String.intercalate "" (run.map toString)}")) ++ "]"
  s!"{insts} q={qs} in={ib} err=[{errs}] act=[{acts}] tr=[{trace}] it=[{itr}] ob={bad}{pv}"

def parseOracle (s : String) : List (Query × Nat) :=
  (s.splitOn ",").filterMap (fun w =>
    match w.toList with
    | k :: rest =>
      let q : Option Query := match k with
        | 'S' => some .starterBusy | 'P' => some .stopperBusy | 'C' => some .conflicting | 'L' => some .lostProcs
        | 'A' => some .acceptMaster
        | _ => none
      match q, (String.ofList rest).toNat? with
      | some q, some a => some (q, a)
      | _, _ => none
    | _ => none)

/-! ### judges: the documented graphs and entry conditions, evaluated on what the IMPLEMENTATION reported -/

/-- what one instance reported: fsm, master, instance-state codes -/
structure IObs where
  fsm : Nat
  master : Option Nat
  inst : List Nat
  deriving Inhabited, Repr

def parseIObs (w : String) : Option IObs :=
  match w.splitOn "/" with
  | [f, m, st, _d] =>
    match f.toNat? with
    | some f => some { fsm := f, master := parseOptNat m, inst := st.toList.map (fun ch => ch.toNat - '0'.toNat) }
    | none => none
  | _ => none

/-- the bracketed list after `key=[` in an observation -/
def bracket (obs : String) (key : String) : List String :=
  match obs.splitOn (key ++ "=[") with
  | _ :: rest :: _ => match rest.splitOn "]" with
    | inner :: _ => if inner.isEmpty then [] else inner.splitOn ","
    | [] => []
  | _ => []

def sameStrategies (a b : Cfg) : Bool :=
  a.autoFence == b.autoFence && a.failStrat == b.failStrat && a.starting == b.starting && a.conciliation == b.conciliation

def judge (cfgs : List Cfg) (n : Nat) (prev : List IObs) (cur : List IObs) (obs : String) (fresh : List Nat)
    (delivery : Option (Nat × Nat)) : List String :=
  let tr := (bracket obs "tr").filterMap (fun w => match w.splitOn ":" with
    | [i, c] => match i.toNat?, c.toNat? with | some i, some c => some (i, c) | _, _ => none
    | _ => none)
  let it := (bracket obs "it").filterMap (fun w => match w.splitOn ":" with
    | [i, j, c] => match i.toNat?, j.toNat?, c.toNat? with | some i, some j, some c => some (i, j, c) | _, _, _ => none
    | _ => none)
  let acts := (bracket obs "act").filterMap (fun w => match w.splitOn ":" with
    | [i, a] => i.toNat?.map (fun i => (i, a))
    | _ => none)
  (List.range n).flatMap fun i =>
    if fresh.contains i then [] else
    match prev[i]?, cur[i]? with
    | some p, some c =>
      let fsmSeq := ([p.fsm] ++ (tr.filter (·.1 == i)).map (·.2) ++ [c.fsm]).map SState.ofCode
      let v1 := if Supv.Spec.isWalk Supv.Spec.documentedFsm fsmSeq then [] else [s!"C02-walk:{i}"]
      -- entry with a known Master seen RUNNING
      let v2 := if c.fsm != p.fsm && Supv.Spec.needsMaster (SState.ofCode c.fsm) then
          match c.master with
          | some m => if c.inst.getD m 0 == 3 then [] else [s!"C02-entry-master-not-running:{i}"]
          | none => [s!"C02-entry-no-master:{i}"]
        else []
      let v3 := (List.range n).flatMap fun j =>
        let sq := ([p.inst.getD j 0] ++ ((it.filter (fun x => x.1 == i && x.2.1 == j)).map (·.2.2)) ++ [c.inst.getD j 0]).map IState.ofCode
        if Supv.Spec.isWalk Supv.Spec.documentedInst sq then [] else [s!"C07-walk:{i}:{j}"]
      let v4 := if c.inst.getD i 0 == 5 then [s!"C07-local-isolated:{i}"] else []
      let v5 := (acts.filter (·.1 == i)).flatMap fun (_, a) =>
        if (a == "startApps" || a == "conciliate" || a == "stopApps" || a == "failJobs") && c.master != some i
        then [s!"C01-not-master-{a}:{i}"] else []
      -- C13: ISOLATED is never left; a peer with different strategies is never admitted; a message whose origin is held
      -- ISOLATED changes nothing and triggers nothing
      let v6 := (List.range n).flatMap fun j =>
        if p.inst.getD j 0 == 5 && c.inst.getD j 0 != 5 then [s!"C13-left-isolated:{i}:{j}"] else []
      let v7 := (it.filter (fun x => x.1 == i && x.2.1 != i && (x.2.2 == 2 || x.2.2 == 3))).flatMap fun x =>
        if sameStrategies (cfgs.getD i default) (cfgs.getD x.2.1 default) then [] else [s!"C13-admitted-inconsistent:{i}:{x.2.1}"]
      let v8 := match delivery with
        | some (dst, origin) =>
          if dst == i && origin != i && p.inst.getD origin 0 == 5 &&
             (c.fsm != p.fsm || c.master != p.master || c.inst != p.inst || (tr.any (·.1 == i)) || (it.any (·.1 == i))
              || (acts.any (·.1 == i)))
          then [s!"C13-airtight:{i}:{origin}"] else []
        | none => []
      v1 ++ v2 ++ v3 ++ v4 ++ v5 ++ v6 ++ v7 ++ v8
    | _, _ => []

structure D where
  cfgs : List Cfg := []
  net : Net := Net.init [] 0
  prev : List IObs := []          -- previous IMPLEMENTATION observation (judge state)
  prevPv : List String := []      -- previous IMPLEMENTATION process views, per instance
  deriving Inhabited

/-- the per-instance process views of an observation (`pv=[a/b/c]`) -/
def parsePv (obs : String) : List String :=
  match obs.splitOn "pv=[" with
  | _ :: rest :: _ => match rest.splitOn "]" with
    | inner :: _ => inner.splitOn "/"
    | [] => []
  | _ => []

/-- an injected (duplicated / stale / forged) message, spelled out by the harness -/
def parseInjected (spec : List String) : Option (Option Op) :=
  match spec with
  | ["none"] => some none
  | ["rtick", j, k] => match j.toNat?, k.toNat? with | some j, some k => some (some (.rtick j k)) | _, _ => none
  | ["failure", j] => j.toNat?.map (fun j => some (.failure j))
  | ["allinfonone", j] => j.toNat?.map (fun j => some (.allinfoNone j))
  | ["auth", j, code, ts] =>
    match j.toNat?, code.toNat?, ts.toNat? with
    | some j, some c, some t => some (some (.auth j c t))
    | _, _, _ => none
  | ["state", j, fsm, deg, master, inst] =>
    match j.toNat?, fsm.toNat? with
    | some j, some f =>
      let st : List IState := if inst == "-" then [] else (inst.splitOn ",").filterMap (fun x => x.toNat?.map IState.ofCode)
      some (some (.state j { fsm := SState.ofCode f, degraded := s2b deg, master := parseOptNat master, inst := st }))
    | _, _ => none
  | _ => none

def showFate : Fate → String
  | .inflight => "inflight" | .delivered => "delivered" | .filtered v => s!"filtered-while-{v.code}"
  | .refused v => s!"refused-while-{v.code}" | .noInfo => "no-info" | .dropped => "dropped" | .vanished => "vanished"

/-- GHOST report: the fate of the last report of `src` about `p` towards `dst`, for every triple whose fate is not `delivered` -/
def showFates (g : Net) : String :=
  ",".intercalate ((g.fate.filter (fun x => x.2 != .delivered)).map fun ((s, d, p), f) => s!"{s}>{d}:{p}:{showFate f}")

def parseAct (rest : List String) : Option Act :=
  match rest with
  | ["fates"] => some .nop
  | ["prm", i, p] => some (.prm i.toNat! p.toNat!)
  | ["inject", j, "prem", src, p] => some (.injectPrem j.toNat! src.toNat! p.toNat!)
  | ["inject", j, "pev", src, p, st, ex, et] =>
    some (.injectPev j.toNat! src.toNat! p.toNat! ((Supv.Proc.PState.ofCode st.toNat!).getD .unknown) (s2b ex) et.toNat!)
  | ["inject", j, "info", src, snap] =>
    let sn : List Supv.Proc.Snap := if snap == "-" then [] else (snap.splitOn ",").filterMap (fun w =>
      match w.splitOn ":" with
      | [p, st, ex, et] => some { proc := p.toNat!, state := (Supv.Proc.PState.ofCode st.toNat!).getD .unknown, expected := s2b ex,
                                  etime := et.toNat!, disabled := false }
      | _ => none)
    some (.injectInfo j.toNat! src.toNat! sn)
  | "inject" :: j :: spec =>
    match j.toNat?, parseInjected spec with
    | some j, some op => some (.inject j op)
    | _, _ => none
  | ["running", i] => some (.running i.toNat!)
  | ["tick", i] => some (.tick i.toNat!)
  | ["exec", i, j] => some (.exec i.toNat! j.toNat!)
  | ["deliver", j] => some (.deliver j.toNat!)
  | ["deliver", j, _origin] => some (.deliver j.toNat!)
  | ["deliver", j, _origin, _kind] => some (.deliver j.toNat!)
  | ["crash", i] => some (.crash i.toNat!)
  | ["restart", i] => some (.restart i.toNat!)
  | ["cut", i, j] => some (.cut i.toNat! j.toNat!)
  | ["heal"] => some .heal
  | ["pev", i, p, st, ex] => some (.pev i.toNat! p.toNat! ((Supv.Proc.PState.ofCode st.toNat!).getD .unknown) (s2b ex))
  | ["rpc", i, "restart"] => some (.rpcRestart i.toNat! false)
  | ["rpc", i, "shutdown"] => some (.rpcRestart i.toNat! true)
  | ["rpc", i, "end_sync", m] => some (.rpcEndSync i.toNat! (parseOptNat m))
  | _ => none

def stepAct (g : Net) (now : Nat) (rest : List String) : Option (Net × Obs) := (parseAct rest).map (g.step now)

def stepLine (d : D) (line : String) : D × String :=
  let parts := line.splitOn "|"
  let cmd := (parts.getD 0 "").splitOn ";"
  let ws := words (cmd.getD 0 "")
  let oracle := parseOracle ((cmd.getD 1 "").trimAscii.toString)
  match ws with
  | ["reset"] => ({}, "ok")
  | ["cfg", n, me, nick, core, initial, oS, oL, oT, oC, oU, sto, inact, fence, fs, _now, sst, cst] =>
    let c : Cfg := { n := n.toNat!, me := me.toNat!, nickRank := parseNatList nick, core := parseNatList core,
                     initial := parseNatList initial, optStrict := s2b oS, optList := s2b oL, optTimeout := s2b oT,
                     optCore := s2b oC, optUser := s2b oU, syncTimeout := sto.toNat!,
                     inactivity := inact.toNat!, autoFence := s2b fence,
                     failStrat := if fs == "RESYNC" then .resync else if fs == "SHUTDOWN" then .shutdown else .cont,
                     starting := sst.toNat!, conciliation := cst.toNat! }
    ({ d with cfgs := d.cfgs ++ [c] }, "ok")
  | ["start", now] =>
    let n := d.cfgs.length
    ({ d with net := Net.init d.cfgs now.toNat!,
              prev := List.replicate n { fsm := 0, master := none, inst := List.replicate n 0 } }, "ok")
  | ["start", now, nproc, known] =>
    let n := d.cfgs.length
    let kn := (known.splitOn "/").map parseNatList
    ({ d with net := (Net.init d.cfgs now.toNat!).withProcs nproc.toNat! kn,
              prev := List.replicate n { fsm := 0, master := none, inst := List.replicate n 0 } }, "ok")
  | "act" :: now :: rest =>
    let g := { d.net with oracle := oracle }
    match stepAct g now.toNat! rest with
    | none => (d, "bad-op")
    | some (g', o) =>
      let implObs := (parts.getD 1 "").trimAscii.toString
      let n := g'.n
      let cur := ((words implObs).take n).filterMap parseIObs
      let fresh := match rest with | ["restart", i] => [i.toNat!] | _ => []
      let delivery := match rest with
        | ["deliver", j, o] => match j.toNat?, o.toNat? with | some j, some o => some (j, o) | _, _ => none
        | ["deliver", j, o, _] => match j.toNat?, o.toNat? with | some j, some o => some (j, o) | _, _ => none
        | _ => none
      let verdicts0 := if cur.length == n then judge d.cfgs n d.prev cur implObs fresh delivery else ["unparsable"]
      -- C13: process state / removal / disability events only count from peers that passed the handshake (CHECKED or RUNNING)
      let curPv := parsePv implObs
      let vpv := match delivery with
        | some (dst, origin) =>
          let st := (d.prev.getD dst default).inst.getD origin 0
          let isPub := match rest with | ["deliver", _, _, "p"] => true | _ => false
          if isPub && origin != dst && st != 2 && st != 3 && !d.prevPv.isEmpty && curPv.getD dst "" != d.prevPv.getD dst ""
          then [s!"C13-process-data-from-unadmitted:{dst}:{origin}"] else []
        | none => []
      let verdicts := verdicts0 ++ vpv
      let j := if verdicts.isEmpty then "J:ok" else "J:" ++ ";".intercalate verdicts
      let ft := match rest with | ["fates"] => " | F:" ++ showFates g' | _ => ""
      ({ d with net := g', prev := if cur.length == n then cur else d.prev, prevPv := if curPv.isEmpty then d.prevPv else curPv },
       obs g' o ++ " | " ++ j ++ ft)
  | _ => (d, "bad-op")

def main : IO Unit := runLoop ({} : D) stepLine

end Supv.Drv.Net
