import Supv.Model.Conc
import Supv.Model.Inst
import Supv.Spec.C05
import Supv.Drv.Util

/-!
Driver for C05.  Two kinds of lines.

`conc <strategy code> <mode> ; <pview> ... | <impl calls> | <impl requests> | <impl listing afterwards>`
  * `<pview>` = `pid:managed:inst/uptime/stopping,...` for EVERY process of the Context, copies in the order the real
    `running_identifiers` set is iterated (`-` when not listed anywhere);
  * `<impl calls>`: what the strategy called on `stopper` / `failure_handler`, in order: `stopOn:pid:i,j` `stopAll:pid`
    `restart:pid` `failJob:pid` `next` `failTrigger` `triggered` (a call made with trigger=True) `err:<Class>` (`-` when nothing);
  * `<impl requests>` (modes `exact`, `lax`; `-` in mode `sink`): `rpc=p.i,..;def=p,..;starts=p,..` = stop requests sent
    through `rpc_handler.send_stop_process` until the jobs are over (sorted), `Stopper.process_start_requests` right after
    the call, effective `starter.start_process` calls (process stopped when called);
  * `<impl listing afterwards>`: `p=i,j p=-` for the members of `conflicts()` once every stop command is acknowledged.
Output: `<model calls> | rpc=..;def=..;surv=.. | J1:<verdict> | J2:<verdict> | T:<tag>`
  J1 = specification judge on the implementation's calls read through the Stopper contract (`Action.stops` ...),
  J2 = specification judge on the requests really sent / starts really made (`ok` in mode `sink`; in mode `lax` only the
  clause "every live copy of a process in conflict is asked to stop").

`eval <op|conc> <master> <ms> <S> <P> <C> ; <pview> ... | <impl next state code> <impl conciliate calls>`
  one evaluation of `OperationState.next` / `ConciliationState.next` after the common part: `<S> <P> <C>` are the answers
  the real `starter.in_progress()`, `stopper.in_progress()`, `context.conflicting()` gave (`-` = not asked), `<ms>` the
  state published by the Master (`-` = unknown).
Output: `<model next state code> <conciliate orders> | J:<verdict>` (J: the answer `C` is `Conc.conflicting` of the view;
  detection clause of the statement on the implementation's result).
-/

namespace Supv.Drv.C05
open Supv.Conc Supv.Drv

def parseCopy (s : String) : Option Copy :=
  match s.splitOn "/" with
  | [i, u, z] =>
    match i.toNat?, u.toNat? with
    | some i, some u => some { inst := i, uptime := u, stopping := s2b z }
    | _, _ => none
  | _ => none

def parseView (s : String) : Option PView :=
  match s.splitOn ":" with
  | [p, m, cs] =>
    match p.toNat? with
    | some p =>
      if cs == "-" then some { pid := p, managed := s2b m, copies := [] }
      else (cs.splitOn ",").mapM parseCopy |>.map (fun l => { pid := p, managed := s2b m, copies := l })
    | none => none
  | _ => none

def findView (ctx : View) (pid : Nat) : PView :=
  (ctx.find? (·.pid == pid)).getD { pid := pid, managed := false, copies := [] }

/-- an implementation call, read as a model `Action` on the view of the process it was given -/
def parseAction (ctx : View) (w : String) : Option Action :=
  match w.splitOn ":" with
  | ["stopOn", p, l] =>
    match p.toNat?, parseCsv l with
    | some p, some l => some (.stopOn (findView ctx p) l)
    | _, _ => none
  | ["stopAll", p] => p.toNat?.map (fun p => .stopAll (findView ctx p))
  | ["restart", p] => p.toNat?.map (fun p => .restart (findView ctx p))
  | ["failJob", p] => p.toNat?.map (fun p => .failJob (findView ctx p))
  | ["next"] => some .stopperNext
  | ["triggered"] => some .stopperNext      -- a `trigger=True` call: the Stopper is triggered at once
  | ["failTrigger"] => some .failTrigger
  | _ => none

def showAction : Action → String
  | .stopOn v l => s!"stopOn:{v.pid}:{csv (sortNat l)}"
  | .stopAll v => s!"stopAll:{v.pid}"
  | .restart v => s!"restart:{v.pid}"
  | .failJob v => s!"failJob:{v.pid}"
  | .stopperNext => "next"
  | .failTrigger => "failTrigger"

def showResult (r : Result) : String :=
  let a := r.actions.map showAction ++ (match r.err with | some e => [s!"err:{e}"] | none => [])
  if a.isEmpty then "-" else " ".intercalate a

def insertPair (x : Nat × Nat) : List (Nat × Nat) → List (Nat × Nat)
  | [] => [x]
  | y :: t => if x.1 < y.1 || (x.1 == y.1 && x.2 ≤ y.2) then x :: y :: t else y :: insertPair x t

def sortPairs (l : List (Nat × Nat)) : List (Nat × Nat) := l.foldr insertPair []

def showPairs (l : List (Nat × Nat)) : String :=
  if l.isEmpty then "-" else ",".intercalate ((sortPairs l).map (fun x => s!"{x.1}.{x.2}"))

def parsePair (s : String) : Option (Nat × Nat) :=
  match s.splitOn "." with
  | [p, i] => match p.toNat?, i.toNat? with
    | some p, some i => some (p, i)
    | _, _ => none
  | _ => none

def parsePairs (s : String) : Option (List (Nat × Nat)) :=
  if s == "-" then some [] else (s.splitOn ",").mapM parsePair

/-- `key=value;key=value` -/
def field (s key : String) : Option String :=
  (s.splitOn ";").findSome? (fun kv => match kv.splitOn "=" with
    | [k, v] => if k == key then some v else none
    | _ => none)

/-- the listing left once every planned stop command is acknowledged: `Supv.Props.C05.C05_clean_exit` -/
def survivors (stops : List (Nat × Nat)) (v : PView) : List Nat :=
  v.listed.filter (fun i => !stops.contains (v.pid, i))

def showSurv (stops : List (Nat × Nat)) (cs : List PView) : String :=
  if cs.isEmpty then "-" else " ".intercalate (cs.map (fun v => s!"{v.pid}={csv (sortNat (survivors stops v))}"))

def verdict (l : List String) : String := if l.isEmpty then "ok" else ",".intercalate l

def concLine (head : List String) (views : List String) (implCalls implReq : List String) : String :=
  match head, views.mapM parseView with
  | [code, mode], some ctx =>
    match code.toNat? >>= Strategy.ofCode with
    | none => "?bad-strategy | - | J1:? | J2:? | T:-"
    | some s =>
      let cs := conflicts ctx
      let r := conciliate s cs
      let modelReq := s!"rpc={showPairs (rpcStops r.actions)};def={csv (planDeferred r.actions)};surv="
      let surv := showSurv (planStops r.actions) cs
      let tag := if Supv.Spec.C05.stoppingCounted ctx then "T:stopping-counted" else "T:-"
      -- judge 1: the implementation's calls, read through the Stopper contract
      let implErr := implCalls.any (·.startsWith "err:")
      let calls := (implCalls.filter (fun w => w != "-" && !w.startsWith "err:")).mapM (parseAction ctx)
      let j1 := match calls with
        | none => "J1:?unparsable-calls"
        | some acts =>
          if implErr then "J1:exception"
          else
            let o : Supv.Spec.C05.Obs := { stops := planStops acts, starts := planDeferred acts,
                                           failJobs := planFailJobs acts, failTriggered := planFailTriggered acts }
            "J1:" ++ verdict (Supv.Spec.C05.judge s ctx o)
      -- judge 2: the requests really sent
      let j2 :=
        if mode == "sink" then "J2:ok" else
        match implReq with
        | [req] =>
          match (field req "rpc") >>= parsePairs, (field req "starts") >>= parseCsv, calls with
          | some rpc, some starts, some acts =>
            let o : Supv.Spec.C05.Obs := { stops := rpc, starts := starts, failJobs := planFailJobs acts,
                                           failTriggered := planFailTriggered acts }
            if mode == "lax" then
              "J2:" ++ verdict ((ctx.filter (fun v => Supv.Spec.C05.inConflict v && !Supv.Spec.C05.stopsOk s o v)).map
                                  (fun v => s!"stops:{v.pid}"))
            else "J2:" ++ verdict (Supv.Spec.C05.judge s ctx o)
          | _, _, _ => "J2:?unparsable-requests"
        | _ => "J2:?unparsable-requests"
      s!"{showResult r} | {modelReq}{surv} | {j1} | {j2} | {tag}"
  | _, _ => "?unparsable | - | J1:? | J2:? | T:-"

/-! ### one evaluation of the FSM state -/

open Supv.Inst in
def evalCfg : Cfg :=
  { n := 2, me := 0, nickRank := [0, 1], core := [], initial := [0, 1], optStrict := false, optList := true,
    optTimeout := false, optCore := false, optUser := false, syncTimeout := 20480, inactivity := 2, autoFence := false,
    failStrat := .cont }

def parseAns (s : String) : Option (Option Nat) := if s == "-" then some none else s.toNat?.map some

open Supv.Inst in
def evalLine (head : List String) (views : List String) (impl : List String) : String :=
  match head, views.mapM parseView with
  | [which, master, ms, sA, pA, cA], some ctx =>
    match parseAns sA, parseAns pA, parseAns cA, parseAns ms with
    | some sA, some pA, some cA, some ms =>
      let isM := s2b master
      let oracle : List (Query × Nat) :=
        (sA.map (fun a => (Query.starterBusy, a))).toList ++ (pA.map (fun a => (Query.stopperBusy, a))).toList
        ++ (cA.map (fun a => (Query.conflicting, a))).toList
      let cur : SState := if which == "op" then .operation else .conciliation
      let st : St :=
        { peers := [{ state := .running }, { state := .running }],
          modes := [{ fsm := cur, master := some (if isM then 0 else 1) },
                    { fsm := (ms.map SState.ofCode).getD cur, master := if ms.isSome then some 1 else none }],
          oracle := oracle }
      let act := if which == "op" then nextOperation evalCfg else nextConciliation evalCfg
      match act.run st with
      | .error _ => "err | J:?"
      | .ok (nxt, st') =>
        let orders := (st'.out.filter (fun o => match o with | .conciliate => true | _ => false)).length
        let bad := st'.oracleBad != 0 || !st'.oracle.isEmpty
        let nxtS := match nxt with | some x => toString x.code | none => "-"
        -- judge on the implementation: the conflict answer is that of the view; the detection clause of the statement
        let conf := conflicting ctx
        let j1 := match cA with
          | some a => if (a != 0) == conf then [] else ["conflicting-answer"]
          | none => []
        let implNext := impl.getD 0 "?"
        let implOrders := impl.getD 1 "?"
        let idle := sA == some 0 && pA == some 0
        let stmtConflict := ctx.any Supv.Spec.C05.inConflict
        let managedDup := conflicting ctx
        let j2 :=
          if which == "op" then
            (if isM && idle && stmtConflict && implNext != "5" then ["conflict-not-detected"] else [])
            ++ (if !managedDup && implNext == "5" && isM then ["conciliation-without-managed-conflict"] else [])
            ++ (if !isM && implOrders != "0" then ["non-master-conciliates"] else [])
          else
            (if isM && idle && !managedDup && implNext != "4" then ["no-return-to-operation"] else [])
            ++ (if isM && idle && stmtConflict && implNext != "5" then ["left-conciliation-with-conflict"] else [])
            ++ (if !isM && implOrders != "0" then ["non-master-conciliates"] else [])
        s!"{nxtS} {orders}{if bad then " oracle-mismatch" else ""} | J:{verdict (j1 ++ j2)}"
    | _, _, _, _ => "?unparsable | J:?"
  | _, _ => "?unparsable | J:?"

def stepLine (_ : Unit) (line : String) : Unit × String :=
  let parts := line.splitOn "|"
  let left := (parts.getD 0 "").splitOn ";"
  let head := words (left.getD 0 "")
  let views := words (left.getD 1 "")
  match head with
  | "conc" :: rest => ((), concLine rest views (words (parts.getD 1 "")) (words (parts.getD 2 "")))
  | "eval" :: rest => ((), evalLine rest views (words (parts.getD 1 "")))
  | _ => ((), "?unknown-line | J:?")

def main : IO Unit := runLoop () stepLine

end Supv.Drv.C05
