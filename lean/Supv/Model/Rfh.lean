/-!
# Model of `supvisors/strategy.py::RunningFailureHandler` and of the glue that feeds it

Import-free and executable.  Python counterparts are named in every doc-comment.

* Processes and applications are `Nat` indices.  What the handler reads from a process is static configuration
  (`Cfg`): its application (`process.application_name`), whether it belongs to
  `application.get_start_sequenced_processes()` (managed application and `rules.start_sequence > 0`) and its
  `rules.running_failure_strategy`.
* The four job sets are Python *sets*: here duplicate-free lists in insertion order; their order is never observed
  (observations sort them, the theorems speak of membership only).
* What the handler asks the rest of Supvisors is an *input* of the operation: `application.stopped()` at the time of
  `add_default_job`, and `starter.get_application_job_names() | stopper.get_application_job_names()` — read ONCE at the
  beginning of `trigger_jobs` — for `trigger`.
* What it orders is an *output*: `stopper.stop_application(a, False)`, `stopper.default_restart_application(a, False)`,
  `stopper.default_restart_process(p, False)`; a CONTINUE job only logs (`nothing p`).
* The two callers are modelled as compositions of these operations: `FiniteStateMachine.on_process_state_event`
  (process crash, `crash`) and `_MasterSlaveState.next` → `_common_next` → `_master_next` of the working states
  (instance loss, `lost`).
-/

namespace Supv.Rfh

/-- `ttypes.RunningFailureStrategies` -/
inductive Strategy where
  | cont | restartProcess | stopApplication | restartApplication | shutdown | restart
  deriving DecidableEq, Repr, Inhabited

namespace Strategy
def name : Strategy → String
  | cont => "CONTINUE" | restartProcess => "RESTART_PROCESS" | stopApplication => "STOP_APPLICATION"
  | restartApplication => "RESTART_APPLICATION" | shutdown => "SHUTDOWN" | restart => "RESTART"
def ofName : String → Option Strategy
  | "CONTINUE" => some cont | "RESTART_PROCESS" => some restartProcess | "STOP_APPLICATION" => some stopApplication
  | "RESTART_APPLICATION" => some restartApplication | "SHUTDOWN" => some shutdown | "RESTART" => some restart
  | _ => none
/-- the four strategies `add_job` has a branch for (SHUTDOWN and RESTART fall through every `elif`) -/
def handled : Strategy → Bool
  | cont | restartProcess | stopApplication | restartApplication => true
  | _ => false
end Strategy

/-- static configuration read through the `ProcessStatus` / `ApplicationStatus` objects -/
structure Cfg where
  /-- `context.applications[process.application_name]` -/
  app : Nat → Nat
  /-- `process in application.get_start_sequenced_processes()` -/
  seq : Nat → Bool
  /-- `process.rules.running_failure_strategy` -/
  strat : Nat → Strategy

/-- the four job sets -/
structure St where
  stopApps : List Nat := []        -- stop_application_jobs
  restartApps : List Nat := []     -- restart_application_jobs
  restartProcs : List Nat := []    -- restart_process_jobs
  continueProcs : List Nat := []   -- continue_process_jobs
  deriving DecidableEq, Repr, Inhabited

/-- `set.add` -/
def ins (x : Nat) (l : List Nat) : List Nat := if x ∈ l then l else l ++ [x]
/-- `set.discard` -/
def del (x : Nat) (l : List Nat) : List Nat := l.filter (· ≠ x)

/-- `add_stop_application_job`: supersedes every other job of the application -/
def addStop (c : Cfg) (h : St) (a : Nat) : St :=
  { stopApps := ins a h.stopApps
    restartApps := del a h.restartApps
    restartProcs := h.restartProcs.filter (fun p => c.app p ≠ a)
    continueProcs := h.continueProcs.filter (fun p => c.app p ≠ a) }

/-- `add_restart_application_job`: refused under a stop job; supersedes the process jobs of the processes that are
    "declared in the application start sequence" only -/
def addRestartApp (c : Cfg) (h : St) (a : Nat) : St :=
  if a ∈ h.stopApps then h else
  { h with
    restartApps := ins a h.restartApps
    restartProcs := h.restartProcs.filter (fun p => ¬ (c.app p = a ∧ c.seq p = true))
    continueProcs := h.continueProcs.filter (fun p => ¬ (c.app p = a ∧ c.seq p = true)) }

/-- `add_restart_process_job` -/
def addRestartProc (c : Cfg) (h : St) (p : Nat) : St :=
  if c.app p ∈ h.stopApps then h
  else if c.app p ∈ h.restartApps ∧ c.seq p = true then h
  else { h with restartProcs := ins p h.restartProcs, continueProcs := del p h.continueProcs }

/-- `add_continue_process_job` -/
def addContinue (c : Cfg) (h : St) (p : Nat) : St :=
  if c.app p ∈ h.stopApps then h
  else if c.app p ∈ h.restartApps ∧ c.seq p = true then h
  else if p ∈ h.restartProcs then h
  else { h with continueProcs := ins p h.continueProcs }

/-- `add_job(strategy, process)` -/
def addJob (c : Cfg) (h : St) (s : Strategy) (p : Nat) : St :=
  match s with
  | .stopApplication => addStop c h (c.app p)
  | .restartApplication => addRestartApp c h (c.app p)
  | .restartProcess => addRestartProc c h p
  | .cont => addContinue c h p
  | .shutdown | .restart => h

/-- the promotion test of `add_default_job`: RESTART_PROCESS, `application.stopped()`, process in the start sequence -/
def promotes (c : Cfg) (p : Nat) (stopped : Bool) : Bool :=
  decide (c.strat p = .restartProcess) && stopped && c.seq p

/-- `add_default_job(process)`; `stopped` = `application.stopped()` read after the first `add_job` -/
def addDefault (c : Cfg) (h : St) (p : Nat) (stopped : Bool) : St :=
  let h1 := addJob c h (c.strat p) p
  if promotes c p stopped then addJob c h1 .restartApplication p else h1

/-- what the handler (or the FSM on its behalf) orders -/
inductive Out where
  | stopApp (a : Nat)        -- stopper.stop_application(a, False)
  | restartApp (a : Nat)     -- stopper.default_restart_application(a, False)
  | restartProc (p : Nat)    -- stopper.default_restart_process(p, False)
  | nothing (p : Nat)        -- CONTINUE: logged only
  | fsmRestart               -- FiniteStateMachine.on_restart()
  | fsmShutdown              -- FiniteStateMachine.on_shutdown()
  deriving DecidableEq, Repr, Inhabited

/-- `trigger_jobs`; `busy` = the application names held by Starter or Stopper, read once at the beginning.
    Jobs of a busy application are deferred (kept), the others leave their set and are ordered; the CONTINUE set is
    emptied whatever `busy`. The final `stopper.next()` / `starter.next()` belong to the commander. -/
def trigger (c : Cfg) (h : St) (busy : List Nat) : St × List Out :=
  ({ stopApps := h.stopApps.filter (· ∈ busy)
     restartApps := h.restartApps.filter (· ∈ busy)
     restartProcs := h.restartProcs.filter (fun p => c.app p ∈ busy)
     continueProcs := [] },
   (h.stopApps.filter (· ∉ busy)).map .stopApp
   ++ (h.restartApps.filter (· ∉ busy)).map .restartApp
   ++ (h.restartProcs.filter (fun p => c.app p ∉ busy)).map .restartProc
   ++ h.continueProcs.map .nothing)

/-- `abort` -/
def abort (_h : St) : St := {}

/-! ### The callers -/

inductive CrashAct where
  | none | fsmRestart | fsmShutdown | handler
  deriving DecidableEq, Repr, Inhabited

/-- `FiniteStateMachine.on_process_state_event`, the part after `starter/stopper.on_event`:
    `master` = `state_modes.is_master()`, `crashed` = `process.crashed()`, `forced` = `process.forced_state is not None` -/
def crashAction (master crashed forced : Bool) (s : Strategy) : CrashAct :=
  if master && crashed then
    match s with
    | .restart => .fsmRestart
    | .shutdown => .fsmShutdown
    | .stopApplication | .restartApplication => if forced then .none else .handler
    | .cont | .restartProcess => .none
  else .none

/-- the working states whose `next` may hand lost processes to the handler -/
inductive WState where
  | distribution | operation | conciliation
  deriving DecidableEq, Repr, Inhabited

/-- `_master_next` is reached only by the Master (`_MasterSlaveState.next`); the three working states call
    `_WorkingState._master_next` first (CONCILIATION too since `/repo` 896a4df) -/
def handsLost (master : Bool) (_w : WState) : Bool := master

/-- `Starter/Stopper.on_instances_invalidation`: a failed process that has a pending request on a lost instance or a
    planned command is removed from the set (`withJob`) -/
def leftToHandler (failed : List (Nat × Bool)) (withJob : List Nat) : List (Nat × Bool) :=
  failed.filter (fun x => x.1 ∉ withJob)

inductive Op where
  | addJob (s : Strategy) (p : Nat)
  | addDefault (p : Nat) (stopped : Bool)
  | trigger (busy : List Nat)
  | abort
  /-- process event handled by the FSM: if the dispatch selects the handler, `add_default_job` + `trigger_jobs` -/
  | crash (master crashed forced : Bool) (p : Nat) (stopped : Bool) (busy : List Nat)
  /-- instance loss seen by a working state: `failed` = `invalidate_failed()[1]` with, per process, the value of
      `application.stopped()`; `withJob` = the processes Starter/Stopper keep for themselves -/
  | lost (master : Bool) (w : WState) (failed : List (Nat × Bool)) (withJob : List Nat) (busy : List Nat)
  deriving Repr, Inhabited

def step (c : Cfg) (h : St) : Op → St × List Out
  | .addJob s p => (addJob c h s p, [])
  | .addDefault p stopped => (addDefault c h p stopped, [])
  | .trigger busy => trigger c h busy
  | .abort => (abort h, [])
  | .crash master crashed forced p stopped busy =>
    match crashAction master crashed forced (c.strat p) with
    | .none => (h, [])
    | .fsmRestart => (h, [.fsmRestart])
    | .fsmShutdown => (h, [.fsmShutdown])
    | .handler => trigger c (addDefault c h p stopped) busy
  | .lost master w failed withJob busy =>
    if handsLost master w then
      match leftToHandler failed withJob with
      | [] => (h, [])            -- `if self.lost_processes:`
      | l => trigger c (l.foldl (fun h x => addDefault c h x.1 x.2) h) busy
    else (h, [])

/-- a history of operations: final state and the outputs of each operation -/
def run (c : Cfg) (h : St) : List Op → St × List (List Out)
  | [] => (h, [])
  | op :: rest =>
    let r := step c h op
    let q := run c r.1 rest
    (q.1, r.2 :: q.2)

/-- the state after a history -/
def after (c : Cfg) (ops : List Op) : St := ops.foldl (fun h op => (step c h op).1) {}

end Supv.Rfh
