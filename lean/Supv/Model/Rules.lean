/-!
# Model of rule and option resolution (`sparser.py`, `process.py::ProcessRules`, `application.py::ApplicationRules`
# and `HomogeneousGroup`, `options.py::SupvisorsOptions`)

Import-free and executable.  Python counterparts are named in every doc-comment.  The model says what the code DOES:
what Python would raise is an explicit `Except` error carrying the exception class name.

Abstractions (recorded in the trusted base of the check):
* an XML element is its `name` / `pattern` attributes and the ordered list of its children `(tag, text)`
  (`findtext` = text of the first child with that tag, `""` when the child is empty);
* the regular-expression engine is not modelled: `re.search(f'({pattern})', name)` is a table supplied with the
  document (`no` match, length of the match, or `re.error`);
* the acceptance of an `operational_status` formula by the `status_formula` setter (`ast.parse`, property C15) is a table
  supplied with the document;
* strings are sequences of printable ASCII characters and ASCII white space (Python `int()`, `float()`, `str.strip`,
  `str.lower`, `str.upper` are re-implemented for that alphabet only).
-/

namespace Supv.Rules

/-! ## 1. Constants of the source (tied to the working tree by `Supv/Gen/C18.lean`) -/

/-- `Parser.LOOP_CHECK` -/
def LOOP_CHECK : Nat := 3
/-- `ttypes.StartingFailureStrategies` -/
def sfsNames : List String := ["ABORT", "STOP", "CONTINUE"]
/-- `ttypes.RunningFailureStrategies` -/
def rfsNames : List String :=
  ["CONTINUE", "RESTART_PROCESS", "STOP_APPLICATION", "RESTART_APPLICATION", "SHUTDOWN", "RESTART"]
/-- `ttypes.DistributionRules` -/
def distNames : List String := ["ALL_INSTANCES", "SINGLE_INSTANCE", "SINGLE_NODE"]
/-- `ttypes.StartingStrategies` -/
def startNames : List String :=
  ["CONFIG", "LESS_LOADED", "MOST_LOADED", "LOCAL", "LESS_LOADED_NODE", "MOST_LOADED_NODE"]
/-- `ttypes.ConciliationStrategies` -/
def concNames : List String := ["SENICIDE", "INFANTICIDE", "USER", "STOP", "RESTART", "RUNNING_FAILURE"]
/-- `ttypes.SupvisorsFailureStrategies` -/
def failNames : List String := ["CONTINUE", "RESYNC", "SHUTDOWN"]
/-- `ttypes.EventLinks` -/
def linkNames : List String := ["NONE", "ZMQ", "WS"]
/-- `ttypes.SynchronizationOptions` -/
def syncNames : List String := ["STRICT", "LIST", "TIMEOUT", "CORE", "USER"]
/-- `ttypes.StatisticsTypes` -/
def statNames : List String := ["OFF", "HOST", "PROCESS", "ALL"]
/-- `SupvisorsOptions.SYNCHRO_DEFAULT_OPTIONS` as written in the source -/
def syncDefault : List String := ["STRICT", "TIMEOUT", "CORE"]
/-- is the default handed to `_get_value` for `synchro_options` the class attribute itself (a list object shared by every
    instance that falls back to it)?  `false` since the repair b925545: a copy `list(self.SYNCHRO_DEFAULT_OPTIONS)` is passed -/
def syncDefaultShared : Bool := false
/-- `SupvisorsOptions.RESERVED_MULTICAST_ADDRESSES` -/
def reservedMulticast : List String := ["224.0.0.0", "232.0.0.0", "233.0.0.0", "239.0.0.0"]
/-- inclusive bounds written in the converters and loaders -/
def loadBounds : Int × Int := (0, 100)
def seqMin : Int := 0
def ttlBounds : Int × Int := (0, 255)
def portBounds : Int × Int := (1, 65535)
def byteBounds : Int × Int := (0, 255)
def multicastFirstByte : Int × Int := (224, 239)
def timeoutBounds : Int × Int := (15, 1200)
def ticksBounds : Int × Int := (2, 720)
def histoBounds : Int × Int := (10, 1500)
def periodBounds : Nat × Nat := (1, 3600)
def maxPeriods : Nat := 3

/-! ## 2. Lexing (ASCII) -/

/-- the ASCII characters removed by `str.strip()` and skipped by `int()` / `float()` -/
def isWs (c : Char) : Bool :=
  c == ' ' || c == '\t' || c == '\n' || c == '\r' || c.toNat == 11 || c.toNat == 12 ||
  c.toNat == 28 || c.toNat == 29 || c.toNat == 30 || c.toNat == 31

def stripL (s : List Char) : List Char := ((s.dropWhile isWs).reverse.dropWhile isWs).reverse
/-- `str.strip()` -/
def strip (s : String) : String := String.ofList (stripL s.toList)

def isDig (c : Char) : Bool := '0' ≤ c && c ≤ '9'
def digVal (c : Char) : Nat := c.toNat - '0'.toNat

/-- digits with single underscores strictly between digits (PEP 515) -/
def digitsUsGo : List Char → Bool → Bool
  | [], _ => true
  | c :: t, prevUs => if c == '_' then (!prevUs && digitsUsGo t true) else (isDig c && digitsUsGo t false)

def digitsUs (cs : List Char) : Bool :=
  match cs, cs.getLast? with
  | c :: _, some l => isDig c && isDig l && digitsUsGo cs false
  | _, _ => false

def natOfDigits (cs : List Char) : Nat := (cs.filter isDig).foldl (fun a c => a * 10 + digVal c) 0

def splitSign : List Char → Bool × List Char
  | '+' :: r => (false, r)
  | '-' :: r => (true, r)
  | r => (false, r)

/-- Python `int(str)` (base 10) on ASCII; `none` = `ValueError` -/
def pyInt (s : String) : Option Int :=
  let (neg, d) := splitSign (stripL s.toList)
  if digitsUs d then
    let v : Nat := natOfDigits d
    some (if neg then -(v : Int) else v)
  else none

def lower (s : String) : String := String.ofList (s.toList.map Char.toLower)
def upper (s : String) : String := String.ofList (s.toList.map Char.toUpper)

/-- `distutils.util.strtobool` -/
def strtobool (s : String) : Option Bool :=
  let v := lower s
  if ["y", "yes", "t", "true", "on", "1"].contains v then some true
  else if ["n", "no", "f", "false", "off", "0"].contains v then some false
  else none

/-- `supervisor.datatypes.boolean` -/
def svBoolean (s : String) : Option Bool :=
  let v := lower s
  if ["yes", "true", "on", "1"].contains v then some true
  else if ["no", "false", "off", "0"].contains v then some false
  else none

def splitOnChar (sep : Char) : List Char → List (List Char)
  | [] => [[]]
  | c :: t =>
    if c == sep then [] :: splitOnChar sep t
    else match splitOnChar sep t with
      | [] => [[c]]
      | h :: r => (c :: h) :: r

/-- `supervisor.datatypes.list_of_strings`: `[]` for an empty argument, else split on commas and strip each item -/
def listOfStrings (s : String) : List String :=
  if s == "" then [] else (splitOnChar ',' s.toList).map (fun x => String.ofList (stripL x))

/-- `list(OrderedDict.fromkeys(l))` -/
def dedup : List String → List String
  | [] => []
  | h :: t => h :: (dedup t).filter (· != h)

/-- `filter(None, l)` on strings -/
def nonEmpties (l : List String) : List String := l.filter (· != "")

/-! ### `float()` — decimal literals, `nan`, `inf`, correctly rounded where the value matters -/

/-- the value classes of `float(str)` that `to_period` can tell apart -/
inductive FVal where
  /-- `nan`, `+nan`, `-nan` in any case -/
  | nan
  /-- a negative number, `-0.0` or `-inf`: certainly `< 1.0` -/
  | neg
  /-- `0 ≤ x < 1/10` (not computed further) -/
  | tiny
  /-- `x ≥ 10^5`, `inf` included (not computed further) -/
  | huge
  /-- the binary64 value `n / d` (`d` a power of two, lowest terms): correct rounding of a literal in `[1/10, 10^5)` -/
  | mid (n d : Nat)
  deriving DecidableEq, Repr, Inhabited

/-- split at the first occurrence of `c` -/
def splitFirst (c : Char) : List Char → List Char × Option (List Char)
  | [] => ([], none)
  | h :: t =>
    if h == c then ([], some t)
    else let (a, b) := splitFirst c t; (h :: a, b)

def numDigits (n : Nat) : Nat := (Nat.toDigits 10 n).length

/-- round-half-even of `num / den` (both positive) to 53 significant bits; result as a fraction in lowest terms -/
def roundBinary64 (num den : Nat) : Nat × Nat :=
  -- L = floor(log2(num/den))
  let t : Int := (Nat.log2 num : Int) - (Nat.log2 den : Int)
  let ge (k : Int) : Bool := if k ≥ 0 then num ≥ den * 2 ^ k.toNat else num * 2 ^ (-k).toNat ≥ den
  let L : Int := if ge t then t else t - 1
  let e : Int := L - 52
  -- num / (den * 2^e) as a fraction a / b
  let a : Nat := if e ≥ 0 then num else num * 2 ^ (-e).toNat
  let b : Nat := if e ≥ 0 then den * 2 ^ e.toNat else den
  let q := a / b
  let r := a % b
  let m := if 2 * r > b then q + 1 else if 2 * r == b then q + q % 2 else q
  -- m * 2^e in lowest terms
  let n0 : Nat := if e ≥ 0 then m * 2 ^ e.toNat else m
  let d0 : Nat := if e ≥ 0 then 1 else 2 ^ (-e).toNat
  let g := Nat.gcd n0 d0
  (n0 / g, d0 / g)

/-- Python `float(str)` on ASCII; `none` = `ValueError` -/
def pyFloat (s : String) : Option FVal :=
  let (neg, t) := splitSign (stripL s.toList)
  let low := t.map Char.toLower
  if low == "nan".toList then some .nan
  else if low == "inf".toList || low == "infinity".toList then some (if neg then .neg else .huge)
  else
    let (mant, exp?) := splitFirst 'e' low
    let expOk : Option Int := match exp? with
      | none => some 0
      | some x =>
        let (eneg, ed) := splitSign x
        if digitsUs ed then some (if eneg then -(natOfDigits ed : Int) else natOfDigits ed) else none
    let (ip, fp?) := splitFirst '.' mant
    let fp := fp?.getD []
    let mantOk : Bool :=
      match fp? with
      | none => digitsUs ip
      | some f => !(ip.isEmpty && f.isEmpty) && (ip.isEmpty || digitsUs ip) && (f.isEmpty || digitsUs f)
    match mantOk, expOk with
    | true, some ex =>
      let M := natOfDigits (ip ++ fp)
      let fl : Nat := (fp.filter isDig).length
      if neg then some .neg
      else if M == 0 then some .tiny
      else
        -- value = M * 10^(ex - fl), 10^(n-1) ≤ M < 10^n
        let n : Int := numDigits M
        let k : Int := ex - fl
        if n + k ≤ -1 then some .tiny
        else if n - 1 + k ≥ 5 then some .huge
        else
          let (a, b) := if k ≥ 0 then roundBinary64 (M * 10 ^ k.toNat) 1 else roundBinary64 M (10 ^ (-k).toNat)
          some (.mid a b)
    | _, _ => none

/-! ## 3. The rules document -/

/-- a `<program>`, `<model>` or `<application>` element without its `<programs>` -/
structure Elt where
  name : Option String := none
  pattern : Option String := none
  /-- children in document order: (tag, text) with `""` for an empty element -/
  children : List (String × String) := []
  deriving Repr, Inhabited, DecidableEq

/-- `elt.findtext(tag)`: `none` when no such child -/
def Elt.findtext (e : Elt) (tag : String) : Option String :=
  (e.children.find? (·.1 == tag)).map (·.2)

/-- `findtext` followed by the truthiness test `if value:` of every loader -/
def Elt.text (e : Elt) (tag : String) : Option String :=
  match e.findtext tag with
  | some t => if t == "" then none else some t
  | none => none

structure AppElt where
  elt : Elt := {}
  /-- the `<program>` elements of all `<programs>` children, in document order -/
  programs : List Elt := []
  deriving Repr, Inhabited, DecidableEq

/-- result of `re.search(f'({pattern})', name)` -/
inductive MatchRes where
  | no
  | len (n : Nat)
  /-- `re.error`: the pattern is not a regular expression -/
  | err
  deriving Repr, Inhabited, DecidableEq

structure Doc where
  /-- `<alias name=..>text</alias>` elements of the roots in document order -/
  aliases : List (String × String) := []
  /-- `<model name=..>` elements -/
  models : List Elt := []
  apps : List AppElt := []
  /-- regular-expression results supplied by the harness: (pattern, name, result); absent = no match -/
  matchTable : List (String × String × MatchRes) := []
  /-- formulas accepted by the `status_formula` setter (`ast.parse` + shape test; supplied by the harness from the real setter) -/
  formulasOk : List String := []
  deriving Repr, Inhabited

abbrev Err := String

/-! ### identifiers of rules -/

structure Ids where
  identifiers : List String := ["*"]
  atIds : List String := []
  hashIds : List String := []
  deriving Repr, Inhabited, DecidableEq

/-- `ProcessRules` -/
structure ProcRules where
  ids : Ids := {}
  startSeq : Int := 0
  stopSeq : Int := -1
  required : Bool := false
  waitExit : Bool := false
  load : Int := 0
  sfs : String := "ABORT"
  rfs : String := "CONTINUE"
  deriving Repr, Inhabited, DecidableEq

/-- `ApplicationRules` -/
structure AppRules where
  managed : Bool := false
  distribution : String := "ALL_INSTANCES"
  ids : Ids := {}
  startSeq : Int := 0
  stopSeq : Int := -1
  startingStrategy : String := "CONFIG"
  sfs : String := "ABORT"
  rfs : String := "CONTINUE"
  statusFormula : Option String := none
  deriving Repr, Inhabited, DecidableEq

/-! ### lookup -/

def matchRes (d : Doc) (pat name : String) : MatchRes :=
  match d.matchTable.find? (fun m => m.1 == pat && m.2.1 == name) with
  | some m => m.2.2
  | none => .no

/-- Python dict built by successive `update`: a later duplicate key replaces the value but keeps the first position -/
def dictInsert {α} (acc : List (String × α)) (k : String) (v : α) : List (String × α) :=
  if acc.any (·.1 == k) then acc.map (fun kv => if kv.1 == k then (k, v) else kv) else acc ++ [(k, v)]

def patternDict {α} (key : α → Option String) (l : List α) : List (String × α) :=
  l.foldl (fun acc e => match key e with
    | none => acc
    | some k => dictInsert acc k e) []

/-- the loop of `get_best_pattern`: every pattern is tried in dict order; the first `re.error` propagates -/
def matching {α} (d : Doc) (name : String) : List (String × α) → Except Err (List (Nat × α))
  | [] => .ok []
  | (p, v) :: t =>
    match matchRes d p name with
    | .err => .error "re.error"
    | .no => matching d name t
    | .len n =>
      match matching d name t with
      | .ok r => .ok ((n, v) :: r)
      | .error e => .error e

/-- Python `max(l, key=...)`: the first element with the greatest key -/
def firstMax {α} : List (Nat × α) → Option (Nat × α)
  | [] => none
  | x :: t =>
    match firstMax t with
    | none => some x
    | some b => if b.1 > x.1 then some b else some x

/-- `get_best_pattern` + the dict access that follows: greatest capture, first one on ties -/
def bestPattern {α} (d : Doc) (name : String) (pats : List (String × α)) : Except Err (Option α) :=
  match matching d name pats with
  | .ok ms => .ok ((firstMax ms).map (·.2))
  | .error e => .error e

/-- `Parser.get_application_element` -/
def getApplicationElement (d : Doc) (app : String) : Except Err (Option AppElt) :=
  match d.apps.find? (fun a => a.elt.name == some app) with
  | some a => .ok (some a)
  | none => bestPattern d app (patternDict (·.elt.pattern) d.apps)

/-- the second half of `Parser.get_program_element`: (element, is_pattern) inside the application element found -/
def getProgramIn (d : Doc) (a : AppElt) (proc : String) : Except Err (Option Elt × Bool) :=
  match a.programs.find? (fun p => p.name == some proc) with
  | some p => .ok (some p, false)
  | none =>
    match bestPattern d proc (patternDict (·.pattern) a.programs) with
    | .ok (some p) => .ok (some p, true)
    | .ok none => .ok (none, false)
    | .error e => .error e

/-- `Parser.get_program_element` -/
def getProgramElement (d : Doc) (app proc : String) : Except Err (Option Elt × Bool) :=
  match getApplicationElement d app with
  | .error e => .error e
  | .ok none => .ok (none, false)
  | .ok (some a) => getProgramIn d a proc

/-! ### aliases and identifiers -/

/-- `Parser.aliases`: `{name: list_of_strings(text)}` for the alias elements with a non-empty text -/
def aliasDict (d : Doc) : List (String × List String) :=
  d.aliases.foldl (fun acc a => if a.2 == "" then acc else dictInsert acc a.1 (listOfStrings a.2)) []

/-- `identifiers[pos:pos+1] = alias` for the first occurrence of the alias name -/
def substFirst (name : String) (vals : List String) : List String → List String
  | [] => []
  | h :: t => if h == name then vals ++ t else h :: substFirst name vals t

/-- the alias loop of `check_identifier_list`: aliases in declaration order, each applied once to its first occurrence -/
def expandAliases (aliases : List (String × List String)) (ids : List String) : List String :=
  aliases.foldl (fun ids al => substFirst al.1 al.2 ids) ids

/-- `Parser.check_identifier_list` -/
def checkIdentifierList (d : Doc) (value : String) : List String :=
  dedup (nonEmpties (expandAliases (aliasDict d) (listOfStrings value)))

/-- the sign handling of `Parser.load_identifiers` once the list is resolved -/
def applyIdentifiers (resolved : List String) (r : Ids) : Ids :=
  let hasAt := resolved.contains "@"
  let hasHash := resolved.contains "#"
  let ids := (resolved.erase "@").erase "#"
  let ids := if ((hasAt || hasHash) && ids.isEmpty) || ids.contains "*" then ["*"] else ids
  let r := if hasAt then { r with atIds := ids, identifiers := [] } else r
  let r := if hasHash then { r with hashIds := ids, identifiers := [] } else r
  if !hasAt && !hasHash then { r with identifiers := ids } else r

/-- `Parser.load_identifiers` -/
def loadIdentifiers (d : Doc) (e : Elt) (r : Ids) : Ids :=
  match e.text "identifiers" with
  | none => r
  | some v => applyIdentifiers (checkIdentifierList d v) r

/-! ### value parsers of the loaders: `none` = the rule keeps its current value -/

/-- `load_sequence`: an integer `≥ 0` -/
def parseSeq (t : Option String) : Option Int :=
  match t.bind pyInt with
  | some v => if v ≥ seqMin then some v else none
  | none => none

/-- `load_expected_loading`: an integer in `[0;100]` -/
def parseLoad (t : Option String) : Option Int :=
  match t.bind pyInt with
  | some v => if loadBounds.1 ≤ v ∧ v ≤ loadBounds.2 then some v else none
  | none => none

/-- `load_boolean` -/
def parseBool (t : Option String) : Option Bool := t.bind strtobool

/-- `load_enum`: a member name of the enumeration, exactly -/
def parseEnum (names : List String) (t : Option String) : Option String :=
  match t with
  | some v => if names.contains v then some v else none
  | none => none

def ldStart (e : Elt) (r : ProcRules) : ProcRules :=
  match parseSeq (e.text "start_sequence") with | some v => { r with startSeq := v } | none => r
def ldStop (e : Elt) (r : ProcRules) : ProcRules :=
  match parseSeq (e.text "stop_sequence") with | some v => { r with stopSeq := v } | none => r
def ldRequired (e : Elt) (r : ProcRules) : ProcRules :=
  match parseBool (e.text "required") with | some v => { r with required := v } | none => r
def ldWaitExit (e : Elt) (r : ProcRules) : ProcRules :=
  match parseBool (e.text "wait_exit") with | some v => { r with waitExit := v } | none => r
def ldLoading (e : Elt) (r : ProcRules) : ProcRules :=
  match parseLoad (e.text "expected_loading") with | some v => { r with load := v } | none => r
def ldSfs (e : Elt) (r : ProcRules) : ProcRules :=
  match parseEnum sfsNames (e.text "starting_failure_strategy") with | some v => { r with sfs := v } | none => r
def ldRfs (e : Elt) (r : ProcRules) : ProcRules :=
  match parseEnum rfsNames (e.text "running_failure_strategy") with | some v => { r with rfs := v } | none => r
def ldIds (d : Doc) (e : Elt) (r : ProcRules) : ProcRules := { r with ids := loadIdentifiers d e r.ids }

/-- the eight loaders at the end of `load_model_rules`, in the order of the code -/
def loadElt (d : Doc) (e : Elt) (r : ProcRules) : ProcRules :=
  ldRfs e (ldSfs e (ldLoading e (ldWaitExit e (ldRequired e (ldStop e (ldStart e (ldIds d e r)))))))

/-- `Parser.get_model_element`: `self.models.get(elt.findtext('reference'))`; later definitions of a name replace earlier ones -/
def findModel (d : Doc) (e : Elt) : Option Elt :=
  match e.findtext "reference" with
  | none => none
  | some n => d.models.reverse.find? (fun m => m.name == some n)

/-- `Parser.load_model_rules` with `loop_check` as fuel: the referenced model first, then the element's own values -/
def loadModelRules (d : Doc) : Nat → Elt → ProcRules → ProcRules
  | 0, _, r => r
  | fuel + 1, e, r =>
    let r := match findModel d e with
      | some m => loadModelRules d fuel m r
      | none => r
    loadElt d e r

/-! ### `ProcessRules.check_dependencies` (without the autorestart side effect on Supervisor) -/

def checkAt (isPattern : Bool) (r : ProcRules) : ProcRules :=
  if !r.ids.atIds.isEmpty && !isPattern then { r with ids := { r.ids with identifiers := ["*"], atIds := [] } } else r
def checkHash (isPattern : Bool) (r : ProcRules) : ProcRules :=
  if !r.ids.hashIds.isEmpty && !isPattern then { r with ids := { r.ids with identifiers := ["*"], hashIds := [] } } else r
def checkSign (r : ProcRules) : ProcRules :=
  if !r.ids.atIds.isEmpty && !r.ids.hashIds.isEmpty then { r with ids := { r.ids with hashIds := [] } } else r
def checkStart (r : ProcRules) : ProcRules :=
  if r.required && r.startSeq == 0 then { r with required := false } else r
def checkStop (r : ProcRules) : ProcRules :=
  if r.stopSeq < 0 then { r with stopSeq := r.startSeq } else r

def checkDependencies (isPattern : Bool) (r : ProcRules) : ProcRules :=
  checkStop (checkStart (checkSign (checkHash isPattern (checkAt isPattern r))))

/-- `Parser.load_program_rules` on the rules `r0` prepared by `Context.setdefault_process`
    (defaults + the failure strategies of the application) -/
def loadProgramRules (d : Doc) (app proc : String) (r0 : ProcRules) : Except Err ProcRules :=
  match getProgramElement d app proc with
  | .error e => .error e
  | .ok (some e, isPattern) => .ok (checkDependencies isPattern (loadModelRules d LOOP_CHECK e r0))
  | .ok (none, isPattern) => .ok (checkDependencies isPattern r0)

/-! ### application rules -/

def laDistribution (e : Elt) (r : AppRules) : AppRules :=
  match parseEnum distNames (e.text "distribution") with | some v => { r with distribution := v } | none => r
def laIds (d : Doc) (e : Elt) (r : AppRules) : AppRules := { r with ids := loadIdentifiers d e r.ids }
def laStart (e : Elt) (r : AppRules) : AppRules :=
  match parseSeq (e.text "start_sequence") with | some v => { r with startSeq := v } | none => r
def laStop (e : Elt) (r : AppRules) : AppRules :=
  match parseSeq (e.text "stop_sequence") with | some v => { r with stopSeq := v } | none => r
def laStrategy (e : Elt) (r : AppRules) : AppRules :=
  match parseEnum startNames (e.text "starting_strategy") with | some v => { r with startingStrategy := v } | none => r
def laSfs (e : Elt) (r : AppRules) : AppRules :=
  match parseEnum sfsNames (e.text "starting_failure_strategy") with | some v => { r with sfs := v } | none => r
def laRfs (e : Elt) (r : AppRules) : AppRules :=
  match parseEnum rfsNames (e.text "running_failure_strategy") with | some v => { r with rfs := v } | none => r
/-- `load_status`: kept when the `status_formula` setter accepts the text -/
def laStatus (d : Doc) (e : Elt) (r : AppRules) : AppRules :=
  match e.text "operational_status" with
  | some v => if d.formulasOk.contains v then { r with statusFormula := some v } else r
  | none => r

/-- the loaders of `load_application_rules`, in the order of the code -/
def loadAppElt (d : Doc) (e : Elt) (r : AppRules) : AppRules :=
  laStatus d e (laRfs e (laSfs e (laStrategy e (laStop e (laStart e (laIds d e (laDistribution e { r with managed := true })))))))

def appCheckStop (r : AppRules) : AppRules :=
  if r.stopSeq < 0 then { r with stopSeq := r.startSeq } else r

def isDigitStr (cs : List Char) : Bool := !cs.isEmpty && cs.all isDig

/-- the digits of the greedy `re.match(r'.*[-_](\d+)$', name)`: those after the LAST `-`/`_` that is followed by digits
    only up to the end -/
def appIndexDigits (name : String) : Option (List Char) :=
  let cs := name.toList
  let tail := (cs.reverse.takeWhile isDig).reverse
  let rest := cs.reverse.dropWhile isDig
  match rest with
  | c :: _ => if (c == '-' || c == '_') && !tail.isEmpty then some tail else none
  | [] => none

/-- the reference list of `ApplicationRules.check_hash_identifiers`; `instances` = `list(mapper.instances.keys())` -/
def appHashRef (instances : List String) (r : AppRules) : List String :=
  if r.ids.hashIds.contains "*" then instances else r.ids.hashIds

/-- `ApplicationRules.check_hash_identifiers` -/
def appCheckHash (instances : List String) (app : String) (r : AppRules) : Except Err AppRules :=
  match appIndexDigits app with
  | none => .ok { r with startSeq := 0 }
  | some ds =>
    if natOfDigits ds == 0 then .ok { r with startSeq := 0 }
    else if (appHashRef instances r).isEmpty then .error "ZeroDivisionError"
    else .ok { r with ids := { r.ids with identifiers :=
      [(appHashRef instances r).getD ((natOfDigits ds - 1) % (appHashRef instances r).length) ""] } }

/-- `ApplicationRules.check_dependencies` -/
def appCheckDependencies (instances : List String) (app : String) (r : AppRules) : Except Err AppRules :=
  let r := appCheckStop r
  if !r.ids.hashIds.isEmpty then appCheckHash instances app r else .ok r

/-- `Parser.load_application_rules` on the rules `r0` prepared by `Context.setdefault_application`
    (defaults + the `starting_strategy` option) -/
def loadApplicationRules (d : Doc) (instances : List String) (app : String) (r0 : AppRules) : Except Err AppRules :=
  match getApplicationElement d app with
  | .error e => .error e
  | .ok (some a) => appCheckDependencies instances app (loadAppElt d a.elt r0)
  | .ok none => appCheckDependencies instances app r0

/-! ## 4. Homogeneous groups: `#` and `@` -/

/-- what `SupvisorsMapper.filter` and `mapper.instances` read -/
structure Mapper where
  /-- `mapper.instances` keys in declaration order -/
  instances : List String := []
  /-- nick identifier ↦ identifier -/
  nicks : List (String × String) := []
  /-- stereotype ↦ identifiers -/
  stereotypes : List (String × List String) := []
  deriving Repr, Inhabited

def lookupStr {α} (l : List (String × α)) (k : String) : Option α := (l.find? (·.1 == k)).map (·.2)

/-- `SupvisorsMapper.filter`: unknown names dropped, nick names and stereotypes resolved, duplicates removed -/
def Mapper.filter (m : Mapper) (l : List String) : List String :=
  dedup (l.foldr (fun x acc =>
    if m.instances.contains x then x :: acc
    else match lookupStr m.nicks x with
      | some i => i :: acc
      | none => match lookupStr m.stereotypes x with
        | some is => is ++ acc
        | none => acc) [])

/-- one process of a homogeneous group: `process_index` and the identifier part of its rules -/
structure GProc where
  name : String
  index : Nat
  ids : Ids
  deriving Repr, Inhabited, DecidableEq

/-- `HomogeneousGroup` -/
structure Group where
  procs : List GProc := []
  atIds : Option (List String) := none
  hashIds : Option (List String) := none
  deriving Repr, Inhabited

def optNonEmpty (o : Option (List String)) : Bool := match o with | some l => !l.isEmpty | none => false

/-- `HomogeneousGroup.add_process` -/
def Group.add (g : Group) (p : GProc) : Group :=
  let g := { g with procs := g.procs ++ [p] }
  let g := if !p.ids.atIds.isEmpty then { g with atIds := some p.ids.atIds } else g
  let g := if !p.ids.hashIds.isEmpty then { g with hashIds := some p.ids.hashIds } else g
  if optNonEmpty g.atIds && optNonEmpty g.hashIds then { g with hashIds := none } else g

/-- stable `sorted(processes, key=process_index)` -/
def insertByIndex (p : GProc) : List GProc → List GProc
  | [] => [p]
  | q :: t => if p.index ≤ q.index then p :: q :: t else q :: insertByIndex p t

def sortByIndex (l : List GProc) : List GProc := l.reverse.foldl (fun acc p => insertByIndex p acc) []

def refIdentifiers (m : Mapper) (l : List String) : List String :=
  if l.contains "*" then m.instances else m.filter l

/-- `rules.identifiers[0]` of the processes that have identifiers -/
def assignedOf (l : List GProc) : List String := l.filterMap (fun p => p.ids.identifiers.head?)

/-- the `zip` loop of `assign_at_identifiers` over the processes in index order -/
def zipAssignAt : List GProc → List String → List GProc
  | [], _ => []
  | p :: t, avail =>
    if p.ids.atIds.isEmpty then p :: zipAssignAt t avail
    else match avail with
      | [] => p :: zipAssignAt t []
      | i :: rest => { p with ids := { p.ids with atIds := [], identifiers := [i] } } :: zipAssignAt t rest

/-- `HomogeneousGroup.assign_at_identifiers`; returns the processes in index order -/
def assignAt (m : Mapper) (atIds : List String) (procs : List GProc) : List GProc :=
  let sorted := sortByIndex procs
  if sorted.all (·.ids.atIds.isEmpty) then sorted
  else
    let ref := refIdentifiers m atIds
    let assigned := assignedOf sorted
    let avail := ref.filter (fun i => !assigned.contains i)
    zipAssignAt sorted avail

/-- position of the first least count: `min(process_count, key=lambda x: x[0])` -/
def firstMinIdx : List Nat → Option Nat
  | [] => none
  | c :: t =>
    match firstMinIdx t with
    | none => some 0
    | some j => if t.getD j 0 < c then some (j + 1) else some 0

def incrAt : List Nat → Nat → List Nat
  | [], _ => []
  | c :: t, 0 => (c + 1) :: t
  | c :: t, j + 1 => c :: incrAt t j

/-- the assignment loop of `assign_hash_identifiers` over the processes in index order;
    `min()` of an empty sequence raises `ValueError` -/
def loopAssignHash (ref : List String) : List GProc → List Nat → Except Err (List GProc)
  | [], _ => .ok []
  | p :: t, counts =>
    if p.ids.hashIds.isEmpty then
      match loopAssignHash ref t counts with
      | .ok r => .ok (p :: r)
      | .error e => .error e
    else
      match firstMinIdx counts with
      | none => .error "ValueError"
      | some j =>
        match loopAssignHash ref t (incrAt counts j) with
        | .ok r => .ok ({ p with ids := { p.ids with hashIds := [], identifiers := [ref.getD j ""] } } :: r)
        | .error e => .error e

/-- `HomogeneousGroup.assign_hash_identifiers`; `process_count_per_instance[identifiers[0]]` raises `KeyError`
    when an assigned identifier is not in the reference list -/
def assignHash (m : Mapper) (hashIds : List String) (procs : List GProc) : Except Err (List GProc) :=
  let sorted := sortByIndex procs
  if sorted.all (·.ids.hashIds.isEmpty) then .ok sorted
  else
    let ref := refIdentifiers m hashIds
    let assigned := assignedOf sorted
    if assigned.all ref.contains then
      let counts := ref.map (fun i => assigned.count i)
      loopAssignHash ref sorted counts
    else .error "KeyError"

/-- write the resolved rules back into the group's own process order -/
def writeBack (procs resolved : List GProc) : List GProc :=
  procs.map (fun p => (resolved.find? (·.name == p.name)).getD p)

/-- `HomogeneousGroup.resolve_rules` -/
def Group.resolve (m : Mapper) (g : Group) : Except Err Group :=
  let g1 : Group := match g.atIds with
    | some l => if l.isEmpty then g else { g with procs := writeBack g.procs (assignAt m l g.procs) }
    | none => g
  match g1.hashIds with
  | some l =>
    if l.isEmpty then .ok g1
    else match assignHash m l g1.procs with
      | .ok r => .ok { g1 with procs := writeBack g1.procs r }
      | .error e => .error e
  | none => .ok g1

/-! ## 5. `[supvisors]` options -/

/-- a statistics period as `to_period` returns it (`nan` is never produced by the model since the repair 7f9aea6; the
    constructor is kept for the judge, which must be able to read and reject it in an implementation observation) -/
inductive Period where
  | nan
  | val (n d : Nat)
  deriving DecidableEq, Repr, Inhabited

def Period.lt : Period → Period → Bool
  | .val a b, .val c d => a * d < c * b
  | _, _ => false

/-! ### `list.sort` of CPython 3.12 for short lists (`n < 64`): `count_run`, then binary insertion -/

def runAsc {α} (lt : α → α → Bool) : α → List α → Nat
  | _, [] => 0
  | prev, x :: t => if lt x prev then 0 else 1 + runAsc lt x t
def runDesc {α} (lt : α → α → Bool) : α → List α → Nat
  | _, [] => 0
  | prev, x :: t => if lt x prev then 1 + runDesc lt x t else 0

/-- the binary search of `binarysort`: position in the sorted prefix `a` where `pivot` goes -/
def binPos {α} (lt : α → α → Bool) (pivot : α) (a : List α) : Nat → Nat → Nat → Nat
  | 0, l, _ => l
  | fuel + 1, l, r =>
    if l < r then
      let p := l + (r - l) / 2
      match a[p]? with
      | some x => if lt pivot x then binPos lt pivot a fuel l p else binPos lt pivot a fuel (p + 1) r
      | none => l
    else l

def binInsertAll {α} (lt : α → α → Bool) : List α → List α → List α
  | sorted, [] => sorted
  | sorted, x :: t =>
    let pos := binPos lt x sorted (sorted.length + 1) 0 sorted.length
    binInsertAll lt (sorted.take pos ++ [x] ++ sorted.drop pos) t

def pySort {α} (lt : α → α → Bool) : List α → List α
  | [] => []
  | [x] => [x]
  | x :: y :: t =>
    if lt y x then
      let n := 2 + runDesc lt y t
      binInsertAll lt ((x :: y :: t).take n).reverse ((x :: y :: t).drop n)
    else
      let n := 2 + runAsc lt y t
      binInsertAll lt ((x :: y :: t).take n) ((x :: y :: t).drop n)

/-- `SupvisorsOptions.to_period` / one item of `to_periods`; `none` = `ValueError`.
    The test is `not (1.0 <= period <= 3600.0)`: `nan` is refused like any value outside the range. -/
def toPeriod (s : String) : Option Period :=
  match pyFloat s with
  | some (.mid n d) => if periodBounds.1 * d ≤ n ∧ n ≤ periodBounds.2 * d then some (.val n d) else none
  | _ => none

/-- every conversion succeeds, or the first failure (`ValueError`) propagates -/
def optAll {α} : List (Option α) → Option (List α)
  | [] => some []
  | none :: _ => none
  | some a :: t => match optAll t with | some r => some (a :: r) | none => none

/-- `SupvisorsOptions.to_periods` -/
def toPeriods (s : String) : Option (List Period) :=
  let items := listOfStrings s
  if items.length == 0 ∨ items.length > maxPeriods then none
  else (optAll (items.map toPeriod)).map (pySort Period.lt)

/-- `SupvisorsOptions.to_integer` and the like: `integer()` then an inclusive range -/
def toRanged (lo hi : Int) (s : String) : Option Int :=
  match pyInt s with
  | some v => if lo > v ∨ v > hi then none else some v
  | none => none

/-- `to_event_link`, `to_*_strategy`: `Enum[value.upper()]` -/
def toEnumUpper (names : List String) (s : String) : Option String :=
  if names.contains (upper s) then some (upper s) else none

/-- `to_synchro_options` -/
def toSynchroOptions (s : String) : Option (List String) :=
  let items := nonEmpties (listOfStrings s)
  if items.all (fun x => syncNames.contains (upper x)) then some (dedup (items.map upper)) else none

/-- `to_statistics_type`: (host, process) -/
def toStatisticsType (s : String) : Option (Bool × Bool) :=
  let items := listOfStrings s
  if items.isEmpty then none
  else
    let conv (x : String) : Option String :=
      if statNames.contains (upper x) then some (upper x)
      else (svBoolean x).map (fun b => if b then "ALL" else "OFF")
    (optAll (items.map conv)).map (fun l => (l.contains "ALL" || l.contains "HOST", l.contains "ALL" || l.contains "PROCESS"))

/-- `supervisor.datatypes.byte_size` -/
def byteSize (s : String) : Option Int :=
  let v := (lower s).toList
  let suffix := String.ofList (v.drop (v.length - 2))
  let body := String.ofList (v.take (v.length - 2))
  if suffix == "kb" then (pyInt body).map (· * 1024)
  else if suffix == "mb" then (pyInt body).map (· * (1024 * 1024))
  else if suffix == "gb" then (pyInt body).map (· * (1024 * 1024 * 1024))
  else pyInt (String.ofList v)

/-- the byte checks shared by `to_ip_address` and `_check_multicast_address` -/
def ipBytesOk (first : Int × Int) (s : String) : Bool :=
  match (splitOnChar '.' s.toList).map String.ofList with
  | [a, b, c, e] =>
    (toRanged first.1 first.2 a).isSome && (toRanged byteBounds.1 byteBounds.2 b).isSome &&
    (toRanged byteBounds.1 byteBounds.2 c).isSome && (toRanged byteBounds.1 byteBounds.2 e).isSome
  | _ => false

/-- `to_ip_address`: `some none` = `INADDR_ANY` -/
def toIpAddress (s : String) : Option (Option String) :=
  if s == "ANY" || s == "INADDR_ANY" then some none
  else if ipBytesOk byteBounds s then some (some s) else none

/-- `to_multicast_group` -/
def toMulticastGroup (s : String) : Option (String × Int) :=
  match splitFirst ':' s.toList with
  | (a, some p) =>
    let addr := String.ofList a
    if reservedMulticast.contains addr then none
    else if ipBytesOk multicastFirstByte addr then (toRanged portBounds.1 portBounds.2 (String.ofList p)).map (fun port => (addr, port))
    else none
  | (_, none) => none

/-- the options whose conversion does not touch the file system -/
structure Options where
  supvisorsList : Option (List String) := none
  multicastGroup : Option (String × Int) := none
  multicastInterface : Option String := none
  multicastTtl : Int := 1
  eventLink : String := "NONE"
  eventPort : Int := 0
  autoFence : Bool := false
  synchroOptions : List String := syncDefault
  synchroTimeout : Int := 15
  inactivityTicks : Int := 2
  coreIdentifiers : List String := []
  conciliation : String := "USER"
  startingStrategy : String := "CONFIG"
  failureStrategy : String := "CONTINUE"
  hostStats : Bool := true
  procStats : Bool := true
  collectingPeriod : Period := .val 5 1
  statsPeriods : List Period := [.val 10 1]
  statsHisto : Int := 200
  irixMode : Bool := false
  tailLimit : Int := 1024
  tailfLimit : Int := 1024
  deriving Repr, Inhabited, DecidableEq

abbrev Config := List (String × String)

/-- `SupvisorsOptions._get_value`: absent or refused by the converter (`ValueError`) ⇒ the default -/
def getValue {α} (cfg : Config) (attr : String) (dflt : α) (conv : String → Option α) : α :=
  match lookupStr cfg attr with
  | none => dflt
  | some v => (conv v).getD dflt

/-- the conversions of `SupvisorsOptions.__init__`; `dfltSync` is the CURRENT content of the class attribute
    `SYNCHRO_DEFAULT_OPTIONS` (a list object shared by every instance that falls back to it) -/
def convertOptions (dfltSync : List String) (cfg : Config) : Options :=
  let stats := getValue cfg "stats_enabled" (true, true) toStatisticsType
  { supvisorsList := getValue cfg "supvisors_list" none (fun s => some (some (dedup (nonEmpties (listOfStrings s)))))
    multicastGroup := getValue cfg "multicast_group" none (fun s => (toMulticastGroup s).map some)
    multicastInterface := getValue cfg "multicast_interface" none toIpAddress
    multicastTtl := getValue cfg "multicast_ttl" 1 (toRanged ttlBounds.1 ttlBounds.2)
    eventLink := getValue cfg "event_link" "NONE" (toEnumUpper linkNames)
    eventPort := getValue cfg "event_port" 0 (toRanged portBounds.1 portBounds.2)
    autoFence := getValue cfg "auto_fence" false svBoolean
    synchroOptions := getValue cfg "synchro_options" dfltSync toSynchroOptions
    synchroTimeout := getValue cfg "synchro_timeout" timeoutBounds.1 (toRanged timeoutBounds.1 timeoutBounds.2)
    inactivityTicks := getValue cfg "inactivity_ticks" ticksBounds.1 (toRanged ticksBounds.1 ticksBounds.2)
    coreIdentifiers := getValue cfg "core_identifiers" [] (fun s => some (dedup (nonEmpties (listOfStrings s))))
    conciliation := getValue cfg "conciliation_strategy" "USER" (toEnumUpper concNames)
    startingStrategy := getValue cfg "starting_strategy" "CONFIG" (toEnumUpper startNames)
    failureStrategy := getValue cfg "supvisors_failure_strategy" "CONTINUE" (toEnumUpper failNames)
    hostStats := stats.1
    procStats := stats.2
    collectingPeriod := getValue cfg "stats_collecting_period" (.val 5 1) toPeriod
    statsPeriods := getValue cfg "stats_periods" [.val 10 1] toPeriods
    statsHisto := getValue cfg "stats_histo" 200 (toRanged histoBounds.1 histoBounds.2)
    irixMode := getValue cfg "stats_irix_mode" false svBoolean
    tailLimit := getValue cfg "tail_limit" 1024 byteSize
    tailfLimit := getValue cfg "tailf_limit" 1024 byteSize }

/-- does `self.synchro_options` fall back to the default? (option absent, or refused by the converter) -/
def usesDefaultSync (cfg : Config) : Bool :=
  match lookupStr cfg "synchro_options" with
  | none => true
  | some v => (toSynchroOptions v).isNone

/-- the two removals of `check_options` -/
def synchroCleanup (o : Options) : List String :=
  let s := if o.coreIdentifiers.isEmpty && o.synchroOptions.contains "CORE" then o.synchroOptions.erase "CORE" else o.synchroOptions
  if (o.supvisorsList.getD []).isEmpty && s.contains "STRICT" then s.erase "STRICT" else s

/-- `SupvisorsOptions.check_options` -/
def checkOptions (o : Options) : Except Err Options :=
  let s := synchroCleanup o
  if s.isEmpty then .error "ValueError"
  else if s.contains "TIMEOUT" && o.failureStrategy != "CONTINUE" then
    .ok { o with synchroOptions := s, failureStrategy := "CONTINUE" }
  else .ok { o with synchroOptions := s }

/-- `SupvisorsOptions(**cfg)`: the options or the `ValueError`, and the content of the class attribute
    `SYNCHRO_DEFAULT_OPTIONS` afterwards: the removals of `check_options` would be made in place on it if the instance
    aliased it (`syncDefaultShared`); with a copy the attribute is left alone -/
def buildOptions (dfltSync : List String) (cfg : Config) : Except Err Options × List String :=
  let o := convertOptions dfltSync cfg
  let dflt' := if syncDefaultShared && usesDefaultSync cfg then synchroCleanup o else dfltSync
  (checkOptions o, dflt')

end Supv.Rules
