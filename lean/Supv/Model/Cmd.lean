import Supv.Model.Proc
import Supv.Gen.Tables

/-!
# Model of the commander: Starter + Stopper (commander.py), starting strategies (strategy.py), composed with the process
# status synthesis of `Supv.Proc`

Executable; imports the process model and the generated constants only.  The two-level plan (application sequence ->
application jobs -> process sequence -> commands), both `next` recursions, `process_job` with the per-job load requests,
the six starting strategies with the load cap and stable ties, `possible_identifiers`, `on_event` / `timed_out` / `check`,
the starting failure strategies, `fail_command` with its re-entrant path (`force_process_state` ->
`on_process_state_event` -> `starter.on_event`), `stop/restart_application` with the deferred starts of `Stopper.after`,
descending pickup, only-where-running, stop time-outs.  Python recursion is bounded by fuel.
-/

namespace Supv.Cmd
open Supv.Proc

abbrev getInfo (l : Infos) (i : Nat) : Option Info := l.get? i
abbrev setInfo (l : Infos) (i : Nat) (v : Info) : Infos := l.set i v

/-- `update_status` of the process model; the exceptions it can raise are unreachable from the operations of this layer
    (every listed identifier has an entry), the previous status is kept if one ever surfaced -/
def updateStatusT (p : Proc) (i : Nat) (s : PState) : Proc :=
  match updateStatus p i s with
  | .ok q => q
  | .err _ => p

inductive Strategy | config | lessLoaded | mostLoaded | local | lessLoadedNode | mostLoadedNode
  deriving DecidableEq, Repr, Inhabited
def Strategy.code : Strategy → Nat
  | .config => 0 | .lessLoaded => 1 | .mostLoaded => 2 | .local => 3 | .lessLoadedNode => 4 | .mostLoadedNode => 5
def Strategy.ofCode : Nat → Strategy
  | 0 => .config | 1 => .lessLoaded | 2 => .mostLoaded | 3 => .local | 4 => .lessLoadedNode | _ => .mostLoadedNode

inductive SFail | abort | stop | cont deriving DecidableEq, Repr, Inhabited

structure PCfg where
  app : Nat
  startSeq : Nat
  required : Bool
  waitExit : Bool
  load : Nat
  sfail : SFail
  idents : Option (List Nat)      -- none = wildcard; some l = mapper.filter(rules.identifiers)
  startsecs : Nat
  stopSeq : Nat := 0
  stopwaitsecs : Nat := 5
  deriving Repr, Inhabited

structure ACfg where
  startSeq : Nat
  strategy : Strategy
  stopSeq : Nat := 0
  deriving Repr, Inhabited

structure Command where
  proc : Nat
  strategy : Strategy
  ignoreWaitExit : Bool := false
  target : Option Nat := none
  reqCounter : Nat := 0
  waitTicks : Nat := 2
  deriving Repr, Inhabited

structure AppJobs where
  app : Nat
  /-- creation rank of this `ApplicationStartJobs` object (which user request a start belongs to) -/
  runId : Nat := 0
  planned : List (Nat × List Command)
  current : List Command := []
  stopRequest : Bool := false
  deriving Repr, Inhabited

structure StopCommand where
  proc : Nat
  target : Nat
  reqCounter : Nat := 0
  waitTicks : Nat := 3
  deriving Repr, Inhabited

structure StopJobs where
  app : Nat
  /-- creation rank of this `ApplicationStopJobs` object (object identity in `Commander.next`) -/
  runId : Nat := 0
  planned : List (Nat × List StopCommand)
  current : List StopCommand := []
  deriving Repr, Inhabited

inductive Out where
  | start (p i : Nat) (run : Nat) (strat : Strategy)
  | force (p : Nat) (s : PState) (noResource : Bool) (run : Nat)   -- run: rank of the application start concerned (999: none)
  | stop (p i : Nat)
  deriving Repr

structure W where
  ninst : Nat
  me : Nat
  node : List Nat                 -- node of each instance
  instRunning : List Bool         -- instance seen RUNNING
  instChecked : List Bool := []   -- instance seen CHECKED (its events are accepted; it is not a candidate yet)
  counter : List Nat              -- sequence counter per instance
  pcfg : List PCfg
  acfg : List ACfg
  procs : List Proc
  planned : List (Nat × List AppJobs) := []
  current : List AppJobs := []
  splanned : List (Nat × List StopJobs) := []
  scurrent : List StopJobs := []
  appStartReq : List (Nat × Strategy) := []
  jobCount : Nat := 0             -- number of `ApplicationStartJobs` objects created so far
  stopJobCount : Nat := 0         -- number of `ApplicationStopJobs` objects created so far
  /-- `StarterModel` (start prediction): the LIVE process table, frozen, while `procs` holds the mock copies the prediction
      plays with; `none` outside a prediction.  Instance loads are always read from the live processes. -/
  live : Option (List Proc) := none
  modelEvents : List (Nat × Nat × PState) := []   -- `StarterModel.event_list`
  now : Nat := 0
  out : List Out := []
  deriving Repr, Inhabited

abbrev M := StateM W

def emit (o : Out) : M Unit := modify fun w => { w with out := w.out ++ [o] }
def proc (p : Nat) : M Proc := do return (← get).procs.getD p {}
def setProc (p : Nat) (x : Proc) : M Unit := modify fun w => { w with procs := w.procs.set p x }
def pcfg (p : Nat) : M PCfg := do return (← get).pcfg.getD p default

def procRunning (x : Proc) : Bool := x.state.isRunning
def procStopped (x : Proc) : Bool := x.state.isStopped

/-- ApplicationStatus.update_state == STOPPED -/
def appStopped (a : Nat) : M Bool := do
  let w ← get
  let ps := (List.range w.pcfg.length).filter (fun p => (w.pcfg.getD p default).app = a)
  return ps.all (fun p => let d := displayed (w.procs.getD p {}); d ≠ .running ∧ d ≠ .starting ∧ d ≠ .backoff ∧ d ≠ .stopping)

/-- SupvisorsInstanceStatus.get_load -/
def instLoad (w : W) (i : Nat) : Nat :=
  ((List.range w.pcfg.length).filter (fun p =>
      let x := (w.live.getD w.procs).getD p {}
      (getInfo x.infos i).isSome ∧ procRunning x ∧ i ∈ x.running)).foldl (fun acc p => acc + (w.pcfg.getD p default).load) 0

def nodeLoad (w : W) (nd : Nat) : Nat :=
  ((List.range w.ninst).filter (fun i => w.node.getD i 0 = nd)).foldl (fun acc i => acc + instLoad w i) 0

def reqOf (req : List (Nat × Nat)) (i : Nat) : Nat := (req.filter (·.1 = i)).foldl (fun a x => a + x.2) 0
def nodeReq (w : W) (req : List (Nat × Nat)) (nd : Nat) : Nat :=
  (req.filter (fun x => w.node.getD x.1 0 = nd)).foldl (fun a x => a + x.2) 0

/-- first minimal element in list order -/
def firstMin (key : Nat → Nat × Nat) : List Nat → Option Nat
  | [] => none
  | h :: t => match firstMin key t with
    | none => some h
    | some m => let kh := key h; let km := key m
      if km.1 < kh.1 ∨ (km.1 = kh.1 ∧ km.2 < kh.2) then some m else some h
/-- last maximal element in list order -/
def lastMax (key : Nat → Nat × Nat) : List Nat → Option Nat
  | [] => none
  | h :: t => match lastMax key t with
    | none => some h
    | some m => let kh := key h; let km := key m
      if kh.1 > km.1 ∨ (kh.1 = km.1 ∧ kh.2 > km.2) then some h else some m

/-- node load counted by the strategies: current load of the node plus the requests pending on it -/
def nodeLoading (w : W) (req : List (Nat × Nat)) (i : Nat) : Nat :=
  nodeLoad w (w.node.getD i 0) + nodeReq w req (w.node.getD i 0)
/-- instance load counted by the strategies: current load of the instance plus the requests pending on it -/
def instLoading (w : W) (req : List (Nat × Nat)) (i : Nat) : Nat := instLoad w i + reqOf req i

/-- the candidates seen RUNNING whose node stays at or below 100 with the additional load (`is_loading_valid`) -/
def validCands (w : W) (idents : List Nat) (load : Nat) (req : List (Nat × Nat)) : List Nat :=
  (idents.filter (fun i => w.instRunning.getD i false)).filter (fun i => nodeLoading w req i + load ≤ 100)

/-- strategy.get_supvisors_instance -/
def chooseInstance (w : W) (strat : Strategy) (idents : List Nat) (load : Nat) (req : List (Nat × Nat)) : Option Nat :=
  if (idents.filter (fun i => w.instRunning.getD i false)).isEmpty then none else
  let valid := validCands w idents load req
  match strat with
  | .config => valid.head?
  | .lessLoaded => firstMin (fun i => (instLoading w req i, nodeLoading w req i)) valid
  | .mostLoaded => lastMax (fun i => (instLoading w req i, nodeLoading w req i)) valid
  | .lessLoadedNode => firstMin (fun i => (nodeLoading w req i, instLoading w req i)) valid
  | .mostLoadedNode => lastMax (fun i => (nodeLoading w req i, instLoading w req i)) valid
  | .local => if w.me ∈ valid then some w.me else none

/-- ProcessStatus.possible_identifiers -/
def possibleIdentifiers (w : W) (p : Nat) : List Nat :=
  let c := w.pcfg.getD p default
  let x := w.procs.getD p {}
  let base := match c.idents with | none => List.range w.ninst | some l => l
  base.filter (fun i => match getInfo x.infos i with | some v => !v.disabled | none => false)

def jobLoadRequests (w : W) (j : AppJobs) : List (Nat × Nat) :=
  let cmds := j.current ++ (j.planned.map (·.2)).flatten
  cmds.filterMap (fun c => match c.target with
    | some i => if procStopped (w.procs.getD c.proc {}) then some (i, (w.pcfg.getD c.proc default).load) else none
    | none => none)

def minKey {α} : List (Nat × α) → Option Nat
  | [] => none
  | (k, _) :: t => match minKey t with | none => some k | some m => some (min k m)

def popKey {α} (k : Nat) : List (Nat × α) → Option α × List (Nat × α)
  | [] => (none, [])
  | (k', v) :: t => if k' = k then (some v, t) else let (r, t') := popKey k t; (r, (k', v) :: t')

def jobInProgress (j : AppJobs) : Bool := !j.planned.isEmpty || !j.current.isEmpty

/-- ApplicationStartJobs.process_failure -/
def processFailure (w : W) (j : AppJobs) (p : Nat) : AppJobs :=
  let c := w.pcfg.getD p default
  if c.required then
    match c.sfail with
    | .abort => { j with planned := [] }
    | .stop => { j with planned := [], stopRequest := true }
    | .cont => j
  else j

def ceilDiv (a b : Nat) : Nat := (a + b - 1) / b

/-- `ProcessCommand.minimum_ticks` for clusters below ten instances: `DEFAULT_TICK_TIMEOUT` (generated from the source) -/
def minTicks : Nat := Supv.Gen.defaultTickTimeout
/-- `wait_ticks` setter: `ceil(secs / 5) + minimum_ticks` -/
def waitTicksOf (secs : Nat) : Nat := ceilDiv secs Supv.Gen.tickPeriod + minTicks

/-- `ProcessStartCommand.on_event`: (0 in progress / 1 success / 2 failed, re-arm the request counter) -/
def startEventResult (waitExit ignoreWaitExit : Bool) (v : Info) : Nat × Bool :=
  match v.state with
  | .starting => (0, false)
  | .running => if !waitExit || ignoreWaitExit then (1, false) else (0, false)
  | .exited => if waitExit && v.expected then (1, false) else (2, false)
  | .backoff => (0, true)
  | .fatal => (2, false)
  | _ => (2, false)

/-- `ProcessStartCommand.timed_out`: 0 in progress / 1 success / 3 timed out, from the state on the target, the request
    counter, the wait ticks and the current tick counter of the target -/
def startCheckResult (waitExit ignoreWaitExit : Bool) (state : PState) (reqCounter waitTicks cnt : Nat) : Nat :=
  if state = .running then (if waitExit && !ignoreWaitExit then 0 else 1)
  else if state = .backoff ∨ state = .starting then (if cnt > reqCounter + waitTicks then 3 else 0)
  else (if cnt > reqCounter + minTicks then 3 else 0)

/-- `ProcessStopCommand.timed_out` -/
def stopCheckResult (state : PState) (reqCounter waitTicks cnt : Nat) : Nat :=
  if state = .stopping then (if reqCounter + waitTicks < cnt then 3 else 0)
  else if state.isStopped then 1
  else (if cnt > reqCounter + minTicks then 3 else 0)

def maxKey {α} : List (Nat × α) → Option Nat
  | [] => none
  | (k, _) :: t => match maxKey t with | none => some k | some m => some (max k m)

def stopJobInProgress (j : StopJobs) : Bool := !j.planned.isEmpty || !j.current.isEmpty

def hasRunningProcesses (w : W) (a : Nat) : Bool :=
  ((List.range w.pcfg.length).filter (fun p => (w.pcfg.getD p default).app = a)).any (fun p => procRunning (w.procs.getD p {}))

/-- the processes of application `a` -/
def appProcs (w : W) (a : Nat) : List Nat :=
  (List.range w.pcfg.length).filter (fun p => (w.pcfg.getD p default).app = a)

/-- the plan built by `Stopper.store_application`: per stop sequence, one command per (process, instance where it is
    listed as running); empty groups are dropped -/
def stopPlan (w : W) (a : Nat) : List (Nat × List StopCommand) :=
  let ps := appProcs w a
  let seqs := (ps.map (fun p => (w.pcfg.getD p default).stopSeq)).eraseDups
  (seqs.map (fun s => (s, ((ps.filter (fun p => (w.pcfg.getD p default).stopSeq = s)).map (fun p =>
      (w.procs.getD p {}).running.map (fun i => ({ proc := p, target := i, waitTicks := waitTicksOf (w.pcfg.getD p default).stopwaitsecs } : StopCommand)))).flatten))).filter (fun x => !x.2.isEmpty)

/-- the plan built by `Starter.store_application`: the processes of the application with a strictly positive
    start_sequence, grouped by sequence -/
def startPlan (w : W) (a : Nat) (strat : Strategy) : List (Nat × List Command) :=
  let ps := (appProcs w a).filter (fun p => (w.pcfg.getD p default).startSeq > 0)
  -- application.start_sequence: dict seq -> processes, key order = first occurrence
  let seqs := (ps.map (fun p => (w.pcfg.getD p default).startSeq)).eraseDups
  seqs.map (fun s => (s, (ps.filter (fun p => (w.pcfg.getD p default).startSeq = s)).map (fun p => ({ proc := p, strategy := strat } : Command))))

/-- Stopper.store_application -/
def storeStopApplication (a : Nat) : M Unit := do
  let w ← get
  let planned := stopPlan w a
  if !planned.isEmpty then
    let prio := (w.acfg.getD a default).stopSeq
    let job : StopJobs := { app := a, runId := w.stopJobCount, planned := planned }
    let rec ins : List (Nat × List StopJobs) → List (Nat × List StopJobs)
      | [] => [(prio, [job])]
      | (k, js) :: t => if k = prio then
          (k, if js.any (·.app = a) then js.map (fun x => if x.app = a then job else x) else js ++ [job]) :: t
        else (k, js) :: ins t
    modify fun w => { w with splanned := ins w.splanned, stopJobCount := w.stopJobCount + 1 }

/-- Starter.store_application -/
def storeApplication (a : Nat) (strat : Strategy) : M Unit := do
  let w ← get
  let planned := startPlan w a strat
  if !planned.isEmpty then
    let prio := (w.acfg.getD a default).startSeq
    let job : AppJobs := { app := a, runId := w.jobCount, planned := planned }
    let rec ins : List (Nat × List AppJobs) → List (Nat × List AppJobs)
      | [] => [(prio, [job])]
      | (k, js) :: t => if k = prio then
          (k, if js.any (·.app = a) then js.map (fun x => if x.app = a then job else x) else js ++ [job]) :: t
        else (k, js) :: ins t
    modify fun w => { w with planned := ins w.planned, jobCount := w.jobCount + 1 }

mutual
/-- listener.force_process_state -> context.on_process_state_event (forced) -> starter.on_event -/
def failCommand (fuel : Nat) (p : Nat) (target : Option Nat) (etime : Nat) (st : PState) (run : Nat := 999) : M Unit := do
  match fuel with
  | 0 => pure ()
  | fuel + 1 =>
    let x ← proc p
    let force := match target with
      | some i => match getInfo x.infos i with | some v => decide (v.etime ≤ etime) | none => true
      | none => true
    emit (.force p st target.isNone run)
    if force then
      setProc p { x with forced := some st }
      -- `ApplicationStartJobsModel.fail_command` only forces the state of the mock process
      if (← get).live.isNone then
        -- fsm.on_process_state_event: starter.on_event(process, local identifier)
        let me := (← get).me
        starterOnEvent fuel p me
        stopperOnEvent fuel p me

/-- ApplicationStartJobs.process_job; returns (queued, updated command) -/
def processJob (fuel : Nat) (app : Nat) (runId : Nat) (jobCurrent : List Command) (c : Command) : M (Bool × Command) := do
  match fuel with
  | 0 => return (false, c)
  | fuel + 1 =>
    let w ← get
    let x := w.procs.getD c.proc {}
    if procStopped x then
      -- `self.get_load_requests()` of the job OBJECT being processed (it may have been dropped from the Starter by a
      -- re-entrant `Commander.next`: its own command list is what counts); planned commands have no target here
      let req := jobLoadRequests w { app := app, planned := [], current := jobCurrent }
      let cfgp := w.pcfg.getD c.proc default
      let c := match chooseInstance w c.strategy (possibleIdentifiers w c.proc) cfgp.load req with
        | some i => { c with target := some i, waitTicks := waitTicksOf cfgp.startsecs }
        | none => c
      match c.target with
      | some i =>
        emit (.start c.proc i runId c.strategy)
        if w.live.isSome then
          -- `ProcessStartCommandModel.start`: the mock process is listed on the instance and the events of a normal start
          -- are queued (STARTING, RUNNING, then EXITED with wait_exit)
          modify fun w =>
            let x := w.procs.getD c.proc {}
            { w with procs := w.procs.set c.proc { x with running := if x.running.contains i then x.running else x.running ++ [i] },
                     modelEvents := w.modelEvents ++ [(c.proc, i, PState.starting), (c.proc, i, PState.running)]
                       ++ (if cfgp.waitExit then [(c.proc, i, PState.exited)] else []) }
        return (true, { c with reqCounter := w.counter.getD i 0 })
      | none =>
        failCommand fuel c.proc none w.now .fatal runId
        modify fun w => { w with current := w.current.map (fun j => if j.app = app ∧ j.runId = runId then processFailure w j c.proc else j) }
        return (false, c)
    else return (false, c)

/-- ApplicationJobs.next -/
def jobNext (fuel : Nat) (app : Nat) : M Unit := do
  match fuel with
  | 0 => pure ()
  | fuel + 1 =>
    let w ← get
    match w.current.find? (·.app = app) with
    | none => pure ()
    | some j =>
      if j.current.isEmpty ∧ !j.planned.isEmpty then
        match minKey j.planned with
        | none => pure ()
        | some k =>
          let (grp, rest) := popKey k j.planned
          modify fun w => { w with current := w.current.map (fun x => if x.app = app ∧ x.runId = j.runId then { x with planned := rest } else x) }
          let mut mine : List Command := []      -- `self.current_jobs` of this job object
          for c in grp.getD [] do
            let (queued, c') ← processJob fuel app j.runId mine c
            if queued then
              mine := mine ++ [c']
              modify fun w => { w with current := w.current.map (fun x => if x.app = app ∧ x.runId = j.runId then { x with current := x.current ++ [c'] } else x) }
          jobNext fuel app

/-- Commander.next -/
def starterNext (fuel : Nat) : M Unit := do
  match fuel with
  | 0 => pure ()
  | fuel + 1 =>
    let w ← get
    for j in w.current do
      -- the entry must still be this very job object (`after` of another job may have removed or replaced it)
      match (← get).current.find? (·.app = j.app) with
      | some jj =>
        if jj.runId = j.runId ∧ !jobInProgress jj then
          -- removal from current_jobs, then Starter.after
          modify fun w => { w with current := w.current.filter (·.app ≠ jj.app) }
          if jj.stopRequest then stopApplication fuel jj.app
      | none => pure ()
    let w ← get
    if !w.planned.isEmpty ∧ w.current.isEmpty then
      match minKey w.planned with
      | none => pure ()
      | some k =>
        let (grp, rest) := popKey k w.planned
        modify fun w => { w with planned := rest, current := grp.getD [] }
        for j in grp.getD [] do
          jobNext fuel j.app
        starterNext fuel

/-- Commander.on_event + ApplicationJobs.on_event + ProcessStartCommand.on_event -/
def starterOnEvent (fuel : Nat) (p : Nat) (i : Nat) : M Unit := do
  match fuel with
  | 0 => pure ()
  | fuel + 1 =>
    let w ← get
    let cfgp := w.pcfg.getD p default
    match w.current.find? (·.app = cfgp.app) with
    | none => pure ()
    | some j =>
      match j.current.find? (fun c => c.proc = p ∧ c.target = some i) with
      | none => pure ()
      | some c =>
        let x := w.procs.getD p {}
        match getInfo x.infos i with
        | none => pure ()
        | some v =>
          let res := startEventResult cfgp.waitExit c.ignoreWaitExit v
          if res.2 then
            let cnt := w.counter.getD i 0
            modify fun w => { w with current := w.current.map (fun jj => if jj.app = cfgp.app then
              { jj with current := jj.current.map (fun cc => if cc.proc = p ∧ cc.target = some i then { cc with reqCounter := cnt } else cc) } else jj) }
          if res.1 ≠ 0 then
            modify fun w => { w with current := w.current.map (fun jj => if jj.app = cfgp.app then
              let jj := { jj with current := jj.current.filter (fun cc => !(cc.proc = p ∧ cc.target = some i)) }
              if res.1 = 2 then processFailure w jj p else jj else jj) }
            jobNext fuel cfgp.app
      starterNext fuel
/-- Stopper.stop_application (trigger = True) -/
def stopApplication (fuel : Nat) (a : Nat) : M Unit := do
  match fuel with
  | 0 => pure ()
  | fuel + 1 =>
    if hasRunningProcesses (← get) a then
      storeStopApplication a
      stopperNext fuel

/-- Starter.start_application -/
def startApplication (fuel : Nat) (a : Nat) (strat : Strategy) : M Unit := do
  match fuel with
  | 0 => pure ()
  | fuel + 1 =>
    if ← appStopped a then
      storeApplication a strat
      starterNext fuel

/-- ApplicationStopJobs.next / process_job -/
def stopJobNext (fuel : Nat) (app : Nat) : M Unit := do
  match fuel with
  | 0 => pure ()
  | fuel + 1 =>
    let w ← get
    match w.scurrent.find? (·.app = app) with
    | none => pure ()
    | some j =>
      if j.current.isEmpty ∧ !j.planned.isEmpty then
        match maxKey j.planned with
        | none => pure ()
        | some k =>
          let (grp, rest) := popKey k j.planned
          modify fun w => { w with scurrent := w.scurrent.map (fun x => if x.app = app then { x with planned := rest } else x) }
          for c in grp.getD [] do
            let w ← get
            let x := w.procs.getD c.proc {}
            if procRunning x ∧ c.target ∈ x.running then
              emit (.stop c.proc c.target)
              let c' := { c with reqCounter := w.counter.getD c.target 0 }
              modify fun w => { w with scurrent := w.scurrent.map (fun x => if x.app = app then { x with current := x.current ++ [c'] } else x) }
          stopJobNext fuel app

/-- Commander.next for the Stopper (pickup max) with Stopper.after -/
def stopperNext (fuel : Nat) : M Unit := do
  match fuel with
  | 0 => pure ()
  | fuel + 1 =>
    let w ← get
    for j in w.scurrent do
      match (← get).scurrent.find? (·.app = j.app) with
      | some jj =>
        if jj.runId = j.runId ∧ !stopJobInProgress jj then
          modify fun w => { w with scurrent := w.scurrent.filter (·.app ≠ jj.app) }
          -- Stopper.after: pending application start request
          let w ← get
          match w.appStartReq.find? (·.1 = jj.app) with
          | some (_, strat) =>
            modify fun w => { w with appStartReq := w.appStartReq.filter (·.1 ≠ jj.app) }
            startApplication fuel jj.app strat
          | none => pure ()
      | none => pure ()
    let w ← get
    if !w.splanned.isEmpty ∧ w.scurrent.isEmpty then
      match maxKey w.splanned with
      | none => pure ()
      | some k =>
        let (grp, rest) := popKey k w.splanned
        modify fun w => { w with splanned := rest, scurrent := grp.getD [] }
        for j in grp.getD [] do
          stopJobNext fuel j.app
        stopperNext fuel

/-- Commander.on_event for the Stopper + ProcessStopCommand.on_event -/
def stopperOnEvent (fuel : Nat) (p : Nat) (i : Nat) : M Unit := do
  match fuel with
  | 0 => pure ()
  | fuel + 1 =>
    let w ← get
    let cfgp := w.pcfg.getD p default
    match w.scurrent.find? (·.app = cfgp.app) with
    | none => pure ()
    | some j =>
      match j.current.find? (fun c => c.proc = p ∧ c.target = i) with
      | none => pure ()
      | some _ =>
        let x := w.procs.getD p {}
        match getInfo x.infos i with
        | none => pure ()
        | some v =>
          if v.state.isStopped then
            modify fun w => { w with scurrent := w.scurrent.map (fun jj => if jj.app = cfgp.app then
              { jj with current := jj.current.filter (fun cc => !(cc.proc = p ∧ cc.target = i)) } else jj) }
            stopJobNext fuel cfgp.app
      stopperNext fuel

end

/-- ApplicationJobs.check / Commander.check -/
def starterCheck (fuel : Nat) : M Unit := do
  let w ← get
  for j in w.current do
    for c in j.current do
      let w ← get
      let x := w.procs.getD c.proc {}
      let cfgp := w.pcfg.getD c.proc default
      match c.target with
      | none => pure ()
      | some i =>
        match getInfo x.infos i with
        | none => pure ()
        | some v =>
          let cnt := w.counter.getD i 0
          let res := startCheckResult cfgp.waitExit c.ignoreWaitExit v.state c.reqCounter c.waitTicks cnt
          if res = 3 then
            -- the command is removed, the starting failure strategy applied, then the state forced
            modify fun w => { w with current := w.current.map (fun jj => if jj.app = j.app ∧ jj.runId = j.runId then
              processFailure w { jj with current := jj.current.filter (fun cc => !(cc.proc = c.proc ∧ cc.target = c.target)) } c.proc else jj) }
            failCommand fuel c.proc (some i) v.etime .fatal j.runId
          if res = 1 then
            modify fun w => { w with current := w.current.map (fun jj => if jj.app = j.app then
              { jj with current := jj.current.filter (fun cc => !(cc.proc = c.proc ∧ cc.target = c.target)) } else jj) }
    jobNext fuel j.app
  starterNext fuel


/-- ApplicationJobs.check / Commander.check for the Stopper -/
def stopperCheck (fuel : Nat) : M Unit := do
  let w ← get
  for j in w.scurrent do
    for c in j.current do
      let w ← get
      let x := w.procs.getD c.proc {}
      match getInfo x.infos c.target with
      | none => pure ()
      | some v =>
        let cnt := w.counter.getD c.target 0
        let res := stopCheckResult v.state c.reqCounter c.waitTicks cnt
        if res = 3 ∨ res = 1 then
          modify fun w => { w with scurrent := w.scurrent.map (fun jj => if jj.app = j.app then
            { jj with current := jj.current.filter (fun cc => !(cc.proc = c.proc ∧ cc.target = c.target)) } else jj) }
        if res = 3 then
          failCommand fuel c.proc (some c.target) v.etime .stopped
    stopJobNext fuel j.app
  stopperNext fuel

/-- `Context.on_process_state_event` / `on_process_disability_event` / `on_process_removed_event`: events are accepted from
    CHECKED / RUNNING instances only -/
def acceptsEvents (w : W) (i : Nat) : Bool := w.instRunning.getD i false || w.instChecked.getD i false

/-- `ApplicationJobs.on_instances_invalidation` of a start job: the pending requests on a lost instance are dropped, each one
    is a starting failure (`process_failure`), not a running failure; processes with a planned start are not running failures
    either.  Returns the job and what is left of `failed_processes`. -/
def startJobInvalidation (w : W) (lost : List Nat) (j : AppJobs) (failed : List Nat) : AppJobs × List Nat :=
  let (j1, f1) := j.current.foldl (fun (acc : AppJobs × List Nat) c =>
      if c.target.any (fun i => lost.contains i) then
        (processFailure w { acc.1 with current := acc.1.current.filter (fun cc => !(cc.proc = c.proc ∧ cc.target = c.target)) } c.proc,
         acc.2.filter (· ≠ c.proc))
      else acc) (j, failed)
  let plannedProcs := ((j1.planned.map (·.2)).flatten).map (·.proc)
  (j1, f1.filter (fun p => !plannedProcs.contains p))

/-- the same for a stop job (`process_failure` does nothing) -/
def stopJobInvalidation (lost : List Nat) (j : StopJobs) (failed : List Nat) : StopJobs × List Nat :=
  let gone := j.current.filter (fun c => lost.contains c.target)
  let j1 := { j with current := j.current.filter (fun c => !lost.contains c.target) }
  let f1 := failed.filter (fun p => !(gone.map (·.proc)).contains p)
  let plannedProcs := ((j1.planned.map (·.2)).flatten).map (·.proc)
  (j1, f1.filter (fun p => !plannedProcs.contains p))

/-- `Commander.on_instances_invalidation` for the Starter: current jobs, then planned jobs, then `next` -/
def starterInvalidation (fuel : Nat) (lost failed : List Nat) : M (List Nat) := do
  let w ← get
  let (cur, f1) := w.current.foldl (fun (acc : List AppJobs × List Nat) j =>
      let (j', f') := startJobInvalidation w lost j acc.2; (acc.1 ++ [j'], f')) ([], failed)
  let (pl, f2) := w.planned.foldl (fun (acc : List (Nat × List AppJobs) × List Nat) (kjs : Nat × List AppJobs) =>
      let (js', f') := kjs.2.foldl (fun (a : List AppJobs × List Nat) j =>
          let (j', f'') := startJobInvalidation w lost j a.2; (a.1 ++ [j'], f'')) ([], acc.2)
      (acc.1 ++ [(kjs.1, js')], f')) ([], f1)
  modify fun w => { w with current := cur, planned := pl }
  starterNext fuel
  return f2

/-- `Commander.on_instances_invalidation` for the Stopper -/
def stopperInvalidation (fuel : Nat) (lost failed : List Nat) : M (List Nat) := do
  let w ← get
  let (cur, f1) := w.scurrent.foldl (fun (acc : List StopJobs × List Nat) j =>
      let (j', f') := stopJobInvalidation lost j acc.2; (acc.1 ++ [j'], f')) ([], failed)
  let (pl, f2) := w.splanned.foldl (fun (acc : List (Nat × List StopJobs) × List Nat) (kjs : Nat × List StopJobs) =>
      let (js', f') := kjs.2.foldl (fun (a : List StopJobs × List Nat) j =>
          let (j', f'') := stopJobInvalidation lost j a.2; (a.1 ++ [j'], f'')) ([], acc.2)
      (acc.1 ++ [(kjs.1, js')], f')) ([], f1)
  modify fun w => { w with scurrent := cur, splanned := pl }
  stopperNext fuel
  return f2

/-- `Context.invalidate_failed` for one lost instance, then `_MasterSlaveState._common_next`: the instance is not seen RUNNING
    any more, every process running on it gets a FATAL report from it (`invalidate_identifier`), those left running nowhere
    are the failed processes handed to the Starter and the Stopper.  Returns the failed processes the commanders left (for
    the Master: the running failures handed to the failure handler). -/
def loseInstance (fuel : Nat) (i : Nat) : M (List Nat) := do
  let w ← get
  let ps := List.range w.procs.length
  -- status.running_processes(): the processes known on the instance that are running on it
  let hit := ps.filter (fun p => let x := w.procs.getD p {}; (getInfo x.infos i).isSome && runningOn x i)
  let procs' := ps.map (fun p => let x := w.procs.getD p {}
    if hit.contains p then (match invalidateIdentifier x i w.now with | .ok y => y | .err _ => x) else x)
  let failed := hit.filter (fun p => (procs'.getD p {}).running.isEmpty)
  set { w with procs := procs', instRunning := w.instRunning.set i false, instChecked := w.instChecked.set i false }
  let f1 ← starterInvalidation fuel [i] failed
  stopperInvalidation fuel [i] f1

/-- `Context.on_process_disability_event` -/
def disableProcess (i p : Nat) (dis : Bool) : M Unit := do
  let w ← get
  if acceptsEvents w i then
    let x := w.procs.getD p {}
    match getInfo x.infos i with
    | some v => setProc p { x with infos := setInfo x.infos i { v with disabled := dis } }
    | none => pure ()

/-- Stopper.restart_application -/
def restartApplication (fuel : Nat) (a : Nat) (strat : Strategy) : M Unit := do
  if hasRunningProcesses (← get) a then
    modify fun w => { w with appStartReq := (w.appStartReq.filter (·.1 ≠ a)) ++ [(a, strat)] }
    stopApplication fuel a
  else startApplication fuel a strat

def stopperInProgress : M Bool := do
  let w ← get
  return !w.splanned.isEmpty || !w.scurrent.isEmpty

def starterInProgress : M Bool := do
  let w ← get
  return !w.planned.isEmpty || !w.current.isEmpty

/-- `StarterModel.feed_model`: the queued events are played on the mock processes (`process._state = state`,
    `info_map[identifier]['state'] = state`, then `on_event`) -/
def feedModel (fuel : Nat) : Nat → M Unit
  | 0 => pure ()
  | n + 1 => do
    let w ← get
    match w.modelEvents with
    | [] => pure ()
    | (p, i, st) :: rest =>
      let x := w.procs.getD p {}
      let infos := match getInfo x.infos i with
        | some v => setInfo x.infos i { v with state := st }
        | none => x.infos
      set { w with modelEvents := rest, procs := w.procs.set p { x with state := st, infos := infos } }
      starterOnEvent fuel p i
      feedModel fuel n

/-- the placement: for every process for which a request was emitted, the instance asked -/
def placements (outs : List Out) : List (Nat × Nat) :=
  outs.filterMap (fun o => match o with | .start p i _ _ => some (p, i) | _ => none)

/-- `StarterModel.test_start_application`: prediction on mock copies, the world itself is left untouched (the result is a
    value; nothing of the prediction run survives) -/
def testStartApplication (w : W) (a : Nat) (strat : Strategy) : List Out :=
  -- the mock processes are fresh `ProcessStatus` objects: same state and per-instance information, listed nowhere, not forced
  let w0 : W := { w with live := some w.procs, procs := w.procs.map (fun x => { x with running := [], forced := none }),
                         planned := [], current := [], splanned := [], scurrent := [], modelEvents := [], out := [] }
  let (_, w1) := (do startApplication 200 a strat; feedModel 200 400).run w0
  w1.out

/-- an actual start of the application in which every requested process starts normally: STARTING then RUNNING (then an
    expected EXITED with wait_exit) reported by the instance asked, in the order requested -/
def normalStart (fuel : Nat) : Nat → List Out → M Unit
  | 0, _ => pure ()
  | n + 1, seen => do
    let w ← get
    -- the next start request not yet played
    match (w.out.drop seen.length).find? (fun o => match o with | .start .. => true | _ => false) with
    | none => pure ()
    | some (.start p i _ _) =>
      let upto := seen.length + ((w.out.drop seen.length).takeWhile (fun o => match o with | .start q j _ _ => !(q == p && j == i) | _ => true)).length + 1
      let seen' := w.out.take upto
      let cfgp := w.pcfg.getD p default
      for st in [PState.starting, PState.running] ++ (if cfgp.waitExit then [PState.exited] else []) do
        let w ← get
        let x := w.procs.getD p {}
        let v : Info := match getInfo x.infos i with
          | some v => { v with state := st, expected := true, ltime := w.now, etime := w.now, nowm := w.now }
          | none => { state := st, expected := true, ltime := w.now, etime := w.now, nowm := w.now, disabled := false }
        setProc p (updateStatusT { x with infos := setInfo x.infos i v, forced := none } i st)
        starterOnEvent fuel p i
        stopperOnEvent fuel p i
      normalStart fuel n seen'
    | some _ => pure ()

def realStartApplication (w : W) (a : Nat) (strat : Strategy) : List Out :=
  let w0 : W := { w with out := [] }
  let (_, w1) := (do startApplication 200 a strat; normalStart 200 100 []).run w0
  w1.out

end Supv.Cmd
