import Supv.Model.Proc
import Supv.Gen.Tables

/-!
# Model of the commander: Starter + Stopper (commander.py), starting strategies (strategy.py), composed with the process
# status synthesis of `Supv.Proc`

Executable; imports the process model and the generated constants only.  The two-level plan (application sequence ->
application jobs -> process sequence -> commands), both `next` recursions, `process_job` with the per-job load requests,
the six starting strategies with the load cap and stable ties, `possible_identifiers`, `on_event` / `timed_out` / `check`,
the starting failure strategies, `fail_command` with its re-entrant path (`force_process_state` ->
`on_process_state_event` -> `starter.on_event`), `stop/restart_application` with the deferred starts of `Stopper.after`,
descending pickup, only-where-running, stop time-outs; the whole-cluster entry points `Starter.start_applications` /
`Stopper.stop_applications`; the distribution rules (`ApplicationStartJobs.before`, `distribute_to_single_instance`,
`distribute_to_single_node`, `strategy.get_node`, `ApplicationStatus.possible_identifiers` / `possible_node_identifiers` /
`get_start_sequence_expected_load`, the non-ALL_INSTANCES branch of `process_job`); `Starter.start_process` with
`ApplicationJobs.add_commands` / `on_command_added`.  Python recursion is bounded by fuel; a Python
exception is an explicit result (`W.exc`): nothing is emitted after it.
-/

namespace Supv.Cmd
open Supv.Proc

abbrev getInfo (l : Infos) (i : Nat) : Option Info := l.get? i
abbrev setInfo (l : Infos) (i : Nat) (v : Info) : Infos := l.set i v

/-- `update_status` of the process model; the exceptions it can raise are unreachable from the operations of this layer
    (every listed identifier has an entry), the previous status is kept if one ever surfaced -/
def updateStatusT (p : Proc) (i : Nat) (s : PState) : Proc :=
  match updateStatus p i s with
  | .ok q => q
  | .err _ => p

inductive Strategy | config | lessLoaded | mostLoaded | local | lessLoadedNode | mostLoadedNode
  deriving DecidableEq, Repr, Inhabited
def Strategy.code : Strategy → Nat
  | .config => 0 | .lessLoaded => 1 | .mostLoaded => 2 | .local => 3 | .lessLoadedNode => 4 | .mostLoadedNode => 5
def Strategy.ofCode : Nat → Strategy
  | 0 => .config | 1 => .lessLoaded | 2 => .mostLoaded | 3 => .local | 4 => .lessLoadedNode | _ => .mostLoadedNode

inductive SFail | abort | stop | cont deriving DecidableEq, Repr, Inhabited

structure PCfg where
  app : Nat
  startSeq : Nat
  required : Bool
  waitExit : Bool
  load : Nat
  sfail : SFail
  idents : Option (List Nat)      -- none = wildcard; some l = mapper.filter(rules.identifiers)
  startsecs : Nat
  stopSeq : Nat := 0
  stopwaitsecs : Nat := 5
  deriving Repr, Inhabited

/-- `ttypes.DistributionRules` -/
inductive Dist | all | singleInstance | singleNode deriving DecidableEq, Repr, Inhabited
def Dist.ofCode : Nat → Dist
  | 0 => .all | 1 => .singleInstance | _ => .singleNode
def Dist.code : Dist → Nat
  | .all => 0 | .singleInstance => 1 | .singleNode => 2

structure ACfg where
  startSeq : Nat
  strategy : Strategy
  stopSeq : Nat := 0
  distribution : Dist := .all
  /-- `ApplicationRules.identifiers`: none = wildcard; some l = mapper.filter(rules.identifiers) (declared order) -/
  idents : Option (List Nat) := none
  deriving Repr, Inhabited

structure Command where
  proc : Nat
  strategy : Strategy
  ignoreWaitExit : Bool := false
  target : Option Nat := none
  reqCounter : Nat := 0
  waitTicks : Nat := 2
  deriving Repr, Inhabited, DecidableEq

structure AppJobs where
  app : Nat
  /-- creation rank of this `ApplicationStartJobs` object (which user request a start belongs to) -/
  runId : Nat := 0
  planned : List (Nat × List Command)
  current : List Command := []
  stopRequest : Bool := false
  /-- `ApplicationJobs.processing_group`: the commands of a sequence group are being processed (`ApplicationJobs.next`) -/
  processing : Bool := false
  /-- `ApplicationStartJobs.starting_strategy`: the strategy the application start was requested with -/
  strategy : Strategy := .config
  /-- `ApplicationStartJobs.identifiers`: the instances selected for a non-distributed application -/
  identifiers : List Nat := []
  deriving Repr, Inhabited, DecidableEq

structure StopCommand where
  proc : Nat
  target : Nat
  reqCounter : Nat := 0
  waitTicks : Nat := 3
  deriving Repr, Inhabited

structure StopJobs where
  app : Nat
  /-- creation rank of this `ApplicationStopJobs` object (object identity in `Commander.next`) -/
  runId : Nat := 0
  planned : List (Nat × List StopCommand)
  current : List StopCommand := []
  deriving Repr, Inhabited

inductive Out where
  | start (p i : Nat) (run : Nat) (strat : Strategy) (single : Bool)   -- single: a `start_process` command (ignore_wait_exit)
  | force (p : Nat) (s : PState) (noResource : Bool) (run : Nat)   -- run: rank of the application start concerned (999: none)
  | stop (p i : Nat)
  deriving Repr

structure W where
  ninst : Nat
  me : Nat
  node : List Nat                 -- node of each instance
  instRunning : List Bool         -- instance seen RUNNING
  instChecked : List Bool := []   -- instance seen CHECKED (its events are accepted; it is not a candidate yet)
  counter : List Nat              -- sequence counter per instance
  pcfg : List PCfg
  acfg : List ACfg
  procs : List Proc
  planned : List (Nat × List AppJobs) := []
  current : List AppJobs := []
  splanned : List (Nat × List StopJobs) := []
  scurrent : List StopJobs := []
  appStartReq : List (Nat × Strategy) := []
  jobCount : Nat := 0             -- number of `ApplicationStartJobs` objects created so far
  stopJobCount : Nat := 0         -- number of `ApplicationStopJobs` objects created so far
  /-- `StarterModel` (start prediction): the LIVE process table, frozen, while `procs` holds the mock copies the prediction
      plays with; `none` outside a prediction.  Instance loads are always read from the live processes. -/
  live : Option (List Proc) := none
  modelEvents : List (Nat × Nat × PState) := []   -- `StarterModel.event_list`
  now : Nat := 0
  out : List Out := []
  /-- (process, instance) pairs whose payload has a non-zero `stop` date (a STOPPED / EXITED / UNKNOWN report was received since
      the payload was loaded): read by `ApplicationStatus.never_started` -/
  stopMark : List (Nat × Nat) := []
  /-- the Python exception that aborted the operation, if any (nothing is emitted after it) -/
  exc : Option String := none
  deriving Repr, Inhabited

abbrev M := StateM W

def emit (o : Out) : M Unit := modify fun w => if w.exc.isSome then w else { w with out := w.out ++ [o] }
def raise (cls : String) : M Unit := modify fun w => if w.exc.isSome then w else { w with exc := some cls }
def proc (p : Nat) : M Proc := do return (← get).procs.getD p {}
def setProc (p : Nat) (x : Proc) : M Unit := modify fun w => { w with procs := w.procs.set p x }
def pcfg (p : Nat) : M PCfg := do return (← get).pcfg.getD p default

def procRunning (x : Proc) : Bool := x.state.isRunning
def procStopped (x : Proc) : Bool := x.state.isStopped

/-- ApplicationStatus.update_state == STOPPED -/
def appStopped (a : Nat) : M Bool := do
  let w ← get
  let ps := (List.range w.pcfg.length).filter (fun p => (w.pcfg.getD p default).app = a)
  return ps.all (fun p => let d := displayed (w.procs.getD p {}); d ≠ .running ∧ d ≠ .starting ∧ d ≠ .backoff ∧ d ≠ .stopping)

/-- SupvisorsInstanceStatus.get_load -/
def instLoad (w : W) (i : Nat) : Nat :=
  ((List.range w.pcfg.length).filter (fun p =>
      let x := (w.live.getD w.procs).getD p {}
      (getInfo x.infos i).isSome ∧ procRunning x ∧ i ∈ x.running)).foldl (fun acc p => acc + (w.pcfg.getD p default).load) 0

def nodeLoad (w : W) (nd : Nat) : Nat :=
  ((List.range w.ninst).filter (fun i => w.node.getD i 0 = nd)).foldl (fun acc i => acc + instLoad w i) 0

def reqOf (req : List (Nat × Nat)) (i : Nat) : Nat := (req.filter (·.1 = i)).foldl (fun a x => a + x.2) 0
def nodeReq (w : W) (req : List (Nat × Nat)) (nd : Nat) : Nat :=
  (req.filter (fun x => w.node.getD x.1 0 = nd)).foldl (fun a x => a + x.2) 0

/-- first minimal element in list order -/
def firstMin (key : Nat → Nat × Nat) : List Nat → Option Nat
  | [] => none
  | h :: t => match firstMin key t with
    | none => some h
    | some m => let kh := key h; let km := key m
      if km.1 < kh.1 ∨ (km.1 = kh.1 ∧ km.2 < kh.2) then some m else some h
/-- last maximal element in list order -/
def lastMax (key : Nat → Nat × Nat) : List Nat → Option Nat
  | [] => none
  | h :: t => match lastMax key t with
    | none => some h
    | some m => let kh := key h; let km := key m
      if kh.1 > km.1 ∨ (kh.1 = km.1 ∧ kh.2 > km.2) then some h else some m

/-- node load counted by the strategies: current load of the node plus the requests pending on it -/
def nodeLoading (w : W) (req : List (Nat × Nat)) (i : Nat) : Nat :=
  nodeLoad w (w.node.getD i 0) + nodeReq w req (w.node.getD i 0)
/-- instance load counted by the strategies: current load of the instance plus the requests pending on it -/
def instLoading (w : W) (req : List (Nat × Nat)) (i : Nat) : Nat := instLoad w i + reqOf req i

/-- the candidates seen RUNNING whose node stays at or below 100 with the additional load (`is_loading_valid`) -/
def validCands (w : W) (idents : List Nat) (load : Nat) (req : List (Nat × Nat)) : List Nat :=
  (idents.filter (fun i => w.instRunning.getD i false)).filter (fun i => nodeLoading w req i + load ≤ 100)

/-- strategy.get_supvisors_instance -/
def chooseInstance (w : W) (strat : Strategy) (idents : List Nat) (load : Nat) (req : List (Nat × Nat)) : Option Nat :=
  if (idents.filter (fun i => w.instRunning.getD i false)).isEmpty then none else
  let valid := validCands w idents load req
  match strat with
  | .config => valid.head?
  | .lessLoaded => firstMin (fun i => (instLoading w req i, nodeLoading w req i)) valid
  | .mostLoaded => lastMax (fun i => (instLoading w req i, nodeLoading w req i)) valid
  | .lessLoadedNode => firstMin (fun i => (nodeLoading w req i, instLoading w req i)) valid
  | .mostLoadedNode => lastMax (fun i => (nodeLoading w req i, instLoading w req i)) valid
  | .local => if w.me ∈ valid then some w.me else none

/-- ProcessStatus.possible_identifiers -/
def possibleIdentifiers (w : W) (p : Nat) : List Nat :=
  let c := w.pcfg.getD p default
  let x := w.procs.getD p {}
  let base := match c.idents with | none => List.range w.ninst | some l => l
  base.filter (fun i => match getInfo x.infos i with | some v => !v.disabled | none => false)

def jobLoadRequests (w : W) (j : AppJobs) : List (Nat × Nat) :=
  let cmds := j.current ++ (j.planned.map (·.2)).flatten
  cmds.filterMap (fun c => match c.target with
    | some i => if procStopped (w.procs.getD c.proc {}) then some (i, (w.pcfg.getD c.proc default).load) else none
    | none => none)

def minKey {α} : List (Nat × α) → Option Nat
  | [] => none
  | (k, _) :: t => match minKey t with | none => some k | some m => some (min k m)

def popKey {α} (k : Nat) : List (Nat × α) → Option α × List (Nat × α)
  | [] => (none, [])
  | (k', v) :: t => if k' = k then (some v, t) else let (r, t') := popKey k t; (r, (k', v) :: t')

def jobInProgress (j : AppJobs) : Bool := j.processing || !j.planned.isEmpty || !j.current.isEmpty

/-- ApplicationStartJobs.process_failure -/
def processFailure (w : W) (j : AppJobs) (p : Nat) : AppJobs :=
  let c := w.pcfg.getD p default
  if c.required then
    match c.sfail with
    | .abort => { j with planned := [] }
    | .stop => { j with planned := [], stopRequest := true }
    | .cont => j
  else j

def ceilDiv (a b : Nat) : Nat := (a + b - 1) / b

/-- `ProcessCommand.minimum_ticks` for clusters below ten instances: `DEFAULT_TICK_TIMEOUT` (generated from the source) -/
def minTicks : Nat := Supv.Gen.defaultTickTimeout
/-- `wait_ticks` setter: `ceil(secs / 5) + minimum_ticks` -/
def waitTicksOf (secs : Nat) : Nat := ceilDiv secs Supv.Gen.tickPeriod + minTicks

/-- `ProcessStartCommand.on_event`: (0 in progress / 1 success / 2 failed, re-arm the request counter) -/
def startEventResult (waitExit ignoreWaitExit : Bool) (v : Info) : Nat × Bool :=
  match v.state with
  | .starting => (0, false)
  | .running => if !waitExit || ignoreWaitExit then (1, false) else (0, false)
  | .exited => if waitExit && v.expected then (1, false) else (2, false)
  | .backoff => (0, true)
  | .fatal => (2, false)
  | _ => (2, false)

/-- `ProcessStartCommand.timed_out`: 0 in progress / 1 success / 3 timed out, from the state on the target, the request
    counter, the wait ticks and the current tick counter of the target -/
def startCheckResult (waitExit ignoreWaitExit : Bool) (state : PState) (reqCounter waitTicks cnt : Nat) : Nat :=
  if state = .running then (if waitExit && !ignoreWaitExit then 0 else 1)
  else if state = .backoff ∨ state = .starting then (if cnt > reqCounter + waitTicks then 3 else 0)
  else (if cnt > reqCounter + minTicks then 3 else 0)

/-- `ProcessStopCommand.timed_out` -/
def stopCheckResult (state : PState) (reqCounter waitTicks cnt : Nat) : Nat :=
  if state = .stopping then (if reqCounter + waitTicks < cnt then 3 else 0)
  else if state.isStopped then 1
  else (if cnt > reqCounter + minTicks then 3 else 0)

def maxKey {α} : List (Nat × α) → Option Nat
  | [] => none
  | (k, _) :: t => match maxKey t with | none => some k | some m => some (max k m)

def stopJobInProgress (j : StopJobs) : Bool := !j.planned.isEmpty || !j.current.isEmpty

def hasRunningProcesses (w : W) (a : Nat) : Bool :=
  ((List.range w.pcfg.length).filter (fun p => (w.pcfg.getD p default).app = a)).any (fun p => procRunning (w.procs.getD p {}))

/-- the processes of application `a` -/
def appProcs (w : W) (a : Nat) : List Nat :=
  (List.range w.pcfg.length).filter (fun p => (w.pcfg.getD p default).app = a)

/-- the plan built by `Stopper.store_application`: per stop sequence, one command per (process, instance where it is
    listed as running); empty groups are dropped -/
def stopPlan (w : W) (a : Nat) : List (Nat × List StopCommand) :=
  let ps := appProcs w a
  let seqs := (ps.map (fun p => (w.pcfg.getD p default).stopSeq)).eraseDups
  (seqs.map (fun s => (s, ((ps.filter (fun p => (w.pcfg.getD p default).stopSeq = s)).map (fun p =>
      (w.procs.getD p {}).running.map (fun i => ({ proc := p, target := i, waitTicks := waitTicksOf (w.pcfg.getD p default).stopwaitsecs } : StopCommand)))).flatten))).filter (fun x => !x.2.isEmpty)

/-- the plan built by `Starter.store_application`: the processes of the application with a strictly positive
    start_sequence, grouped by sequence -/
def startPlan (w : W) (a : Nat) (strat : Strategy) : List (Nat × List Command) :=
  let ps := (appProcs w a).filter (fun p => (w.pcfg.getD p default).startSeq > 0)
  -- application.start_sequence: dict seq -> processes, key order = first occurrence
  let seqs := (ps.map (fun p => (w.pcfg.getD p default).startSeq)).eraseDups
  seqs.map (fun s => (s, (ps.filter (fun p => (w.pcfg.getD p default).startSeq = s)).map (fun p => ({ proc := p, strategy := strat } : Command))))

/-! ## Distribution rules: whole-application placement -/

/-- the Supervisor of instance `i` knows program `p` and has it enabled (`identifier in info_map and not info['disabled']`) -/
def enabledOn (w : W) (p i : Nat) : Bool :=
  match getInfo (w.procs.getD p {}).infos i with | some v => !v.disabled | none => false

/-- the application's identifiers rule: every instance for the wildcard, else the declared list (`mapper.filter`) -/
def appRuleIdentifiers (w : W) (a : Nat) : List Nat :=
  match (w.acfg.getD a default).idents with | none => List.range w.ninst | some l => l

/-- `ApplicationStatus.possible_identifiers`: in the order of the rule, the instances on which EVERY process of the application
    is known and enabled -/
def appPossibleIdentifiers (w : W) (a : Nat) : List Nat :=
  let ps := appProcs w a
  if ps.isEmpty then [] else (appRuleIdentifiers w a).filter (fun i => ps.all (fun p => enabledOn w p i))

/-- `ApplicationStatus.possible_node_identifiers`: in the order of the rule, the instances that know (enabled) at least one
    process of the application and whose node has, for every process, an instance permitted by the rule that knows it -/
def appPossibleNodeIdentifiers (w : W) (a : Nat) : List Nat :=
  let ps := appProcs w a
  let filtered := appRuleIdentifiers w a
  filtered.filter (fun i =>
    let fnode := filtered.filter (fun x => w.node.getD x 0 = w.node.getD i 0)
    ps.all (fun p => fnode.any (fun x => enabledOn w p x)) && ps.any (fun p => enabledOn w p i))

/-- `ApplicationStatus.get_start_sequence_expected_load`: the processes with a positive start_sequence, whatever their state -/
def appStartLoad (w : W) (a : Nat) : Nat :=
  ((appProcs w a).filter (fun p => (w.pcfg.getD p default).startSeq > 0)).foldl (fun acc p => acc + (w.pcfg.getD p default).load) 0

/-- `ProcessStartCommand.update_identifier`: `self.get_instance_info()['startsecs']` raises `TypeError` when the instance does
    not know the program (`info_map.get` returns None) -/
def updateIdentifier (w : W) (c : Command) (i : Nat) : Res Command :=
  match getInfo (w.procs.getD c.proc {}).infos i with
  | some _ => .ok { c with target := some i, waitTicks := waitTicksOf (w.pcfg.getD c.proc default).startsecs }
  | none => .err "TypeError"

def mapRes {α β} (f : α → Res β) : List α → Res (List β)
  | [] => .ok []
  | a :: t => match f a with
    | .err e => .err e
    | .ok b => match mapRes f t with
      | .err e => .err e
      | .ok bs => .ok (b :: bs)

/-- apply a (possibly raising) update to every planned command of the job, in the order of the plan -/
def mapGroup (f : Command → Res Command) (g : Nat × List Command) : Res (Nat × List Command) :=
  match mapRes f g.2 with | .ok l => .ok (g.1, l) | .err e => .err e
def mapPlanned (f : Command → Res Command) (j : AppJobs) : Res AppJobs :=
  match mapRes (mapGroup f) j.planned with
  | .ok pl => .ok { j with planned := pl }
  | .err e => .err e

/-- `strategy.get_node`: the node of the instance the strategy chooses -/
def getNode (w : W) (strat : Strategy) (idents : List Nat) (load : Nat) (req : List (Nat × Nat)) : Option Nat :=
  (chooseInstance w strat idents load req).map (fun i => w.node.getD i 0)

/-- `ApplicationStartJobs.distribute_to_single_instance` -/
def distributeSingleInstance (w : W) (j : AppJobs) : Res AppJobs :=
  match chooseInstance w j.strategy (appPossibleIdentifiers w j.app) (appStartLoad w j.app) (jobLoadRequests w j) with
  | some i => mapPlanned (fun c => updateIdentifier w c i) { j with identifiers := [i] }
  | none => .ok j

/-- `distribute_to_single_node`, first half: the node is chosen for the whole application load (`get_node`); `self.identifiers`
    = the application's candidates that run on that node, in the order of the application's rule -/
def singleNodeIds (w : W) (j : AppJobs) : List Nat :=
  let idents := appPossibleNodeIdentifiers w j.app
  match getNode w j.strategy idents (appStartLoad w j.app) (jobLoadRequests w j) with
  | some nd => idents.filter (fun i => i < w.ninst ∧ w.node.getD i 0 = nd)
  | none => []

/-- `ApplicationStartJobs.get_applicable_identifiers`: the selected instances whose Supervisor knows the program and has it
    enabled (the instances of a node may not share the same Supervisor configuration) -/
def applicableIdentifiers (w : W) (ids : List Nat) (p : Nat) : List Nat :=
  ids.filter (fun i => enabledOn w p i)

/-- `distribute_to_single_node`, the body of the loop: an instance of the node for one command; `update_identifier(None)` raises
    `KeyError` (`context.instances[None]`), `update_identifier` of an instance that does not know the program `TypeError` -/
def nodeCommand (w : W) (strat : Strategy) (ids : List Nat) (req : List (Nat × Nat)) (c : Command) : Res Command :=
  match chooseInstance w strat (applicableIdentifiers w ids c.proc) (w.pcfg.getD c.proc default).load req with
  | some i => updateIdentifier w c i
  | none => .ok c

/-- `ApplicationStartJobs.distribute_to_single_node`: the node is chosen for the whole application load; then every command
    gets an instance of that node among the application's candidates, with the load requests computed ONCE before the loop -/
def distributeSingleNode (w : W) (j : AppJobs) : Res AppJobs :=
  let j1 := { j with identifiers := singleNodeIds w j }
  if j1.identifiers.isEmpty then .ok j1
  else mapPlanned (nodeCommand w j.strategy j1.identifiers (jobLoadRequests w j1)) j1

/-- `ApplicationStartJobs.before` -/
def jobBefore (w : W) (j : AppJobs) : Res AppJobs :=
  match (w.acfg.getD j.app default).distribution with
  | .singleNode => distributeSingleNode w j
  | .singleInstance => distributeSingleInstance w j
  | .all => .ok j

/-- the target `process_job` uses for a stopped process: chosen NOW by the command's strategy among the program's candidates
    for a distributed application (`jobCurrent`: the requests of the job object being processed); for a non-distributed
    application whatever `before` decided when the job was picked up, with no re-check of any kind -/
def jobTarget (w : W) (app : Nat) (jobCurrent : List Command) (c : Command) : Command :=
  if (w.acfg.getD app default).distribution = .all then
    let cfgp := w.pcfg.getD c.proc default
    -- `self.get_load_requests()` of the job OBJECT being processed (it may have been dropped from the Starter by a
    -- re-entrant `Commander.next`: its own command list is what counts); planned commands have no target here
    let req := jobLoadRequests w { app := app, planned := [], current := jobCurrent }
    match chooseInstance w c.strategy (possibleIdentifiers w c.proc) cfgp.load req with
    | some i => { c with target := some i, waitTicks := waitTicksOf cfgp.startsecs }
    | none => c
  else c

/-- Stopper.store_application -/
def storeStopApplication (a : Nat) : M Unit := do
  let w ← get
  let planned := stopPlan w a
  if !planned.isEmpty then
    let prio := (w.acfg.getD a default).stopSeq
    let job : StopJobs := { app := a, runId := w.stopJobCount, planned := planned }
    let rec ins : List (Nat × List StopJobs) → List (Nat × List StopJobs)
      | [] => [(prio, [job])]
      | (k, js) :: t => if k = prio then
          (k, if js.any (·.app = a) then js.map (fun x => if x.app = a then job else x) else js ++ [job]) :: t
        else (k, js) :: ins t
    modify fun w => { w with splanned := ins w.splanned, stopJobCount := w.stopJobCount + 1 }

/-- Starter.store_application -/
def storeApplication (a : Nat) (strat : Strategy) : M Unit := do
  let w ← get
  let planned := startPlan w a strat
  if !planned.isEmpty then
    let prio := (w.acfg.getD a default).startSeq
    let job : AppJobs := { app := a, runId := w.jobCount, planned := planned, strategy := strat }
    let rec ins : List (Nat × List AppJobs) → List (Nat × List AppJobs)
      | [] => [(prio, [job])]
      | (k, js) :: t => if k = prio then
          (k, if js.any (·.app = a) then js.map (fun x => if x.app = a then job else x) else js ++ [job]) :: t
        else (k, js) :: ins t
    modify fun w => { w with planned := ins w.planned, jobCount := w.jobCount + 1 }

mutual
/-- listener.force_process_state -> context.on_process_state_event (forced) -> starter.on_event -/
def failCommand (fuel : Nat) (p : Nat) (target : Option Nat) (etime : Nat) (st : PState) (run : Nat := 999) : M Unit := do
  match fuel with
  | 0 => pure ()
  | fuel + 1 =>
    let x ← proc p
    let force := match target with
      | some i => match getInfo x.infos i with | some v => decide (v.etime ≤ etime) | none => true
      | none => true
    emit (.force p st target.isNone run)
    if force then
      setProc p { x with forced := some st }
      -- `ApplicationStartJobsModel.fail_command` only forces the state of the mock process
      if (← get).live.isNone then
        -- fsm.on_process_state_event: starter.on_event(process, local identifier)
        let me := (← get).me
        starterOnEvent fuel p me
        stopperOnEvent fuel p me

/-- ApplicationStartJobs.process_job; returns (queued, updated command) -/
def processJob (fuel : Nat) (app : Nat) (runId : Nat) (jobCurrent : List Command) (c : Command) : M (Bool × Command) := do
  match fuel with
  | 0 => return (false, c)
  | fuel + 1 =>
    let w ← get
    let x := w.procs.getD c.proc {}
    if procStopped x then
      let cfgp := w.pcfg.getD c.proc default
      let c := jobTarget w app jobCurrent c
      match c.target with
      | some i =>
        emit (.start c.proc i runId c.strategy c.ignoreWaitExit)
        if w.live.isSome then
          -- `ProcessStartCommandModel.start`: the mock process is listed on the instance and the events of a normal start
          -- are queued (STARTING, RUNNING, then EXITED with wait_exit)
          modify fun w =>
            let x := w.procs.getD c.proc {}
            { w with procs := w.procs.set c.proc { x with running := if x.running.contains i then x.running else x.running ++ [i] },
                     modelEvents := w.modelEvents ++ [(c.proc, i, PState.starting), (c.proc, i, PState.running)]
                       ++ (if cfgp.waitExit then [(c.proc, i, PState.exited)] else []) }
        return (true, { c with reqCounter := w.counter.getD i 0 })
      | none =>
        failCommand fuel c.proc none w.now .fatal runId
        modify fun w => { w with current := w.current.map (fun j => if j.app = app ∧ j.runId = runId then processFailure w j c.proc else j) }
        return (false, c)
    else return (false, c)

/-- ApplicationJobs.next -/
def jobNext (fuel : Nat) (app : Nat) : M Unit := do
  match fuel with
  | 0 => pure ()
  | fuel + 1 =>
    let w ← get
    match w.current.find? (·.app = app) with
    | none => pure ()
    | some j =>
      if !j.processing ∧ j.current.isEmpty ∧ !j.planned.isEmpty then
        match minKey j.planned with
        | none => pure ()
        | some k =>
          let (grp, rest) := popKey k j.planned
          -- `processing_group`: until the whole group has been processed the job is neither complete nor ready for its next
          -- group, whatever the forced events of the commands that cannot be performed re-enter
          modify fun w => { w with current := w.current.map (fun x => if x.app = app ∧ x.runId = j.runId then { x with planned := rest, processing := true } else x) }
          let mut mine : List Command := []      -- `self.current_jobs` of this job object
          for c in grp.getD [] do
            let (queued, c') ← processJob fuel app j.runId mine c
            if queued then
              mine := mine ++ [c']
              modify fun w => { w with current := w.current.map (fun x => if x.app = app ∧ x.runId = j.runId then { x with current := x.current ++ [c'] } else x) }
          modify fun w => { w with current := w.current.map (fun x => if x.app = app ∧ x.runId = j.runId then { x with processing := false } else x) }
          jobNext fuel app

/-- Commander.next -/
def starterNext (fuel : Nat) : M Unit := do
  match fuel with
  | 0 => pure ()
  | fuel + 1 =>
    let w ← get
    for j in w.current do
      -- the entry must still be this very job object (`after` of another job may have removed or replaced it)
      match (← get).current.find? (·.app = j.app) with
      | some jj =>
        if jj.runId = j.runId ∧ !jobInProgress jj then
          -- removal from current_jobs, then Starter.after
          modify fun w => { w with current := w.current.filter (·.app ≠ jj.app) }
          if jj.stopRequest then stopApplication fuel jj.app
      | none => pure ()
    let w ← get
    if !w.planned.isEmpty ∧ w.current.isEmpty then
      match minKey w.planned with
      | none => pure ()
      | some k =>
        let (grp, rest) := popKey k w.planned
        modify fun w => { w with planned := rest, current := grp.getD [] }
        for j in grp.getD [] do
          -- application_job.before() on the job object just picked up
          let w ← get
          match w.current.find? (fun x => x.app = j.app ∧ x.runId = j.runId) with
          | some jj =>
            match jobBefore w jj with
            | .ok jj' => modify fun w => { w with current := w.current.map (fun x => if x.app = j.app ∧ x.runId = j.runId then jj' else x) }
            | .err e => raise e
          | none => pure ()
          jobNext fuel j.app
        starterNext fuel

/-- Commander.on_event + ApplicationJobs.on_event + ProcessStartCommand.on_event -/
def starterOnEvent (fuel : Nat) (p : Nat) (i : Nat) : M Unit := do
  match fuel with
  | 0 => pure ()
  | fuel + 1 =>
    let w ← get
    let cfgp := w.pcfg.getD p default
    match w.current.find? (·.app = cfgp.app) with
    | none => pure ()
    | some j =>
      match j.current.find? (fun c => c.proc = p ∧ c.target = some i) with
      | none => pure ()
      | some c =>
        let x := w.procs.getD p {}
        match getInfo x.infos i with
        | none => pure ()
        | some v =>
          let res := startEventResult cfgp.waitExit c.ignoreWaitExit v
          if res.2 then
            let cnt := w.counter.getD i 0
            modify fun w => { w with current := w.current.map (fun jj => if jj.app = cfgp.app then
              { jj with current := jj.current.map (fun cc => if cc.proc = p ∧ cc.target = some i then { cc with reqCounter := cnt } else cc) } else jj) }
          if res.1 ≠ 0 then
            modify fun w => { w with current := w.current.map (fun jj => if jj.app = cfgp.app then
              let jj := { jj with current := jj.current.filter (fun cc => !(cc.proc = p ∧ cc.target = some i)) }
              if res.1 = 2 then processFailure w jj p else jj else jj) }
            jobNext fuel cfgp.app
      starterNext fuel
/-- Stopper.stop_application (trigger = True) -/
def stopApplication (fuel : Nat) (a : Nat) : M Unit := do
  match fuel with
  | 0 => pure ()
  | fuel + 1 =>
    if hasRunningProcesses (← get) a then
      storeStopApplication a
      stopperNext fuel

/-- Starter.start_application -/
def startApplication (fuel : Nat) (a : Nat) (strat : Strategy) : M Unit := do
  match fuel with
  | 0 => pure ()
  | fuel + 1 =>
    if ← appStopped a then
      storeApplication a strat
      starterNext fuel

/-- ApplicationStopJobs.next / process_job -/
def stopJobNext (fuel : Nat) (app : Nat) : M Unit := do
  match fuel with
  | 0 => pure ()
  | fuel + 1 =>
    let w ← get
    match w.scurrent.find? (·.app = app) with
    | none => pure ()
    | some j =>
      if j.current.isEmpty ∧ !j.planned.isEmpty then
        match maxKey j.planned with
        | none => pure ()
        | some k =>
          let (grp, rest) := popKey k j.planned
          modify fun w => { w with scurrent := w.scurrent.map (fun x => if x.app = app then { x with planned := rest } else x) }
          for c in grp.getD [] do
            let w ← get
            let x := w.procs.getD c.proc {}
            if procRunning x ∧ c.target ∈ x.running then
              emit (.stop c.proc c.target)
              let c' := { c with reqCounter := w.counter.getD c.target 0 }
              modify fun w => { w with scurrent := w.scurrent.map (fun x => if x.app = app then { x with current := x.current ++ [c'] } else x) }
          stopJobNext fuel app

/-- Commander.next for the Stopper (pickup max) with Stopper.after -/
def stopperNext (fuel : Nat) : M Unit := do
  match fuel with
  | 0 => pure ()
  | fuel + 1 =>
    let w ← get
    for j in w.scurrent do
      match (← get).scurrent.find? (·.app = j.app) with
      | some jj =>
        if jj.runId = j.runId ∧ !stopJobInProgress jj then
          modify fun w => { w with scurrent := w.scurrent.filter (·.app ≠ jj.app) }
          -- Stopper.after: pending application start request
          let w ← get
          match w.appStartReq.find? (·.1 = jj.app) with
          | some (_, strat) =>
            modify fun w => { w with appStartReq := w.appStartReq.filter (·.1 ≠ jj.app) }
            startApplication fuel jj.app strat
          | none => pure ()
      | none => pure ()
    let w ← get
    if !w.splanned.isEmpty ∧ w.scurrent.isEmpty then
      match maxKey w.splanned with
      | none => pure ()
      | some k =>
        let (grp, rest) := popKey k w.splanned
        modify fun w => { w with splanned := rest, scurrent := grp.getD [] }
        for j in grp.getD [] do
          stopJobNext fuel j.app
        stopperNext fuel

/-- Commander.on_event for the Stopper + ProcessStopCommand.on_event -/
def stopperOnEvent (fuel : Nat) (p : Nat) (i : Nat) : M Unit := do
  match fuel with
  | 0 => pure ()
  | fuel + 1 =>
    let w ← get
    let cfgp := w.pcfg.getD p default
    match w.scurrent.find? (·.app = cfgp.app) with
    | none => pure ()
    | some j =>
      match j.current.find? (fun c => c.proc = p ∧ c.target = i) with
      | none => pure ()
      | some _ =>
        let x := w.procs.getD p {}
        match getInfo x.infos i with
        | none => pure ()
        | some v =>
          if v.state.isStopped then
            modify fun w => { w with scurrent := w.scurrent.map (fun jj => if jj.app = cfgp.app then
              { jj with current := jj.current.filter (fun cc => !(cc.proc = p ∧ cc.target = i)) } else jj) }
            stopJobNext fuel cfgp.app
      stopperNext fuel

end

/-- ApplicationJobs.check / Commander.check -/
def starterCheck (fuel : Nat) : M Unit := do
  let w ← get
  for j in w.current do
    for c in j.current do
      let w ← get
      let x := w.procs.getD c.proc {}
      let cfgp := w.pcfg.getD c.proc default
      match c.target with
      | none => pure ()
      | some i =>
        -- the process may have been removed from the Supervisor of the target in the meantime: the request is given up now
        let (res, etime) : Nat × Nat := match getInfo x.infos i with
          | none => (3, w.now)
          | some v => (startCheckResult cfgp.waitExit c.ignoreWaitExit v.state c.reqCounter c.waitTicks (w.counter.getD i 0), v.etime)
        do
          if res = 3 then
            -- the command is removed, the starting failure strategy applied, then the state forced
            modify fun w => { w with current := w.current.map (fun jj => if jj.app = j.app ∧ jj.runId = j.runId then
              processFailure w { jj with current := jj.current.filter (fun cc => !(cc.proc = c.proc ∧ cc.target = c.target)) } c.proc else jj) }
            failCommand fuel c.proc (some i) etime .fatal j.runId
          if res = 1 then
            modify fun w => { w with current := w.current.map (fun jj => if jj.app = j.app then
              { jj with current := jj.current.filter (fun cc => !(cc.proc = c.proc ∧ cc.target = c.target)) } else jj) }
    jobNext fuel j.app
  starterNext fuel


/-- ApplicationJobs.check / Commander.check for the Stopper -/
def stopperCheck (fuel : Nat) : M Unit := do
  let w ← get
  for j in w.scurrent do
    for c in j.current do
      let w ← get
      let x := w.procs.getD c.proc {}
      -- a process removed from the Supervisor of the target was stopped: the job is done
      let (res, etime) : Nat × Nat := match getInfo x.infos c.target with
        | none => (1, w.now)
        | some v => (stopCheckResult v.state c.reqCounter c.waitTicks (w.counter.getD c.target 0), v.etime)
      do
        if res = 3 ∨ res = 1 then
          modify fun w => { w with scurrent := w.scurrent.map (fun jj => if jj.app = j.app then
            { jj with current := jj.current.filter (fun cc => !(cc.proc = c.proc ∧ cc.target = c.target)) } else jj) }
        if res = 3 then
          failCommand fuel c.proc (some c.target) etime .stopped
    stopJobNext fuel j.app
  stopperNext fuel

/-- `Context.on_process_state_event` / `on_process_disability_event` / `on_process_removed_event`: events are accepted from
    CHECKED / RUNNING instances only -/
def acceptsEvents (w : W) (i : Nat) : Bool := w.instRunning.getD i false || w.instChecked.getD i false

/-- `ApplicationStartJobs.on_command_added`: in a non-distributed application whose instances have been selected, the new command
    gets one of them, chosen by the strategy of the JOB for the load of the program and the load requests of the job -/
def onCommandAdded (w : W) (j : AppJobs) (c : Command) : Res Command :=
  if (w.acfg.getD j.app default).distribution = .all then .ok c
  else if j.identifiers.isEmpty then .ok c
  else match chooseInstance w j.strategy (applicableIdentifiers w j.identifiers c.proc) (w.pcfg.getD c.proc default).load (jobLoadRequests w j) with
    | some i => updateIdentifier w c i
    | none => .ok c

/-- one sequence group of `retargetPlanned`: `preC` are the commands of the group already walked, `preG` / `postG` the groups before
    and after it as they are now.  A command that targets a lost instance has its identifier cleared, then `on_command_added` sees
    the job as it is at that time (the load requests count the commands re-assigned before it, not this one). -/
def retargetCmds (w : W) (lost : List Nat) (j0 : AppJobs) (preG postG : List (Nat × List Command)) (seq : Nat) :
    List Command → List Command → List Command
  | preC, [] => preC
  | preC, c :: postC =>
    if c.target.any (fun i => lost.contains i) then
      let c0 := { c with target := none }
      let view := { j0 with planned := preG ++ (seq, preC ++ c0 :: postC) :: postG }
      let c1 := match onCommandAdded w view c0 with | .ok c' => c' | .err _ => c0
      retargetCmds w lost j0 preG postG seq (preC ++ [c1]) postC
    else retargetCmds w lost j0 preG postG seq (preC ++ [c]) postC

/-- the groups of the plan, in the order of the plan -/
def retargetGroups (w : W) (lost : List Nat) (j0 : AppJobs) :
    List (Nat × List Command) → List (Nat × List Command) → List (Nat × List Command)
  | preG, [] => preG
  | preG, g :: postG => retargetGroups w lost j0 (preG ++ [(g.1, retargetCmds w lost j0 preG postG g.1 [] g.2)]) postG

/-- `ApplicationStartJobs.on_instances_invalidation` (override): in a non-distributed application the instances were assigned to all
    commands when the job started; a planned command that targets a lost instance is assigned again among the remaining selected
    instances (`on_command_added`; none is left for SINGLE_INSTANCE: the start then fails with 'No resource available').  The commands
    are walked in the order of the plan, each one seeing the load requests of those re-assigned before it. -/
def retargetPlanned (w : W) (lost : List Nat) (j : AppJobs) : AppJobs :=
  if (w.acfg.getD j.app default).distribution = .all then j else
  let j0 := { j with identifiers := j.identifiers.filter (fun i => !lost.contains i) }
  { j0 with planned := retargetGroups w lost j0 [] j0.planned }

/-- `ApplicationJobs.on_instances_invalidation` of a start job: the pending requests on a lost instance are dropped, each one
    is a starting failure (`process_failure`), not a running failure; processes with a planned start are not running failures
    either; then the planned commands of a non-distributed application leave the lost instances (`retargetPlanned`).  Returns
    the job and what is left of `failed_processes`. -/
def startJobInvalidation (w : W) (lost : List Nat) (j : AppJobs) (failed : List Nat) : AppJobs × List Nat :=
  let (j1, f1) := j.current.foldl (fun (acc : AppJobs × List Nat) c =>
      if c.target.any (fun i => lost.contains i) then
        (processFailure w { acc.1 with current := acc.1.current.filter (fun cc => !(cc.proc = c.proc ∧ cc.target = c.target)) } c.proc,
         acc.2.filter (· ≠ c.proc))
      else acc) (j, failed)
  let plannedProcs := ((j1.planned.map (·.2)).flatten).map (·.proc)
  (retargetPlanned w lost j1, f1.filter (fun p => !plannedProcs.contains p))

/-- the same for a stop job (`process_failure` does nothing) -/
def stopJobInvalidation (lost : List Nat) (j : StopJobs) (failed : List Nat) : StopJobs × List Nat :=
  let gone := j.current.filter (fun c => lost.contains c.target)
  let j1 := { j with current := j.current.filter (fun c => !lost.contains c.target) }
  let f1 := failed.filter (fun p => !(gone.map (·.proc)).contains p)
  let plannedProcs := ((j1.planned.map (·.2)).flatten).map (·.proc)
  (j1, f1.filter (fun p => !plannedProcs.contains p))

/-- `Commander.on_instances_invalidation` for the Starter: current jobs, then planned jobs, then `next` -/
def starterInvalidation (fuel : Nat) (lost failed : List Nat) : M (List Nat) := do
  let w ← get
  let (cur, f1) := w.current.foldl (fun (acc : List AppJobs × List Nat) j =>
      let (j', f') := startJobInvalidation w lost j acc.2; (acc.1 ++ [j'], f')) ([], failed)
  let (pl, f2) := w.planned.foldl (fun (acc : List (Nat × List AppJobs) × List Nat) (kjs : Nat × List AppJobs) =>
      let (js', f') := kjs.2.foldl (fun (a : List AppJobs × List Nat) j =>
          let (j', f'') := startJobInvalidation w lost j a.2; (a.1 ++ [j'], f'')) ([], acc.2)
      (acc.1 ++ [(kjs.1, js')], f')) ([], f1)
  modify fun w => { w with current := cur, planned := pl }
  starterNext fuel
  return f2

/-- `Commander.on_instances_invalidation` for the Stopper -/
def stopperInvalidation (fuel : Nat) (lost failed : List Nat) : M (List Nat) := do
  let w ← get
  let (cur, f1) := w.scurrent.foldl (fun (acc : List StopJobs × List Nat) j =>
      let (j', f') := stopJobInvalidation lost j acc.2; (acc.1 ++ [j'], f')) ([], failed)
  let (pl, f2) := w.splanned.foldl (fun (acc : List (Nat × List StopJobs) × List Nat) (kjs : Nat × List StopJobs) =>
      let (js', f') := kjs.2.foldl (fun (a : List StopJobs × List Nat) j =>
          let (j', f'') := stopJobInvalidation lost j a.2; (a.1 ++ [j'], f'')) ([], acc.2)
      (acc.1 ++ [(kjs.1, js')], f')) ([], f1)
  modify fun w => { w with scurrent := cur, splanned := pl }
  stopperNext fuel
  return f2

/-- `Context.invalidate_failed` for one lost instance, then `_MasterSlaveState._common_next`: the instance is not seen RUNNING
    any more, every process running on it gets a FATAL report from it (`invalidate_identifier`), those left running nowhere
    are the failed processes handed to the Starter and the Stopper.  Returns the failed processes the commanders left (for
    the Master: the running failures handed to the failure handler). -/
def loseInstance (fuel : Nat) (i : Nat) : M (List Nat) := do
  let w ← get
  let ps := List.range w.procs.length
  -- status.running_processes(): the processes known on the instance that are running on it
  let hit := ps.filter (fun p => let x := w.procs.getD p {}; (getInfo x.infos i).isSome && runningOn x i)
  let procs' := ps.map (fun p => let x := w.procs.getD p {}
    -- second loop of `invalidate_failed`: every process of the instance is invalidated (a no-op unless the instance is listed), so that
    -- a copy that was only STOPPING there does not stay listed; only the `hit` ones can be failures
    if (getInfo x.infos i).isSome then (match invalidateIdentifier x i w.now with | .ok y => y | .err _ => x) else x)
  let failed := hit.filter (fun p => (procs'.getD p {}).running.isEmpty)
  set { w with procs := procs', instRunning := w.instRunning.set i false, instChecked := w.instChecked.set i false }
  let f1 ← starterInvalidation fuel [i] failed
  stopperInvalidation fuel [i] f1

/-- the same when several instances are found FAILED by the same evaluation (`invalidate_failed` walks the instances in order
    and ACCUMULATES the failed processes; the commanders are told once, with every lost instance) -/
def loseInstances (fuel : Nat) (is : List Nat) : M (List Nat) := do
  let mut failed : List Nat := []
  for i in is do
    let w ← get
    let ps := List.range w.procs.length
    let hit := ps.filter (fun p => let x := w.procs.getD p {}; (getInfo x.infos i).isSome && runningOn x i)
    let procs' := ps.map (fun p => let x := w.procs.getD p {}
      if (getInfo x.infos i).isSome then (match invalidateIdentifier x i w.now with | .ok y => y | .err _ => x) else x)
    failed := failed ++ (hit.filter (fun p => (procs'.getD p {}).running.isEmpty && !failed.contains p))
    set { w with procs := procs', instRunning := w.instRunning.set i false, instChecked := w.instChecked.set i false }
  let f1 ← starterInvalidation fuel is failed
  stopperInvalidation fuel is f1

/-- `Context.on_process_disability_event` -/
def disableProcess (i p : Nat) (dis : Bool) : M Unit := do
  let w ← get
  if acceptsEvents w i then
    let x := w.procs.getD p {}
    match getInfo x.infos i with
    | some v => setProc p { x with infos := setInfo x.infos i { v with disabled := dis } }
    | none => pure ()

/-- Stopper.restart_application -/
def restartApplication (fuel : Nat) (a : Nat) (strat : Strategy) : M Unit := do
  if hasRunningProcesses (← get) a then
    modify fun w => { w with appStartReq := (w.appStartReq.filter (·.1 ≠ a)) ++ [(a, strat)] }
    stopApplication fuel a
  else startApplication fuel a strat

/-- `ApplicationStatus.stopped()` (displayed states) as a function of the world -/
def appStoppedW (w : W) (a : Nat) : Bool :=
  (appProcs w a).all (fun p => let d := displayed (w.procs.getD p {}); d ≠ .running ∧ d ≠ .starting ∧ d ≠ .backoff ∧ d ≠ .stopping)

/-- `ApplicationStatus.never_started`: every payload of every process is STOPPED with a zero `stop` date -/
def neverStarted (w : W) (a : Nat) : Bool :=
  (appProcs w a).all (fun p => (w.procs.getD p {}).infos.all (fun kv => kv.2.state == .stopped && !w.stopMark.contains (p, kv.1)))

/-- `ApplicationStatus.update_status_required`: (major_failure, minor_failure); every process of a managed application is in
    its start sequence dictionary -/
def appFailures (w : W) (a : Nat) : Bool × Bool :=
  let ps := appProcs w a
  let failed (p : Nat) : Bool := let x := w.procs.getD p {}; let d := displayed x
    d == .fatal || d == .unknown || (d == .exited && !x.expectedExit)
  let req (p : Nat) : Bool := (w.pcfg.getD p default).required
  let major0 := ps.any (fun p => failed p && req p)
  let minor0 := ps.any (fun p => failed p && !req p)
  let possible := ps.any (fun p => !failed p && displayed (w.procs.getD p {}) == .stopped && req p)
  let major := major0 || (!appStoppedW w a && possible)
  (major, minor0 && !major)

/-- the payload of (p, i) is replaced by a handshake snapshot (`add_info`): its `stop` date is the snapshot's (zero) -/
def clearStopMark (p i : Nat) : M Unit := modify fun w => { w with stopMark := w.stopMark.filter (· ≠ (p, i)) }

/-- `update_info`: STOPPED / EXITED / UNKNOWN set `info['stop']` (FATAL does not) -/
def noteStopMark (p i : Nat) (s : PState) : M Unit :=
  if s = .stopped ∨ s = .exited ∨ s = .unknown then
    modify fun w => { w with stopMark := if w.stopMark.contains (p, i) then w.stopMark else w.stopMark ++ [(p, i)] }
  else pure ()

/-- the applications `Stopper.stop_applications` stores: those with a running process (storing a stop plan changes no process) -/
def stopAllApps (w : W) : List Nat := (List.range w.acfg.length).filter (hasRunningProcesses w)

/-- `Stopper.stop_applications`: every application with a running process is stored, then ONE `next()` -/
def stopApplications (fuel : Nat) : M Unit := do
  for a in stopAllApps (← get) do storeStopApplication a
  stopperNext fuel

/-- the applications `Starter.start_applications` stores (storing a start plan changes no process): a strictly positive
    start_sequence, and never started or in (major / minor) failure -/
def autoStartApps (w : W) : List Nat :=
  (List.range w.acfg.length).filter (fun a =>
    0 < (w.acfg.getD a default).startSeq && (neverStarted w a || (appFailures w a).1 || (appFailures w a).2))

/-- `Starter.start_applications`: the applications with a positive start_sequence that were never started or are in failure
    are stored with their default strategy, then ONE `next()`.  Returns (job rank, application) of what was stored. -/
def startApplications (fuel : Nat) : M (List (Nat × Nat)) := do
  let mut stored : List (Nat × Nat) := []
  for a in autoStartApps (← get) do
    let w ← get
    storeApplication a (w.acfg.getD a default).strategy
    if (← get).jobCount > w.jobCount then stored := stored ++ [(w.jobCount, a)]
  starterNext fuel
  return stored

/-! ## Single process start (`Starter.start_process`) -/

/-- `ApplicationJobs.get_current_command` / `get_planned_command` of a NEW command (its identifier is None: any command of the
    same process matches) -/
def hasCommand (j : AppJobs) (p : Nat) : Bool := j.current.any (·.proc = p) || ((j.planned.map (·.2)).flatten).any (·.proc = p)

/-- `planned_jobs.setdefault(seq, []).append(command)` -/
def appendPlanned (pl : List (Nat × List Command)) (seq : Nat) (c : Command) : List (Nat × List Command) :=
  if pl.any (·.1 = seq) then pl.map (fun g => if g.1 = seq then (g.1, g.2 ++ [c]) else g) else pl ++ [(seq, [c])]

/-- `ApplicationJobs.add_commands` for one command: a process already planned or in progress is not considered again -/
def addCommand (w : W) (j : AppJobs) (seq : Nat) (c : Command) : Res AppJobs :=
  if hasCommand j c.proc then .ok j else
  match onCommandAdded w j c with
  | .ok c' => .ok { j with planned := appendPlanned j.planned seq c' }
  | .err e => .err e

/-- `Starter.start_process` (trigger = True): the command joins the job of its application if there is one (current jobs first,
    then planned ones), else a job of its own is planned at the application's start_sequence -/
def startProcess (fuel : Nat) (p : Nat) (strat : Strategy) : M Unit := do
  let w ← get
  if procStopped (w.procs.getD p {}) then
    let cfgp := w.pcfg.getD p default
    let c : Command := { proc := p, strategy := strat, ignoreWaitExit := true }
    let upd (j : AppJobs) : M AppJobs := do
      match addCommand w j cfgp.startSeq c with
      | .ok j' => return j'
      | .err e => raise e; return j
    match w.current.find? (·.app = cfgp.app) with
    | some j =>
      let j' ← upd j
      modify fun w => { w with current := w.current.map (fun x => if x.app = j.app ∧ x.runId = j.runId then j' else x) }
    | none =>
      match ((w.planned.map (·.2)).flatten).find? (·.app = cfgp.app) with
      | some j =>
        let j' ← upd j
        modify fun w => { w with planned := w.planned.map (fun kjs => (kjs.1, kjs.2.map (fun x => if x.app = j.app ∧ x.runId = j.runId then j' else x))) }
      | none =>
        let prio := (w.acfg.getD cfgp.app default).startSeq
        let job : AppJobs := { app := cfgp.app, runId := w.jobCount, planned := [(cfgp.startSeq, [c])], strategy := strat }
        modify fun w => { w with jobCount := w.jobCount + 1,
                                 planned := if w.planned.any (·.1 = prio) then w.planned.map (fun kjs => if kjs.1 = prio then (kjs.1, kjs.2 ++ [job]) else kjs)
                                            else w.planned ++ [(prio, [job])] }
    starterNext fuel

def stopperInProgress : M Bool := do
  let w ← get
  return !w.splanned.isEmpty || !w.scurrent.isEmpty

def starterInProgress : M Bool := do
  let w ← get
  return !w.planned.isEmpty || !w.current.isEmpty

/-- `StarterModel.feed_model`: the queued events are played on the mock processes (`process._state = state`,
    `info_map[identifier]['state'] = state`, then `on_event`) -/
def feedModel (fuel : Nat) : Nat → M Unit
  | 0 => pure ()
  | n + 1 => do
    let w ← get
    match w.modelEvents with
    | [] => pure ()
    | (p, i, st) :: rest =>
      let x := w.procs.getD p {}
      let infos := match getInfo x.infos i with
        | some v => setInfo x.infos i { v with state := st }
        | none => x.infos
      set { w with modelEvents := rest, procs := w.procs.set p { x with state := st, infos := infos } }
      starterOnEvent fuel p i
      feedModel fuel n

/-- the placement: for every process for which a request was emitted, the instance asked -/
def placements (outs : List Out) : List (Nat × Nat) :=
  outs.filterMap (fun o => match o with | .start p i _ _ _ => some (p, i) | _ => none)

/-- `StarterModel.test_start_application`: prediction on mock copies, the world itself is left untouched (the result is a
    value; nothing of the prediction run survives) -/
def testStartApplication (w : W) (a : Nat) (strat : Strategy) : List Out :=
  -- the mock processes are fresh `ProcessStatus` objects: same state and per-instance information, listed nowhere, not forced
  let w0 : W := { w with live := some w.procs, procs := w.procs.map (fun x => { x with running := [], forced := none }),
                         planned := [], current := [], splanned := [], scurrent := [], modelEvents := [], out := [] }
  -- `Starter.start_application` tests `application.stopped()` on the LIVE application (displayed states, forced ones included);
  -- the plan is then made of mock copies that start from the REAL state of each process
  if !(appStopped a).run' w then [] else
  let (_, w1) := (do storeApplication a strat; starterNext 200; feedModel 200 400).run w0
  w1.out

/-- an actual start of the application in which every requested process starts normally: STARTING then RUNNING (then an
    expected EXITED with wait_exit) reported by the instance asked, in the order requested -/
def normalStart (fuel : Nat) : Nat → List Out → M Unit
  | 0, _ => pure ()
  | n + 1, seen => do
    let w ← get
    -- the next start request not yet played
    match (w.out.drop seen.length).find? (fun o => match o with | .start .. => true | _ => false) with
    | none => pure ()
    | some (.start p i _ _ _) =>
      let upto := seen.length + ((w.out.drop seen.length).takeWhile (fun o => match o with | .start q j _ _ _ => !(q == p && j == i) | _ => true)).length + 1
      let seen' := w.out.take upto
      let cfgp := w.pcfg.getD p default
      for st in [PState.starting, PState.running] ++ (if cfgp.waitExit then [PState.exited] else []) do
        let w ← get
        let x := w.procs.getD p {}
        let v : Info := match getInfo x.infos i with
          | some v => { v with state := st, expected := true, ltime := w.now, etime := w.now, nowm := w.now }
          | none => { state := st, expected := true, ltime := w.now, etime := w.now, nowm := w.now, disabled := false }
        setProc p (updateStatusT { x with infos := setInfo x.infos i v, forced := none } i st)
        starterOnEvent fuel p i
        stopperOnEvent fuel p i
      normalStart fuel n seen'
    | some _ => pure ()

def realStartApplication (w : W) (a : Nat) (strat : Strategy) : List Out :=
  let w0 : W := { w with out := [] }
  let (_, w1) := (do startApplication 200 a strat; normalStart 200 100 []).run w0
  w1.out

end Supv.Cmd
