import Supv.Model.Proc

/-!
# Model of conflict detection and conciliation: `context.py` `conflicting / conflicts`, `strategy.py`
# `SenicideStrategy .. FailureStrategy`, `conciliate_conflicts`, and what the `Stopper` makes of their calls

Executable.  Imports only the process model (`Supv.Proc`) for the link with `ProcessStatus` (`viewOf`).
A process is seen through a `PView`: its identity, whether its application is managed, and its *copies* = the members
of `running_identifiers` (a Python **set**: the list order stands for "some iteration order", never for a rule) each
with `info_map[i]['uptime']` and whether that instance last reported STOPPING (such an instance stays listed, C11).

Two levels, as in the code:
* `conciliate`: the calls a strategy makes on `supvisors.stopper` / `supvisors.failure_handler` (`Action`s, in order);
* `Action.stops / deferred / direct / failJobs`: what `Stopper.stop_process`, `Stopper.restart_process` plan for such a
  call, and `rpcStops`: the stop requests `ApplicationStopJobs.process_job` really sends.
-/

namespace Supv.Conc
open Supv.Proc (PState Proc)

/-- `ttypes.ConciliationStrategies` (enumeration order) -/
inductive Strategy where
  | senicide | infanticide | user | stop | restart | runningFailure
  deriving DecidableEq, Repr, Inhabited

namespace Strategy
def ofCode : Nat → Option Strategy
  | 0 => some senicide | 1 => some infanticide | 2 => some user | 3 => some stop | 4 => some restart
  | 5 => some runningFailure | _ => none
def code : Strategy → Nat
  | senicide => 0 | infanticide => 1 | user => 2 | stop => 3 | restart => 4 | runningFailure => 5
def all : List Strategy := [senicide, infanticide, user, stop, restart, runningFailure]
end Strategy

/-- one member of `ProcessStatus.running_identifiers` -/
structure Copy where
  inst : Nat
  /-- `info_map[inst]['uptime']` (`update_uptime`: `now_monotonic - start_monotonic` when RUNNING / STOPPING, else 0) -/
  uptime : Nat
  /-- `info_map[inst]['state'] == STOPPING`: listed, but no longer in a running state -/
  stopping : Bool := false
  deriving DecidableEq, Repr, Inhabited

/-- what `Context.conflicts`, the strategies and the `Stopper` read of one `ProcessStatus` -/
structure PView where
  pid : Nat
  /-- `application.rules.managed` of the owning application -/
  managed : Bool
  /-- `running_identifiers`, in the order the set is iterated -/
  copies : List Copy
  deriving Repr, Inhabited

namespace PView
def listed (v : PView) : List Nat := v.copies.map (·.inst)
/-- `ProcessStatus.conflicting`: `len(running_identifiers) > 1` -/
def conflicting (v : PView) : Bool := decide (v.copies.length > 1)
/-- `ProcessStatus.running()`: the synthetic state is STARTING / BACKOFF / RUNNING iff some listed instance is in
    such a state (`Supv.Proc.runningState`; C11 state clause) -/
def running (v : PView) : Bool := v.copies.any (fun c => !c.stopping)
end PView

/-- all the processes of `Context.applications`, application by application (dict orders) -/
abbrev View := List PView

/-- `Context.conflicting` -/
def conflicting (ctx : View) : Bool := ctx.any (fun v => v.managed && v.conflicting)

/-- `Context.conflicts` -/
def conflicts (ctx : View) : List PView := ctx.filter (fun v => v.managed && v.conflicting)

/-- Python `min(iterable, key=uptime)`: the FIRST element of minimal key in iteration order -/
def firstMin : List Copy → Option Copy
  | [] => none
  | c :: t => match firstMin t with
    | none => some c
    | some m => if m.uptime < c.uptime then some m else some c

/-- Python `max(iterable, key=uptime)`: the FIRST element of maximal key in iteration order -/
def firstMax : List Copy → Option Copy
  | [] => none
  | c :: t => match firstMax t with
    | none => some c
    | some m => if m.uptime > c.uptime then some m else some c

/-- a call made by a strategy on a collaborator (the `ProcessStatus` object passed is the view) -/
inductive Action where
  /-- `stopper.stop_process(process, identifiers, False)` with an explicit identifier set -/
  | stopOn (v : PView) (insts : List Nat)
  /-- `stopper.stop_process(process, trigger=False)` -/
  | stopAll (v : PView)
  /-- `stopper.default_restart_process(process, False)` -/
  | restart (v : PView)
  /-- `failure_handler.add_default_job(process)` -/
  | failJob (v : PView)
  /-- `stopper.next()` -/
  | stopperNext
  /-- `failure_handler.trigger_jobs()` -/
  | failTrigger
  deriving Repr, Inhabited

/-- body of `for process in conflicts:` for each strategy class; `min()` / `max()` of an empty set raise ValueError -/
def perProcess (s : Strategy) (v : PView) : Except String (List Action) :=
  match s with
  | .senicide => match firstMin v.copies with
    | none => .error "ValueError"
    | some k => .ok [.stopOn v (v.listed.erase k.inst)]
  | .infanticide => match firstMax v.copies with
    | none => .error "ValueError"
    | some k => .ok [.stopOn v (v.listed.erase k.inst)]
  | .user => .ok []
  | .stop => .ok [.stopAll v]
  | .restart => .ok [.restart v]
  | .runningFailure => .ok [.stopAll v, .failJob v]

/-- the calls made so far and the Python exception that ended the loop, if any -/
structure Result where
  actions : List Action := []
  err : Option String := none
  deriving Repr, Inhabited

def loop (s : Strategy) : List PView → Result
  | [] => {}
  | v :: t => match perProcess s v with
    | .error e => { actions := [], err := some e }
    | .ok a => let r := loop s t; { r with actions := a ++ r.actions }

/-- what follows the loop: "trigger all Stopper jobs at once" (+ the failure handler) -/
def epilogue : Strategy → List Action
  | .user => []
  | .runningFailure => [.stopperNext, .failTrigger]
  | _ => [.stopperNext]

/-- `conciliate_conflicts(supvisors, strategy, conflicts)` -/
def conciliate (s : Strategy) (cs : List PView) : Result :=
  let r := loop s cs
  if r.err.isSome then r else { r with actions := r.actions ++ epilogue s }

/-! ## What the `Stopper` plans for these calls -/

/-- `Stopper.stop_process`: one `ProcessStopCommand(process, identifier)` per `identifier in process.running_identifiers
    if not identifiers or identifier in identifiers` -/
def stopCommands (v : PView) (sel : Option (List Nat)) : List (Nat × Nat) :=
  (v.listed.filter (fun i => match sel with
    | none => true
    | some l => l.isEmpty || l.contains i)).map (fun i => (v.pid, i))

namespace Action
/-- stop commands planned (`Stopper.stop_process`; `Stopper.restart_process` stops only a process that is `running()`) -/
def stops : Action → List (Nat × Nat)
  | .stopOn v l => stopCommands v (some l)
  | .stopAll v => stopCommands v none
  | .restart v => if v.running then stopCommands v none else []
  | _ => []
/-- `Stopper.process_start_requests`: the start deferred until the application's stop job is done (`Stopper.after`
    then calls `starter.start_process(strategy, process, extra_args)`) -/
def deferred : Action → List Nat
  | .restart v => if v.running then [v.pid] else []
  | _ => []
/-- `Stopper.restart_process` on a process that is not `running()`: `starter.start_process` at once (a no-op unless the
    process is `stopped()`, which a listed process never is) -/
def direct : Action → List Nat
  | .restart v => if v.running then [] else [v.pid]
  | _ => []
def failJobs : Action → List Nat
  | .failJob v => [v.pid]
  | _ => []
def isFailTrigger : Action → Bool
  | .failTrigger => true
  | _ => false
def isStopperNext : Action → Bool
  | .stopperNext => true
  | _ => false
end Action

def planStops (acts : List Action) : List (Nat × Nat) := acts.flatMap Action.stops
def planDeferred (acts : List Action) : List Nat := acts.flatMap Action.deferred
def planDirect (acts : List Action) : List Nat := acts.flatMap Action.direct
def planFailJobs (acts : List Action) : List Nat := acts.flatMap Action.failJobs
def planFailTriggered (acts : List Action) : Bool := acts.any Action.isFailTrigger
def planTriggered (acts : List Action) : Bool := acts.any Action.isStopperNext

/-- `ApplicationStopJobs.process_job`: the request `send_stop_process(identifier, namespec)` is sent only when
    `process.running_on(identifier)` (= `running()` and listed; listed holds by construction of the command) -/
def rpcStopsOf (a : Action) : List (Nat × Nat) :=
  match a with
  | .stopOn v _ | .stopAll v | .restart v => if v.running then a.stops else []
  | _ => []

def rpcStops (acts : List Action) : List (Nat × Nat) := acts.flatMap rpcStopsOf

/-! ## Link with the process model -/

/-- the view of a model `ProcessStatus`; `up i` is the uptime held for instance `i` -/
def viewOf (pid : Nat) (managed : Bool) (up : Nat → Nat) (p : Proc) : PView :=
  { pid := pid, managed := managed,
    copies := p.running.map (fun i =>
      { inst := i, uptime := up i, stopping := (p.infos.get? i).map (·.state) == some PState.stopping }) }

end Supv.Conc
