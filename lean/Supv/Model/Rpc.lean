/-!
# Rpc — gating and validation prefix of the XML-RPC methods of `supvisors/rpcinterface.py`

Import-free, total, executable.  A method is the *ordered list of steps* the translator (`tools/extract_rpc.py`)
reads in the Python source (`Supv/Gen/RpcGuards.lean`): `raise` steps (a check and the fault raised when it fails),
`effect` steps (calls into Starter / Stopper / FSM / Supervisor updater / option writes) and raw dictionary look-ups by
an unvalidated parameter.  `run` interprets such a list on an abstract state: what the gates read (FSM state, Master
known, USER option, jobs in progress) plus an append-only log of the effects performed.  The model says what the code
DOES, including the non-RPC exceptions it lets escape (`Result.internal`).
-/

namespace Supv.Rpc

/-- `SupvisorsStates` of `ttypes.py`, in declaration order -/
inductive St
  | off | synchronization | election | distribution | operation | conciliation | restarting | shuttingDown | final
  deriving DecidableEq, Repr, Inhabited

def St.all : List St :=
  [.off, .synchronization, .election, .distribution, .operation, .conciliation, .restarting, .shuttingDown, .final]

def St.name : St → String
  | .off => "OFF" | .synchronization => "SYNCHRONIZATION" | .election => "ELECTION" | .distribution => "DISTRIBUTION"
  | .operation => "OPERATION" | .conciliation => "CONCILIATION" | .restarting => "RESTARTING"
  | .shuttingDown => "SHUTTING_DOWN" | .final => "FINAL"

def St.ofName? (s : String) : Option St := St.all.find? (fun x => x.name == s)

/-- the XML-RPC fault codes used by `rpcinterface.py` (`supervisor.xmlrpc.Faults` and `SupvisorsFaults`) -/
inductive Fault
  | incorrectParameters | badName | failed | abnormalTermination | alreadyStarted | notRunning | stillRunning
  | badSupvisorsState | notManaged | disabled | notApplicable | notInstalled
  deriving DecidableEq, Repr, Inhabited

def Fault.all : List Fault :=
  [.incorrectParameters, .badName, .failed, .abnormalTermination, .alreadyStarted, .notRunning, .stillRunning,
   .badSupvisorsState, .notManaged, .disabled, .notApplicable, .notInstalled]

def Fault.name : Fault → String
  | .incorrectParameters => "INCORRECT_PARAMETERS" | .badName => "BAD_NAME" | .failed => "FAILED"
  | .abnormalTermination => "ABNORMAL_TERMINATION" | .alreadyStarted => "ALREADY_STARTED" | .notRunning => "NOT_RUNNING"
  | .stillRunning => "STILL_RUNNING" | .badSupvisorsState => "BAD_SUPVISORS_STATE" | .notManaged => "NOT_MANAGED"
  | .disabled => "DISABLED" | .notApplicable => "NOT_APPLICABLE" | .notInstalled => "NOT_INSTALLED"

def Fault.ofName? (s : String) : Option Fault := Fault.all.find? (fun x => x.name == s)

/-- the four faults by which the statement says a request is *rejected* (gate or parameter validation); every other
    fault reports the outcome of a request that was served -/
def Fault.isRejection : Fault → Bool
  | .badSupvisorsState | .badName | .incorrectParameters | .notManaged => true
  | _ => false

/-- what a `raise` step tests, as classified by the translator from the helper called / the `if` test -/
inductive Check
  | state (allowed : List St)   -- `_check_state([...])`, directly or through `_check_operating` & co
  | masterUnset                 -- `if self.supvisors.state_modes.master_identifier: raise` (end_sync)
  | userOption                  -- `if SynchronizationOptions.USER not in ...synchro_options: raise`
  | jobsIdle                    -- `if ...starting_identifiers or ...stopping_identifiers: raise` (restart_sequence)
  | masterKnown                 -- `try: fsm.on_restart() except RuntimeError: raise`: the local instance is the Master
                                --   or knows one (restart / shutdown are performed by or re-routed to the Master)
  | strategy                    -- `_get_starting_strategy` / `_get_conciliation_strategy`
  | appName                     -- `_get_application`
  | namespec                    -- `_get_application_process`
  | instName                    -- `if not mapper.filter([identifier]): raise`
  | progName                    -- `if program_name not in server_options.program_configs: raise`
  | managed                     -- `if application_name not in context.get_managed_applications(): raise`
  | level                       -- `_get_logger_level`
  | numprocs                    -- `int(numprocs) > 0`
  | data                        -- anything else: depends on the process / application data, not on the request alone
  deriving DecidableEq, Repr, Inhabited

def Check.isState : Check → Bool
  | .state _ => true
  | _ => false

/-- checks on the Supvisors state and modes (not on the parameters) -/
def Check.isStateLike : Check → Bool
  | .state _ | .masterUnset | .userOption | .jobsIdle | .masterKnown => true
  | _ => false

/-- the parameter classes of the statement: strategy, application / process / program name, instance name,
    managed application, plain value (logger level, numprocs) -/
inductive PKind
  | strategy | name | inst | managed | value
  deriving DecidableEq, Repr, Inhabited

def Check.kind : Check → Option PKind
  | .strategy => some .strategy
  | .appName | .namespec | .progName => some .name
  | .instName => some .inst
  | .managed => some .managed
  | .level | .numprocs => some .value
  | _ => none

/-- checks on the request parameters alone -/
def Check.isParam : Check → Bool
  | .strategy | .appName | .namespec | .instName | .progName | .managed | .level | .numprocs => true
  | _ => false

inductive Step
  | raise (c : Check) (f : Fault)
  | effect (name : String)
  | lookupInst                  -- `mapper.instances[identifier]` with the raw parameter, outside any `try`
  | derefProcess                -- `process.<attr>` on the second result of `_get_application_process`, never tested
                                --   (it is `None` for a group namespec `group:*`)
  deriving DecidableEq, Repr, Inhabited

def Step.isEffect : Step → Bool
  | .effect _ => true
  | _ => false

structure Method where
  name : String
  steps : List Step
  deriving DecidableEq, Repr, Inhabited

/-- what the gates read + the log of effects performed -/
structure State where
  fsm : St := .off
  isMaster : Bool := false      -- local instance is the Master
  masterSet : Bool := false     -- `state_modes.master_identifier != ''`
  userOpt : Bool := false       -- USER in `synchro_options`
  jobs : Bool := false          -- starting / stopping jobs in progress somewhere
  log : List String := []
  deriving DecidableEq, Repr, Inhabited

/-- abstract view of the request parameters: the truth value of every parameter check (an oracle on the world) -/
structure Args where
  stratOk : Bool := true
  nameOk : Bool := true         -- application name / namespec / program name resolves
  instOk : Bool := true         -- `mapper.filter([identifier])` is not empty
  instExact : Bool := true      -- the identifier is literally a key of `mapper.instances`
  isGroup : Bool := false       -- the namespec is a group namespec `group:*` (resolves to no single process)
  managed : Bool := true
  valueOk : Bool := true        -- logger level / numprocs value
  dataFaults : List Fault := [] -- data-dependent conditions that hold
  deriving DecidableEq, Repr, Inhabited

inductive Result
  | ok
  | fault (f : Fault)
  | internal (exc : String)     -- an exception that is not an `RPCError`
  deriving DecidableEq, Repr, Inhabited

def checkPasses (s : State) (a : Args) : Check → Fault → Bool
  | .state allowed, _ => allowed.contains s.fsm
  | .masterUnset, _ => !s.masterSet
  | .userOption, _ => s.userOpt
  | .jobsIdle, _ => !s.jobs
  | .masterKnown, _ => s.isMaster || s.masterSet
  | .strategy, _ => a.stratOk
  | .appName, _ | .namespec, _ | .progName, _ => a.nameOk
  | .instName, _ => a.instOk
  | .managed, _ => a.managed
  | .level, _ | .numprocs, _ => a.valueOk
  | .data, f => !a.dataFaults.contains f

/-- effects that let a non-RPC exception escape when the local instance is not the Master and no Master is known
    (`FiniteStateMachine.on_restart` raises `RuntimeError`, `on_shutdown` raises `ValueError`): the list
    (effect name, exception class) is read in `statemachine.py` by the translator (`Gen.effectCrashes`) -/
abbrev Crashes := List (String × String)

def effectCrash (cr : Crashes) (s : State) (name : String) : Option String :=
  if !s.isMaster && !s.masterSet then (cr.find? (fun x => x.1 == name)).map (·.2) else none

def runSteps (cr : Crashes) : List Step → State → Args → State × Result
  | [], s, _ => (s, .ok)
  | .raise c f :: rest, s, a => if checkPasses s a c f then runSteps cr rest s a else (s, .fault f)
  | .effect n :: rest, s, a =>
    match effectCrash cr s n with
    | some e => (s, .internal e)
    | none => runSteps cr rest { s with log := s.log ++ [n] } a
  | .lookupInst :: rest, s, a => if a.instExact then runSteps cr rest s a else (s, .internal "KeyError")
  | .derefProcess :: rest, s, a => if a.isGroup then (s, .internal "AttributeError") else runSteps cr rest s a

def run (cr : Crashes) (m : Method) (s : State) (a : Args) : State × Result := runSteps cr m.steps s a

def Args.flag (a : Args) : PKind → Bool
  | .strategy => a.stratOk
  | .name => a.nameOk
  | .inst => a.instOk
  | .managed => a.managed
  | .value => a.valueOk

/-- after the first effect, a step is harmless when it cannot reject: a `raise` with a non-rejection code (it reports
    the outcome of the request), or a parameter check of a kind that was already established before the effect
    (`disable` re-resolves the namespecs of a program it has already validated) -/
def lateOk (seen : List PKind) : Step → Bool
  | .raise c f => !f.isRejection || (match c.kind with | some k => seen.contains k | none => false)
  | .effect _ => true
  | .lookupInst => false
  | .derefProcess => false

/-- structural obligation on a method: every effect is dominated by all the rejecting checks -/
def guardsBeforeEffects (seen : List PKind) : List Step → Bool
  | [] => true
  | .effect _ :: rest => rest.all (lateOk seen)
  | .raise c _ :: rest => guardsBeforeEffects (match c.kind with | some k => k :: seen | none => seen) rest
  | .lookupInst :: rest => guardsBeforeEffects seen rest
  | .derefProcess :: rest => guardsBeforeEffects seen rest

/-- the faults a served request may still report (data-dependent `raise` steps) -/
def dataFaultsOf (m : Method) : List Fault :=
  m.steps.filterMap (fun st => match st with
    | .raise .data f => some f
    | _ => none)

end Supv.Rpc
