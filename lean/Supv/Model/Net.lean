import Supv.Model.Inst
import Supv.Model.Proc

/-!
# Model of a cluster: N instances (`Supv.Inst`) + the internal communication layer

rpchandler.py, supervisorproxy.py (publish filter, `check_instance` handshake, `_is_authorized`, failure notification,
`get_proxy`), the dispatch of listener.py.  One FIFO proxy queue per ordered pair (the proxy thread of `i` dedicated to
`j`), one FIFO inbox per receiver (the Supervisor event queue of `j`).  XML-RPC transport "succeeds atomically or fails".
-/
namespace Supv.Net
open Supv.Inst

/-- an item of a proxy queue i→j -/
inductive Item where
  | tick (k : Nat)                       -- TICK publication
  | state (m : Modes)                    -- STATE publication
  | check                                -- CHECK_INSTANCE request
  | restartAll | shutdownAll             -- RESTART_ALL / SHUTDOWN_ALL request (re-routed to the Master)
  | restartLocal | shutdownLocal         -- RESTART / SHUTDOWN request to the local Supervisor
  | notif (op : Option Op)               -- notification for the local instance (none = no effect on this model)
  | pev (p : Nat) (s : Supv.Proc.PState) (ex : Bool) (et : Nat)      -- PROCESS publication (process state event)
  | notifInfo (j : Nat) (snap : List Supv.Proc.Snap)                 -- ALL_INFO notification: the snapshot taken on `j`
  | prem (p : Nat)                                                   -- PROCESS_REMOVED publication
  deriving Repr

/-- an element of the inbox of an instance (RemoteCommunicationEvent waiting in its Supervisor) -/
inductive In where
  | op (o : Option Op)
  | pev (src p : Nat) (s : Supv.Proc.PState) (ex : Bool) (et : Nat)
  | info (src : Nat) (snap : List Supv.Proc.Snap)
  | prem (src p : Nat)
  deriving Repr

/-- GHOST (no effect on the behaviour): what became of the LAST report of an instance about a program on its way to a peer -/
inductive Fate where
  | inflight                   -- queued (proxy queue of the sender or inbox of the receiver)
  | delivered                  -- accepted by the receiver, or covered by a snapshot taken afterwards
  | filtered (v : IState)      -- not sent: the sender saw the receiver in the inactive state `v` (`publish` filter)
  | refused (v : IState)       -- received while the receiver saw the sender in state `v` (not CHECKED / RUNNING)
  | noInfo                     -- received about a program for which the receiver holds no information from the sender
  | dropped                    -- the transport failed (receiver unreachable when the proxy sent it)
  | vanished                   -- the sender's Supervisor restarted: its process table changed without any report
  deriving Repr, DecidableEq, Inhabited

/-- what the Supervisor of an instance knows about one of its programs (the truth) -/
structure Truth where
  state : Supv.Proc.PState := .stopped
  expected : Bool := true
  etime : Nat := 0
  deriving Repr, Inhabited

structure Net where
  n : Nat
  cfgs : List Cfg
  insts : List St
  up : List Bool
  cut : List (Nat × Nat) := []
  proxy : List (List (List Item))        -- proxy[i][j]
  inbox : List (List In)                 -- inbox[j]
  counter : List Nat                     -- listener.counter per instance
  orders : List (List String)            -- restart/shutdown orders received by each Supervisor
  oracle : List (Query × Nat) := []     -- oracle answers for the instance handling the current global action
  /-- replicated process database: `nproc` programs; `known[i]` = programs configured in the Supervisor of `i`;
      `truth[i][p]` = state of `p` in the Supervisor of `i`; `data[i][p]` = the `ProcessStatus` of `p` held by `i` -/
  nproc : Nat := 0
  known : List (List Nat) := []
  knownCfg : List (List Nat) := []       -- the programs of the Supervisor configuration files (what a restart reads again)
  truth : List (List Truth) := []
  data : List (List Supv.Proc.Proc) := []
  /-- the instances whose listener guard caught an exception of the process-status synthesis during the current action -/
  raised : List Nat := []
  /-- GHOST: `fate` of the last report, keyed by (sender, receiver, program); `sinceSnap` holds (receiver, sender, program)
      when the sender reported about the program after the receiver last read its process table -/
  fate : List ((Nat × Nat × Nat) × Fate) := []
  sinceSnap : List (Nat × Nat × Nat) := []
  deriving Repr

def Net.cfg (g : Net) (i : Nat) : Cfg := g.cfgs.getD i default
def Net.inst (g : Net) (i : Nat) : St := g.insts.getD i default
def Net.queue (g : Net) (i j : Nat) : List Item := (g.proxy.getD i []).getD j []
def Net.setQueue (g : Net) (i j : Nat) (q : List Item) : Net :=
  { g with proxy := g.proxy.set i ((g.proxy.getD i []).set j q) }
def Net.reachable (g : Net) (i j : Nat) : Bool :=
  g.up.getD i false && g.up.getD j false && !(g.cut.contains (i, j) || g.cut.contains (j, i))

/-- the state of `j` as seen by `i` -/
def Net.view (g : Net) (i j : Nat) : IState := ((g.inst i).peers.getD j {}).state

/-- SupervisorProxyServer.get_proxy + push_message: nothing is queued for an ISOLATED peer (and its proxy is dropped) -/
def Net.push (g : Net) (i j : Nat) (it : Item) : Net :=
  if g.view i j = .isolated then g.setQueue i j []
  else g.setQueue i j (g.queue i j ++ [it])

/-- push_publication: to every other instance -/
def Net.publish (g : Net) (i : Nat) (it : Item) : Net :=
  (List.range g.n).foldl (fun g j => if j = i then g else g.push i j it) g

/-- translate the outputs of one handled operation of `i` into queue items -/
def Net.route (g : Net) (i : Nat) (outs : List Out) : Net :=
  outs.foldl (fun g o => match o with
    | .pub m => g.publish i (.state m)
    | .check j => g.push i j .check
    | .restartLocal => g.push i i .restartLocal
    | .shutdownLocal => g.push i i .shutdownLocal
    | .restartAll m => g.push i m .restartAll
    | .shutdownAll m => g.push i m .shutdownAll
    | _ => g) g

def Net.setFate (g : Net) (src dst p : Nat) (f : Fate) : Net :=
  { g with fate := (g.fate.filter (fun x => x.1 != (src, dst, p))) ++ [((src, dst, p), f)] }
def Net.fateOf (g : Net) (src dst p : Nat) : Fate := ((g.fate.find? (fun x => x.1 == (src, dst, p))).map (·.2)).getD .delivered

def Net.proc (g : Net) (i p : Nat) : Supv.Proc.Proc := (g.data.getD i []).getD p {}
def Net.setProc (g : Net) (i p : Nat) (x : Supv.Proc.Proc) : Net :=
  { g with data := g.data.set i ((g.data.getD i []).set p x) }
def resOr (r : Supv.Proc.Res Supv.Proc.Proc) (x : Supv.Proc.Proc) : Supv.Proc.Proc := match r with | .ok y => y | .err _ => x

/-- an instance state in which `Context` holds (or may hold) process information of the peer -/
def holdsData (s : IState) : Bool := s == .checking || s == .checked || s == .running || s == .failed

/-- `Context.invalidate_failed`, process part: every process running on a lost instance gets a FATAL report from it -/
def Net.loseData (g : Net) (now i : Nat) (lost : List Nat) : Net :=
  lost.foldl (fun g j => (List.range g.nproc).foldl (fun g p =>
    let x := g.proc i p
    g.setProc i p (resOr (Supv.Proc.pstep x now (.lose j)) x)) g) g

/-- run one operation on instance `i` and route what it emitted; returns the error if the handler raised.  The peers that
    went from a data-holding state to STOPPED / ISOLATED in this operation were invalidated by `invalidate_failed` (the
    refusals of the handshake - `auth`, `allinfoNone` - invalidate the instance only, not its processes). -/
def Net.handle (g : Net) (now : Nat) (i : Nat) (op : Op) : Net × Option Err × List Out :=
  let before := (g.inst i).peers.map (·.state)
  let (s', e) := stepOp (g.cfg i) (g.inst i) now op g.oracle
  let g' := { g with insts := g.insts.set i s' }
  let exempt : Option Nat := match op with | .auth j _ _ => some j | .allinfoNone j => some j | _ => none
  let lost := (List.range g.n).filter (fun j => holdsData (before.getD j .stopped)
    && (let a := (s'.peers.getD j {}).state; a == .stopped || a == .isolated) && exempt != some j)
  let g' := if g.nproc = 0 then g' else g'.loseData now i lost
  (g'.route i s'.out, e, s'.out)

abbrev Obs := List (Nat × Option Err × List Out)       -- instances touched by a global step

/-- listener.on_tick of instance `i` -/
def Net.tick (g : Net) (now : Nat) (i : Nat) : Net × Obs :=
  let k := g.counter.getD i 0
  let (g1, e, o) := g.handle now i (.ltick k)
  let g2 := { g1 with counter := g1.counter.set i (k + 1) }
  (g2.publish i (.tick k), [(i, e, o)])

/-- SupervisorProxyThread.handle_exception -/
def Net.proxyFailure (g : Net) (i j : Nat) : Net :=
  if j ≠ i ∧ (g.view i j).active then g.push i i (.notif (some (.failure j))) else g

/-- rpcinterface `_check_from_distribution` -/
def gate (f : SState) : Bool :=
  f == .distribution || f == .operation || f == .conciliation || f == .restarting || f == .shuttingDown

/-- `SupervisorProxy._is_authorized` evaluated by `i` about `j` (reachable): 2 = NOT_AUTHORIZED when `j` reports `i` as
    ISOLATED, 3 = INCONSISTENT when one of the four strategies differs, 1 = AUTHORIZED otherwise -/
def Net.authCode (g : Net) (i j : Nat) : Nat :=
  let isolatedThere := g.view j i = .isolated
  let sameStrategies := (g.cfg i).autoFence = (g.cfg j).autoFence ∧ (g.cfg i).failStrat = (g.cfg j).failStrat
    ∧ (g.cfg i).starting = (g.cfg j).starting ∧ (g.cfg i).conciliation = (g.cfg j).conciliation
  if isolatedThere then 2 else if !sameStrategies then 3 else 1

/-- `RPCInterface.restart` / `shutdown` once the state gate is passed: `fsm.on_restart` / `on_shutdown`; the error they
    raise when no Master is known is answered as the documented fault BAD_SUPVISORS_STATE (no internal error) -/
def Net.rpcEnd (g : Net) (now : Nat) (j : Nat) (shutdown : Bool) : Net × Obs :=
  let (g', e, o) := g.handle now j (if shutdown then .shutdown else .restart)
  let e' := match e with | some .noMaster => none | x => x
  (g', [(j, e', o)])

/-- one step of the proxy thread of `i` dedicated to `j` -/
def Net.exec (g : Net) (now : Nat) (i j : Nat) : Net × Obs :=
  match g.queue i j with
  | [] => (g, [])
  | it :: rest =>
    let g := g.setQueue i j rest
    -- `publish` / `execute`: nothing is sent to an ISOLATED instance (messages may still be queued when it is isolated)
    if g.view i j = .isolated then (g, []) else
    match it with
    | .tick k =>
      if g.reachable i j then ({ g with inbox := g.inbox.set j (g.inbox.getD j [] ++ [.op (some (.rtick i k))]) }, [])
      else (g.proxyFailure i j, [])
    | .state m =>
      if (g.view i j).active then
        if g.reachable i j then ({ g with inbox := g.inbox.set j (g.inbox.getD j [] ++ [.op (some (.state i m))]) }, [])
        else (g.proxyFailure i j, [])
      else (g, [])
    | .pev p st ex et =>
      -- SupervisorProxy.publish: anything but a TICK is only sent to a peer in an active state
      if (g.view i j).active then
        if g.reachable i j then ({ g with inbox := g.inbox.set j (g.inbox.getD j [] ++ [.pev i p st ex et]) }, [])
        else ((g.setFate i j p .dropped).proxyFailure i j, [])
      else (g.setFate i j p (.filtered (g.view i j)), [])
    | .prem p =>
      if (g.view i j).active then
        if g.reachable i j then ({ g with inbox := g.inbox.set j (g.inbox.getD j [] ++ [.prem i p]) }, [])
        else (g.proxyFailure i j, [])
      else (g, [])
    | .notifInfo src snap =>
      if g.up.getD i false then ({ g with inbox := g.inbox.set i (g.inbox.getD i [] ++ [.info src snap]) }, []) else (g, [])
    | .check =>
      -- SupervisorProxy.check_instance
      if !g.reachable i j then (g.proxyFailure i j, [])
      else
        let g := g.push i i (.notif none)                                   -- IDENTIFICATION
        let code := g.authCode i j
        let g := if code = 1 then
            let m := (g.inst j).modes.getD j {}
            -- STATE then ALL_INFO (`_transfer_process_info`: the process table of `j` read NOW)
            let snap : List Supv.Proc.Snap := (g.known.getD j []).map (fun p =>
              let t := (g.truth.getD j []).getD p {}
              { proc := p, state := t.state, expected := t.expected, etime := now, disabled := false })
            let g := { g with sinceSnap := g.sinceSnap.filter (fun x => !(x.1 == i && x.2.1 == j)) }
            (g.push i i (.notif (some (.state j m)))).push i i (if g.nproc = 0 then .notif none else .notifInfo j snap)
          else g
        (g.push i i (.notif (some (.auth j code now))), [])
    | .notif op =>
      if g.up.getD i false then ({ g with inbox := g.inbox.set i (g.inbox.getD i [] ++ [.op op]) }, []) else (g, [])
    | .restartAll =>
      if g.reachable i j then
        (if gate (((g.inst j).modes.getD j {}).fsm) then g.rpcEnd now j false else (g, []))
      else (g.proxyFailure i j, [])
    | .shutdownAll =>
      if g.reachable i j then
        (if gate (((g.inst j).modes.getD j {}).fsm) then g.rpcEnd now j true else (g, []))
      else (g.proxyFailure i j, [])
    | .restartLocal => ({ g with orders := g.orders.set j (g.orders.getD j [] ++ ["restart"]) }, [])
    | .shutdownLocal => ({ g with orders := g.orders.set j (g.orders.getD j [] ++ ["shutdown"]) }, [])

/-- `Context.on_process_state_event` of `j` for a report of `src`: accepted from a CHECKED / RUNNING instance about a process
    for which `j` holds information from `src` (`check_process`) -/
def Net.applyEvent (g : Net) (now j src p : Nat) (st : Supv.Proc.PState) (ex : Bool) (et : Nat) : Net :=
  let v := g.view j src
  let x := g.proc j p
  if (v == .checked || v == .running) && (x.infos.get? src).isSome then
    match Supv.Proc.updateInfo x src st ex et none now with
    | .ok y => (g.setProc j p y).setFate src j p .delivered
    | .err _ =>
      -- `update_status` raised (an instance listed as running has no entry any more: the defect C11:remove-entry-not-stopped, repaired by 958c9f3 - kept so that the lock-step follows the code if it returns):
      -- the entry, the forced state and the listing are already written, the synthetic state is not; the guard of the listener
      -- logs the traceback
      let p1 : Supv.Proc.Proc := { x with infos := x.infos.set src { state := st, expected := ex, ltime := now, etime := et, nowm := et,
                                                                       disabled := ((x.infos.get? src).map (·.disabled)).getD false } }
      let p2 := Supv.Proc.resetForced p1 none
      { (g.setProc j p { p2 with running := Supv.Proc.updRunning p2 src st }).setFate src j p .delivered with raised := g.raised ++ [j] }
  else if v == .checked || v == .running then g.setFate src j p .noInfo
  else g.setFate src j p (.refused v)

/-- `Context.on_process_removed_event` of `j` for a removal reported by `src`: accepted from a CHECKED / RUNNING instance about
    a process for which `j` holds information from `src`; the entry of `src` is deleted (`remove_identifier`), and the process
    itself once no instance supports it any more -/
def Net.applyRemove (g : Net) (j src p : Nat) : Net :=
  let v := g.view j src
  let x := g.proc j p
  if (v == .checked || v == .running) && (x.infos.get? src).isSome then
    let x0 : Supv.Proc.Proc := { x with infos := x.infos.del src, running := x.running.erase src }
    let x' := resOr (Supv.Proc.removeIdentifier x src) x0
    g.setProc j p (if x'.infos.isEmpty then {} else x')
  else g

/-- `Context.load_processes(status, all_info)`: only while the instance is CHECKING -/
def Net.loadInfo (g : Net) (now i src : Nat) (snap : List Supv.Proc.Snap) : Net :=
  if g.view i src == .checking then
    snap.foldl (fun g sn => let x := g.proc i sn.proc
      let g := g.setProc i sn.proc (resOr (Supv.Proc.addInfo x src sn.state sn.expected sn.etime sn.disabled now) x)
      -- GHOST: the snapshot covers every report made before it was taken
      if g.sinceSnap.contains (i, src, sn.proc) then g else g.setFate src i sn.proc .delivered) g
  else g

/-- the Supervisor of `j` dispatches the next RemoteCommunicationEvent to the listener -/
def Net.deliver (g : Net) (now : Nat) (j : Nat) : Net × Obs :=
  match g.inbox.getD j [] with
  | [] => (g, [])
  | it :: rest =>
    let g := { g with inbox := g.inbox.set j rest }
    match it with
    | .op none => (g, [(j, none, [])])
    | .op (some op) => let (g', e, o) := g.handle now j op; (g', [(j, e, o)])
    | .pev src p st ex et => (g.applyEvent now j src p st ex et, [(j, none, [])])
    | .info src snap => (g.loadInfo now j src snap, [(j, none, [])])
    | .prem src p => (g.applyRemove j src p, [(j, none, [])])

/-- a process state event of the Supervisor of `i` (`SupervisorListener.on_process_state`): the truth changes, the local
    instance handles the event, then it is published to every other instance -/
def Net.procEvent (g : Net) (now i p : Nat) (st : Supv.Proc.PState) (ex : Bool) : Net × Obs :=
  let g := { g with truth := g.truth.set i ((g.truth.getD i []).set p { state := st, expected := ex, etime := now }) }
  let g := g.applyEvent now i i p st ex now
  -- `on_process_state`: an exception in the local handling is caught by the guard BEFORE the event is published
  if g.raised.contains i then (g, [(i, none, [])]) else
  -- GHOST (the local instance reads its own process table through a handshake with itself as well)
  let g := { g with sinceSnap := if g.sinceSnap.contains (i, i, p) then g.sinceSnap else g.sinceSnap ++ [(i, i, p)] }
  let g := (List.range g.n).foldl (fun g j => if j = i then g else
    { g.setFate i j p (if g.view i j = .isolated then .filtered .isolated else .inflight) with
      sinceSnap := if g.sinceSnap.contains (j, i, p) then g.sinceSnap else g.sinceSnap ++ [(j, i, p)] }) g
  (g.publish i (.pev p st ex now), [(i, none, [])])

def Net.init (cfgs : List Cfg) (now : Nat) : Net :=
  let n := cfgs.length
  { n := n, cfgs := cfgs, insts := cfgs.map (fun c => { initSt c with startDate := now, now := now }),
    up := List.replicate n true, proxy := List.replicate n (List.replicate n []), inbox := List.replicate n [],
    counter := List.replicate n 0, orders := List.replicate n [] }

/-- the Supervisor of `i` removes program `p` from its configuration (`SupervisorListener.on_process_removed`) -/
def Net.procRemoved (g : Net) (i p : Nat) : Net × Obs :=
  let g := { g with known := g.known.set i ((g.known.getD i []).erase p) }
  let g := g.applyRemove i i p
  (g.publish i (.prem p), [(i, none, [])])

/-- the same cluster with `nproc` programs, `known[i]` configured in the Supervisor of `i`, all STOPPED -/
def Net.withProcs (g : Net) (nproc : Nat) (known : List (List Nat)) : Net :=
  { g with nproc := nproc, known := known, knownCfg := known, truth := List.replicate g.n (List.replicate nproc {}),
           data := List.replicate g.n (List.replicate nproc {}) }

def fsmOfInst (g : Net) (i : Nat) : SState := ((g.inst i).modes.getD i {}).fsm

/-- rpcinterface gating of restart / shutdown (`_check_from_distribution`) -/
def gateFromDistribution (f : SState) : Bool :=
  f == .distribution || f == .operation || f == .conciliation || f == .restarting || f == .shuttingDown

/-- user XML-RPC restart / shutdown on instance `i` -/
def Net.rpcRestart (g : Net) (now : Nat) (i : Nat) (shutdown : Bool) : Net × Obs :=
  if gateFromDistribution (fsmOfInst g i) then g.rpcEnd now i shutdown
  else (g, [])

/-- user XML-RPC end_sync on instance `i` (all documented rejections are no-ops here) -/
def Net.rpcEndSync (g : Net) (now : Nat) (i : Nat) (m : Option Nat) : Net × Obs :=
  let c := g.cfg i
  let lm := (g.inst i).modes.getD i {}
  if lm.fsm ≠ .sync ∨ lm.master.isSome ∨ !c.optUser then (g, [])
  else match m with
    | some x => if g.view i x = .running then let (g', e, o) := g.handle now i (.endSync (some x)); (g', [(i, e, o)]) else (g, [])
    | none => let (g', e, o) := g.handle now i (.endSync none); (g', [(i, e, o)])


/-- Supervisor of `i` restarted: a fresh instance (empty queues of `i`, counter 0); what the others hold is kept -/
def Net.restart (g : Net) (now : Nat) (i : Nat) : Net :=
  let c := g.cfg i
  { g with insts := g.insts.set i { initSt c with startDate := now, now := now },
           up := g.up.set i true,
           proxy := g.proxy.set i (List.replicate g.n []),
           inbox := g.inbox.set i [],
           counter := g.counter.set i 0,
           truth := g.truth.set i (List.replicate g.nproc {}),
           known := g.known.set i (g.knownCfg.getD i []),
           data := g.data.set i (List.replicate g.nproc {}),
           -- GHOST: whatever `i` reported before is void; what `i` held is gone
           fate := (g.fate.filter (fun x => x.1.1 != i && x.1.2.1 != i)) ++
             ((List.range g.n).flatMap fun j => if j = i then [] else (List.range g.nproc).map fun p => ((i, j, p), Fate.vanished)),
           sinceSnap := (g.sinceSnap.filter (fun x => x.1 != i)) ++
             ((List.range g.n).flatMap fun j => (List.range g.nproc).filterMap fun p => if g.sinceSnap.contains (j, i, p) then none else some (j, i, p)) }

/-! ## Global actions of the scheduler (one line of the lock-step protocol each) -/

inductive Act where
  | running (i : Nat)                          -- listener.on_running
  | tick (i : Nat)                             -- Supervisor TICK of instance `i`
  | exec (i j : Nat)                           -- the proxy thread of `i` dedicated to `j` handles its next message
  | deliver (j : Nat)                          -- the Supervisor of `j` dispatches its next RemoteCommunicationEvent
  | pev (i p : Nat) (s : Supv.Proc.PState) (ex : Bool)   -- process state event in the Supervisor of `i`
  | crash (i : Nat) | restart (i : Nat) | cut (i j : Nat) | heal
  | rpcRestart (i : Nat) (shutdown : Bool) | rpcEndSync (i : Nat) (m : Option Nat)
  | inject (j : Nat) (op : Option Op)          -- a duplicated / stale / forged message handed to the listener of `j`
  | prm (i p : Nat)                            -- program `p` removed from the Supervisor of `i`
  | injectPrem (j src p : Nat)                 -- a duplicated / stale PROCESS_REMOVED publication
  | injectPev (j src p : Nat) (s : Supv.Proc.PState) (ex : Bool) (et : Nat)   -- a duplicated / stale process event
  | injectInfo (j src : Nat) (snap : List Supv.Proc.Snap)                     -- a duplicated / stale ALL_INFO notification
  | nop
  deriving Repr

def Net.step (g : Net) (now : Nat) (a : Act) : Net × Obs :=
  let g := { g with raised := [] }
  match a with
  | .running i => let (g', e, o) := g.handle now i .running; (g', [(i, e, o)])
  | .tick i => g.tick now i
  | .exec i j => g.exec now i j
  | .deliver j => g.deliver now j
  | .pev i p s ex => g.procEvent now i p s ex
  | .crash i => ({ g with up := g.up.set i false }, [])
  | .restart i => (g.restart now i, [])
  | .cut i j => ({ g with cut := g.cut ++ [(i, j)] }, [])
  | .heal => ({ g with cut := [] }, [])
  | .rpcRestart i sd => g.rpcRestart now i sd
  | .rpcEndSync i m => g.rpcEndSync now i m
  | .inject j (some op) => let (g', e, o) := g.handle now j op; (g', [(j, e, o)])
  | .inject j none => (g, [(j, none, [])])
  | .prm i p => g.procRemoved i p
  | .injectPrem j src p => (g.applyRemove j src p, [(j, none, [])])
  | .injectPev j src p st ex et => (g.applyEvent now j src p st ex et, [(j, none, [])])
  | .injectInfo j src snap => (g.loadInfo now j src snap, [(j, none, [])])
  | .nop => (g, [])

/-- a schedule: time, action, oracle answers for the instance acting -/
abbrev Sched := List (Nat × Act × List (Query × Nat))

def Net.run (g : Net) : Sched → Net
  | [] => g
  | (now, a, orc) :: rest => (({ g with oracle := orc }).step now a).1.run rest

/-- "all pending messages have been delivered and no handshake is in progress" -/
def Net.quiescent (g : Net) : Bool :=
  (List.range g.n).all (fun i => (g.inbox.getD i []).isEmpty && (List.range g.n).all (fun j => (g.queue i j).isEmpty
    && g.view i j != .checking))

/-- the state `i` holds as the last report of `j` about program `p` -/
def Net.held (g : Net) (i j p : Nat) : Option Supv.Proc.PState := ((g.proc i p).infos.get? j).map (·.state)

end Supv.Net
