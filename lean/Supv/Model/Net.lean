import Supv.Model.Inst

/-!
# Model of a cluster: N instances (`Supv.Inst`) + the internal communication layer

rpchandler.py, supervisorproxy.py (publish filter, `check_instance` handshake, `_is_authorized`, failure notification,
`get_proxy`), the dispatch of listener.py.  One FIFO proxy queue per ordered pair (the proxy thread of `i` dedicated to
`j`), one FIFO inbox per receiver (the Supervisor event queue of `j`).  XML-RPC transport "succeeds atomically or fails".
-/
namespace Supv.Net
open Supv.Inst

/-- an item of a proxy queue i→j -/
inductive Item where
  | tick (k : Nat)                       -- TICK publication
  | state (m : Modes)                    -- STATE publication
  | check                                -- CHECK_INSTANCE request
  | restartAll | shutdownAll             -- RESTART_ALL / SHUTDOWN_ALL request (re-routed to the Master)
  | restartLocal | shutdownLocal         -- RESTART / SHUTDOWN request to the local Supervisor
  | notif (op : Option Op)               -- notification for the local instance (none = no effect on this model)
  deriving Repr

structure Net where
  n : Nat
  cfgs : List Cfg
  insts : List St
  up : List Bool
  cut : List (Nat × Nat) := []
  proxy : List (List (List Item))        -- proxy[i][j]
  inbox : List (List (Option Op))        -- inbox[j]
  counter : List Nat                     -- listener.counter per instance
  orders : List (List String)            -- restart/shutdown orders received by each Supervisor
  oracle : List (Query × Nat) := []     -- oracle answers for the instance handling the current global action
  deriving Repr

def Net.cfg (g : Net) (i : Nat) : Cfg := g.cfgs.getD i default
def Net.inst (g : Net) (i : Nat) : St := g.insts.getD i default
def Net.queue (g : Net) (i j : Nat) : List Item := (g.proxy.getD i []).getD j []
def Net.setQueue (g : Net) (i j : Nat) (q : List Item) : Net :=
  { g with proxy := g.proxy.set i ((g.proxy.getD i []).set j q) }
def Net.reachable (g : Net) (i j : Nat) : Bool :=
  g.up.getD i false && g.up.getD j false && !(g.cut.contains (i, j) || g.cut.contains (j, i))

/-- the state of `j` as seen by `i` -/
def Net.view (g : Net) (i j : Nat) : IState := ((g.inst i).peers.getD j {}).state

/-- SupervisorProxyServer.get_proxy + push_message: nothing is queued for an ISOLATED peer (and its proxy is dropped) -/
def Net.push (g : Net) (i j : Nat) (it : Item) : Net :=
  if g.view i j = .isolated then g.setQueue i j []
  else g.setQueue i j (g.queue i j ++ [it])

/-- push_publication: to every other instance -/
def Net.publish (g : Net) (i : Nat) (it : Item) : Net :=
  (List.range g.n).foldl (fun g j => if j = i then g else g.push i j it) g

/-- translate the outputs of one handled operation of `i` into queue items -/
def Net.route (g : Net) (i : Nat) (outs : List Out) : Net :=
  outs.foldl (fun g o => match o with
    | .pub m => g.publish i (.state m)
    | .check j => g.push i j .check
    | .restartLocal => g.push i i .restartLocal
    | .shutdownLocal => g.push i i .shutdownLocal
    | .restartAll m => g.push i m .restartAll
    | .shutdownAll m => g.push i m .shutdownAll
    | _ => g) g

/-- run one operation on instance `i` and route what it emitted; returns the error if the handler raised -/
def Net.handle (g : Net) (now : Nat) (i : Nat) (op : Op) : Net × Option Err × List Out :=
  let (s', e) := stepOp (g.cfg i) (g.inst i) now op g.oracle
  let g' := { g with insts := g.insts.set i s' }
  (g'.route i s'.out, e, s'.out)

abbrev Obs := List (Nat × Option Err × List Out)       -- instances touched by a global step

/-- listener.on_tick of instance `i` -/
def Net.tick (g : Net) (now : Nat) (i : Nat) : Net × Obs :=
  let k := g.counter.getD i 0
  let (g1, e, o) := g.handle now i (.ltick k)
  let g2 := { g1 with counter := g1.counter.set i (k + 1) }
  (g2.publish i (.tick k), [(i, e, o)])

/-- SupervisorProxyThread.handle_exception -/
def Net.proxyFailure (g : Net) (i j : Nat) : Net :=
  if j ≠ i ∧ (g.view i j).active then g.push i i (.notif (some (.failure j))) else g

/-- rpcinterface `_check_from_distribution` -/
def gate (f : SState) : Bool :=
  f == .distribution || f == .operation || f == .conciliation || f == .restarting || f == .shuttingDown

/-- `SupervisorProxy._is_authorized` evaluated by `i` about `j` (reachable): 2 = NOT_AUTHORIZED when `j` reports `i` as
    ISOLATED, 3 = INCONSISTENT when one of the four strategies differs, 1 = AUTHORIZED otherwise -/
def Net.authCode (g : Net) (i j : Nat) : Nat :=
  let isolatedThere := g.view j i = .isolated
  let sameStrategies := (g.cfg i).autoFence = (g.cfg j).autoFence ∧ (g.cfg i).failStrat = (g.cfg j).failStrat
    ∧ (g.cfg i).starting = (g.cfg j).starting ∧ (g.cfg i).conciliation = (g.cfg j).conciliation
  if isolatedThere then 2 else if !sameStrategies then 3 else 1

/-- `RPCInterface.restart` / `shutdown` once the state gate is passed: `fsm.on_restart` / `on_shutdown`; the error they
    raise when no Master is known is answered as the documented fault BAD_SUPVISORS_STATE (no internal error) -/
def Net.rpcEnd (g : Net) (now : Nat) (j : Nat) (shutdown : Bool) : Net × Obs :=
  let (g', e, o) := g.handle now j (if shutdown then .shutdown else .restart)
  let e' := match e with | some .noMaster => none | x => x
  (g', [(j, e', o)])

/-- one step of the proxy thread of `i` dedicated to `j` -/
def Net.exec (g : Net) (now : Nat) (i j : Nat) : Net × Obs :=
  match g.queue i j with
  | [] => (g, [])
  | it :: rest =>
    let g := g.setQueue i j rest
    -- `publish` / `execute`: nothing is sent to an ISOLATED instance (messages may still be queued when it is isolated)
    if g.view i j = .isolated then (g, []) else
    match it with
    | .tick k =>
      if g.reachable i j then ({ g with inbox := g.inbox.set j (g.inbox.getD j [] ++ [some (.rtick i k)]) }, [])
      else (g.proxyFailure i j, [])
    | .state m =>
      if (g.view i j).active then
        if g.reachable i j then ({ g with inbox := g.inbox.set j (g.inbox.getD j [] ++ [some (.state i m)]) }, [])
        else (g.proxyFailure i j, [])
      else (g, [])
    | .check =>
      -- SupervisorProxy.check_instance
      if !g.reachable i j then (g.proxyFailure i j, [])
      else
        let g := g.push i i (.notif none)                                   -- IDENTIFICATION
        let code := g.authCode i j
        let g := if code = 1 then
            let m := (g.inst j).modes.getD j {}
            (g.push i i (.notif (some (.state j m)))).push i i (.notif none)  -- STATE then ALL_INFO
          else g
        (g.push i i (.notif (some (.auth j code now))), [])
    | .notif op =>
      if g.up.getD i false then ({ g with inbox := g.inbox.set i (g.inbox.getD i [] ++ [op]) }, []) else (g, [])
    | .restartAll =>
      if g.reachable i j then
        (if gate (((g.inst j).modes.getD j {}).fsm) then g.rpcEnd now j false else (g, []))
      else (g.proxyFailure i j, [])
    | .shutdownAll =>
      if g.reachable i j then
        (if gate (((g.inst j).modes.getD j {}).fsm) then g.rpcEnd now j true else (g, []))
      else (g.proxyFailure i j, [])
    | .restartLocal => ({ g with orders := g.orders.set j (g.orders.getD j [] ++ ["restart"]) }, [])
    | .shutdownLocal => ({ g with orders := g.orders.set j (g.orders.getD j [] ++ ["shutdown"]) }, [])

/-- the Supervisor of `j` dispatches the next RemoteCommunicationEvent to the listener -/
def Net.deliver (g : Net) (now : Nat) (j : Nat) : Net × Obs :=
  match g.inbox.getD j [] with
  | [] => (g, [])
  | op :: rest =>
    let g := { g with inbox := g.inbox.set j rest }
    match op with
    | none => (g, [(j, none, [])])
    | some op => let (g', e, o) := g.handle now j op; (g', [(j, e, o)])

def Net.init (cfgs : List Cfg) (now : Nat) : Net :=
  let n := cfgs.length
  { n := n, cfgs := cfgs, insts := cfgs.map (fun c => { initSt c with startDate := now, now := now }),
    up := List.replicate n true, proxy := List.replicate n (List.replicate n []), inbox := List.replicate n [],
    counter := List.replicate n 0, orders := List.replicate n [] }

def fsmOfInst (g : Net) (i : Nat) : SState := ((g.inst i).modes.getD i {}).fsm

/-- rpcinterface gating of restart / shutdown (`_check_from_distribution`) -/
def gateFromDistribution (f : SState) : Bool :=
  f == .distribution || f == .operation || f == .conciliation || f == .restarting || f == .shuttingDown

/-- user XML-RPC restart / shutdown on instance `i` -/
def Net.rpcRestart (g : Net) (now : Nat) (i : Nat) (shutdown : Bool) : Net × Obs :=
  if gateFromDistribution (fsmOfInst g i) then g.rpcEnd now i shutdown
  else (g, [])

/-- user XML-RPC end_sync on instance `i` (all documented rejections are no-ops here) -/
def Net.rpcEndSync (g : Net) (now : Nat) (i : Nat) (m : Option Nat) : Net × Obs :=
  let c := g.cfg i
  let lm := (g.inst i).modes.getD i {}
  if lm.fsm ≠ .sync ∨ lm.master.isSome ∨ !c.optUser then (g, [])
  else match m with
    | some x => if g.view i x = .running then let (g', e, o) := g.handle now i (.endSync (some x)); (g', [(i, e, o)]) else (g, [])
    | none => let (g', e, o) := g.handle now i (.endSync none); (g', [(i, e, o)])


/-- Supervisor of `i` restarted: a fresh instance (empty queues of `i`, counter 0); what the others hold is kept -/
def Net.restart (g : Net) (now : Nat) (i : Nat) : Net :=
  let c := g.cfg i
  { g with insts := g.insts.set i { initSt c with startDate := now, now := now },
           up := g.up.set i true,
           proxy := g.proxy.set i (List.replicate g.n []),
           inbox := g.inbox.set i [],
           counter := g.counter.set i 0 }

end Supv.Net
