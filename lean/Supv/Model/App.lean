/-!
# Model of `supvisors/application.py::ApplicationStatus.update` and of the formula loading of `sparser.py`

Import-free and executable.  Python counterparts are named in every doc-comment.  Processes are `Nat` indices in the
insertion order of `ApplicationStatus.processes` (a Python dict).  What the Python code *raises* is an explicit
`Err` result; the only exception the code handles (`ApplicationStatusParseError`) is `Err.parse`.

Three parts:
1. `updateState`            — `update_state`: application state from the displayed process states;
2. `statusRequired`         — `update_status_required`: major / minor failure from the `required` flags;
3. `evaluate`/`statusFormula` — `evaluate` / `update_status_formula`: the `operational_status` formula, over the
   `ast` node kinds that can reach the evaluator (the harness prints `ast.parse(formula)` as an S-expression).

Regular-expression matching of string leaves is *not* modelled: the harness supplies, for every string leaf, how it
resolves against the process names (`Leaf`), computed with Python `re` exactly as `_get_matches` does
(`re.compile('^%s$' % leaf).match(name)`); an invalid regular expression is an input class of its own (`Leaf.reError`, with the class of the exception).
-/

namespace Supv.App

/-- `supervisor.states.ProcessStates` -/
inductive PState where
  | stopped | starting | running | backoff | stopping | exited | fatal | unknown
  deriving DecidableEq, Repr, Inhabited

namespace PState
/-- `supervisor.states.RUNNING_STATES = (RUNNING, BACKOFF, STARTING)` -/
def isRunning : PState → Bool
  | starting | running | backoff => true
  | _ => false
def ofCode : Nat → Option PState
  | 0 => some .stopped | 10 => some .starting | 20 => some .running | 30 => some .backoff
  | 40 => some .stopping | 100 => some .exited | 200 => some .fatal | 1000 => some .unknown | _ => none
def code : PState → Nat
  | .stopped => 0 | .starting => 10 | .running => 20 | .backoff => 30 | .stopping => 40
  | .exited => 100 | .fatal => 200 | .unknown => 1000
end PState

/-- `ttypes.ApplicationStates` -/
inductive AState where
  | stopped | starting | running | stopping
  deriving DecidableEq, Repr, Inhabited

def AState.name : AState → String
  | .stopped => "STOPPED" | .starting => "STARTING" | .running => "RUNNING" | .stopping => "STOPPING"

/-- what `ApplicationStatus.update` reads of one `ProcessStatus` (and of its `ProcessRules`) -/
structure P where
  /-- `ProcessStatus.state`: the synthetic state (C11) -/
  state : PState
  /-- `ProcessStatus.forced_state` -/
  forced : Option PState := none
  /-- `ProcessStatus.expected_exit` -/
  expected : Bool := true
  /-- `ProcessRules.required` -/
  required : Bool := false
  /-- `ProcessRules.start_sequence` -/
  startSeq : Nat := 0
  deriving DecidableEq, Repr, Inhabited

/-- `ProcessStatus.displayed_state`: the forced state has priority -/
def displayed (p : P) : PState :=
  match p.forced with
  | none => p.state
  | some s => s

/-! ## 1. Application state (`update_state`) -/

/-- the three flags of the loop of `update_state` -/
structure Flags where
  starting : Bool := false
  running : Bool := false
  stopping : Bool := false
  deriving DecidableEq, Repr

/-- one iteration of `for process in self.processes.values()` in `update_state` -/
def stateStep (fl : Flags) (p : P) : Flags :=
  if displayed p = .running then { fl with running := true }
  else if displayed p = .starting ∨ displayed p = .backoff then { fl with starting := true }
  else if displayed p = .stopping then { fl with stopping := true }
  else fl

/-- the rules applied after the loop -/
def stateOfFlags (fl : Flags) : AState :=
  if fl.stopping then .stopping
  else if fl.starting then .starting
  else if fl.running then .running
  else .stopped

/-- `ApplicationStatus.update_state` (iterates over ALL the processes of the application) -/
def updateState (ps : List P) : AState :=
  stateOfFlags (ps.foldl stateStep {})

/-! ## Start sequence (`update_sequences`, the `sequenced_processes` map of `update`) -/

/-- `d.setdefault(seq, []).append(i)` on an insertion-ordered dict -/
def seqInsert : List (Nat × List Nat) → Nat → Nat → List (Nat × List Nat)
  | [], seq, i => [(seq, [i])]
  | (k, l) :: t, seq, i => if k = seq then (k, l ++ [i]) :: t else (k, l) :: seqInsert t seq i

/-- the loop of `update_sequences` over `self.processes.values()` (`i` = index of the first process of `ps`) -/
def seqFill (m : List (Nat × List Nat)) (i : Nat) : List P → List (Nat × List Nat)
  | [] => m
  | p :: t => seqFill (seqInsert m p.startSeq i) (i + 1) t

/-- `ApplicationStatus.start_sequence` after `update_sequences`: only filled for a managed application -/
def startSequence (managed : Bool) (ps : List P) : List (Nat × List Nat) :=
  if managed then seqFill [] 0 ps else []

/-- the keys of `sequenced_processes` built by `update` (every sub-sequence, 0 included) -/
def sequenced (managed : Bool) (ps : List P) : List Nat :=
  (startSequence managed ps).flatMap (·.2)

/-! ## 2. Required-based operational status (`update_status_required`) -/

/-- the test shared by `update_status_required` and `update_status_formula`:
    FATAL, UNKNOWN, or EXITED unexpectedly (on the displayed state) -/
def crashed (p : P) : Bool :=
  displayed p = .fatal ∨ displayed p = .unknown ∨ (displayed p = .exited ∧ p.expected = false)

/-- loop state of `update_status_required` -/
structure Req where
  major : Bool := false
  minor : Bool := false
  possible : Bool := false
  deriving DecidableEq, Repr

/-- one iteration of the loop of `update_status_required` (`i` = index of the process) -/
def reqStep (seqd : List Nat) (r : Req) (ip : Nat × P) : Req :=
  let p := ip.2
  if crashed p then
    if p.required then { r with major := true }
    else if seqd.contains ip.1 then { r with minor := true }
    else r
  else if displayed p = .stopped then
    if p.required then { r with possible := true } else r
  else r

/-- pairs every process with its index (`i` = index of the first one) -/
def indexed (i : Nat) : List P → List (Nat × P)
  | [] => []
  | p :: t => (i, p) :: indexed (i + 1) t

/-- `update_status_required`: returns (major_failure, minor_failure) -/
def statusRequired (seqd : List Nat) (st : AState) (ps : List P) : Bool × Bool :=
  let r := (indexed 0 ps).foldl (reqStep seqd) {}
  let major := if st ≠ .stopped then r.major || r.possible else r.major
  (major, if major then false else r.minor)

/-! ## 3. Formula-based operational status (`evaluate`, `update_status_formula`) -/

/-- the callee of an `ast.Call` as `evaluate` sees it -/
inductive Callee where
  | all | any
  | otherName     -- an `ast.Name` other than `all` / `any`
  | notName       -- anything that is not an `ast.Name` (`os.system`, a lambda, a constant …)
  deriving DecidableEq, Repr, Inhabited

/-- the AST shapes that `evaluate` tells apart -/
inductive Formula where
  | str (leaf : Nat)                                        -- `ast.Constant` holding a `str`; index in the leaf table
  | const                                                   -- any other `ast.Constant`
  | call (fn : Callee) (args : List Formula) (nkw : Nat)    -- `ast.Call`: callee, positional args, number of keywords
  | boolOp (isAnd : Bool) (vals : List Formula)             -- `ast.BoolOp` (`And` / `Or`)
  | notOp (x : Formula)                                     -- `ast.UnaryOp(Not)`
  | unaryOther (x : Formula)                                -- `ast.UnaryOp` with another operator
  | other                                                   -- every other expression node
  deriving Repr, Inhabited

/-- how a string leaf resolves against the process names of the application -/
inductive Leaf where
  | exact (p : Nat)             -- `leaf in self.processes`
  | matching (ps : List Nat)    -- `_get_matches(leaf)`, in the order of `self.processes`
  | reError (cls : Nat)         -- `re.compile` raises (class code: see `excName`)
  deriving Repr, Inhabited, DecidableEq

/-- result of `evaluate`: a Boolean, or a list of Booleans meant for an enclosing `any` / `all` -/
inductive Val where
  | b (x : Bool)
  | l (xs : List Bool)
  deriving Repr, DecidableEq, Inhabited

/-- what the Python code raises -/
inductive Err where
  | parse                 -- `ApplicationStatusParseError`: the one exception `update_status_formula` handles
  | regex (cls : Nat)     -- `re.compile('^%s$' % leaf)` raises something `_get_matches` does not map (see `regexMapped`)
  | recursion             -- `RecursionError`: `evaluate` nested deeper than the interpreter stack allows
  | parser (cls : Nat)    -- `ast.parse` raises something else than `SyntaxError` (`status_formula` setter)
  deriving Repr, DecidableEq, Inhabited

/-- exception classes met outside the code's own `ApplicationStatusParseError` (shared with `harness/c15.py`) -/
def excName : Nat → String
  | 0 => "re.error" | 1 => "OverflowError" | 2 => "RecursionError" | 3 => "MemoryError" | 4 => "ValueError"
  | _ => "OTHER"

/-- `_get_matches`: `except (re.error, OverflowError)` — the classes of `re.compile` exceptions that are turned into
    `ApplicationStatusParseError` (codes of `excName`) -/
def regexMapped (cls : Nat) : Bool := cls == 0 || cls == 1

/-- `ApplicationStatus._get_process_status`: running-like, or EXITED expectedly (displayed state) -/
def procUp (p : P) : Bool :=
  (displayed p).isRunning || (displayed p = .exited ∧ p.expected)

/-- `_get_process_status(name)` by index -/
def upAt (ps : List P) (i : Nat) : Bool :=
  match ps[i]? with
  | some p => procUp p
  | none => false

/-- the string-leaf branch of `evaluate` -/
def evalLeaf (leaves : List Leaf) (ps : List P) (k : Nat) : Except Err Val :=
  match leaves[k]? with
  | some (.exact p) => .ok (.b (upAt ps p))
  | some (.reError c) => if regexMapped c then .error .parse else .error (.regex c)
  | some (.matching [p]) => .ok (.b (upAt ps p))
  | some (.matching []) => .error .parse
  | some (.matching qs) => .ok (.l (qs.map (upAt ps)))
  | none => .error .parse

/-- `[self.evaluate(x) for x in node.values]`: left to right, the first exception escapes -/
def evalSeq (ev : Formula → Except Err Val) : List Formula → Except Err (List Val)
  | [] => .ok []
  | f :: t =>
    match ev f with
    | .error e => .error e
    | .ok v =>
      match evalSeq ev t with
      | .error e => .error e
      | .ok vs => .ok (v :: vs)

def Val.isList : Val → Bool
  | .l _ => true
  | .b _ => false

def Val.toBool : Val → Bool
  | .b x => x
  | .l _ => false

/-- `if type(args_eval) is bool: args_eval = [args_eval]` -/
def Val.toList : Val → List Bool
  | .b x => [x]
  | .l xs => xs

/-- `eval('all([...])')` / `eval('any([...])')` over Boolean literals -/
def applyFn (isAll : Bool) (xs : List Bool) : Bool :=
  if isAll then xs.all id else xs.any id

/-- `ApplicationStatus.evaluate`.  `fuel` = number of nested `evaluate` frames the interpreter stack still allows
    (`RecursionError` beyond). -/
def evaluate (leaves : List Leaf) (ps : List P) : (fuel : Nat) → Formula → Except Err Val
  | 0, _ => .error .recursion
  | fuel + 1, f =>
    match f with
    | .str k => evalLeaf leaves ps k
    | .call fn args nkw =>
      match fn with
      | .notName => .error .parse               -- 'unsupported function type'
      | .otherName => .error .parse             -- 'unsupported function'
      | fn =>
        match args, nkw with
        | [a], 0 =>                             -- exactly one positional argument, no keyword
          match evaluate leaves ps fuel a with
          | .error e => .error e
          | .ok v => .ok (.b (applyFn (fn = .all) v.toList))
        | _, _ => .error .parse                 -- 'unsupported arguments for function'
    | .boolOp isAnd vals =>
      match evalSeq (evaluate leaves ps fuel) vals with
      | .error e => .error e
      | .ok vs =>
        if vs.any Val.isList then .error .parse   -- 'cannot apply BoolOp on unresolved expression'
        else .ok (.b (applyFn isAnd (vs.map Val.toBool)))
    | .notOp x =>
      match evaluate leaves ps fuel x with
      | .error e => .error e
      | .ok (.b v) => .ok (.b (!v))
      | .ok (.l _) => .error .parse               -- 'cannot apply UnaryOp on unresolved expression'
    | .unaryOther _ => .error .parse              -- 'unsupported UnaryOp' (operand not evaluated)
    | .const => .error .parse                     -- 'unsupported Expr=Constant'
    | .other => .error .parse                     -- 'unsupported Expr=…'

/-- **The exceptions that `update_status_formula` turns into a major failure.**  `ApplicationStatusParseError` and
    `RecursionError` (the evaluation is recursive); every other exception (an unmapped `re.compile` exception) escapes
    `ApplicationStatus.update`. -/
def handled : Err → Bool
  | .parse => true
  | .recursion => true
  | _ => false

/-- `update_status_formula`, first half: the major failure (`Except.error`: the exception escapes) -/
def formulaMajor (leaves : List Leaf) (ps : List P) (stack : Nat) (f : Formula) : Except Err Bool :=
  match evaluate leaves ps stack f with
  | .ok (.b x) => .ok (!x)
  | .ok (.l _) => .ok true                         -- 'status formula cannot be resolved' (raised inside the `try`)
  | .error e => if handled e then .ok true else .error e

/-- the failure test of the second loop of `update_status_formula`, on the process of index `i` -/
def crashedAt (ps : List P) (i : Nat) : Bool :=
  match ps[i]? with
  | some p => crashed p
  | none => false

/-- `update_status_formula`: (major_failure, minor_failure); the minor failure is looked for among the processes of
    `sequenced_processes` only when there is no major failure -/
def statusFormula (leaves : List Leaf) (ps : List P) (stack : Nat) (seqd : List Nat) (f : Formula) :
    Except Err (Bool × Bool) :=
  match formulaMajor leaves ps stack f with
  | .error e => .error e
  | .ok major => .ok (major, !major && seqd.any (crashedAt ps))

/-! ## Formula loading (`Parser.load_status`, `ApplicationRules.status_formula` setter, `status_tree`) -/

/-- what `ast.parse(formula)` gives, as the setter and `status_tree` tell it apart -/
inductive Top where
  | syntaxError                 -- `ast.parse` raises `SyntaxError`
  | parserExc (cls : Nat)       -- `ast.parse` raises another exception (`RecursionError`, `MemoryError` …)
  | multi                       -- `len(tree.body) != 1`
  | stmtNoValue                 -- one statement that is not an `ast.Expr` and has no `value` attribute (`import os`, `pass`)
  | stmtValueNone               -- one statement, not an `ast.Expr`, whose `value` is `None` (`return`, `x: int`)
  | stmtValue (f : Formula)     -- one statement, not an `ast.Expr`, that has a `value` (`x = "a"`, `return "a"`)
  | expr (f : Formula)          -- one expression statement
  deriving Repr, Inhabited

/-- what the `ApplicationRules` hold after `Parser.load_status` -/
inductive Loaded where
  | noTree                      -- `_status_tree is None`: nothing configured, or the setter refused the string
  | tree (t : Top)
  deriving Repr, Inhabited

/-- `Parser.load_status` + setter.  `none`: no `operational_status` element, or an empty string. -/
def load : Option Top → Except Err Loaded
  | none => .ok .noTree
  | some .syntaxError => .ok .noTree           -- `ApplicationStatusParseError('AST parse failure')`, logged by `load_status`
  -- the setter catches `SyntaxError`, `ValueError`, `RecursionError` and `MemoryError` (codes of `excName`): 'AST parse failure'
  | some (.parserExc c) => if c = 2 ∨ c = 3 ∨ c = 4 then .ok .noTree else .error (.parser c)
  | some .multi => .ok .noTree                 -- `ApplicationStatusParseError('unsupported AST expression')`
  | some .stmtNoValue => .ok .noTree           -- the same: `type(tree.body[0]) is not ast.Expr`
  | some .stmtValueNone => .ok .noTree
  | some (.stmtValue _) => .ok .noTree
  | some (.expr f) => .ok (.tree (.expr f))

/-- `ApplicationRules.status_tree`: `self._status_tree.body[0].value` -/
def statusTree : Loaded → Except Err (Option Formula)
  | .noTree => .ok none
  | .tree (.expr f) => .ok (some f)
  | .tree _ => .ok none                        -- unreachable: `load` only stores expression statements

/-! ## `ApplicationStatus.update` -/

/-- application-level configuration and environment -/
structure Cfg where
  /-- `ApplicationRules.managed` -/
  managed : Bool := true
  /-- number of nested `evaluate` frames available on the interpreter stack -/
  stack : Nat := 400
  deriving Repr, Inhabited, DecidableEq

/-- the observables of `get_application_info` -/
structure Status where
  state : AState
  major : Bool
  minor : Bool
  deriving Repr, DecidableEq, Inhabited

/-- `ApplicationStatus.update` -/
def update (cfg : Cfg) (leaves : List Leaf) (ps : List P) (ld : Loaded) : Except Err Status :=
  let seqd := sequenced cfg.managed ps
  let st := updateState ps
  match statusTree ld with
  | .error e => .error e
  | .ok none =>
    let r := statusRequired seqd st ps
    .ok { state := st, major := r.1, minor := r.2 }
  | .ok (some f) =>
    match statusFormula leaves ps cfg.stack seqd f with
    | .error e => .error e
    | .ok r => .ok { state := st, major := r.1, minor := r.2 }

/-- loading of the rules followed by one `update` -/
def run (cfg : Cfg) (leaves : List Leaf) (ps : List P) (formula : Option Top) : Except Err Status :=
  match load formula with
  | .error e => .error e
  | .ok ld => update cfg leaves ps ld

end Supv.App
