import Supv.Gen.Tables

/-!
# Model of ONE Supvisors instance: instancestatus.py + statemodes.py + context.py (instance part) + statemachine.py

Executable; imports only the GENERATED tables (`Supv/Gen/Tables.lean`, rewritten from the current source on every run).
Errors the Python would raise (`InvalidTransition`, `RuntimeError`/`ValueError` of restart/shutdown without Master) are
explicit.  The start/stop jobs and the process tables are NOT part of this layer: every question the FSM asks them
(`starter.in_progress()`, `stopper.in_progress()`, `context.conflicting()`, "were processes lost") is answered by an
oracle stream supplied with the operation, and every order it gives them is an output.  Theorems about this layer hold
for every oracle stream.
-/

namespace Supv.Inst

inductive IState where
  | stopped | checking | checked | running | failed | isolated
  deriving DecidableEq, Repr, Inhabited

inductive SState where
  | off | sync | election | distribution | operation | conciliation | restarting | shuttingDown | final
  deriving DecidableEq, Repr, Inhabited

def lookupTable (t : List (Nat × List Nat)) (k : Nat) : List Nat :=
  match t.find? (fun x => x.1 == k) with
  | some x => x.2
  | none => []

namespace IState
def code : IState → Nat
  | stopped => 0 | checking => 1 | checked => 2 | running => 3 | failed => 4 | isolated => 5
def ofCode : Nat → IState
  | 0 => stopped | 1 => checking | 2 => checked | 3 => running | 4 => failed | _ => isolated
def all : List IState := [stopped, checking, checked, running, failed, isolated]
/-- `SupvisorsInstanceStatus._Transitions`, read from the generated table -/
def next (s : IState) : List IState := (lookupTable Supv.Gen.instTable s.code).map ofCode
/-- `has_active_state` -/
def active (s : IState) : Bool := Supv.Gen.activeStates.contains s.code
/-- `StateModes.STABLE_STATES` -/
def stableState (s : IState) : Bool := Supv.Gen.stableStates.contains s.code
end IState

namespace SState
def code : SState → Nat
  | off => 0 | sync => 1 | election => 2 | distribution => 3 | operation => 4 | conciliation => 5
  | restarting => 6 | shuttingDown => 7 | final => 8
def ofCode : Nat → SState
  | 0 => off | 1 => sync | 2 => election | 3 => distribution | 4 => operation | 5 => conciliation
  | 6 => restarting | 7 => shuttingDown | _ => final
def all : List SState := [off, sync, election, distribution, operation, conciliation, restarting, shuttingDown, final]
/-- `FiniteStateMachine._Transitions`, read from the generated table -/
def next (s : SState) : List SState := (lookupTable Supv.Gen.fsmTable s.code).map ofCode
/-- `ttypes.WORKING_STATES` -/
def working (s : SState) : Bool := Supv.Gen.workingStates.contains s.code
end SState

/-- published StateModes -/
structure Modes where
  fsm : SState := .off
  degraded : Bool := false
  master : Option Nat := none
  inst : List IState := []          -- instance_states, indexed by identifier
  deriving DecidableEq, Repr, Inhabited

structure Peer where
  state : IState := .stopped
  remoteCounter : Nat := 0
  localCounter : Nat := 0
  checkingTime : Nat := 0
  deriving Repr, Inhabited

inductive FailStrat | cont | resync | shutdown deriving DecidableEq, Repr, Inhabited

structure Cfg where
  n : Nat
  me : Nat
  nickRank : List Nat          -- rank of nick identifier per identifier
  core : List Nat              -- mapper.core_identifiers (filtered, configured order)
  initial : List Nat           -- mapper.initial_identifiers
  optStrict : Bool
  optList : Bool
  optTimeout : Bool
  optCore : Bool
  optUser : Bool
  syncTimeout : Nat            -- ms
  syncMin : Nat := Supv.Gen.synchroTimeoutMin * 1024   -- SYNCHRO_TIMEOUT_MIN in clock units (1/1024 s)
  inactivity : Nat
  autoFence : Bool
  failStrat : FailStrat
  starting : Nat := 0          -- starting_strategy (value of the enumeration; only compared during the handshake)
  conciliation : Nat := 0      -- conciliation_strategy (idem)
  deriving Repr, Inhabited

inductive Out where
  | pub (m : Modes)            -- publication of the local state & modes (snapshot at emission)
  | check (j : Nat)            -- send_check_instance
  | restartLocal | shutdownLocal
  | restartAll (m : Nat) | shutdownAll (m : Nat)
  | refused (a b : SState)     -- critical log: unexpected transition
  | startApps                  -- `starter.start_applications()`            (DistributionState._master_enter)
  | conciliate                 -- `conciliate_conflicts(...)`               (ConciliationState._master_enter)
  | stopApps                   -- `stopper.stop_applications()`             (_EndingState._master_enter)
  | failJobs                   -- `failure_handler.add_default_job` + `trigger_jobs` for lost processes
  | inst (j : Nat) (s : IState) -- `state_modes.update_instance_state(j, s)`: the state reported for instance `j` changes
  deriving Repr

/-- the questions the FSM asks the layers that are not modelled here -/
inductive Query where
  | starterBusy | stopperBusy | conflicting | lostProcs
  /-- `accept_master` picks `next(iter(masters))` in a Python set: which declared Master is taken is left open, the
      implementation's choice is adopted (relational correspondence) -/
  | acceptMaster
  deriving DecidableEq, Repr

inductive Err where
  | invalidTransition (j : Nat) (a b : IState)
  | noMaster
  deriving Repr

structure St where
  peers : List Peer
  modes : List Modes           -- instance_state_modes, indexed by identifier; modes[me] is the local one
  stable : List Nat := []
  updateMark : Bool := false
  startDate : Nat := 0
  now : Nat := 0
  lost : List Nat := []        -- lost_instances of the current state object
  lostProcs : Bool := false    -- `lost_processes` of the current state object is not empty
  out : List Out := []
  oracle : List (Query × Nat) := []    -- answers for this operation, in the order asked (Booleans as 0 / 1)
  oracleBad : Nat := 0                 -- questions asked that the stream did not answer (kind mismatch / exhausted)
  deriving Repr, Inhabited

abbrev M := StateT St (Except Err)

def ids (c : Cfg) : List Nat := List.range c.n

def emit (o : Out) : M Unit := modify fun s => { s with out := s.out ++ [o] }

/-- consume the next oracle answer (a missing or differently-typed answer is counted and read as `false`) -/
def askNat (q : Query) : M (Option Nat) := do
  let s ← get
  match s.oracle with
  | (q', a) :: _ =>
    if q' = q then
      modify fun s => { s with oracle := s.oracle.tail }
      return some a
    else
      modify fun s => { s with oracleBad := s.oracleBad + 1 }
      return none
  | [] =>
    modify fun s => { s with oracleBad := s.oracleBad + 1 }
    return none

def ask (q : Query) : M Bool := do
  match ← askNat q with
  | some a => return a != 0
  | none => return false

def getPeer (j : Nat) : M Peer := do return (← get).peers.getD j {}
def setPeer (j : Nat) (p : Peer) : M Unit := modify fun s => { s with peers := s.peers.set j p }
def getModes (j : Nat) : M Modes := do return (← get).modes.getD j {}
def setModes (j : Nat) (m : Modes) : M Unit := modify fun s => { s with modes := s.modes.set j m }
def localModes (c : Cfg) : M Modes := getModes c.me
/-- in-place update of the local StateModes record -/
def modifyLocal (c : Cfg) (f : Modes → Modes) : M Unit :=
  modify fun s => { s with modes := s.modes.modify c.me f }
/-- in-place update of a peer status record -/
def modifyPeer (j : Nat) (f : Peer → Peer) : M Unit :=
  modify fun s => { s with peers := s.peers.modify j f }
/-- replace the stored copy of a REMOTE instance's StateModes -/
def setRemoteModes (c : Cfg) (j : Nat) (m : Modes) : M Unit :=
  if j = c.me then pure () else setModes j m

/-- publish_status: the snapshot is taken when the publication is pushed -/
def publish (c : Cfg) : M Unit := do emit (.pub (← localModes c))

/-- SupvisorsStateModes.master_identifier setter -/
def setMaster (c : Cfg) (m : Option Nat) : M Unit := do
  let lm ← localModes c
  if lm.master ≠ m then
    modifyLocal c (fun lm => { lm with master := m })
    publish c

/-- SupvisorsStateModes.state setter -/
def setFsm (c : Cfg) (f : SState) : M Unit := do
  let lm ← localModes c
  if lm.fsm ≠ f then
    modifyLocal c (fun lm => { lm with fsm := f })
    publish c

def setDegraded (c : Cfg) (d : Bool) : M Unit := do
  let lm ← localModes c
  if lm.degraded ≠ d then
    modifyLocal c (fun lm => { lm with degraded := d })
    publish c

/-- SupvisorsStateModes.update_instance_state -/
def updateInstanceState (c : Cfg) (j : Nat) (ns : IState) : M Unit := do
  modifyLocal c (fun lm => { lm with inst := lm.inst.set j ns })
  if (ns = .stopped ∨ ns = .isolated) ∧ j ≠ c.me then
    setRemoteModes c j { inst := [] }
  let lm ← localModes c
  if ns ≠ .running ∧ lm.master = some j then
    setMaster c none
  else
    modify fun s => { s with updateMark := true }

/-- SupvisorsInstanceStatus.state setter -/
def setPeerState (c : Cfg) (j : Nat) (ns : IState) : M Unit := do
  let p ← getPeer j
  if p.state ≠ ns then
    if ns ∉ p.state.next then throw (.invalidTransition j p.state ns)
    modifyPeer j (fun p => { p with state := ns })
    emit (.inst j ns)
    updateInstanceState c j ns
    if ns = .checking then
      let now := (← get).now
      modifyPeer j (fun p => { p with checkingTime := now })

def masterState (c : Cfg) : M (Option SState) := do
  let lm ← localModes c
  match lm.master with
  | none => return none
  | some m => return some (← getModes m).fsm

/-- Context.invalidate -/
def invalidate (c : Cfg) (j : Nat) (fence : Bool) : M Unit := do
  if j = c.me then setPeerState c j .stopped
  else
    let ms ← masterState c
    let workingMaster : Bool := match ms with | some f => f.working | none => false
    if fence || (c.autoFence && workingMaster) then setPeerState c j .isolated
    else setPeerState c j .stopped

/-- Context.invalidate_failed (instances only) -/
def invalidateFailed (c : Cfg) : M (List Nat) := do
  let mut lost := []
  for j in ids c do
    let p ← getPeer j
    if p.state = .failed then
      invalidate c j false
      lost := lost ++ [j]
  return lost

/-- Context.activate_checked -/
def activateChecked (c : Cfg) : M (List Nat) := do
  let mut res := []
  for j in ids c do
    let p ← getPeer j
    if p.state = .checked then
      setPeerState c j .running
      res := res ++ [j]
  return res

def isRunningLocal (c : Cfg) (j : Nat) : M Bool := do
  return (← localModes c).inst.getD j .stopped = .running

/-- StateModes.get_stable_running_identifiers : none = unstable (Python returns the empty set) -/
def stableRunning (m : Modes) : List Nat :=
  if m.inst.all IState.stableState then
    (List.range m.inst.length).filter (fun j => m.inst.getD j .stopped = .running)
  else []

/-- SupvisorsStateModes.evaluate_stability -/
def evaluateStability (c : Cfg) : M Unit := do
  let mut sets : List (List Nat) := []
  for j in ids c do
    if ← isRunningLocal c j then
      sets := sets ++ [stableRunning (← getModes j)]
  let st := match sets with
    | [] => []
    | h :: t => if t.all (· == h) then h else []
  modify fun s => { s with stable := st }

def isStable : M Bool := do return !(← get).stable.isEmpty

/-- the instances the local instance sees RUNNING (`local_state_modes.running_identifiers()`) -/
def runningIds (c : Cfg) (modes : List Modes) : List Nat :=
  (ids c).filter (fun j => (modes.getD c.me {}).inst.getD j .stopped = .running)

/-- `get_master_identifiers`: the Masters declared by the instances seen RUNNING (own record for the local one, stored copy
    of the last publication for the others) -/
def masterIdsP (c : Cfg) (modes : List Modes) : List (Option Nat) :=
  (runningIds c modes).map (fun j => (modes.getD j {}).master)

def masterIds (c : Cfg) : M (List (Option Nat)) := do return masterIdsP c (← get).modes

/-- `check_master`: no RUNNING instance without Master, and a single Master declared -/
def checkMasterP (c : Cfg) (modes : List Modes) : Bool :=
  let ms := masterIdsP c modes
  if ms.contains none then false
  else match ms with
    | [] => true
    | h :: t => t.all (· == h)

def checkMaster (c : Cfg) : M Bool := do return checkMasterP c (← get).modes

def minByRank (c : Cfg) : List Nat → Option Nat
  | [] => none
  | h :: t => match minByRank c t with
    | none => some h
    | some m => if c.nickRank.getD m 0 < c.nickRank.getD h 0 then some m else some h

/-- first priority of `select_master`: the Masters declared by the instances seen RUNNING if any, else those instances -/
def allCandsP (c : Cfg) (modes : List Modes) : List Nat :=
  if (((masterIdsP c modes).filterMap id).eraseDups).isEmpty then runningIds c modes
  else ((masterIdsP c modes).filterMap id).eraseDups

/-- second priority: the core instances among them, if any -/
def candidatesP (c : Cfg) (modes : List Modes) : List Nat :=
  if (c.core.filter (· ∈ allCandsP c modes)).isEmpty then allCandsP c modes
  else c.core.filter (· ∈ allCandsP c modes)

/-- `select_master` as a function: the candidate of lowest nick identifier -/
def selectP (c : Cfg) (modes : List Modes) : Option Nat := minByRank c (candidatesP c modes)

/-- select_master -/
def selectMaster (c : Cfg) : M Unit := do
  match selectP c (← get).modes with
  | some m => setMaster c (some m)
  | none => pure ()      -- Python: min() of an empty sequence raises; unreachable while the local instance is RUNNING

def stableSubset (l : List Nat) : M Bool := do
  let st := (← get).stable
  return l.all (· ∈ st)

def initialRunning (c : Cfg) : M Bool := do
  if c.initial.isEmpty then return false else stableSubset c.initial
def allRunning (c : Cfg) : M Bool := do return (← get).stable.length == c.n
def coreRunning (c : Cfg) : M Bool := do
  if c.core.isEmpty then return false else stableSubset c.core

def checkStrictFailure (c : Cfg) : M (Option Bool) := do
  if c.optStrict then return some (!(← initialRunning c)) else return none
def checkListFailure (c : Cfg) : M (Option Bool) := do
  if c.optList then return some (!(← allRunning c)) else return none
def checkCoreFailure (c : Cfg) : M (Option Bool) := do
  if c.optCore then return some (!(← coreRunning c)) else return none
def checkUserFailure (c : Cfg) : M (Option Bool) := do
  if c.optUser then return some (!(← get).lost.isEmpty) else return none

def fsmState (c : Cfg) : M SState := do return (← localModes c).fsm
def isMaster (c : Cfg) : M Bool := do return (← localModes c).master = some c.me
def localRunning (c : Cfg) : M Bool := do return (← getPeer c.me).state = .running

/-- _SynchronizedState._check_failure_strategy -/
def checkFailureStrategy (c : Cfg) : M (Option SState) := do
  let user ← checkUserFailure c
  let core ← checkCoreFailure c
  let strict ← checkStrictFailure c
  let list ← checkListFailure c
  setDegraded c ([strict, list, core].any (· == some true))
  let global := ([user, core, strict, list].filterMap id).head?.getD false
  if global then
    match c.failStrat with
    | .resync => return some .sync
    | .shutdown => return some .shuttingDown
    | .cont => return none
  else return none

/-- the `_check_consistence` chain of each state class -/
def checkConsistence (c : Cfg) (f : SState) : M (Option SState) := do
  match f with
  | .off => if ← localRunning c then return some .sync else return some .off
  | .final => return none
  | .sync => if !(← localRunning c) then return some .off else return none
  | .election =>
    if !(← localRunning c) then return some .off
    checkFailureStrategy c
  | _ =>
    -- _MasterSlaveState (working and ending states)
    let r ← (do
      if !(← localRunning c) then return some SState.off
      match ← checkFailureStrategy c with
      | some x => return some x
      | none => if !(← checkMaster c) then return some SState.election else return none)
    if f = .restarting ∨ f = .shuttingDown then
      return r.map (fun _ => SState.final)
    else return r

/-- `_check_instances` + `_activate_instances` -/
def checkInstances (c : Cfg) (f : SState) : M (Option SState) := do
  let lost ← invalidateFailed c
  let lp ← ask .lostProcs
  modify fun s => { s with lost := lost, lostProcs := lp }
  match f with
  | .distribution => return none
  | .operation | .conciliation =>
    let act ← activateChecked c
    if act.isEmpty then return none else return some .election
  | _ => let _ ← activateChecked c; return none

/-- `_WorkingState._master_next`: the Master hands the lost processes to the running-failure handler -/
def masterFailJobs : M Unit := do
  if (← get).lostProcs then emit .failJobs

/-- `_SupvisorsBaseState.next`: instances, stability, consistence -/
def baseNext (c : Cfg) (f : SState) : M (Option SState) := do
  match ← checkInstances c f with
  | some x => return some x
  | none => pure ()
  evaluateStability c
  checkConsistence c f

/-- `SynchronizationState._check_end_sync_user` -/
def endSyncUser (c : Cfg) : M (Option Bool) := do
  if c.optUser then
    -- accept_master: `next(iter(masters))` — the implementation's choice among the declared Masters is adopted
    let ms ← masterIds c
    let declared := ms.filterMap id
    if !declared.isEmpty then
      match ← askNat .acceptMaster with
      | some m => if declared.contains m then setMaster c (some m) else
                    modify fun s => { s with oracleBad := s.oracleBad + 1 }
      | none => pure ()
    let lm ← localModes c
    match lm.master with
    | some m => return some (decide ((← getPeer m).state = .running))
    | none => return some false
  else return none

/-- `SynchronizationState.next` (after the base part) -/
def nextSync (c : Cfg) : M (Option SState) := do
  let s ← get
  let uptime := s.now - s.startDate
  let strictF ← checkStrictFailure c
  let strictSync := strictF.map (!·)
  let listF ← checkListFailure c
  let listSync := listF.map (!·)
  let timeoutSync := if c.optTimeout then some (decide (uptime ≥ c.syncTimeout)) else none
  let coreF ← checkCoreFailure c
  let coreSync := match coreF with
    | some false => some (decide (uptime ≥ c.syncMin))
    | some true => some false
    | none => none
  let userSync ← endSyncUser c
  setDegraded c ([strictSync, listSync, coreSync].any (· == some false))
  if [strictSync, listSync, timeoutSync, coreSync, userSync].any (· == some true) then return some .election
  else return some .sync

/-- `ElectionState.next` (after the base part) -/
def nextElection (c : Cfg) : M (Option SState) := do
  if ← isStable then
    if ← checkMaster c then
      if ← isMaster c then return some .distribution
      let ms ← masterState c
      if ms = some .distribution ∨ ms = some .operation ∨ ms = some .conciliation then return some .distribution
    selectMaster c
  return some .election

/-- `DistributionState`: `_master_next` / `_slave_next` -/
def nextDistribution (c : Cfg) : M (Option SState) := do
  if ← isMaster c then
    masterFailJobs
    if ← ask .starterBusy then return some .distribution else return some .operation
  else masterState c

/-- `OperationState` -/
def nextOperation (c : Cfg) : M (Option SState) := do
  if ← isMaster c then
    masterFailJobs
    if ← ask .starterBusy then return some .operation
    if ← ask .stopperBusy then return some .operation
    if ← ask .conflicting then return some .conciliation else return some .operation
  else masterState c

/-- `ConciliationState` -/
def nextConciliation (c : Cfg) : M (Option SState) := do
  if ← isMaster c then
    masterFailJobs
    if ← ask .starterBusy then return some .conciliation
    if ← ask .stopperBusy then return some .conciliation
    if !(← ask .conflicting) then return some .operation
    emit .conciliate
    return some .conciliation
  else masterState c

/-- `RestartingState` / `ShuttingDownState` (`self` is the ending state concerned) -/
def nextEnding (c : Cfg) (self : SState) : M (Option SState) := do
  if ← isMaster c then
    if ← ask .stopperBusy then return some self else return some .final
  else
    let ms ← masterState c
    if ms = some self then return some self else return some .final

/-- `next` of each state class -/
def stateNext (c : Cfg) (f : SState) : M (Option SState) := do
  match ← baseNext c f with
  | some x => return some x
  | none => pure ()
  match f with
  | .off | .final => return none
  | .sync => nextSync c
  | .election => nextElection c
  | .distribution => nextDistribution c
  | .operation => nextOperation c
  | .conciliation => nextConciliation c
  | .restarting => nextEnding c .restarting
  | .shuttingDown => nextEnding c .shuttingDown

def stateEnter (c : Cfg) (f : SState) : M Unit := do
  match f with
  | .off => modify fun s => { s with startDate := s.now }
  | .distribution => if ← isMaster c then emit .startApps
  | .conciliation => if ← isMaster c then emit .conciliate
  | .restarting | .shuttingDown => if ← isMaster c then emit .stopApps
  | _ => pure ()

def stateExit (_c : Cfg) (f : SState) : M Unit := do
  match f with
  | .restarting => emit .restartLocal
  | .shuttingDown => emit .shutdownLocal
  | _ => pure ()

/-- FiniteStateMachine.set_state -/
def setState (c : Cfg) (nxt : Option SState) : (fuel : Nat) → M Unit
  | 0 => pure ()
  | fuel + 1 => do
    match nxt with
    | none => pure ()
    | some t =>
      let cur ← fsmState c
      if t = cur then pure ()
      else if t ∉ cur.next then emit (.refused cur t)
      else
        stateExit c cur
        setFsm c t
        modify fun s => { s with lost := [], lostProcs := false }     -- new state object
        stateEnter c t
        let n ← stateNext c t
        setState c n fuel

/-- FiniteStateMachine.next -/
def fsmNext (c : Cfg) : M Unit := do
  let cur ← fsmState c
  let n ← stateNext c cur
  setState c n 12

inductive Op where
  | running                                  -- listener.on_running
  | ltick (counter : Nat)                    -- local TICK
  | rtick (j counter : Nat)                  -- TICK publication from j
  | state (j : Nat) (m : Modes)              -- STATE publication / notification from j
  | auth (j code ts : Nat)                   -- AUTHORIZATION notification
  | allinfoNone (j : Nat)                    -- ALL_INFO notification carrying None
  | failure (j : Nat)                        -- INSTANCE_FAILURE notification
  | restart | shutdown
  | endSync (m : Option Nat)
  deriving Repr

def isValid (j : Nat) : M Bool := do return (← getPeer j).state ≠ .isolated

/-- `Context.on_timer_event`: a peer in an active state whose last tick is older than `inactivity_ticks` is FAILED -/
def timerCheck (c : Cfg) (k : Nat) : M Unit := do
  for j in ids c do
    let p ← getPeer j
    if p.state.active ∧ k - p.localCounter > c.inactivity then
      setPeerState c j .failed

/-- `SupvisorsStateModes.deferred_publish_status` -/
def deferredPublish (c : Cfg) : M Unit := do
  if (← get).updateMark then
    publish c
    modify fun s => { s with updateMark := false }

/-- local TICK: `context.on_local_tick_event` then `fsm.on_timer_event` -/
def handleLtick (c : Cfg) (k : Nat) : M Unit := do
  let p ← getPeer c.me
  modifyPeer c.me (fun p => { p with remoteCounter := k, localCounter := k })
  if p.state = .stopped then
    setPeerState c c.me .checking
    emit (.check c.me)
  timerCheck c k
  deferredPublish c
  fsmNext c

/-- TICK publication from `j`: `listener` validity check + `context.on_tick_event` -/
def handleRtick (c : Cfg) (j k : Nat) : M Unit := do
  if !(← isValid j) then return
  let ls := (← getPeer c.me).state
  if ls ≠ .checked ∧ ls ≠ .running then return
  let lc := (← getPeer c.me).remoteCounter
  let p ← getPeer j
  let lc' := if k < p.remoteCounter then 0 else lc
  modifyPeer j (fun p => { p with remoteCounter := k, localCounter := lc' })
  if p.state = .stopped then
    setPeerState c j .checking
    emit (.check j)

/-- STATE publication / notification from `j` -/
def handleState (c : Cfg) (j : Nat) (m : Modes) : M Unit := do
  if !(← isValid j) then return
  setRemoteModes c j m
  if (← localModes c).master = some j then fsmNext c

/-- AUTHORIZATION notification about `j` -/
def handleAuth (c : Cfg) (j code ts : Nat) : M Unit := do
  if !(← isValid j) then return
  let p ← getPeer j
  if !(p.state = .checking ∧ ts > p.checkingTime) then return
  match code with
  | 0 => setPeerState c j .stopped            -- UNKNOWN
  | 1 => setPeerState c j .checked            -- AUTHORIZED
  | _ => invalidate c j true                  -- NOT_AUTHORIZED / INCONSISTENT

def handleAllinfoNone (c : Cfg) (j : Nat) : M Unit := do
  if !(← isValid j) then return
  -- `Context.load_processes(status, None)`: only a CHECKING instance goes back to STOPPED
  if (← getPeer j).state = .checking then
    setPeerState c j .stopped

/-- INSTANCE_FAILURE notification about `j` -/
def handleFailure (c : Cfg) (j : Nat) : M Unit := do
  if !(← isValid j) then return
  -- `Context.on_instance_failure`: a late notification about an instance already invalidated is ignored
  if (← getPeer j).state.active then
    setPeerState c j .failed

/-- `FiniteStateMachine.on_restart` / `on_shutdown` -/
def handleEnd (c : Cfg) (shutdown : Bool) : M Unit := do
  if ← isMaster c then setState c (some (if shutdown then .shuttingDown else .restarting)) 12
  else match (← localModes c).master with
    | some m => emit (if shutdown then .shutdownAll m else .restartAll m)
    | none => throw .noMaster

/-- `FiniteStateMachine.on_end_sync` -/
def handleEndSync (c : Cfg) (m : Option Nat) : M Unit := do
  match m with
  | some x => setMaster c (some x)
  | none => selectMaster c
  fsmNext c

def handle (c : Cfg) : Op → M Unit
  | .running => fsmNext c
  | .ltick k => handleLtick c k
  | .rtick j k => handleRtick c j k
  | .state j m => handleState c j m
  | .auth j code ts => handleAuth c j code ts
  | .allinfoNone j => handleAllinfoNone c j
  | .failure j => handleFailure c j
  | .restart => handleEnd c false
  | .shutdown => handleEnd c true
  | .endSync m => handleEndSync c m

def initSt (c : Cfg) : St :=
  { peers := List.replicate c.n {},
    modes := (List.range c.n).map (fun j => if j = c.me then { inst := List.replicate c.n .stopped } else { inst := [] }) }

/-- One operation at simulated time `now`.  When the handler raises, the pre-state is kept (the Python leaves whatever was
    written before the exception; the only raising points met, `InvalidTransition` in a setter called first and the
    missing-Master errors of restart/shutdown, write nothing before they raise). -/
def stepOp (c : Cfg) (s : St) (now : Nat) (op : Op) (oracle : List (Query × Nat) := []) : St × Option Err :=
  match (handle c op).run { s with now := now, out := [], oracle := oracle, oracleBad := 0 } with
  | .ok (_, s') => (s', none)
  | .error e => ({ s with now := now, out := [], oracle := oracle, oracleBad := 0 }, some e)

end Supv.Inst
