/-!
# Model of `supvisors/process.py::ProcessStatus` status synthesis and of the `Context` glue that feeds it

Import-free and executable.  Python counterparts are named in every doc-comment.  Instances and processes are
`Nat` indices.  `info_map` (a Python dict) is an association list in insertion order; `running_identifiers`
(a Python set) is a duplicate-free list whose order is never observed (observations sort it).
-/

namespace Supv.Proc

/-- `supervisor.states.ProcessStates` -/
inductive PState where
  | stopped | starting | running | backoff | stopping | exited | fatal | unknown
  deriving DecidableEq, Repr, Inhabited

namespace PState
/-- `supervisor.states.RUNNING_STATES = (RUNNING, BACKOFF, STARTING)` -/
def isRunning : PState → Bool
  | starting | running | backoff => true
  | _ => false
/-- `supervisor.states.STOPPED_STATES = (STOPPED, EXITED, FATAL, UNKNOWN)` -/
def isStopped : PState → Bool
  | stopped | exited | fatal | unknown => true
  | _ => false
def ofCode : Nat → Option PState
  | 0 => some .stopped | 10 => some .starting | 20 => some .running | 30 => some .backoff
  | 40 => some .stopping | 100 => some .exited | 200 => some .fatal | 1000 => some .unknown | _ => none
def code : PState → Nat
  | .stopped => 0 | .starting => 10 | .running => 20 | .backoff => 30 | .stopping => 40
  | .exited => 100 | .fatal => 200 | .unknown => 1000
end PState

/-- the fields of one `info_map[identifier]` payload that the synthesis reads -/
structure Info where
  state : PState
  expected : Bool
  /-- `local_mtime`: local monotonic time of the last information received from this instance -/
  ltime : Nat
  /-- `event_time`: remote monotonic time of the last report -/
  etime : Nat
  /-- `now_monotonic`: refreshed by every TICK of the instance -/
  nowm : Nat
  disabled : Bool
  deriving DecidableEq, Repr, Inhabited

abbrev Infos := List (Nat × Info)

def Infos.get? : Infos → Nat → Option Info
  | [], _ => none
  | (k, v) :: t, i => if k = i then some v else Infos.get? t i

/-- dict assignment: in place when the key exists, appended otherwise -/
def Infos.set : Infos → Nat → Info → Infos
  | [], i, v => [(i, v)]
  | (k, w) :: t, i, v => if k = i then (k, v) :: t else (k, w) :: Infos.set t i v

/-- `del d[i]` (caller checks presence; keys are unique, so dropping every entry of key `i` drops the one) -/
def Infos.del : Infos → Nat → Infos
  | [], _ => []
  | (k, w) :: t, i => if k = i then Infos.del t i else (k, w) :: Infos.del t i

/-- one `ProcessStatus` -/
structure Proc where
  infos : Infos := []
  running : List Nat := []
  state : PState := .unknown
  expectedExit : Bool := true
  forced : Option PState := none
  deriving Repr, Inhabited, DecidableEq

/-- `ProcessStatus.running_state`: first of RUNNING, BACKOFF, STARTING, STOPPING present, else UNKNOWN -/
def runningState (states : List PState) : PState :=
  if states.contains .running then .running
  else if states.contains .backoff then .backoff
  else if states.contains .starting then .starting
  else if states.contains .stopping then .stopping
  else .unknown

/-- `max(info_map.values(), key=local_mtime)`: first maximum in dict order -/
def latest : Infos → Option Info
  | [] => none
  | (_, v) :: t => match latest t with
    | none => some v
    | some w => if w.ltime > v.ltime then some w else some v

/-- first half of `update_status`: the new set of running identifiers -/
def updRunning (p : Proc) (i : Nat) (s : PState) : List Nat :=
  if s.isStopped then p.running.erase i
  else if s.isRunning then
    (if p.state.isStopped then [i] else if i ∈ p.running then p.running else p.running ++ [i])
  else p.running

/-- Result of an operation that Python may abort with an exception (the exception class is kept). -/
inductive Res (α : Type) where
  | ok (a : α)
  | err (cls : String)
  deriving Repr

/-- `ProcessStatus.update_status` (+ `_evaluate_conflict`).  `info_map[...]` lookups of a listed identifier that has
    no entry raise `KeyError` in Python. -/
def updateStatus (p : Proc) (i : Nat) (s : PState) : Res Proc :=
  let run := updRunning p i s
  if run.length > 1 then
    if run.all (fun j => (p.infos.get? j).isSome) then
      .ok { p with running := run,
                   state := runningState (run.filterMap (fun j => (p.infos.get? j).map (·.state))) }
    else .err "KeyError"
  else match run with
    | [j] => match p.infos.get? j with
      | some v => .ok { p with running := run, state := v.state, expectedExit := true }
      | none => .err "KeyError"
    | _ =>
      if p.infos.any (fun kv => kv.2.state == .stopping) then
        .ok { p with running := run, state := .stopping, expectedExit := true }
      else match latest p.infos with
        | some v => .ok { p with running := run, state := v.state, expectedExit := v.expected }
        | none => .err "ValueError"

/-- `reset_forced_state(state)`: cleared unless the *snapshot* state passed by `add_info` is STOPPED -/
def resetForced (p : Proc) (snapshotState : Option PState) : Proc :=
  if p.forced.isSome && snapshotState != some .stopped then { p with forced := none } else p

/-- `ProcessStatus.add_info` -/
def addInfo (p : Proc) (i : Nat) (s : PState) (e : Bool) (et : Nat) (dis : Bool) (now : Nat) : Res Proc :=
  let p1 := { p with infos := p.infos.set i { state := s, expected := e, ltime := now, etime := et, nowm := et, disabled := dis } }
  updateStatus (resetForced p1 (some s)) i s

/-- `ProcessStatus.update_info` (caller guarantees the entry exists, else `KeyError`) -/
def updateInfo (p : Proc) (i : Nat) (s : PState) (e : Bool) (et : Nat) (dis : Option Bool) (now : Nat) : Res Proc :=
  match p.infos.get? i with
  | none => .err "KeyError"
  | some v =>
    let p1 := { p with infos := p.infos.set i { state := s, expected := e, ltime := now, etime := et, nowm := et,
                                                 disabled := dis.getD v.disabled } }
    updateStatus (resetForced p1 none) i s

/-- `ProcessStatus.running_on` -/
def runningOn (p : Proc) (i : Nat) : Bool := p.state.isRunning && p.running.contains i

/-- `ProcessStatus.invalidate_identifier` -/
def invalidateIdentifier (p : Proc) (i : Nat) (now : Nat) : Res Proc :=
  if p.running.contains i then
    match p.infos.get? i with
    | some v => updateInfo p i .fatal false v.nowm none now
    | none => .err "KeyError"
  else .ok p

/-- `ProcessStatus.remove_identifier`: the entry is deleted, the instance leaves the running identifiers and, as long as some
    instance still knows the process, the status is evaluated again without it (`update_status(identifier, STOPPED)`) -/
def removeIdentifier (p : Proc) (i : Nat) : Res Proc :=
  let p1 := { p with infos := p.infos.del i, running := p.running.erase i }
  -- no instance knows the process any more: the `ProcessStatus` is dropped by `Context.on_process_removed_event` (a later
  -- addition starts from a fresh one)
  if p1.infos.isEmpty then .ok {} else updateStatus p1 i .stopped

/-- `ProcessStatus.force_state`; returns the new status and whether the forced state was applied -/
def forceState (p : Proc) (target : Nat) (s : PState) (et : Nat) : Proc × Bool :=
  let apply := match p.infos.get? target with
    | some v => decide (v.etime ≤ et)
    | none => true
  if apply then ({ p with forced := some s }, true) else (p, false)

/-- `ProcessStatus.displayed_state` -/
def displayed (p : Proc) : PState := p.forced.getD p.state

/-- `ProcessStatus.conflicting` -/
def conflicting (p : Proc) : Bool := p.running.length > 1

/-! ## Process-level operations (what one `ProcessStatus` object undergoes) -/

inductive POp where
  /-- `add_info(i, payload)`: initial snapshot from instance `i` -/
  | add (i : Nat) (s : PState) (e : Bool) (et : Nat) (dis : Bool)
  /-- `update_info(i, event)`: the caller (`Context.check_process`) guarantees that `i` has an entry -/
  | upd (i : Nat) (s : PState) (e : Bool) (et : Nat) (dis : Bool)
  /-- instance `i` lost: `Context.invalidate_failed` calls `invalidate_identifier(i)` iff `running_on(i)` -/
  | lose (i : Nat)
  /-- `remove_identifier(i)` (the caller guarantees that `i` has an entry) -/
  | remove (i : Nat)
  /-- `force_state` with a forced event targeting `target` -/
  | force (target : Nat) (s : PState) (et : Nat)
  /-- `update_disability(i, dis)` -/
  | disable (i : Nat) (dis : Bool)
  /-- `update_times(i, t)` on a TICK of `i` -/
  | tick (i : Nat) (t : Nat)
  deriving Repr, DecidableEq

/-- one operation on one `ProcessStatus`, at local monotonic time `now` -/
def pstep (p : Proc) (now : Nat) : POp → Res Proc
  | .add i s e et dis => addInfo p i s e et dis now
  | .upd i s e et dis => updateInfo p i s e et (some dis) now
  -- `Context.invalidate_failed`: every process of the lost instance, running there (first loop) or only STOPPING there (second loop)
  | .lose i => invalidateIdentifier p i now
  | .remove i => if (p.infos.get? i).isSome then removeIdentifier p i else .err "KeyError"
  | .force target s et => .ok (forceState p target s et).1
  | .disable i dis => match p.infos.get? i with
    | some v => .ok { p with infos := p.infos.set i { v with disabled := dis } }
    | none => .ok p
  | .tick i t => match p.infos.get? i with
    | some v => .ok { p with infos := p.infos.set i { v with nowm := t } }
    | none => .ok p

/-- a time-stamped history applied to a fresh `ProcessStatus`; stops at the first Python exception -/
def prun : Proc → List (Nat × POp) → Res Proc
  | p, [] => .ok p
  | p, (now, op) :: rest => match pstep p now op with
    | .ok p' => prun p' rest
    | .err e => .err e

/-! ## The `Context` glue: a table of processes, admitted instances -/

abbrev Tbl := List (Nat × Proc)

def Tbl.get? : Tbl → Nat → Option Proc
  | [], _ => none
  | (k, v) :: t, i => if k = i then some v else Tbl.get? t i

def Tbl.set : Tbl → Nat → Proc → Tbl
  | [], i, v => [(i, v)]
  | (k, w) :: t, i, v => if k = i then (k, v) :: t else (k, w) :: Tbl.set t i v

def Tbl.del : Tbl → Nat → Tbl
  | [], _ => []
  | (k, w) :: t, i => if k = i then t else (k, w) :: Tbl.del t i

structure Ctx where
  procs : Tbl := []
  /-- instances in CHECKED / RUNNING state (events accepted) -/
  admitted : List Nat := []
  /-- per instance, the namespecs of `SupvisorsInstanceStatus.processes` -/
  known : List (Nat × Nat) := []
  deriving Repr, Inhabited

/-- one entry of an `all_info` snapshot -/
structure Snap where
  proc : Nat
  state : PState
  expected : Bool
  etime : Nat
  disabled : Bool
  deriving Repr

inductive Op where
  /-- handshake: `load_processes(status, all_info)` while CHECKING, then CHECKED -/
  | load (i : Nat) (snaps : List Snap)
  /-- `on_process_state_event(status i, event)` -/
  | event (i p : Nat) (s : PState) (e : Bool) (et : Nat) (dis : Bool)
  /-- forced event received from `sender`, targeting `target` -/
  | force (sender p target : Nat) (s : PState) (et : Nat)
  /-- instance `i` FAILED then `invalidate_failed()` -/
  | lose (i : Nat)
  /-- `on_process_removed_event(status i, {name: p})` -/
  | remove (i p : Nat)
  /-- `on_process_disability_event` -/
  | disable (i p : Nat) (dis : Bool)
  /-- TICK from `i`: `update_times` on every process known on `i` -/
  | tick (i : Nat) (t : Nat)
  deriving Repr

/-- apply a process-level operation to entry `pid` of the table (no-op when the process is unknown) -/
def onProc (c : Ctx) (pid now : Nat) (op : POp) : Res Ctx :=
  match c.procs.get? pid with
  | none => .ok c
  | some p => match pstep p now op with
    | .err e => .err e
    | .ok p' => .ok { c with procs := c.procs.set pid p' }

def loadSnaps (c : Ctx) (i : Nat) (now : Nat) : List Snap → Res Ctx
  | [] => .ok c
  | sn :: rest =>
    let p := (c.procs.get? sn.proc).getD {}
    match pstep p now (.add i sn.state sn.expected sn.etime sn.disabled) with
    | .err e => .err e
    | .ok p' =>
      let known := if c.known.contains (i, sn.proc) then c.known else c.known ++ [(i, sn.proc)]
      loadSnaps { c with procs := c.procs.set sn.proc p', known := known } i now rest

/-- apply `op` to every process known on instance `i` (`status.processes.values()`) -/
def forKnown (c : Ctx) (i now : Nat) (op : POp) : List (Nat × Nat) → Res Ctx
  | [] => .ok c
  | (j, pid) :: rest =>
    if j = i then
      match onProc c pid now op with
      | .err e => .err e
      | .ok c' => forKnown c' i now op rest
    else forKnown c i now op rest

def hasInfo (c : Ctx) (pid i : Nat) : Bool :=
  match c.procs.get? pid with
  | some p => (p.infos.get? i).isSome
  | none => false

/-- One operation of the `Context`, at local monotonic time `now`. -/
def step (c : Ctx) (now : Nat) : Op → Res Ctx
  | .load i snaps =>
    match loadSnaps c i now snaps with
    | .err e => .err e
    | .ok c' => .ok { c' with admitted := if c'.admitted.contains i then c'.admitted else c'.admitted ++ [i] }
  | .event i pid s e et dis =>
    -- `check_process`: events about an unknown process or from an instance without entry are ignored
    if c.admitted.contains i && hasInfo c pid i then onProc c pid now (.upd i s e et dis) else .ok c
  | .force sender pid target s et =>
    if c.admitted.contains sender then onProc c pid now (.force target s et) else .ok c
  | .lose i =>
    if c.admitted.contains i then
      match forKnown c i now (.lose i) c.known with
      | .err e => .err e
      | .ok c' => .ok { c' with admitted := c'.admitted.erase i }
    else .ok c
  | .remove i pid =>
    if c.admitted.contains i && hasInfo c pid i then
      match onProc c pid now (.remove i) with
      | .err e => .err e
      | .ok c' =>
        let known := c'.known.erase (i, pid)
        match c'.procs.get? pid with
        | some p' => if p'.infos.isEmpty then .ok { c' with procs := c'.procs.del pid, known := known }
                     else .ok { c' with known := known }
        | none => .ok { c' with known := known }
    else .ok c
  | .disable i pid dis =>
    if c.admitted.contains i && hasInfo c pid i then onProc c pid now (.disable i dis) else .ok c
  | .tick i t =>
    match forKnown c i now (.tick i t) c.known with
    | .err e => .err e
    | .ok c' => .ok c'

end Supv.Proc
