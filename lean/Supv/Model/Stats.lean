/-!
# Model of `supvisors/statscompiler.py` (whole file) over exact arithmetic

Import-free and executable.  Python counterparts are named in every doc-comment.

* Identifiers (Supvisors instances), namespecs, interfaces, devices and partitions are `Nat` indices.  Python dicts are
  association lists in insertion order (`AL`); no order of a dict is ever observed (observations sort by key).
* Time stamps (`now`) are `Int` numbers of clock units, `Units.tps` units per second.  Counter values that are floats
  in Python (CPU jiffies, `proc_work`, memory and disk percentages) are `Int` numbers of value units, `Units.vs`
  units per 1.0.  Byte counters are plain `Int`.  Everything the code *computes* from them is an exact fraction
  `Q = num / den`, never normalised.  IEEE rounding is NOT modelled (it is monitored on the implementation by the
  harness, see `Supv/Spec/C20.lean`).
* What Python raises is an explicit result (`Err`): `IndexError` when the number of CPU cores shrinks
  (`_push_cpu_stats` pops from an exhausted list, after `times` and a prefix of the CPU series were already pushed),
  `ZeroDivisionError` when an integration runs over a zero duration (only possible with a period `≤ 0`) or when the
  Solaris mode divides by `nb_cores = 0`.
-/

namespace Supv.Stats

/-- an exact fraction `num / den` (the model never builds `den = 0`: Python raises there) -/
abbrev Q := Int × Int

/-- scales of the integer inputs -/
structure Units where
  /-- clock units per second -/
  tps : Int := 1024
  /-- value units per 1.0 for the inputs that are floats in Python -/
  vs : Int := 1
  deriving Repr, Inhabited, DecidableEq

inductive Err where
  | indexError | zeroDivision
  deriving Repr, Inhabited, DecidableEq

/-! ## Python dicts keyed by an index -/
namespace AL
variable {β : Type}

/-- `d.get(k)` -/
def get? : List (Nat × β) → Nat → Option β
  | [], _ => none
  | (k', v) :: t, k => if k' = k then some v else get? t k

/-- `d[k] = v`: in place when the key exists, appended otherwise -/
def set : List (Nat × β) → Nat → β → List (Nat × β)
  | [], k, v => [(k, v)]
  | (k', v') :: t, k, v => if k' = k then (k, v) :: t else (k', v') :: set t k v

/-- `d.pop(k, None)` -/
def erase (m : List (Nat × β)) (k : Nat) : List (Nat × β) := m.filter (fun e => e.1 != k)

end AL

/-! ## Pure helpers -/

/-- `trunc_depth`: pop from the front while the list is longer than `depth` -/
def trunc {α : Type} (depth : Nat) (l : List α) : List α := l.drop (l.length - depth)

/-- `cpu_statistics`: `100.0 * (work / total) if total else 0` per core (same exact value as the former `100.0 * work / total`), `zip` semantics on the two core lists -/
def cpuStats (latest ref : List (Int × Int)) : List Q :=
  (latest.zip ref).map fun ((lw, li), (rw, ri)) =>
    let work := lw - rw
    let total := work + (li - ri)
    if total = 0 then (0, 1) else (100 * work, total)

/-- the interfaces kept by `io_statistics`: present in both measures and not wrapped; with the byte differences -/
def ioPairs (last ref : List (Nat × Int × Int)) : List (Nat × Int × Int) :=
  last.filterMap fun (k, lin, lout) =>
    match ref.find? (·.1 == k) with
    | some (_, rin, rout) => if rin ≤ lin ∧ rout ≤ lout then some (k, lin - rin, lout - rout) else none
    | none => none

/-- `bytes / duration / 128` with `duration` in clock units: kilobits per second -/
def rate (u : Units) (bytes duration : Int) : Q := (bytes * u.tps, duration * 128)

/-- `io_statistics`; `none` = `ZeroDivisionError` (a kept interface and a zero duration) -/
def ioStats (u : Units) (last ref : List (Nat × Int × Int)) (duration : Int) : Option (List (Nat × List Q)) :=
  let ps := ioPairs last ref
  if duration = 0 ∧ ps ≠ [] then none
  else some (ps.map fun (k, i, o) => (k, [rate u i duration, rate u o duration]))

/-! ## Host statistics -/

/-- one host measure (`statscollector.collect_host_statistics`) -/
structure Sample where
  now : Int
  /-- (work, idle) jiffies per core, average first -/
  cpu : List (Int × Int)
  mem : Int
  /-- interface ↦ (recv_bytes, sent_bytes) -/
  net : List (Nat × Int × Int)
  /-- device ↦ (read_bytes, write_bytes) -/
  disk : List (Nat × Int × Int)
  /-- partition ↦ percent -/
  usage : List (Nat × Int)
  deriving Repr, Inhabited, DecidableEq

/-- one entry of `net_io` / `disk_io` / `disk_usage`: `(uptimes, [series, …])` -/
structure Timed where
  key : Nat
  uptimes : List Int
  vals : List (List Q)
  deriving Repr, Inhabited, DecidableEq

/-- `HostStatisticsInstance` -/
structure HostInst where
  period : Int
  depth : Nat
  ref : Option Sample := none
  refStart : Int := 0
  times : List Int := []
  cpu : List (List Q) := []
  mem : List Int := []
  net : List Timed := []
  disk : List Timed := []
  usage : List Timed := []
  deriving Repr, Inhabited, DecidableEq

/-- the payload returned by `HostStatisticsInstance.push_statistics` when a point is produced -/
structure HostPoint where
  /-- `period[0]`: reference time relative to the first measure -/
  t0 : Int
  /-- `period[1]` = the uptime pushed into `times` -/
  t1 : Int
  cpu : List Q
  mem : Int
  net : List (Nat × List Q)
  disk : List (Nat × List Q)
  usage : List (Nat × Int)
  deriving Repr, Inhabited, DecidableEq

inductive HRes where
  | none
  | point (p : HostPoint)
  | err (e : Err)
  deriving Repr, Inhabited, DecidableEq

/-- `_push_timed_stats`: entries missing from the new values are destroyed, the others get one more point (time and
    every series truncated), unknown keys are created with a single point (NOT truncated) -/
def pushTimed (depth : Nat) (ref : List Timed) (stats : List (Nat × List Q)) (uptime : Int) : List Timed :=
  let kept := ref.filterMap fun t =>
    match stats.find? (·.1 == t.key) with
    | some (_, vs) => some { t with uptimes := trunc depth (t.uptimes ++ [uptime]),
                                    vals := (t.vals.zip vs).map (fun (l, v) => trunc depth (l ++ [v])) }
    | none => none
  let fresh := (stats.filter (fun kv => !ref.any (·.key == kv.1))).map fun (k, vs) =>
    ({ key := k, uptimes := [uptime], vals := vs.map (fun v => [v]) } : Timed)
  kept ++ fresh

/-- `_push_cpu_stats`: `for lst in self.cpu: lst.append(cpu_stats.pop(0)); trunc_depth(lst)`.  The series that found
    a value are updated; when values run out (`vals.length < hist.length`) Python raises `IndexError` there. -/
def pushCpu (depth : Nat) (hist : List (List Q)) (vals : List Q) : List (List Q) :=
  (hist.zip vals).map (fun (l, v) => trunc depth (l ++ [v])) ++ hist.drop vals.length

/-- first measure: it becomes the reference, the structures are created empty -/
def HostInst.first (h : HostInst) (s : Sample) : HostInst :=
  { h with ref := some s, refStart := s.now, cpu := s.cpu.map (fun _ => []),
           net := s.net.map (fun kv => { key := kv.1, uptimes := [], vals := [[], []] }),
           disk := s.disk.map (fun kv => { key := kv.1, uptimes := [], vals := [[], []] }),
           usage := s.usage.map (fun kv => { key := kv.1, uptimes := [], vals := [[]] }) }

/-- `integrate`: everything that is computed before any mutation; `none` = `ZeroDivisionError` -/
def integrate (u : Units) (h : HostInst) (r s : Sample) : Option HostPoint :=
  match ioStats u s.net r.net (s.now - r.now), ioStats u s.disk r.disk (s.now - r.now) with
  | some net, some disk =>
    some { t0 := r.now - h.refStart, t1 := s.now - h.refStart, cpu := cpuStats s.cpu r.cpu, mem := s.mem,
           net := net, disk := disk, usage := s.usage }
  | _, _ => none

/-- the `_push_*` sequence and the reference roll-over -/
def commit (u : Units) (h : HostInst) (s : Sample) (p : HostPoint) : HostInst × HRes :=
  if p.cpu.length < h.cpu.length then
    -- IndexError inside `_push_cpu_stats`: `times` and a prefix of the CPU series are already pushed
    ({ h with times := trunc h.depth (h.times ++ [p.t1]), cpu := pushCpu h.depth h.cpu p.cpu }, .err .indexError)
  else
    ({ h with times := trunc h.depth (h.times ++ [p.t1]),
              cpu := pushCpu h.depth h.cpu p.cpu,
              mem := trunc h.depth (h.mem ++ [p.mem]),
              net := pushTimed h.depth h.net p.net p.t1,
              disk := pushTimed h.depth h.disk p.disk p.t1,
              usage := pushTimed h.depth h.usage (p.usage.map (fun kv => (kv.1, [(kv.2, u.vs)]))) p.t1,
              ref := some s }, .point p)

/-- `HostStatisticsInstance.push_statistics` -/
def HostInst.push (u : Units) (h : HostInst) (s : Sample) : HostInst × HRes :=
  match h.ref with
  | none => (h.first s, .none)
  | some r =>
    if h.period ≤ s.now - r.now then
      match integrate u h r s with
      | some p => commit u h s p
      | none => (h, .err .zeroDivision)
    else (h, .none)

/-- the loop over the periods of `HostStatisticsCompiler.push_statistics`: stops at the first exception -/
def pushAll (u : Units) : List HostInst → Sample → List HostInst × List (Int × HostPoint) × Option Err
  | [], _ => ([], [], none)
  | h :: t, s =>
    match h.push u s with
    | (h', .err e) => (h' :: t, [], some e)
    | (h', .none) => let r := pushAll u t s; (h' :: r.1, r.2.1, r.2.2)
    | (h', .point p) => let r := pushAll u t s; (h' :: r.1, (h.period, p) :: r.2.1, r.2.2)

/-- dict comprehension over `stats_periods`: one entry per distinct period, first occurrences in order -/
def dedup : List Int → List Int
  | [] => []
  | x :: t => x :: (dedup t).filter (· != x)

/-- `HostStatisticsCompiler` -/
structure HostComp where
  /-- `instance_map`: identifier ↦ {period ↦ instance} -/
  insts : List (Nat × List HostInst) := []
  /-- `nb_cores` -/
  cores : List (Nat × Int) := []
  deriving Repr, Inhabited, DecidableEq

def freshHost (depth : Nat) (periods : List Int) : List HostInst :=
  (dedup periods).map fun p => ({ period := p, depth := depth } : HostInst)

/-- `if not self.instance_map.get(identifier): self.add_instance(identifier)` -/
def HostComp.ensure (depth : Nat) (periods : List Int) (c : HostComp) (id : Nat) : HostComp :=
  match AL.get? c.insts id with
  | some (_ :: _) => c
  | _ => { insts := AL.set c.insts id (freshHost depth periods), cores := AL.set c.cores id 1 }

/-- `HostStatisticsCompiler.push_statistics`: an identifier never seen before is created on the fly -/
def HostComp.push (u : Units) (depth : Nat) (periods : List Int) (c : HostComp) (id : Nat) (s : Sample) :
    HostComp × List (Int × HostPoint) × Option Err :=
  let c1 := c.ensure depth periods id
  let r := pushAll u ((AL.get? c1.insts id).getD []) s
  match r.2.2 with
  | some e => ({ c1 with insts := AL.set c1.insts id r.1 }, [], some e)
  | none =>
    let nb : Int := s.cpu.length
    ({ insts := AL.set c1.insts id r.1, cores := AL.set c1.cores id (if nb = 1 then 1 else nb - 1) }, r.2.1, none)

/-- `HostStatisticsCompiler.get_stats` (period given by value) -/
def HostComp.get (c : HostComp) (id : Nat) (period : Int) : Option HostInst :=
  match AL.get? c.insts id with
  | some hs => hs.find? (·.period == period)
  | none => none

/-! ## Process statistics -/

/-- one process measure (`statscollector`): `work`/`mem` are absent from the Python payload when `pid = 0` (they are
    never read then); `nbCores` is only present in the `supervisord` payload -/
structure PSample where
  ns : Nat
  pid : Int
  now : Int
  work : Int := 0
  mem : Int := 0
  nbCores : Option Int := none
  deriving Repr, Inhabited, DecidableEq

/-- `ProcStatisticsInstance` -/
structure ProcInst where
  pid : Int
  period : Int
  depth : Nat
  ref : Option PSample := none
  refStart : Int := 0
  times : List Int := []
  cpu : List Q := []
  mem : List Int := []
  deriving Repr, Inhabited, DecidableEq

structure ProcPoint where
  pid : Int
  t0 : Int
  t1 : Int
  cpu : Q
  mem : Int
  deriving Repr, Inhabited, DecidableEq

inductive PRes where
  | none
  | point (p : ProcPoint)
  | err (e : Err)
  deriving Repr, Inhabited, DecidableEq

/-- `ProcStatisticsInstance.integrate`: `100.0 * (Δproc_work / Δnow)` (IRIX value) -/
def procCpu (u : Units) (r s : PSample) : Q := (100 * (s.work - r.work) * u.tps, u.vs * (s.now - r.now))

/-- `ProcStatisticsInstance.push_statistics` -/
def ProcInst.push (u : Units) (p : ProcInst) (s : PSample) : ProcInst × PRes :=
  match p.ref with
  | none => ({ p with ref := some s, refStart := s.now }, .none)
  | some r =>
    if p.period ≤ s.now - r.now then
      if s.now - r.now = 0 then (p, .err .zeroDivision)
      else
        ({ p with cpu := trunc p.depth (p.cpu ++ [procCpu u r s]),
                  mem := trunc p.depth (p.mem ++ [s.mem]),
                  times := trunc p.depth (p.times ++ [s.now - p.refStart]),
                  ref := some s },
         .point { pid := p.pid, t0 := r.now - p.refStart, t1 := s.now - p.refStart, cpu := procCpu u r s, mem := s.mem })
    else (p, .none)

/-- the loop over the periods of `ProcStatisticsHolder.push_statistics` -/
def ppushAll (u : Units) : List ProcInst → PSample → List ProcInst × List (Int × ProcPoint) × Option Err
  | [], _ => ([], [], none)
  | p :: t, s =>
    match p.push u s with
    | (p', .err e) => (p' :: t, [], some e)
    | (p', .none) => let r := ppushAll u t s; (p' :: r.1, r.2.1, r.2.2)
    | (p', .point x) => let r := ppushAll u t s; (p' :: r.1, (p.period, x) :: r.2.1, r.2.2)

def freshProc (depth : Nat) (periods : List Int) (pid : Int) : List ProcInst :=
  (dedup periods).map fun p => ({ pid := pid, period := p, depth := depth } : ProcInst)

/-- `ProcStatisticsHolder`: identifier ↦ (pid, {period ↦ instance}) -/
structure Holder where
  entries : List (Nat × Int × List ProcInst) := []
  deriving Repr, Inhabited, DecidableEq

/-- the instances that receive the measure: the current ones when the pid is unchanged, fresh ones when the process
    is unknown on that identifier or was (re-)started under another pid -/
def Holder.current (depth : Nat) (periods : List Int) (h : Holder) (id : Nat) (s : PSample) : List ProcInst :=
  match AL.get? h.entries id with
  | some (rpid, x :: t) => if s.pid = rpid then x :: t else freshProc depth periods s.pid
  | _ => freshProc depth periods s.pid

/-- `ProcStatisticsHolder.push_statistics`: pid 0 drops the history of the identifier -/
def Holder.push (u : Units) (depth : Nat) (periods : List Int) (h : Holder) (id : Nat) (s : PSample) :
    Holder × List (Int × ProcPoint) × Option Err :=
  if s.pid = 0 then ({ entries := AL.erase h.entries id }, [], none)
  else
    let r := ppushAll u (h.current depth periods id s) s
    match r.2.2 with
    | some e => ({ entries := AL.set h.entries id (s.pid, r.1) }, [], some e)
    | none => ({ entries := AL.set h.entries id (s.pid, r.1) }, r.2.1, none)

/-- `ProcStatisticsCompiler` -/
structure ProcComp where
  /-- `holder_map`: namespec ↦ holder -/
  holders : List (Nat × Holder) := []
  /-- `nb_cores`: identifier ↦ number of cores (from the `supervisord` payload) -/
  cores : List (Nat × Int) := []
  deriving Repr, Inhabited, DecidableEq

/-- `if 'nb_cores' in process_stats: self.nb_cores[identifier] = …` -/
def ProcComp.setCores (c : ProcComp) (id : Nat) (s : PSample) : ProcComp :=
  match s.nbCores with
  | some n => { c with cores := AL.set c.cores id n }
  | none => c

/-- `ProcStatisticsCompiler.push_statistics`: a holder is created for a live pid, deleted when it gets empty -/
def ProcComp.push (u : Units) (depth : Nat) (periods : List Int) (c : ProcComp) (id : Nat) (s : PSample) :
    ProcComp × List (Int × ProcPoint) × Option Err :=
  match AL.get? c.holders s.ns, decide (0 < s.pid) with
  | none, false => (c.setCores id s, [], none)
  | ho, _ =>
    let r := (ho.getD {}).push u depth periods id s
    match r.2.2 with
    | some e => ({ c with holders := AL.set c.holders s.ns r.1 }, [], some e)
    | none =>
      if r.1.entries.isEmpty then (ProcComp.setCores { c with holders := AL.erase c.holders s.ns } id s, r.2.1, none)
      else (ProcComp.setCores { c with holders := AL.set c.holders s.ns r.1 } id s, r.2.1, none)

/-- the per-period instance of a process on an identifier -/
def ProcComp.find (c : ProcComp) (ns id : Nat) (period : Int) : Option ProcInst :=
  match AL.get? c.holders ns with
  | some h =>
    match AL.get? h.entries id with
    | some (_, ps) => ps.find? (·.period == period)
    | none => none
  | none => none

/-- every per-period instance of a process on an identifier (`[]` when there is none) -/
def ProcComp.insts (c : ProcComp) (ns id : Nat) : List ProcInst :=
  match AL.get? c.holders ns with
  | some h =>
    match AL.get? h.entries id with
    | some (_, ps) => ps
    | none => []
  | none => []

/-- the copy handed out by `get_stats` -/
structure ProcView where
  times : List Int
  mem : List Int
  cpu : List Q
  deriving Repr, Inhabited, DecidableEq

/-- `ProcStatisticsCompiler.get_stats` → `ProcStatisticsInstance.copy(cpu_factor)`: IRIX mode hands out the raw
    values, Solaris mode divides them by the number of cores known for the identifier (1 when unknown);
    `ZeroDivisionError` when that number is 0 and there is a value to divide -/
def ProcComp.get (irix : Bool) (c : ProcComp) (ns id : Nat) (period : Int) : Except Err (Option ProcView) :=
  match c.find ns id period with
  | none => .ok none
  | some p =>
    let f : Int := if irix then 1 else (AL.get? c.cores id).getD 1
    if f = 0 ∧ p.cpu ≠ [] then .error .zeroDivision
    else .ok (some { times := p.times, mem := p.mem, cpu := p.cpu.map (fun q => (q.1, q.2 * f)) })

/-! ## Both compilers behind the listener (`on_host_statistics`, `on_process_statistics`) -/

/-- the options read by the compilers -/
structure Cfg where
  u : Units := {}
  /-- `stats_histo` -/
  depth : Nat
  /-- `stats_periods`, in clock units -/
  periods : List Int
  /-- `stats_irix_mode` -/
  irix : Bool := false
  deriving Repr, Inhabited, DecidableEq

structure World where
  host : HostComp := {}
  proc : ProcComp := {}
  deriving Repr, Inhabited, DecidableEq

inductive Op where
  /-- host measure published by an identifier -/
  | hpush (id : Nat) (s : Sample)
  /-- process measure published by an identifier -/
  | ppush (id : Nat) (s : PSample)
  deriving Repr, Inhabited, DecidableEq

inductive Out where
  | host (pts : List (Int × HostPoint)) (e : Option Err)
  | proc (pts : List (Int × ProcPoint)) (e : Option Err)
  deriving Repr, Inhabited, DecidableEq

def step (cfg : Cfg) (w : World) : Op → World × Out
  | .hpush id s =>
    let r := w.host.push cfg.u cfg.depth cfg.periods id s
    ({ w with host := r.1 }, .host r.2.1 r.2.2)
  | .ppush id s =>
    let r := w.proc.push cfg.u cfg.depth cfg.periods id s
    ({ w with proc := r.1 }, .proc r.2.1 r.2.2)

/-- the state after a stream of measures -/
def run (cfg : Cfg) (w : World) (ops : List Op) : World := ops.foldl (fun w op => (step cfg w op).1) w

/-- the outputs of a stream of measures, in order -/
def outs (cfg : Cfg) : World → List Op → List Out
  | _, [] => []
  | w, op :: t => (step cfg w op).2 :: outs cfg (step cfg w op).1 t

end Supv.Stats
