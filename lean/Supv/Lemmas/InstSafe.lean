import Supv.Model.Inst

/-! Total-correctness kit for C16 (`C16_instance_handlers_never_raise`): a Hoare triple over `M = StateT St (Except Err)` in which
    the only exception allowed is `noMaster` (the documented refusal of restart / shutdown without Master): no handler of the
    instance model raises `InvalidTransition`, from ANY state. -/

namespace Supv.Inst

def okish {α} (Q : α → St → Prop) : Except Err (α × St) → Prop
  | .ok (a, s') => Q a s'
  | .error e => e = .noMaster

/-- from a state satisfying `P`, `x` returns normally in a state satisfying `Q` (or refuses with `noMaster`) -/
structure Tri {α} (P : St → Prop) (x : M α) (Q : α → St → Prop) : Prop where
  run : ∀ s, P s → okish Q (x.run s)

/-- `x` never raises `InvalidTransition`, whatever the state -/
abbrev Safe {α} (x : M α) : Prop := Tri (fun _ => True) x (fun _ _ => True)

namespace Tri
variable {α β : Type}

theorem conseq {P P' : St → Prop} {x : M α} {Q Q' : α → St → Prop} (h : Tri P x Q)
    (hp : ∀ s, P' s → P s) (hq : ∀ a s, Q a s → Q' a s) : Tri P' x Q' := by
  constructor
  intro s hs
  have := h.run s (hp s hs)
  cases hr : x.run s with
  | error e => rw [hr] at this; exact this
  | ok r => obtain ⟨a, s'⟩ := r; rw [hr] at this; exact hq a s' this

theorem weaken {P : St → Prop} {x : M α} {Q : α → St → Prop} (h : Tri P x Q) : Tri P x (fun _ _ => True) :=
  h.conseq (fun _ h => h) (fun _ _ _ => trivial)

theorem pure (P : St → Prop) (a : α) : Tri P (Pure.pure a : M α) (fun a' s => a' = a ∧ P s) := by
  constructor
  intro s hs
  show okish _ (Except.ok (a, s))
  exact ⟨rfl, hs⟩

theorem bind {P : St → Prop} {x : M α} {Q : α → St → Prop} {f : α → M β} {R : β → St → Prop}
    (hx : Tri P x Q) (hf : ∀ a, Tri (Q a) (f a) R) : Tri P (x >>= f) R := by
  constructor
  intro s hs
  have h1 := hx.run s hs
  simp only [StateT.run, Bind.bind, StateT.bind, Except.bind] at *
  cases hx1 : x s with
  | error e => rw [hx1] at h1; simpa [okish] using h1
  | ok r =>
    obtain ⟨a, s1⟩ := r
    rw [hx1] at h1
    exact (hf a).run s1 h1

theorem get (P : St → Prop) : Tri P (MonadState.get : M St) (fun a s => a = s ∧ P s) := by
  constructor
  intro s hs
  show okish _ (Except.ok (s, s))
  exact ⟨rfl, hs⟩

theorem modify (P : St → Prop) (f : St → St) : Tri P (modify f : M Unit) (fun _ s' => ∃ s, P s ∧ s' = f s) := by
  constructor
  intro s hs
  show okish _ (Except.ok ((), f s))
  exact ⟨s, hs, rfl⟩

theorem throwNoMaster (P : St → Prop) (Q : α → St → Prop) : Tri P (MonadExcept.throw Err.noMaster : M α) Q := by
  constructor
  intro s _
  show okish Q (Except.error Err.noMaster)
  rfl

/-- a pure fact that every state of the precondition entails may be assumed -/
theorem assume {P : St → Prop} {x : M α} {Q : α → St → Prop} (F : Prop) (hF : ∀ s, P s → F) (h : F → Tri P x Q) : Tri P x Q := by
  constructor
  intro s hs
  exact (h (hF s hs)).run s hs

theorem forIn {γ} (I : St → Prop) (l : List γ) (init : β) (f : γ → β → M (ForInStep β))
    (hf : ∀ a b, Tri I (f a b) (fun _ s => I s)) : Tri I (forIn l init f) (fun _ s => I s) := by
  induction l generalizing init with
  | nil => simp only [List.forIn_nil]; exact (pure I init).conseq (fun _ h => h) (fun _ _ h => h.2)
  | cons a t ih =>
    simp only [List.forIn_cons]
    apply bind (hf a init)
    intro r
    cases r with
    | done b => exact (pure I b).conseq (fun _ h => h) (fun _ _ h => h.2)
    | yield b => exact ih b
end Tri

namespace Safe
variable {α β : Type}
theorem pure (a : α) : Safe (Pure.pure a : M α) := (Tri.pure _ a).weaken
theorem bind {x : M α} {f : α → M β} (hx : Safe x) (hf : ∀ a, Safe (f a)) : Safe (x >>= f) :=
  Tri.bind hx (fun a => (hf a).conseq (fun _ _ => trivial) (fun _ _ h => h))
theorem get : Safe (MonadState.get : M St) := (Tri.get _).weaken
theorem modify (f : St → St) : Safe (modify f : M Unit) := (Tri.modify _ f).weaken
theorem throwNoMaster : Safe (MonadExcept.throw Err.noMaster : M α) := Tri.throwNoMaster _ _
theorem forIn {γ} (l : List γ) (init : β) (f : γ → β → M (ForInStep β)) (hf : ∀ a b, Safe (f a b)) : Safe (forIn l init f) :=
  (Tri.forIn (fun _ => True) l init f hf).weaken
/-- a safe computation can be run from any precondition -/
theorem tri {x : M α} (h : Safe x) (P : St → Prop) : Tri P x (fun _ _ => True) := h.conseq (fun _ _ => trivial) (fun _ _ h => h)
end Safe

/-! leaves -/
theorem safe_emit (o : Out) : Safe (emit o) := Safe.modify _
theorem safe_modifyPeer (j : Nat) (f : Peer → Peer) : Safe (modifyPeer j f) := Safe.modify _
theorem safe_setPeer (j : Nat) (p : Peer) : Safe (setPeer j p) := Safe.modify _
theorem safe_setModes (j : Nat) (m : Modes) : Safe (setModes j m) := Safe.modify _
theorem safe_modifyLocal (c : Cfg) (f : Modes → Modes) : Safe (modifyLocal c f) := Safe.modify _
theorem safe_getPeer (j : Nat) : Safe (getPeer j) := Safe.bind Safe.get (fun _ => Safe.pure _)
theorem safe_getModes (j : Nat) : Safe (getModes j) := Safe.bind Safe.get (fun _ => Safe.pure _)
theorem safe_localModes (c : Cfg) : Safe (localModes c) := safe_getModes _

syntax "safe_leaf" : tactic
macro_rules | `(tactic| safe_leaf) => `(tactic| first
  | exact Safe.pure _ | exact Safe.get | exact Safe.throwNoMaster | exact Safe.modify _
  | exact safe_emit _ | exact safe_modifyPeer _ _ | exact safe_setPeer _ _ | exact safe_setModes _ _ | exact safe_modifyLocal _ _
  | exact safe_getPeer _ | exact safe_getModes _ | exact safe_localModes _
  | assumption)

macro "safe_step" : tactic => `(tactic| first
  | (with_reducible safe_leaf)
  | (with_reducible apply Safe.bind)
  | (with_reducible apply Safe.forIn)
  | (intro _)
  | (split)
  | (dsimp only)
  | safe_leaf
  | (apply Safe.bind)
  | (apply Safe.forIn))
macro "safe_auto" : tactic => `(tactic| repeat safe_step)

theorem safe_setRemoteModes (c : Cfg) (j : Nat) (m : Modes) : Safe (setRemoteModes c j m) := by unfold setRemoteModes; safe_auto
macro_rules | `(tactic| safe_leaf) => `(tactic| exact safe_setRemoteModes _ _ _)
theorem safe_publish (c : Cfg) : Safe (publish c) := by unfold publish; safe_auto
macro_rules | `(tactic| safe_leaf) => `(tactic| exact safe_publish _)
theorem safe_setMaster (c : Cfg) (m : Option Nat) : Safe (setMaster c m) := by unfold setMaster; safe_auto
macro_rules | `(tactic| safe_leaf) => `(tactic| exact safe_setMaster _ _)
theorem safe_setFsm (c : Cfg) (f : SState) : Safe (setFsm c f) := by unfold setFsm; safe_auto
macro_rules | `(tactic| safe_leaf) => `(tactic| exact safe_setFsm _ _)
theorem safe_setDegraded (c : Cfg) (d : Bool) : Safe (setDegraded c d) := by unfold setDegraded; safe_auto
macro_rules | `(tactic| safe_leaf) => `(tactic| exact safe_setDegraded _ _)
theorem safe_askNat (q : Query) : Safe (askNat q) := by unfold askNat; safe_auto
macro_rules | `(tactic| safe_leaf) => `(tactic| exact safe_askNat _)
theorem safe_ask (q : Query) : Safe (ask q) := by unfold ask; safe_auto
macro_rules | `(tactic| safe_leaf) => `(tactic| exact safe_ask _)
theorem safe_updateInstanceState (c : Cfg) (j : Nat) (ns : IState) : Safe (updateInstanceState c j ns) := by
  unfold updateInstanceState; safe_auto
macro_rules | `(tactic| safe_leaf) => `(tactic| exact safe_updateInstanceState _ _ _)

/-! the only raising primitive -/

/-- the state of instance `j` in the local context -/
def pst (j : Nat) (s : St) : IState := (s.peers.getD j {}).state

/-- the transition is in the table or is a no-op -/
def okTo (a b : IState) : Prop := b ∈ a.next ∨ a = b
instance (a b : IState) : Decidable (okTo a b) := by unfold okTo; exact inferInstance

/-- the rest of `setPeerState` once the table check is passed -/
theorem tri_setPeerState (c : Cfg) (j : Nat) (ns : IState) :
    Tri (fun s => okTo (pst j s) ns) (setPeerState c j ns) (fun _ _ => True) := by
  unfold setPeerState
  apply Tri.bind (Q := fun p s => p = s.peers.getD j {} ∧ okTo (pst j s) ns)
  · -- getPeer
    constructor
    intro s hs
    show okish _ (Except.ok (s.peers.getD j {}, s))
    exact ⟨rfl, hs⟩
  · intro p
    apply Tri.assume (okTo p.state ns) (fun s hs => by rw [hs.1]; exact hs.2)
    intro hok
    by_cases hne : p.state ≠ ns
    · have hin : ns ∈ p.state.next := by
        rcases hok with h | h
        · exact h
        · exact absurd h hne
      simp only [hne, if_true, hin, not_true_eq_false, if_false]
      apply Safe.tri
      safe_auto
    · simp only [hne, if_false]
      exact (Safe.pure _).tri _

/-- `setPeerState` right after reading the peer, under a guard that the table accepts -/
theorem safe_guarded_set (c : Cfg) (j : Nat) (G : Peer → Bool) (ns : IState) (hG : ∀ p, G p = true → okTo p.state ns)
    (k : M Unit) (hk : Safe k) :
    Safe (do let p ← getPeer j; if G p then (do setPeerState c j ns; k) else pure ()) := by
  apply Tri.bind (Q := fun p s => p = s.peers.getD j {})
  · constructor
    intro s _
    show okish _ (Except.ok (s.peers.getD j {}, s))
    rfl
  · intro p
    by_cases hg : G p = true
    · simp only [hg, if_true]
      apply Tri.bind (Q := fun _ _ => True)
      · exact (tri_setPeerState c j ns).conseq (fun s hs => by unfold pst; rw [← hs]; exact hG p hg) (fun _ _ h => h)
      · intro _; exact hk.tri _
    · simp only [hg, if_false]
      exact (Safe.pure _).tri _

/-! ## read-only computations keep any assertion -/

/-- `x` does not write the state -/
structure RO {α} (x : M α) : Prop where
  frame : ∀ P : St → Prop, Tri P x (fun _ s => P s)

namespace RO
variable {α β : Type}
theorem pure (a : α) : RO (Pure.pure a : M α) := ⟨fun P => (Tri.pure P a).conseq (fun _ h => h) (fun _ _ h => h.2)⟩
theorem get : RO (MonadState.get : M St) := ⟨fun P => (Tri.get P).conseq (fun _ h => h) (fun _ _ h => h.2)⟩
theorem bind {x : M α} {f : α → M β} (hx : RO x) (hf : ∀ a, RO (f a)) : RO (x >>= f) :=
  ⟨fun P => Tri.bind (hx.frame P) (fun a => (hf a).frame P)⟩
theorem safe {x : M α} (h : RO x) : Safe x := (h.frame _).weaken
end RO

theorem ro_getPeer (j : Nat) : RO (getPeer j) := RO.bind RO.get (fun _ => RO.pure _)
theorem ro_getModes (j : Nat) : RO (getModes j) := RO.bind RO.get (fun _ => RO.pure _)
theorem ro_localModes (c : Cfg) : RO (localModes c) := ro_getModes _
theorem ro_masterState (c : Cfg) : RO (masterState c) := by
  unfold masterState
  apply RO.bind (ro_localModes c)
  intro lm
  split
  · exact RO.pure _
  · exact RO.bind (ro_getModes _) (fun _ => RO.pure _)
theorem ro_isValid (j : Nat) : RO (isValid j) := RO.bind (ro_getPeer j) (fun _ => RO.pure _)

/-! ## the guarded assignments -/

theorem tri_getPeer_then {β} (j : Nat) (f : Peer → M β) (Q : β → St → Prop)
    (h : ∀ p, Tri (fun s => pst j s = p.state) (f p) Q) : Tri (fun _ => True) (getPeer j >>= f) Q := by
  apply Tri.bind (Q := fun p s => pst j s = p.state)
  · constructor
    intro s _
    show okish _ (Except.ok (s.peers.getD j {}, s))
    rfl
  · exact h

/-- `setPeerState` while the state of the instance is known to be `st`, then anything safe -/
theorem tri_set_then {β} (c : Cfg) (j : Nat) (st ns : IState) (hok : okTo st ns) (k : M β) (hk : Safe k) :
    Tri (fun s => pst j s = st) (setPeerState c j ns >>= fun _ => k) (fun _ _ => True) := by
  apply Tri.bind (Q := fun _ _ => True)
  · exact (tri_setPeerState c j ns).conseq (fun s hs => by rw [hs]; exact hok) (fun _ _ h => h)
  · intro _; exact hk.tri _

theorem tri_set (c : Cfg) (j : Nat) (st ns : IState) (hok : okTo st ns) :
    Tri (fun s => pst j s = st) (setPeerState c j ns) (fun _ _ => True) :=
  (tri_setPeerState c j ns).conseq (fun s hs => by rw [hs]; exact hok) (fun _ _ h => h)

/-- an update of the counters of a peer keeps its state -/
theorem tri_modifyPeer_keeps (j : Nat) (f : Peer → Peer) (hf : ∀ p, (f p).state = p.state) (st : IState) :
    Tri (fun s => pst j s = st) (modifyPeer j f) (fun _ s => pst j s = st) := by
  constructor
  intro s hs
  show okish _ (Except.ok ((), { s with peers := s.peers.modify j f }))
  show pst j { s with peers := s.peers.modify j f } = st
  unfold pst at *
  simp only [List.getD_eq_getElem?_getD, List.getElem?_modify]
  cases h : s.peers[j]? with
  | none => simp [h] at hs ⊢; exact hs
  | some p => simp [h] at hs ⊢; rw [hf]; exact hs

theorem active_okTo_failed (st : IState) (h : st.active = true) : okTo st .failed := by
  cases st <;> first | (revert h; decide) | decide

/-- `Context.invalidate` from CHECKING (refused handshake) or FAILED -/
theorem tri_invalidate (c : Cfg) (j : Nat) (fence : Bool) (st : IState) (h : st = .checking ∨ st = .failed) :
    Tri (fun s => pst j s = st) (invalidate c j fence) (fun _ _ => True) := by
  have h1 : okTo st .stopped := by rcases h with h | h <;> subst h <;> decide
  have h2 : okTo st .isolated := by rcases h with h | h <;> subst h <;> decide
  unfold invalidate
  split
  · exact tri_set c j st _ h1
  · apply Tri.bind ((ro_masterState c).frame _)
    intro ms
    dsimp only
    split <;> (split <;> first | exact tri_set c j st _ h2 | exact tri_set c j st _ h1)

/-! ## the handlers -/

theorem safe_timerCheck (c : Cfg) (k : Nat) : Safe (timerCheck c k) := by
  unfold timerCheck
  apply Safe.bind
  · apply Safe.forIn
    intro j r
    apply tri_getPeer_then
    intro p
    split
    · rename_i hg
      exact tri_set_then c j p.state .failed (active_okTo_failed _ hg.1) _ (Safe.pure _)
    · exact (Safe.pure _).tri _
  · intro _; exact Safe.pure _
macro_rules | `(tactic| safe_leaf) => `(tactic| exact safe_timerCheck _ _)

theorem safe_invalidateFailed (c : Cfg) : Safe (invalidateFailed c) := by
  unfold invalidateFailed
  apply Safe.bind
  · apply Safe.forIn
    intro j r
    apply tri_getPeer_then
    intro p
    split
    · rename_i hg
      apply Tri.bind (Q := fun _ _ => True)
      · exact (tri_invalidate c j false p.state (Or.inr hg))
      · intro _; exact (Safe.pure _).tri _
    · exact (Safe.pure _).tri _
  · intro _; exact Safe.pure _
macro_rules | `(tactic| safe_leaf) => `(tactic| exact safe_invalidateFailed _)

theorem safe_activateChecked (c : Cfg) : Safe (activateChecked c) := by
  unfold activateChecked
  apply Safe.bind
  · apply Safe.forIn
    intro j r
    apply tri_getPeer_then
    intro p
    split
    · rename_i hg
      exact tri_set_then c j p.state .running (by rw [hg]; decide) _ (Safe.pure _)
    · exact (Safe.pure _).tri _
  · intro _; exact Safe.pure _
macro_rules | `(tactic| safe_leaf) => `(tactic| exact safe_activateChecked _)

/-! ## everything else is compositional -/

theorem safe_isRunningLocal (c : Cfg) (j : Nat) : Safe (isRunningLocal c j) := by unfold isRunningLocal; safe_auto
macro_rules | `(tactic| safe_leaf) => `(tactic| exact safe_isRunningLocal _ _)
theorem safe_evaluateStability (c : Cfg) : Safe (evaluateStability c) := by unfold evaluateStability; safe_auto
macro_rules | `(tactic| safe_leaf) => `(tactic| exact safe_evaluateStability _)
theorem safe_isStable : Safe (isStable ) := by unfold isStable; safe_auto
macro_rules | `(tactic| safe_leaf) => `(tactic| exact safe_isStable )
theorem safe_masterIds (c : Cfg) : Safe (masterIds c) := by unfold masterIds; safe_auto
macro_rules | `(tactic| safe_leaf) => `(tactic| exact safe_masterIds _)
theorem safe_checkMaster (c : Cfg) : Safe (checkMaster c) := by unfold checkMaster; safe_auto
macro_rules | `(tactic| safe_leaf) => `(tactic| exact safe_checkMaster _)
theorem safe_selectMaster (c : Cfg) : Safe (selectMaster c) := by unfold selectMaster; safe_auto
macro_rules | `(tactic| safe_leaf) => `(tactic| exact safe_selectMaster _)
theorem safe_stableSubset (l : List Nat) : Safe (stableSubset l) := by unfold stableSubset; safe_auto
macro_rules | `(tactic| safe_leaf) => `(tactic| exact safe_stableSubset _)
theorem safe_initialRunning (c : Cfg) : Safe (initialRunning c) := by unfold initialRunning; safe_auto
macro_rules | `(tactic| safe_leaf) => `(tactic| exact safe_initialRunning _)
theorem safe_allRunning (c : Cfg) : Safe (allRunning c) := by unfold allRunning; safe_auto
macro_rules | `(tactic| safe_leaf) => `(tactic| exact safe_allRunning _)
theorem safe_coreRunning (c : Cfg) : Safe (coreRunning c) := by unfold coreRunning; safe_auto
macro_rules | `(tactic| safe_leaf) => `(tactic| exact safe_coreRunning _)
theorem safe_checkStrictFailure (c : Cfg) : Safe (checkStrictFailure c) := by unfold checkStrictFailure; safe_auto
macro_rules | `(tactic| safe_leaf) => `(tactic| exact safe_checkStrictFailure _)
theorem safe_checkListFailure (c : Cfg) : Safe (checkListFailure c) := by unfold checkListFailure; safe_auto
macro_rules | `(tactic| safe_leaf) => `(tactic| exact safe_checkListFailure _)
theorem safe_checkCoreFailure (c : Cfg) : Safe (checkCoreFailure c) := by unfold checkCoreFailure; safe_auto
macro_rules | `(tactic| safe_leaf) => `(tactic| exact safe_checkCoreFailure _)
theorem safe_checkUserFailure (c : Cfg) : Safe (checkUserFailure c) := by unfold checkUserFailure; safe_auto
macro_rules | `(tactic| safe_leaf) => `(tactic| exact safe_checkUserFailure _)
theorem safe_fsmState (c : Cfg) : Safe (fsmState c) := by unfold fsmState; safe_auto
macro_rules | `(tactic| safe_leaf) => `(tactic| exact safe_fsmState _)
theorem safe_isMaster (c : Cfg) : Safe (isMaster c) := by unfold isMaster; safe_auto
macro_rules | `(tactic| safe_leaf) => `(tactic| exact safe_isMaster _)
theorem safe_localRunning (c : Cfg) : Safe (localRunning c) := by unfold localRunning; safe_auto
macro_rules | `(tactic| safe_leaf) => `(tactic| exact safe_localRunning _)
theorem safe_masterState (c : Cfg) : Safe (masterState c) := by unfold masterState; safe_auto
macro_rules | `(tactic| safe_leaf) => `(tactic| exact safe_masterState _)
theorem safe_isValid (j : Nat) : Safe (isValid j) := by unfold isValid; safe_auto
macro_rules | `(tactic| safe_leaf) => `(tactic| exact safe_isValid _)
theorem safe_checkFailureStrategy (c : Cfg) : Safe (checkFailureStrategy c) := by unfold checkFailureStrategy; safe_auto
macro_rules | `(tactic| safe_leaf) => `(tactic| exact safe_checkFailureStrategy _)
theorem safe_checkConsistence (c : Cfg) (f : SState) : Safe (checkConsistence c f) := by unfold checkConsistence; safe_auto
macro_rules | `(tactic| safe_leaf) => `(tactic| exact safe_checkConsistence _ _)
theorem safe_checkInstances (c : Cfg) (f : SState) : Safe (checkInstances c f) := by unfold checkInstances; safe_auto
macro_rules | `(tactic| safe_leaf) => `(tactic| exact safe_checkInstances _ _)
theorem safe_masterFailJobs : Safe (masterFailJobs ) := by unfold masterFailJobs; safe_auto
macro_rules | `(tactic| safe_leaf) => `(tactic| exact safe_masterFailJobs )
theorem safe_baseNext (c : Cfg) (f : SState) : Safe (baseNext c f) := by unfold baseNext; safe_auto
macro_rules | `(tactic| safe_leaf) => `(tactic| exact safe_baseNext _ _)
theorem safe_endSyncUser (c : Cfg) : Safe (endSyncUser c) := by unfold endSyncUser; safe_auto
macro_rules | `(tactic| safe_leaf) => `(tactic| exact safe_endSyncUser _)
theorem safe_nextSync (c : Cfg) : Safe (nextSync c) := by unfold nextSync; safe_auto
macro_rules | `(tactic| safe_leaf) => `(tactic| exact safe_nextSync _)
theorem safe_nextElection (c : Cfg) : Safe (nextElection c) := by unfold nextElection; safe_auto
macro_rules | `(tactic| safe_leaf) => `(tactic| exact safe_nextElection _)
theorem safe_nextDistribution (c : Cfg) : Safe (nextDistribution c) := by unfold nextDistribution; safe_auto
macro_rules | `(tactic| safe_leaf) => `(tactic| exact safe_nextDistribution _)
theorem safe_nextOperation (c : Cfg) : Safe (nextOperation c) := by unfold nextOperation; safe_auto
macro_rules | `(tactic| safe_leaf) => `(tactic| exact safe_nextOperation _)
theorem safe_nextConciliation (c : Cfg) : Safe (nextConciliation c) := by unfold nextConciliation; safe_auto
macro_rules | `(tactic| safe_leaf) => `(tactic| exact safe_nextConciliation _)
theorem safe_nextEnding (c : Cfg) (self : SState) : Safe (nextEnding c self) := by unfold nextEnding; safe_auto
macro_rules | `(tactic| safe_leaf) => `(tactic| exact safe_nextEnding _ _)
theorem safe_stateNext (c : Cfg) (f : SState) : Safe (stateNext c f) := by unfold stateNext; safe_auto
macro_rules | `(tactic| safe_leaf) => `(tactic| exact safe_stateNext _ _)
theorem safe_stateEnter (c : Cfg) (f : SState) : Safe (stateEnter c f) := by unfold stateEnter; safe_auto
macro_rules | `(tactic| safe_leaf) => `(tactic| exact safe_stateEnter _ _)
theorem safe_stateExit (c : Cfg) (f : SState) : Safe (stateExit c f) := by unfold stateExit; safe_auto
macro_rules | `(tactic| safe_leaf) => `(tactic| exact safe_stateExit _ _)

theorem safe_setState (c : Cfg) (nxt : Option SState) (fuel : Nat) : Safe (setState c nxt fuel) := by
  induction fuel generalizing nxt with
  | zero => unfold setState; exact Safe.pure _
  | succ n ih =>
    unfold setState
    safe_auto
    all_goals first | exact ih _ | skip
macro_rules | `(tactic| safe_leaf) => `(tactic| exact safe_setState _ _ _)
theorem safe_fsmNext (c : Cfg) : Safe (fsmNext c) := by unfold fsmNext; safe_auto
macro_rules | `(tactic| safe_leaf) => `(tactic| exact safe_fsmNext _)
theorem safe_deferredPublish (c : Cfg) : Safe (deferredPublish c) := by unfold deferredPublish; safe_auto
macro_rules | `(tactic| safe_leaf) => `(tactic| exact safe_deferredPublish _)
theorem safe_handleState (c : Cfg) (j : Nat) (m : Modes) : Safe (handleState c j m) := by unfold handleState; safe_auto
theorem safe_handleEnd (c : Cfg) (sd : Bool) : Safe (handleEnd c sd) := by unfold handleEnd; safe_auto
theorem safe_handleEndSync (c : Cfg) (m : Option Nat) : Safe (handleEndSync c m) := by unfold handleEndSync; safe_auto

/-! ## the handlers that assign an instance state -/

theorem safe_handleLtick (c : Cfg) (k : Nat) : Safe (handleLtick c k) := by
  unfold handleLtick
  apply tri_getPeer_then
  intro p
  refine Tri.bind (tri_modifyPeer_keeps c.me (fun q => { q with remoteCounter := k, localCounter := k }) (fun _ => rfl) p.state) ?_
  intro _
  dsimp only
  split
  · rename_i hg
    apply tri_set_then c c.me p.state .checking (by rw [hg]; decide)
    safe_auto
  · apply Safe.tri
    safe_auto

theorem safe_handleRtick (c : Cfg) (j k : Nat) : Safe (handleRtick c j k) := by
  unfold handleRtick
  apply Safe.bind (safe_isValid j)
  intro b
  split
  · exact Safe.pure _
  · apply Safe.bind (safe_getPeer _)
    intro q
    dsimp only
    split
    · exact Safe.pure _
    · apply Safe.bind (safe_getPeer _)
      intro q2
      apply tri_getPeer_then
      intro p
      refine Tri.bind (tri_modifyPeer_keeps j (fun x => { x with remoteCounter := k, localCounter := if k < p.remoteCounter then 0 else q2.remoteCounter })
        (fun _ => rfl) p.state) ?_
      intro _
      split
      · rename_i hg
        exact tri_set_then c j p.state .checking (by rw [hg]; decide) _ (safe_emit _)
      · exact (Safe.pure _).tri _

theorem safe_handleAuth (c : Cfg) (j code ts : Nat) : Safe (handleAuth c j code ts) := by
  unfold handleAuth
  apply Safe.bind (safe_isValid j)
  intro b
  split
  · exact Safe.pure _
  · apply tri_getPeer_then
    intro p
    split
    · exact (Safe.pure _).tri _
    · rename_i hg
      have hst : p.state = .checking := by
        by_cases h : p.state = IState.checking ∧ ts > p.checkingTime
        · exact h.1
        · exfalso; apply hg; simp [h]
      split
      · exact tri_set c j p.state .stopped (by rw [hst]; decide)
      · exact tri_set c j p.state .checked (by rw [hst]; decide)
      · exact tri_invalidate c j true p.state (Or.inl hst)

theorem safe_handleAllinfoNone (c : Cfg) (j : Nat) : Safe (handleAllinfoNone c j) := by
  unfold handleAllinfoNone
  apply Safe.bind (safe_isValid j)
  intro b
  split
  · exact Safe.pure _
  · apply tri_getPeer_then
    intro p
    split
    · rename_i hg
      exact tri_set c j p.state .stopped (by rw [hg]; decide)
    · exact (Safe.pure _).tri _

theorem safe_handleFailure (c : Cfg) (j : Nat) : Safe (handleFailure c j) := by
  unfold handleFailure
  apply Safe.bind (safe_isValid j)
  intro b
  split
  · exact Safe.pure _
  · apply tri_getPeer_then
    intro p
    split
    · rename_i hg
      exact tri_set c j p.state .failed (active_okTo_failed _ hg)
    · exact (Safe.pure _).tri _

/-- every operation of an instance, from every state -/
theorem safe_handle (c : Cfg) (op : Op) : Safe (handle c op) := by
  cases op <;> unfold handle
  · exact safe_fsmNext c
  · exact safe_handleLtick c _
  · exact safe_handleRtick c _ _
  · exact safe_handleState c _ _
  · exact safe_handleAuth c _ _ _
  · exact safe_handleAllinfoNone c _
  · exact safe_handleFailure c _
  · exact safe_handleEnd c false
  · exact safe_handleEnd c true
  · exact safe_handleEndSync c _

end Supv.Inst
