import Supv.Lemmas.InstMoves

/-! Kit for C09 (`C09_one_order_then_final`): the orders to the local Supervisor (`restartLocal` / `shutdownLocal`) are only
    emitted when the FSM leaves RESTARTING / SHUTTING_DOWN for FINAL.  `Quiet`: a computation that keeps the FSM state and emits
    no order; `Ord`: a computation that emits at most one order, and only on its way to FINAL. -/

namespace Supv.Inst

def isOrder : Out → Bool
  | .restartLocal | .shutdownLocal => true
  | _ => false
def orders (l : List Out) : Nat := (l.filter isOrder).length

theorem orders_append (a b : List Out) : orders (a ++ b) = orders a + orders b := by simp [orders, List.filter_append]
@[simp] theorem orders_nil : orders [] = 0 := rfl

/-- `x` keeps the local FSM state and only appends non-order records to the log -/
structure Quiet (c : Cfg) {α} (x : M α) : Prop where
  run : ∀ s a s', x.run s = .ok (a, s') → fsmOf c s' = fsmOf c s ∧ s'.modes.length = s.modes.length
    ∧ ∃ new, s'.out = s.out ++ new ∧ orders new = 0

namespace Quiet
variable {c : Cfg}

theorem pure {α} (a : α) : Quiet c (Pure.pure a : M α) := by
  constructor
  intro s a' s' h
  simp [StateT.run, Pure.pure, StateT.pure, Except.pure] at h
  obtain ⟨_, rfl⟩ := h; exact ⟨rfl, rfl, [], by simp, rfl⟩

theorem bind {α β} {x : M α} {f : α → M β} (hx : Quiet c x) (hf : ∀ a, Quiet c (f a)) : Quiet c (x >>= f) := by
  constructor
  intro s b s' h
  obtain ⟨a, s1, h1, h2⟩ := run_bind _ _ _ _ _ h
  obtain ⟨k1, k2, n1, k3, k4⟩ := hx.run s a s1 h1
  obtain ⟨l1, l2, n2, l3, l4⟩ := (hf a).run s1 b s' h2
  exact ⟨l1.trans k1, l2.trans k2, n1 ++ n2, by rw [l3, k3, List.append_assoc], by rw [orders_append, k4, l4]⟩

theorem get : Quiet c (MonadState.get : M St) := by
  constructor
  intro s a s' h
  simp [StateT.run, MonadState.get, getThe, MonadStateOf.get, StateT.get, Pure.pure, Except.pure] at h
  obtain ⟨_, rfl⟩ := h; exact ⟨rfl, rfl, [], by simp, rfl⟩

theorem throw {α} (e : Err) : Quiet c (MonadExcept.throw e : M α) := by
  constructor
  intro s a s' h
  have : (MonadExcept.throw e : M α).run s = Except.error e := rfl
  rw [this] at h; cases h

theorem modify (f : St → St) (hf : ∀ s, fsmOf c (f s) = fsmOf c s ∧ (f s).modes.length = s.modes.length
    ∧ ∃ new, (f s).out = s.out ++ new ∧ orders new = 0) : Quiet c (modify f : M Unit) := by
  constructor
  intro s a s' h
  simp [StateT.run, _root_.modify, modifyGet, MonadStateOf.modifyGet, StateT.modifyGet, Pure.pure, Except.pure] at h
  obtain ⟨_, rfl⟩ := h; exact hf s

theorem forIn {α β} (l : List α) (init : β) (f : α → β → M (ForInStep β))
    (hf : ∀ a b, Quiet c (f a b)) : Quiet c (forIn l init f) := by
  induction l generalizing init with
  | nil => simp only [List.forIn_nil]; exact pure _
  | cons a t ih =>
    simp only [List.forIn_cons]
    apply bind (hf a init)
    intro r
    cases r with
    | done b => exact pure _
    | yield b => exact ih b

theorem keeps {α} {x : M α} (h : Quiet c x) : Keeps c x := ⟨fun s a s' hr => ⟨(h.run s a s' hr).1, (h.run s a s' hr).2.1⟩⟩
end Quiet

/-! leaves -/
theorem quiet_emit (c : Cfg) (o : Out) (ho : isOrder o = false) : Quiet c (emit o) :=
  Quiet.modify _ (fun s => ⟨rfl, rfl, [o], rfl, by simp [orders, ho]⟩)
theorem quiet_modifyPeer (c : Cfg) (j : Nat) (f : Peer → Peer) : Quiet c (modifyPeer j f) := Quiet.modify _ (fun _ => ⟨rfl, rfl, [], by simp, rfl⟩)
theorem quiet_setPeer (c : Cfg) (j : Nat) (p : Peer) : Quiet c (setPeer j p) := Quiet.modify _ (fun _ => ⟨rfl, rfl, [], by simp, rfl⟩)
theorem quiet_getPeer (c : Cfg) (j : Nat) : Quiet c (getPeer j) := Quiet.bind Quiet.get (fun _ => Quiet.pure _)
theorem quiet_getModes (c : Cfg) (j : Nat) : Quiet c (getModes j) := Quiet.bind Quiet.get (fun _ => Quiet.pure _)
theorem quiet_localModes (c : Cfg) : Quiet c (localModes c) := quiet_getModes c _

theorem quiet_modifyLocal (c : Cfg) (f : Modes → Modes) (hf : ∀ m, (f m).fsm = m.fsm) : Quiet c (modifyLocal c f) := by
  apply Quiet.modify
  intro s
  refine ⟨?_, by simp, [], by simp, rfl⟩
  unfold fsmOf
  simp only [List.getElem?_modify]
  cases h : s.modes[c.me]? with
  | none => simp
  | some m => simp [hf]

theorem quiet_setRemoteModes (c : Cfg) (j : Nat) (m : Modes) : Quiet c (setRemoteModes c j m) := by
  unfold setRemoteModes
  split
  · exact Quiet.pure _
  · rename_i hj
    apply Quiet.modify
    intro s
    refine ⟨?_, by simp, [], by simp, rfl⟩
    unfold fsmOf
    simp [List.getElem?_set_ne hj]

syntax "quiet_leaf" : tactic
macro_rules | `(tactic| quiet_leaf) => `(tactic| first
  | exact Quiet.pure _ | exact Quiet.get | exact Quiet.throw _
  | exact quiet_emit _ _ rfl | exact quiet_modifyPeer _ _ _ | exact quiet_setPeer _ _ _ | exact quiet_getPeer _ _
  | exact quiet_getModes _ _ | exact quiet_localModes _ | exact quiet_setRemoteModes _ _ _
  | exact quiet_modifyLocal _ _ (fun _ => rfl)
  | exact Quiet.modify _ (fun _ => ⟨rfl, rfl, [], by simp, rfl⟩)
  | assumption)

macro "quiet_step" : tactic => `(tactic| first
  | (with_reducible quiet_leaf)
  | (with_reducible apply Quiet.bind)
  | (with_reducible apply Quiet.forIn)
  | (intro _)
  | (split)
  | (dsimp only)
  | quiet_leaf
  | (apply Quiet.bind)
  | (apply Quiet.forIn))
macro "quiet_auto" : tactic => `(tactic| repeat quiet_step)

theorem quiet_publish (c : Cfg) : Quiet c (publish c) := by unfold publish; quiet_auto
macro_rules | `(tactic| quiet_leaf) => `(tactic| exact quiet_publish _)

theorem quiet_askNat (c : Cfg) (q : Query) : Quiet c (askNat q) := by unfold askNat; quiet_auto
macro_rules | `(tactic| quiet_leaf) => `(tactic| exact quiet_askNat _ _)
theorem quiet_ask (c : Cfg) (q : Query) : Quiet c (ask q) := by unfold ask; quiet_auto
macro_rules | `(tactic| quiet_leaf) => `(tactic| exact quiet_ask _ _)

theorem quiet_setMaster (c : Cfg) (m : Option Nat) : Quiet c (setMaster c m) := by unfold setMaster; quiet_auto
macro_rules | `(tactic| quiet_leaf) => `(tactic| exact quiet_setMaster _ _)
theorem quiet_setDegraded (c : Cfg) (d : Bool) : Quiet c (setDegraded c d) := by unfold setDegraded; quiet_auto
macro_rules | `(tactic| quiet_leaf) => `(tactic| exact quiet_setDegraded _ _)
theorem quiet_updateInstanceState (c : Cfg) (j : Nat) (ns : IState) : Quiet c (updateInstanceState c j ns) := by
  unfold updateInstanceState; quiet_auto
macro_rules | `(tactic| quiet_leaf) => `(tactic| exact quiet_updateInstanceState _ _ _)
theorem quiet_setPeerState (c : Cfg) (j : Nat) (ns : IState) : Quiet c (setPeerState c j ns) := by
  unfold setPeerState; quiet_auto
macro_rules | `(tactic| quiet_leaf) => `(tactic| exact quiet_setPeerState _ _ _)
theorem quiet_masterState (c : Cfg) : Quiet c (masterState c) := by unfold masterState; quiet_auto
macro_rules | `(tactic| quiet_leaf) => `(tactic| exact quiet_masterState _)
theorem quiet_invalidate (c : Cfg) (j : Nat) (f : Bool) : Quiet c (invalidate c j f) := by unfold invalidate; quiet_auto
macro_rules | `(tactic| quiet_leaf) => `(tactic| exact quiet_invalidate _ _ _)
theorem quiet_invalidateFailed (c : Cfg) : Quiet c (invalidateFailed c) := by unfold invalidateFailed; quiet_auto
macro_rules | `(tactic| quiet_leaf) => `(tactic| exact quiet_invalidateFailed _)
theorem quiet_activateChecked (c : Cfg) : Quiet c (activateChecked c) := by unfold activateChecked; quiet_auto
macro_rules | `(tactic| quiet_leaf) => `(tactic| exact quiet_activateChecked _)
theorem quiet_isRunningLocal (c : Cfg) (j : Nat) : Quiet c (isRunningLocal c j) := by unfold isRunningLocal; quiet_auto
macro_rules | `(tactic| quiet_leaf) => `(tactic| exact quiet_isRunningLocal _ _)
theorem quiet_evaluateStability (c : Cfg) : Quiet c (evaluateStability c) := by unfold evaluateStability; quiet_auto
macro_rules | `(tactic| quiet_leaf) => `(tactic| exact quiet_evaluateStability _)
theorem quiet_isStable (c : Cfg) : Quiet c (isStable : M Bool) := by unfold isStable; quiet_auto
macro_rules | `(tactic| quiet_leaf) => `(tactic| exact quiet_isStable _)
theorem quiet_masterIds (c : Cfg) : Quiet c (masterIds c) := by unfold masterIds; quiet_auto
macro_rules | `(tactic| quiet_leaf) => `(tactic| exact quiet_masterIds _)
theorem quiet_checkMaster (c : Cfg) : Quiet c (checkMaster c) := by unfold checkMaster; quiet_auto
macro_rules | `(tactic| quiet_leaf) => `(tactic| exact quiet_checkMaster _)
theorem quiet_selectMaster (c : Cfg) : Quiet c (selectMaster c) := by unfold selectMaster; quiet_auto
macro_rules | `(tactic| quiet_leaf) => `(tactic| exact quiet_selectMaster _)
theorem quiet_stableSubset (c : Cfg) (l : List Nat) : Quiet c (stableSubset l) := by unfold stableSubset; quiet_auto
macro_rules | `(tactic| quiet_leaf) => `(tactic| exact quiet_stableSubset _ _)
theorem quiet_initialRunning (c : Cfg) : Quiet c (initialRunning c) := by unfold initialRunning; quiet_auto
theorem quiet_allRunning (c : Cfg) : Quiet c (allRunning c) := by unfold allRunning; quiet_auto
theorem quiet_coreRunning (c : Cfg) : Quiet c (coreRunning c) := by unfold coreRunning; quiet_auto
macro_rules | `(tactic| quiet_leaf) => `(tactic| first | exact quiet_initialRunning _ | exact quiet_allRunning _ | exact quiet_coreRunning _)
theorem quiet_checkStrictFailure (c : Cfg) : Quiet c (checkStrictFailure c) := by unfold checkStrictFailure; quiet_auto
theorem quiet_checkListFailure (c : Cfg) : Quiet c (checkListFailure c) := by unfold checkListFailure; quiet_auto
theorem quiet_checkCoreFailure (c : Cfg) : Quiet c (checkCoreFailure c) := by unfold checkCoreFailure; quiet_auto
theorem quiet_checkUserFailure (c : Cfg) : Quiet c (checkUserFailure c) := by unfold checkUserFailure; quiet_auto
macro_rules | `(tactic| quiet_leaf) => `(tactic| first | exact quiet_checkStrictFailure _ | exact quiet_checkListFailure _ | exact quiet_checkCoreFailure _ | exact quiet_checkUserFailure _)
theorem quiet_fsmState (c : Cfg) : Quiet c (fsmState c) := by unfold fsmState; quiet_auto
theorem quiet_isMaster (c : Cfg) : Quiet c (isMaster c) := by unfold isMaster; quiet_auto
theorem quiet_localRunning (c : Cfg) : Quiet c (localRunning c) := by unfold localRunning; quiet_auto
macro_rules | `(tactic| quiet_leaf) => `(tactic| first | exact quiet_fsmState _ | exact quiet_isMaster _ | exact quiet_localRunning _)
theorem quiet_checkFailureStrategy (c : Cfg) : Quiet c (checkFailureStrategy c) := by unfold checkFailureStrategy; quiet_auto
macro_rules | `(tactic| quiet_leaf) => `(tactic| exact quiet_checkFailureStrategy _)
theorem quiet_checkConsistence (c : Cfg) (f : SState) : Quiet c (checkConsistence c f) := by unfold checkConsistence; quiet_auto
macro_rules | `(tactic| quiet_leaf) => `(tactic| exact quiet_checkConsistence _ _)
theorem quiet_checkInstances (c : Cfg) (f : SState) : Quiet c (checkInstances c f) := by unfold checkInstances; quiet_auto
macro_rules | `(tactic| quiet_leaf) => `(tactic| exact quiet_checkInstances _ _)
theorem quiet_masterFailJobs (c : Cfg) : Quiet c masterFailJobs := by unfold masterFailJobs; quiet_auto
macro_rules | `(tactic| quiet_leaf) => `(tactic| exact quiet_masterFailJobs _)
theorem quiet_baseNext (c : Cfg) (f : SState) : Quiet c (baseNext c f) := by unfold baseNext; quiet_auto
theorem quiet_endSyncUser (c : Cfg) : Quiet c (endSyncUser c) := by unfold endSyncUser; quiet_auto
macro_rules | `(tactic| quiet_leaf) => `(tactic| first | exact quiet_baseNext _ _ | exact quiet_endSyncUser _)
theorem quiet_nextSync (c : Cfg) : Quiet c (nextSync c) := by unfold nextSync; quiet_auto
theorem quiet_nextElection (c : Cfg) : Quiet c (nextElection c) := by unfold nextElection; quiet_auto
theorem quiet_nextDistribution (c : Cfg) : Quiet c (nextDistribution c) := by unfold nextDistribution; quiet_auto
theorem quiet_nextOperation (c : Cfg) : Quiet c (nextOperation c) := by unfold nextOperation; quiet_auto
theorem quiet_nextConciliation (c : Cfg) : Quiet c (nextConciliation c) := by unfold nextConciliation; quiet_auto
theorem quiet_nextEnding (c : Cfg) (f : SState) : Quiet c (nextEnding c f) := by unfold nextEnding; quiet_auto
macro_rules | `(tactic| quiet_leaf) => `(tactic| first | exact quiet_nextSync _ | exact quiet_nextElection _ | exact quiet_nextDistribution _ | exact quiet_nextOperation _ | exact quiet_nextConciliation _ | exact quiet_nextEnding _ _)
theorem quiet_stateNext (c : Cfg) (f : SState) : Quiet c (stateNext c f) := by unfold stateNext; quiet_auto
theorem quiet_stateEnter (c : Cfg) (f : SState) : Quiet c (stateEnter c f) := by unfold stateEnter; quiet_auto




theorem quiet_isValid (c : Cfg) (j : Nat) : Quiet c (isValid j) := by unfold isValid; quiet_auto
macro_rules | `(tactic| quiet_leaf) => `(tactic| exact quiet_isValid _ _)
theorem quiet_timerCheck (c : Cfg) (k : Nat) : Quiet c (timerCheck c k) := by unfold timerCheck; quiet_auto
theorem quiet_deferredPublish (c : Cfg) : Quiet c (deferredPublish c) := by unfold deferredPublish; quiet_auto
macro_rules | `(tactic| quiet_leaf) => `(tactic| first | exact quiet_timerCheck _ _ | exact quiet_deferredPublish _)

/-! ## at most one order, on the way to FINAL -/

theorem path_from_final {a : SState} (h : Path .final a) : a = .final := by
  cases h with
  | refl => rfl
  | step hab _ =>
    have : SState.final.next = [] := by decide
    rw [this] at hab; cases hab

/-- `x` moves the FSM along the table, emits at most one order, a computation that emitted one ends in FINAL, and none is emitted
    from FINAL -/
structure Ord (c : Cfg) {α} (x : M α) : Prop where
  run : ∀ s a s', x.run s = .ok (a, s') → c.me < s.modes.length →
    Path (fsmOf c s) (fsmOf c s') ∧ s'.modes.length = s.modes.length ∧
    ∃ new, s'.out = s.out ++ new ∧ orders new ≤ 1 ∧ (orders new = 1 → fsmOf c s' = .final ∧ fsmOf c s ≠ .final)

theorem Quiet.ord {c : Cfg} {α} {x : M α} (h : Quiet c x) : Ord c x :=
  ⟨fun s a s' hr _ => by
    obtain ⟨k1, k2, n, k3, k4⟩ := h.run s a s' hr
    exact ⟨by rw [k1]; exact Path.refl _, k2, n, k3, by omega, fun h1 => by omega⟩⟩

theorem Ord.bind {c : Cfg} {α β} {x : M α} {f : α → M β} (hx : Ord c x) (hf : ∀ a, Ord c (f a)) : Ord c (x >>= f) := by
  constructor
  intro s b s' h hwf
  obtain ⟨a, s1, h1, h2⟩ := run_bind _ _ _ _ _ h
  obtain ⟨p1, l1, n1, o1, c1, f1⟩ := hx.run s a s1 h1 hwf
  obtain ⟨p2, l2, n2, o2, c2, f2⟩ := (hf a).run s1 b s' h2 (by rw [l1]; exact hwf)
  refine ⟨Path.trans p1 p2, l2.trans l1, n1 ++ n2, by rw [o2, o1, List.append_assoc], ?_, ?_⟩
  · rw [orders_append]
    by_cases h1 : orders n1 = 1
    · -- already FINAL: nothing more can be emitted
      have hfin := (f1 h1).1
      by_cases h2 : orders n2 = 1
      · exact absurd hfin (f2 h2).2
      · omega
    · omega
  · intro htot
    rw [orders_append] at htot
    by_cases h1 : orders n1 = 1
    · have hfin := (f1 h1).1
      refine ⟨?_, (f1 h1).2⟩
      rw [hfin] at p2
      exact path_from_final p2
    · have h2 : orders n2 = 1 := by omega
      refine ⟨(f2 h2).1, ?_⟩
      intro hs
      rw [hs] at p1
      exact (f2 h2).2 (path_from_final p1)

/-- `stateExit`: the order is emitted when leaving RESTARTING / SHUTTING_DOWN, nothing else changes -/
theorem run_stateExit (c : Cfg) (f : SState) (s s' : St) (u : Unit) (h : (stateExit c f).run s = .ok (u, s')) :
    fsmOf c s' = fsmOf c s ∧ s'.modes.length = s.modes.length ∧
    ∃ new, s'.out = s.out ++ new ∧ orders new ≤ 1 ∧ (orders new = 1 → f = .restarting ∨ f = .shuttingDown) := by
  unfold stateExit at h
  have hq : ∀ o : Out, (emit o).run s = .ok (u, s') → s' = { s with out := s.out ++ [o] } := by
    intro o ho
    simp [emit, StateT.run, _root_.modify, modifyGet, MonadStateOf.modifyGet, StateT.modifyGet, Pure.pure, Except.pure] at ho
    exact ho.symm
  cases f <;> simp only [] at h
  case restarting => rw [hq _ h]; exact ⟨rfl, rfl, [.restartLocal], rfl, by decide, fun _ => Or.inl rfl⟩
  case shuttingDown => rw [hq _ h]; exact ⟨rfl, rfl, [.shutdownLocal], rfl, by decide, fun _ => Or.inr rfl⟩
  all_goals
    simp [StateT.run, Pure.pure, StateT.pure, Except.pure] at h
    obtain ⟨_, rfl⟩ := h
    exact ⟨rfl, rfl, [], by simp, by simp, fun h1 => by simp at h1⟩

/-- `setFsm` only appends publications to the log -/
structure OutQuiet {α} (x : M α) : Prop where
  run : ∀ s a s', x.run s = .ok (a, s') → ∃ new, s'.out = s.out ++ new ∧ orders new = 0

theorem quiet_setFsm_out (c : Cfg) (f : SState) : OutQuiet (setFsm c f) := by
  constructor
  intro s a s' h
  unfold setFsm at h
  obtain ⟨lm, s1, h1, h2⟩ := run_bind _ _ _ _ _ h
  obtain ⟨_, _, n1, o1, c1⟩ := (quiet_localModes c).run _ _ _ h1
  split at h2
  · obtain ⟨_, s2, h3, h4⟩ := run_bind _ _ _ _ _ h2
    have hs2 : s2.out = s1.out := by
      simp [modifyLocal, StateT.run, _root_.modify, modifyGet, MonadStateOf.modifyGet, StateT.modifyGet, Pure.pure, Except.pure] at h3
      rw [← h3]
    obtain ⟨_, _, n3, o3, c3⟩ := (quiet_publish c).run _ _ _ h4
    exact ⟨n1 ++ n3, by rw [o3, hs2, o1, List.append_assoc], by rw [orders_append, c1, c3]⟩
  · simp [StateT.run, Pure.pure, StateT.pure, Except.pure] at h2
    obtain ⟨_, rfl⟩ := h2
    exact ⟨n1, o1, c1⟩

theorem next_of_restarting {t : SState} (h : t ∈ SState.restarting.next) : t = .final := by
  have : SState.restarting.next = [.final] := by decide
  rw [this] at h; simpa using h
theorem next_of_shuttingDown {t : SState} (h : t ∈ SState.shuttingDown.next) : t = .final := by
  have : SState.shuttingDown.next = [.final] := by decide
  rw [this] at h; simpa using h
theorem not_in_final_next {t : SState} (h : t ∈ SState.final.next) : False := by
  have : SState.final.next = [] := by decide
  rw [this] at h; cases h

/-- FiniteStateMachine.set_state: at most one order, emitted on the way to FINAL -/
theorem setState_ord (c : Cfg) (fuel : Nat) : ∀ (nxt : Option SState) (s : St) (u : Unit) (s' : St),
    (setState c nxt fuel).run s = .ok (u, s') → c.me < s.modes.length →
    Path (fsmOf c s) (fsmOf c s') ∧ s'.modes.length = s.modes.length ∧
    ∃ new, s'.out = s.out ++ new ∧ orders new ≤ 1 ∧ (orders new = 1 → fsmOf c s' = .final ∧ fsmOf c s ≠ .final) := by
  induction fuel with
  | zero =>
    intro nxt s u s' h _
    simp [setState, StateT.run, Pure.pure, StateT.pure, Except.pure] at h
    obtain ⟨_, rfl⟩ := h; exact ⟨Path.refl _, rfl, [], by simp, by simp, fun h => by simp at h⟩
  | succ fuel ih =>
    intro nxt s u s' h hwf
    unfold setState at h
    cases nxt with
    | none =>
      simp [StateT.run, Pure.pure, StateT.pure, Except.pure] at h
      obtain ⟨_, rfl⟩ := h; exact ⟨Path.refl _, rfl, [], by simp, by simp, fun h => by simp at h⟩
    | some t =>
      simp only [] at h
      obtain ⟨cur, s1, h1, h2⟩ := run_bind _ _ _ _ _ h
      rw [run_fsmState] at h1
      simp at h1
      obtain ⟨rfl, rfl⟩ := h1
      split at h2
      · simp [StateT.run, Pure.pure, StateT.pure, Except.pure] at h2
        obtain ⟨_, rfl⟩ := h2; exact ⟨Path.refl _, rfl, [], by simp, by simp, fun h => by simp at h⟩
      · split at h2
        · -- refused transition: only a log record
          obtain ⟨k1, k2, n, k3, k4⟩ := (quiet_emit c _ rfl).run _ _ _ h2
          exact ⟨by rw [k1]; exact Path.refl _, k2, n, k3, by omega, fun h => by omega⟩
        · rename_i hne hmem
          simp only [Decidable.not_not] at hmem
          obtain ⟨_, s2, h3, h4⟩ := run_bind _ _ _ _ _ h2
          obtain ⟨e1, e2, nE, e3, e4, e5⟩ := run_stateExit c _ _ _ _ h3
          obtain ⟨_, s3, h5, h6⟩ := run_bind _ _ _ _ _ h4
          have k5 := run_setFsm c t s2 s3 _ h5 (by rw [e2]; exact hwf)
          have q5 := (quiet_setFsm_out c t).run _ _ _ h5
          obtain ⟨_, s4, h7, h8⟩ := run_bind _ _ _ _ _ h6
          obtain ⟨m1, m2, nM, m3, m4⟩ := (Quiet.modify (c := c) (fun s => { s with lost := [], lostProcs := false })
            (fun _ => ⟨rfl, rfl, [], by simp, rfl⟩)).run _ _ _ h7
          obtain ⟨_, s5, h9, h10⟩ := run_bind _ _ _ _ _ h8
          obtain ⟨n1, n2, nN, n3, n4⟩ := (quiet_stateEnter c t).run _ _ _ h9
          obtain ⟨n, s6, h11, h12⟩ := run_bind _ _ _ _ _ h10
          obtain ⟨x1, x2, nX, x3, x4⟩ := (quiet_stateNext c t).run _ _ _ h11
          obtain ⟨nS, s3o, s3c⟩ := q5
          have hlen6 : s6.modes.length = s.modes.length := by rw [x2, n2, m2, k5.2, e2]
          have hfsm6 : fsmOf c s6 = t := by rw [x1, n1, m1, k5.1]
          obtain ⟨r1, r2, nR, r3, r4, r5⟩ := ih n s6 u s' h12 (by rw [hlen6]; exact hwf)
          have hout6 : s6.out = s.out ++ (nE ++ nS ++ nM ++ nN ++ nX) := by
            rw [x3, n3, m3, s3o, e3]; simp [List.append_assoc]
          have hord6 : orders (nE ++ nS ++ nM ++ nN ++ nX) = orders nE := by
            simp only [orders_append]; omega
          refine ⟨?_, by rw [r2, hlen6], (nE ++ nS ++ nM ++ nN ++ nX) ++ nR, by rw [r3, hout6, List.append_assoc], ?_, ?_⟩
          · apply Path.trans (Path.single hmem)
            rw [← hfsm6]; exact r1
          · rw [orders_append, hord6]
            by_cases hE : orders nE = 1
            · -- the order was emitted leaving RESTARTING / SHUTTING_DOWN: the new state is FINAL, nothing follows
              have ht : t = .final := by
                rcases e5 hE with h | h
                · rw [h] at hmem; exact next_of_restarting hmem
                · rw [h] at hmem; exact next_of_shuttingDown hmem
              by_cases hR : orders nR = 1
              · exact absurd (hfsm6.trans ht) (r5 hR).2
              · omega
            · omega
          · intro htot
            rw [orders_append, hord6] at htot
            by_cases hE : orders nE = 1
            · have ht : t = .final := by
                rcases e5 hE with h | h
                · rw [h] at hmem; exact next_of_restarting hmem
                · rw [h] at hmem; exact next_of_shuttingDown hmem
              have h6 : fsmOf c s6 = .final := hfsm6.trans ht
              refine ⟨?_, ?_⟩
              · rw [h6] at r1; exact path_from_final r1
              · rcases e5 hE with h | h <;> (rw [h]; decide)
            · have hR : orders nR = 1 := by omega
              refine ⟨(r5 hR).1, ?_⟩
              intro hs
              -- from FINAL no transition is accepted
              rw [hs] at hmem
              exact not_in_final_next hmem

theorem ord_setState (c : Cfg) (nxt : Option SState) (fuel : Nat) : Ord c (setState c nxt fuel) :=
  ⟨fun s u s' h hwf => setState_ord c fuel nxt s u s' h hwf⟩

theorem ord_fsmNext (c : Cfg) : Ord c (fsmNext c) := by
  unfold fsmNext
  apply Ord.bind (quiet_fsmState c).ord; intro cur
  apply Ord.bind (quiet_stateNext c cur).ord; intro n
  exact ord_setState c n 12

attribute [local irreducible] setState fsmNext

macro "ord_step" : tactic => `(tactic| first
  | exact ord_fsmNext _
  | exact ord_setState _ _ _
  | (with_reducible apply Ord.bind)
  | (intro _)
  | (split)
  | focus (refine Quiet.ord ?_; quiet_auto; done)
  | (dsimp only))
macro "ord_auto" : tactic => `(tactic| repeat ord_step)

theorem ord_ltick (c : Cfg) (k : Nat) : Ord c (handleLtick c k) := by unfold handleLtick; ord_auto
theorem ord_rtick (c : Cfg) (j k : Nat) : Ord c (handleRtick c j k) := by unfold handleRtick; ord_auto
theorem ord_auth (c : Cfg) (j k t : Nat) : Ord c (handleAuth c j k t) := by unfold handleAuth; ord_auto
theorem ord_allinfo (c : Cfg) (j : Nat) : Ord c (handleAllinfoNone c j) := by unfold handleAllinfoNone; ord_auto
theorem ord_failure (c : Cfg) (j : Nat) : Ord c (handleFailure c j) := by unfold handleFailure; ord_auto
theorem ord_state (c : Cfg) (j : Nat) (m : Modes) : Ord c (handleState c j m) := by unfold handleState; ord_auto
theorem ord_end (c : Cfg) (b : Bool) : Ord c (handleEnd c b) := by unfold handleEnd; ord_auto
theorem ord_endSync (c : Cfg) (m : Option Nat) : Ord c (handleEndSync c m) := by
  unfold handleEndSync
  cases m with
  | none =>
    dsimp only
    with_reducible apply Ord.bind
    · exact (quiet_selectMaster c).ord
    · intro _; exact ord_fsmNext c
  | some x =>
    dsimp only
    with_reducible apply Ord.bind
    · exact (quiet_setMaster c _).ord
    · intro _; exact ord_fsmNext c

theorem ord_handle (c : Cfg) (op : Op) : Ord c (handle c op) := by
  cases op with
  | running => exact ord_fsmNext c
  | ltick k => exact ord_ltick c k
  | rtick j k => exact ord_rtick c j k
  | state j m => exact ord_state c j m
  | auth j k t => exact ord_auth c j k t
  | allinfoNone j => exact ord_allinfo c j
  | failure j => exact ord_failure c j
  | restart => exact ord_end c false
  | shutdown => exact ord_end c true
  | endSync m => exact ord_endSync c m

/-- one operation (errors included, any oracle stream): the log of the step holds at most one order to the local Supervisor; a
    step that emits one ends in FINAL and did not start there -/
theorem stepOp_ord (c : Cfg) (s : St) (now : Nat) (op : Op) (orc : List (Query × Nat)) (hwf : c.me < s.modes.length) :
    orders (stepOp c s now op orc).1.out ≤ 1 ∧
    (orders (stepOp c s now op orc).1.out = 1 → fsmOf c (stepOp c s now op orc).1 = .final ∧ fsmOf c s ≠ .final) := by
  unfold stepOp
  cases h : (handle c op).run { s with now := now, out := [], oracle := orc, oracleBad := 0 } with
  | error e => exact ⟨by simp, fun h => by simp at h⟩
  | ok r =>
    obtain ⟨u, s'⟩ := r
    obtain ⟨_, _, n, o, c1, c2⟩ := (ord_handle c op).run _ u s' h hwf
    simp only [List.nil_append] at o
    show orders s'.out ≤ 1 ∧ (orders s'.out = 1 → fsmOf c s' = .final ∧ fsmOf c s ≠ .final)
    rw [o]
    exact ⟨c1, c2⟩

end Supv.Inst
