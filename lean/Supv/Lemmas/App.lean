import Supv.Spec.C15

/-!
# Helper lemmas for C15 (model `Supv.App` against the specification `Supv.Spec.C15`)

* the loops of `update_state` / `update_status_required` in closed form;
* `sequenced`: a process is in the start sequence map iff the application is managed;
* `evaluate` agrees with the compositional denotation `sem` on EVERY formula evaluated within the stack budget
  (`depth`: nesting of the positions `evaluate` descends into), when every pattern either compiles or raises one of the
  exception classes `_get_matches` maps to a parse error (`regexMapped`);
* `update` only reads the rows (displayed state, expected-exit flag, required flag) of the processes.
-/

namespace Supv.App
open Supv.Spec.C15

/-! ### Application state -/

theorem foldl_stateStep (ps : List P) (fl : Flags) :
    ps.foldl stateStep fl =
      { starting := fl.starting || ps.any (fun p => displayed p = .starting ∨ displayed p = .backoff),
        running := fl.running || ps.any (fun p => displayed p = .running),
        stopping := fl.stopping || ps.any (fun p => displayed p = .stopping) } := by
  induction ps generalizing fl with
  | nil => simp
  | cons p t ih =>
    rw [List.foldl_cons, ih]
    unfold stateStep
    cases hd : displayed p <;> simp [hd]

theorem updateState_eq (ps : List P) : updateState ps = stateOf (ps.map displayed) := by
  unfold updateState
  rw [foldl_stateStep]
  unfold stateOfFlags stateOf
  have e1 : (PState.stopping ∈ ps.map displayed) ↔ ps.any (fun p => displayed p = .stopping) = true := by
    simp [List.mem_map]
  have e2 : (PState.starting ∈ ps.map displayed ∨ PState.backoff ∈ ps.map displayed)
      ↔ ps.any (fun p => displayed p = .starting ∨ displayed p = .backoff) = true := by
    simp only [List.mem_map, List.any_eq_true, decide_eq_true_eq]
    constructor
    · rintro (⟨p, hp, h⟩ | ⟨p, hp, h⟩)
      · exact ⟨p, hp, Or.inl h⟩
      · exact ⟨p, hp, Or.inr h⟩
    · rintro ⟨p, hp, h | h⟩
      · exact Or.inl ⟨p, hp, h⟩
      · exact Or.inr ⟨p, hp, h⟩
  have e3 : (PState.running ∈ ps.map displayed) ↔ ps.any (fun p => displayed p = .running) = true := by
    simp [List.mem_map]
  simp only [e1, e2, e3, Bool.false_or]

/-! ### Start sequence and required-based status -/

theorem mem_seqInsert (m : List (Nat × List Nat)) (seq i j : Nat) :
    j ∈ (seqInsert m seq i).flatMap (·.2) ↔ j = i ∨ j ∈ m.flatMap (·.2) := by
  induction m with
  | nil => simp [seqInsert]
  | cons kl t ih =>
    obtain ⟨k, l⟩ := kl
    unfold seqInsert
    split
    · simp only [List.flatMap_cons, List.mem_append, List.mem_singleton]
      constructor
      · rintro ((h | h) | h)
        · exact Or.inr (Or.inl h)
        · exact Or.inl h
        · exact Or.inr (Or.inr h)
      · rintro (h | h | h)
        · exact Or.inl (Or.inr h)
        · exact Or.inl (Or.inl h)
        · exact Or.inr h
    · simp only [List.flatMap_cons, List.mem_append, ih]
      constructor
      · rintro (h | h | h)
        · exact Or.inr (Or.inl h)
        · exact Or.inl h
        · exact Or.inr (Or.inr h)
      · rintro (h | h | h)
        · exact Or.inr (Or.inl h)
        · exact Or.inl h
        · exact Or.inr (Or.inr h)

theorem mem_seqFill (ps : List P) (m : List (Nat × List Nat)) (i j : Nat) :
    j ∈ (seqFill m i ps).flatMap (·.2) ↔ j ∈ m.flatMap (·.2) ∨ (i ≤ j ∧ j < i + ps.length) := by
  induction ps generalizing m i with
  | nil => simp [seqFill]; omega
  | cons p t ih =>
    simp only [seqFill, ih, mem_seqInsert, List.length_cons]
    constructor
    · rintro ((h | h) | h)
      · exact Or.inr (by omega)
      · exact Or.inl h
      · exact Or.inr (by omega)
    · rintro (h | h)
      · exact Or.inl (Or.inr h)
      · by_cases hj : j = i
        · exact Or.inl (Or.inl hj)
        · exact Or.inr (by omega)

theorem mem_sequenced (managed : Bool) (ps : List P) (j : Nat) :
    j ∈ sequenced managed ps ↔ managed = true ∧ j < ps.length := by
  unfold sequenced startSequence
  cases managed
  · simp
  · show j ∈ (seqFill [] 0 ps).flatMap (·.2) ↔ _
    rw [mem_seqFill]; simp

theorem foldl_reqStep (seqd : List Nat) (l : List (Nat × P)) (r : Req) :
    l.foldl (reqStep seqd) r =
      { major := r.major || l.any (fun ip => crashed ip.2 && ip.2.required),
        minor := r.minor || l.any (fun ip => crashed ip.2 && !ip.2.required && seqd.contains ip.1),
        possible := r.possible || l.any (fun ip => !crashed ip.2 && decide (displayed ip.2 = .stopped) && ip.2.required) } := by
  induction l generalizing r with
  | nil => simp
  | cons ip t ih =>
    rw [List.foldl_cons, ih]
    unfold reqStep
    cases h1 : crashed ip.2 <;> cases h2 : ip.2.required <;> cases h3 : seqd.contains ip.1 <;>
      cases h4 : decide (displayed ip.2 = .stopped) <;> simp_all

theorem any_indexed (g : P → Bool) (ps : List P) (i : Nat) :
    (indexed i ps).any (fun ip => g ip.2) = ps.any g := by
  induction ps generalizing i with
  | nil => rfl
  | cons p t ih => simp [indexed, ih]

theorem any_indexed_seq (g : P → Bool) (managed : Bool) (qs ps : List P) (i : Nat) (h : i + ps.length ≤ qs.length) :
    (indexed i ps).any (fun ip => g ip.2 && (sequenced managed qs).contains ip.1) = (managed && ps.any g) := by
  induction ps generalizing i with
  | nil => simp [indexed]
  | cons p t ih =>
    have hc : (sequenced managed qs).contains i = managed := by
      rw [Bool.eq_iff_iff, List.contains_iff_mem, mem_sequenced]
      simp only [List.length_cons] at h
      constructor
      · exact fun h => h.1
      · exact fun hm => ⟨hm, by omega⟩
    simp only [indexed, List.any_cons, hc]
    rw [ih (i + 1) (by simp only [List.length_cons] at h; omega)]
    cases managed <;> simp

theorem any_required_split (c : Bool) (ps : List P) :
    ps.any (fun p => p.required && (crashed p || (decide (displayed p = .stopped) && c)))
      = (ps.any (fun p => crashed p && p.required)
          || (c && ps.any (fun p => !crashed p && decide (displayed p = .stopped) && p.required))) := by
  induction ps with
  | nil => simp
  | cons p t ih =>
    simp only [List.any_cons, ih]
    generalize t.any (fun p => crashed p && p.required) = x
    generalize t.any (fun p => !crashed p && decide (displayed p = .stopped) && p.required) = y
    cases crashed p <;> cases p.required <;> cases decide (displayed p = .stopped) <;> cases c <;> cases x <;> cases y <;> rfl

theorem statusRequired_eq (managed : Bool) (ps : List P) (st : AState) :
    statusRequired (sequenced managed ps) st ps
      = (majorOf st (ps.map rowOf), minorNarrow managed st (ps.map rowOf)) := by
  have hmaj : (if st ≠ .stopped then
        ((indexed 0 ps).foldl (reqStep (sequenced managed ps)) {}).major || ((indexed 0 ps).foldl (reqStep (sequenced managed ps)) {}).possible
      else ((indexed 0 ps).foldl (reqStep (sequenced managed ps)) {}).major) = majorOf st (ps.map rowOf) := by
    rw [foldl_reqStep]
    simp only [Bool.false_or]
    rw [any_indexed (fun p => crashed p && p.required), any_indexed (fun p => !crashed p && decide (displayed p = .stopped) && p.required)]
    unfold majorOf
    rw [List.any_map]
    have : (fun r => r.required && so st r) ∘ rowOf
        = fun p => p.required && (crashed p || (decide (displayed p = .stopped) && decide (st ≠ .stopped))) := by
      funext p
      cases hd : displayed p <;> cases he : p.expected <;> cases st <;> simp [so, failing, rowOf, crashed, hd, he]
    rw [this, any_required_split]
    by_cases hs : st = .stopped <;> simp [hs]
  unfold statusRequired
  simp only [hmaj]
  congr 1
  unfold minorNarrow
  rw [foldl_reqStep]
  simp only [Bool.false_or]
  rw [any_indexed_seq (fun p => crashed p && !p.required) managed ps ps 0 (by omega)]
  rw [List.any_map]
  have : (fun r => !r.required && failing r) ∘ rowOf = fun p => !p.required && crashed p := by
    funext p; cases hd : displayed p <;> cases he : p.expected <;> simp [failing, rowOf, crashed, hd, he]
  rw [this]
  have : (fun p => crashed p && !p.required) = fun p => !p.required && crashed p := by
    funext p; exact Bool.and_comm _ _
  rw [this]
  cases majorOf st (ps.map rowOf) <;> cases managed <;> simp

/-! ### Formulas -/

mutual
/-- nesting of the positions `evaluate` descends into (the operand of a refused unary operator and the arguments of a
    refused call are never evaluated) -/
def depth : Formula → Nat
  | .call .all [a] 0 => depth a + 1
  | .call .any [a] 0 => depth a + 1
  | .boolOp _ vs => depthMax vs + 1
  | .notOp x => depth x + 1
  | _ => 1
def depthMax : List Formula → Nat
  | [] => 0
  | f :: t => max (depth f) (depthMax t)
end

theorem depth_pos (f : Formula) : 1 ≤ depth f := by
  unfold depth
  split <;> omega

theorem depthMax_le {vs : List Formula} {n : Nat} (h : depthMax vs ≤ n) : ∀ g ∈ vs, depth g ≤ n := by
  induction vs with
  | nil => simp
  | cons f t ih =>
    simp only [depthMax] at h
    intro g hg
    rcases List.mem_cons.mp hg with rfl | hg
    · omega
    · exact ih (by omega) g hg

def lift : Option Val → Except Err Val
  | some v => .ok v
  | none => .error .parse

def semVals (L : List Leaf) (rows : List Row) : List Formula → Option (List Val)
  | [] => some []
  | f :: t =>
    match sem L rows f, semVals L rows t with
    | some v, some vs => some (v :: vs)
    | _, _ => none

theorem evalSeq_eq (ev : Formula → Except Err Val) (L : List Leaf) (rows : List Row) (vs : List Formula)
    (h : ∀ g ∈ vs, ev g = lift (sem L rows g)) :
    evalSeq ev vs = match semVals L rows vs with | some vals => .ok vals | none => .error .parse := by
  induction vs with
  | nil => rfl
  | cons f t ih =>
    have hf := h f (List.mem_cons_self)
    have ht := ih (fun g hg => h g (List.mem_cons_of_mem _ hg))
    unfold evalSeq semVals
    rw [hf, ht]
    cases sem L rows f <;> cases semVals L rows t <;> simp [lift]

theorem semBools_eq (L : List Leaf) (rows : List Row) (vs : List Formula) :
    semBools L rows vs = match semVals L rows vs with
      | some vals => if vals.any Val.isList then none else some (vals.map Val.toBool)
      | none => none := by
  induction vs with
  | nil => simp [semBools, semVals]
  | cons f t ih =>
    unfold semBools semVals
    rw [ih]
    cases hs : sem L rows f with
    | none => simp
    | some v =>
      cases hv : semVals L rows t with
      | none => cases v <;> simp
      | some vals =>
        cases v with
        | b x => by_cases hl : vals.any Val.isList = true <;> simp [Val.isList, Val.toBool, hl]
        | l xs => simp [Val.isList]

theorem upAt_eq (ps : List P) (i : Nat) : App.upAt ps i = Spec.C15.upAt (ps.map rowOf) i := by
  unfold App.upAt Spec.C15.upAt
  rw [List.getElem?_map]
  cases ps[i]? with
  | none => rfl
  | some p => rfl

theorem evaluate_eq_sem (L : List Leaf) (ps : List P)
    (hL : ∀ (k c : Nat), L[k]? = some (Leaf.reError c) → regexMapped c = true) :
    ∀ (fuel : Nat) (f : Formula), depth f ≤ fuel →
      evaluate L ps fuel f = lift (sem L (ps.map rowOf) f) := by
  intro fuel
  induction fuel with
  | zero => intro f hd; have := depth_pos f; omega
  | succ n ih =>
    intro f hd
    cases f with
    | str k =>
      simp only [evaluate, evalLeaf, sem]
      cases hk : L[k]? with
      | none => simp [lift]
      | some lf =>
        cases lf with
        | exact p => simp [lift, upAt_eq]
        | reError c => simp [lift, hL k c hk]
        | matching qs =>
          match qs with
          | [] => simp [lift]
          | [p] => simp [lift, upAt_eq]
          | p :: q :: r => simp [lift, upAt_eq]
    | const => simp [evaluate, sem, lift]
    | other => simp [evaluate, sem, lift]
    | unaryOther x => simp [evaluate, sem, lift]
    | notOp x =>
      simp only [depth] at hd
      simp only [evaluate, sem, ih x (by omega)]
      cases sem L (ps.map rowOf) x with
      | none => simp [lift]
      | some v => cases v <;> simp [lift]
    | boolOp isAnd vs =>
      simp only [depth] at hd
      have hev := evalSeq_eq (evaluate L ps n) L (ps.map rowOf) vs
        (fun g hg => ih g (depthMax_le (by omega : depthMax vs ≤ n) g hg))
      simp only [evaluate, sem, hev, semBools_eq]
      cases semVals L (ps.map rowOf) vs with
      | none => simp [lift]
      | some vals =>
        by_cases hl : vals.any Val.isList = true
        · simp [hl, lift]
        · cases isAnd <;> simp [hl, lift, applyFn]
    | call fn args nkw =>
      cases fn with
      | notName => simp [evaluate, sem, lift]
      | otherName => simp [evaluate, sem, lift]
      | all =>
        match args, nkw with
        | [], _ => simp [evaluate, sem, lift]
        | [a], 0 =>
          simp only [depth] at hd
          simp only [evaluate, sem, ih a (by omega)]
          cases sem L (ps.map rowOf) a with
          | none => simp [lift]
          | some v => simp [lift, applyFn]
        | [a], k + 1 => simp [evaluate, sem, lift]
        | a :: b :: r, _ => simp [evaluate, sem, lift]
      | any =>
        match args, nkw with
        | [], _ => simp [evaluate, sem, lift]
        | [a], 0 =>
          simp only [depth] at hd
          simp only [evaluate, sem, ih a (by omega)]
          cases sem L (ps.map rowOf) a with
          | none => simp [lift]
          | some v => simp [lift, applyFn]
        | [a], k + 1 => simp [evaluate, sem, lift]
        | a :: b :: r, _ => simp [evaluate, sem, lift]

mutual
theorem sem_some_wf (L : List Leaf) (rows : List Row) : ∀ (f : Formula) (v : Val), sem L rows f = some v → wf f = true
  | .str _, _, _ => by simp [wf]
  | .const, _, h => by simp [sem] at h
  | .other, _, h => by simp [sem] at h
  | .unaryOther _, _, h => by simp [sem] at h
  | .notOp x, v, h => by
    simp only [sem] at h
    simp only [wf]
    cases hx : sem L rows x with
    | none => simp [hx] at h
    | some w => exact sem_some_wf L rows x w hx
  | .boolOp _ vs, v, h => by
    simp only [sem] at h
    simp only [wf]
    cases hx : semBools L rows vs with
    | none => simp [hx] at h
    | some bs => exact semBools_some_wfAll L rows vs bs hx
  | .call .notName _ _, _, h => by simp [sem] at h
  | .call .otherName _ _, _, h => by simp [sem] at h
  | .call .all [] _, _, h => by simp [sem] at h
  | .call .all [a] (0), _, h => by
    simp only [sem] at h
    simp only [wf]
    cases hx : sem L rows a with
    | none => simp [hx] at h
    | some w => exact sem_some_wf L rows a w hx
  | .call .all [_] (_ + 1), _, h => by simp [sem] at h
  | .call .all (_ :: _ :: _) _, _, h => by simp [sem] at h
  | .call .any [] _, _, h => by simp [sem] at h
  | .call .any [a] (0), _, h => by
    simp only [sem] at h
    simp only [wf]
    cases hx : sem L rows a with
    | none => simp [hx] at h
    | some w => exact sem_some_wf L rows a w hx
  | .call .any [_] (_ + 1), _, h => by simp [sem] at h
  | .call .any (_ :: _ :: _) _, _, h => by simp [sem] at h
theorem semBools_some_wfAll (L : List Leaf) (rows : List Row) :
    ∀ (vs : List Formula) (bs : List Bool), semBools L rows vs = some bs → wfAll vs = true
  | [], _, _ => by simp [wfAll]
  | f :: t, bs, h => by
    simp only [semBools] at h
    simp only [wfAll, Bool.and_eq_true]
    cases hf : sem L rows f with
    | none => simp [hf] at h
    | some v =>
      cases ht : semBools L rows t with
      | none => cases v <;> simp [hf, ht] at h
      | some cs => exact ⟨sem_some_wf L rows f v hf, semBools_some_wfAll L rows t cs ht⟩
end

/-- a formula outside the grammar never denotes anything: its major failure is `true` by definition -/
theorem majorOfFormula_not_wf (L : List Leaf) (rows : List Row) (f : Formula) (h : wf f = false) :
    majorOfFormula L rows f = true := by
  unfold majorOfFormula
  cases hs : sem L rows f with
  | none => rfl
  | some v => rw [sem_some_wf L rows f v hs] at h; cases h

/-- the evaluator's result on every formula evaluated within the stack budget -/
theorem formulaMajor_eq (cfg : Cfg) (L : List Leaf) (ps : List P) (f : Formula)
    (hd : depth f ≤ cfg.stack) (hL : ∀ (k c : Nat), L[k]? = some (Leaf.reError c) → regexMapped c = true) :
    formulaMajor L ps cfg.stack f = .ok (majorOfFormula L (ps.map rowOf) f) := by
  unfold formulaMajor majorOfFormula
  rw [evaluate_eq_sem L ps hL cfg.stack f hd]
  cases sem L (ps.map rowOf) f with
  | none => simp [lift, handled]
  | some v => cases v <;> simp [lift]

/-! ### The exceptions `evaluate` can raise -/

theorem evalSeq_error (ev : Formula → Except Err Val) (vs : List Formula) (e : Err)
    (h : evalSeq ev vs = .error e) : ∃ g ∈ vs, ev g = .error e := by
  induction vs with
  | nil => simp [evalSeq] at h
  | cons f t ih =>
    unfold evalSeq at h
    cases hf : ev f with
    | error e' =>
      rw [hf] at h
      injection h with h
      exact ⟨f, List.mem_cons_self, by rw [hf, h]⟩
    | ok v =>
      rw [hf] at h
      cases ht : evalSeq ev t with
      | error e' =>
        rw [ht] at h
        injection h with h
        obtain ⟨g, hg, hge⟩ := ih (by rw [ht, h])
        exact ⟨g, List.mem_cons_of_mem _ hg, hge⟩
      | ok vs' => rw [ht] at h; cases h

/-- whatever the formula and the stack budget, the only exceptions `evaluate` can raise are the handled parse error
    and `RecursionError` (when no pattern makes the regex compiler raise an unmapped exception) -/
theorem evaluate_error (L : List Leaf) (ps : List P)
    (hL : ∀ (k c : Nat), L[k]? = some (Leaf.reError c) → regexMapped c = true) :
    ∀ (fuel : Nat) (f : Formula) (e : Err), evaluate L ps fuel f = .error e → e = .parse ∨ e = .recursion := by
  intro fuel
  induction fuel with
  | zero => intro f e h; simp [evaluate] at h; exact Or.inr h.symm
  | succ n ih =>
    intro f e h
    cases f with
    | str k =>
      simp only [evaluate, evalLeaf] at h
      split at h
      · cases h
      · rename_i c hk
        rw [hL k c hk] at h
        simp at h; exact Or.inl h.symm
      · cases h
      · injection h with h; exact Or.inl h.symm
      · cases h
      · injection h with h; exact Or.inl h.symm
    | const => simp [evaluate] at h; exact Or.inl h.symm
    | other => simp [evaluate] at h; exact Or.inl h.symm
    | unaryOther x => simp [evaluate] at h; exact Or.inl h.symm
    | notOp x =>
      simp only [evaluate] at h
      split at h
      · rename_i e' he
        injection h with h
        exact h ▸ ih x e' he
      · cases h
      · injection h with h; exact Or.inl h.symm
    | boolOp isAnd vs =>
      simp only [evaluate] at h
      split at h
      · rename_i e' he
        injection h with h
        obtain ⟨g, _, hg⟩ := evalSeq_error _ _ _ he
        exact h ▸ ih g e' hg
      · split at h
        · injection h with h; exact Or.inl h.symm
        · cases h
    | call fn args nkw =>
      simp only [evaluate] at h
      split at h
      · injection h with h; exact Or.inl h.symm
      · injection h with h; exact Or.inl h.symm
      · split at h
        · split at h
          · rename_i e' he
            injection h with h
            exact h ▸ ih _ e' he
          · cases h
        · injection h with h; exact Or.inl h.symm

/-! ### `update` only reads the rows -/

theorem evaluate_congr (L : List Leaf) (ps ps' : List P) (h : ∀ i, upAt ps i = upAt ps' i) :
    ∀ (fuel : Nat) (f : Formula), evaluate L ps fuel f = evaluate L ps' fuel f := by
  have hfun : upAt ps = upAt ps' := funext h
  intro fuel
  induction fuel with
  | zero => intro f; rfl
  | succ n ih =>
    intro f
    have hn : evaluate L ps n = evaluate L ps' n := funext ih
    cases f <;> simp only [evaluate, evalLeaf, hfun, hn]

theorem upAt_congr (ps ps' : List P) (h : ps.map rowOf = ps'.map rowOf) (i : Nat) : upAt ps i = upAt ps' i := by
  rw [upAt_eq, upAt_eq, h]

theorem crashed_eq_failing (p : P) : crashed p = failing (rowOf p) := by
  cases hd : displayed p <;> cases he : p.expected <;> simp [failing, rowOf, crashed, hd, he]

theorem formulaMinor_eq (managed : Bool) (ps : List P) :
    (sequenced managed ps).any (crashedAt ps)
      = (managed && (ps.map rowOf).any failing) := by
  rw [Bool.eq_iff_iff]
  simp only [List.any_eq_true, Bool.and_eq_true, mem_sequenced, List.mem_map]
  constructor
  · rintro ⟨i, ⟨hm, hi⟩, hc⟩
    simp only [crashedAt, List.getElem?_eq_getElem hi] at hc
    exact ⟨hm, rowOf ps[i], ⟨ps[i], List.getElem_mem hi, rfl⟩, by rw [← crashed_eq_failing]; exact hc⟩
  · rintro ⟨hm, r, ⟨p, hp, rfl⟩, hc⟩
    obtain ⟨i, hi, rfl⟩ := List.mem_iff_getElem.mp hp
    exact ⟨i, ⟨hm, hi⟩, by simp only [crashedAt, List.getElem?_eq_getElem hi]; simpa [crashed_eq_failing] using hc⟩

/-- `update` written over the rows -/
theorem update_rows (cfg : Cfg) (L : List Leaf) (ps : List P) (ld : Loaded) :
    update cfg L ps ld =
      let rows := ps.map rowOf
      let st := stateOf (rows.map (·.disp))
      match statusTree ld with
      | .error e => .error e
      | .ok none => .ok { state := st, major := majorOf st rows, minor := minorNarrow cfg.managed st rows }
      | .ok (some f) =>
        match formulaMajor L ps cfg.stack f with
        | .error e => .error e
        | .ok m => .ok { state := st, major := m, minor := !m && (cfg.managed && rows.any failing) } := by
  have hst : updateState ps = stateOf ((ps.map rowOf).map (·.disp)) := by
    rw [updateState_eq, List.map_map]; rfl
  unfold update
  simp only [hst, statusRequired_eq, statusFormula, formulaMinor_eq]
  cases statusTree ld with
  | error e => rfl
  | ok o =>
    cases o with
    | none => rfl
    | some f => cases hfm : formulaMajor L ps cfg.stack f <;> simp [hfm]

end Supv.App
