import Supv.Lemmas.InstRec

/-! Establishing lemmas for C07 (completeness / bounded detection): the timer check of a local tick DOES mark FAILED every
    peer in an active state whose last tick is older than `inactivity_ticks` - whatever the loop does to the other peers
    before and after (internal errors apart: the statement is about the runs that return). -/

namespace Supv.Inst

/-- the state setter on a peer that already has that state leaves its record alone -/
theorem rec_setPeerState_same (j : Nat) (r : Peer) (c : Cfg) (ns : IState) (hr : r.state = ns) :
    KeepsRec j r (setPeerState c j ns) := by
  constructor
  intro s a s' h hp
  unfold setPeerState at h
  obtain ⟨p, s1, h1, h2⟩ := run_bind _ _ _ _ _ h
  rw [run_getPeer] at h1
  simp at h1
  obtain ⟨rfl, rfl⟩ := h1
  have hp' : s.peers[j]?.getD {} = r := by unfold peerRec at hp; simp [hp]
  rw [hp'] at h2
  simp [hr, StateT.run, Pure.pure, StateT.pure, Except.pure] at h2
  obtain ⟨_, rfl⟩ := h2
  exact hp

theorem runEq_modifyPeer (j : Nat) (f : Peer → Peer) (s : St) :
    (modifyPeer j f).run s = .ok ((), { s with peers := s.peers.modify j f }) := by
  simp [modifyPeer, StateT.run, _root_.modify, modifyGet, MonadStateOf.modifyGet, StateT.modifyGet, Pure.pure, Except.pure]

/-- the state setter, when it returns, HAS written the state (the other fields of the record are untouched) -/
theorem setPeerState_hit (j : Nat) (r : Peer) (c : Cfg) (ns : IState) (s s' : St) (u : Unit)
    (hns : ns ≠ .checking) (h : (setPeerState c j ns).run s = .ok (u, s')) (hp : peerRec j r s) :
    peerRec j { r with state := ns } s' := by
  by_cases hr : r.state = ns
  · have : ({ r with state := ns } : Peer) = r := by cases r; simp_all
    rw [this]
    exact (rec_setPeerState_same j r c ns hr).run s u s' h hp
  · unfold setPeerState at h
    obtain ⟨p, s1, h1, h2⟩ := run_bind _ _ _ _ _ h
    rw [run_getPeer] at h1
    simp at h1
    obtain ⟨rfl, rfl⟩ := h1
    have hp' : s.peers[j]?.getD {} = r := by unfold peerRec at hp; simp [hp]
    rw [hp'] at h2
    simp only [ne_eq, hr, not_false_eq_true, ↓reduceIte] at h2
    split at h2
    · obtain ⟨_, _, h3, _⟩ := run_bind _ _ _ _ _ h2
      cases h3
    · obtain ⟨_, s3, h5, h6⟩ := run_bind _ _ _ _ _ h2
      rw [runEq_modifyPeer] at h5
      simp at h5
      subst h5
      have h3rec : peerRec j { r with state := ns } { s with peers := s.peers.modify j (fun p => { p with state := ns }) } := by
        unfold peerRec at *
        simp [hp]
      obtain ⟨_, s4, h7, h8⟩ := run_bind _ _ _ _ _ h6
      have h4rec := (rec_emit j { r with state := ns } (.inst j ns)).run _ _ _ h7 h3rec
      obtain ⟨_, s5, h9, h10⟩ := run_bind _ _ _ _ _ h8
      have h5rec := (rec_updateInstanceState j { r with state := ns } c j ns).run _ _ _ h9 h4rec
      simp [StateT.run, Pure.pure, StateT.pure, Except.pure] at h10
      obtain ⟨_, rfl⟩ := h10
      exact h5rec

/-- a loop over identifiers whose body always continues, keeps `P` and `Q` when it visits another identifier, keeps `Q` and
    turns `P` into `Q` when it visits `j`: `Q` holds at the end as soon as `j` is visited -/
theorem forIn_establishes {β} (P Q : St → Prop) (j : Nat) (f : Nat → β → M (ForInStep β))
    (hstep : ∀ a b s x s', (f a b).run s = .ok (x, s') →
      (∃ b', x = .yield b') ∧ (Q s → Q s') ∧ (a ≠ j → P s → P s') ∧ (a = j → P s → Q s'))
    (l : List Nat) : ∀ (init : β) (s : St) (b : β) (s' : St), (forIn l init f).run s = .ok (b, s') →
      ((P s ∧ j ∈ l) ∨ Q s) → Q s' := by
  induction l with
  | nil =>
    intro init s b s' h hpq
    simp only [List.forIn_nil] at h
    simp [StateT.run, Pure.pure, StateT.pure, Except.pure] at h
    obtain ⟨_, rfl⟩ := h
    rcases hpq with ⟨_, hm⟩ | hq
    · cases hm
    · exact hq
  | cons a t ih =>
    intro init s b s' h hpq
    simp only [List.forIn_cons] at h
    obtain ⟨x, s1, h1, h2⟩ := run_bind _ _ _ _ _ h
    obtain ⟨⟨b', rfl⟩, hqq, hpp, hpq'⟩ := hstep a init s x s1 h1
    simp only at h2
    apply ih b' s1 b s' h2
    rcases hpq with ⟨hp, hm⟩ | hq
    · by_cases ha : a = j
      · exact Or.inr (hpq' ha hp)
      · refine Or.inl ⟨hpp ha hp, ?_⟩
        rcases List.mem_cons.mp hm with h' | h'
        · exact absurd h'.symm ha
        · exact h'
    · exact Or.inr (hqq hq)

/-- **the timer check detects**: when it returns, a peer `j` of the configuration that was in an active state with a last
    tick older than `inactivity_ticks` is FAILED, the rest of its record unchanged -/
theorem timerCheck_detects (j : Nat) (r : Peer) (c : Cfg) (k : Nat) (hj : j < c.n)
    (hact : r.state.active = true) (hstale : k - r.localCounter > c.inactivity)
    (s s' : St) (u : Unit) (h : (timerCheck c k).run s = .ok (u, s')) (hp : peerRec j r s) :
    peerRec j { r with state := .failed } s' := by
  unfold timerCheck at h
  obtain ⟨x, s1, h1, h2⟩ := run_bind _ _ _ _ _ h
  simp [StateT.run, Pure.pure, StateT.pure, Except.pure] at h2
  obtain ⟨_, rfl⟩ := h2
  refine forIn_establishes (peerRec j r) (peerRec j { r with state := .failed }) j _ ?_ (ids c) _ s x _ h1
    (Or.inl ⟨hp, by simp [ids, hj]⟩)
  intro a b s x s' hb
  obtain ⟨p, s1, h1, h2⟩ := run_bind _ _ _ _ _ hb
  rw [run_getPeer] at h1
  simp at h1
  obtain ⟨rfl, rfl⟩ := h1
  split at h2
  · obtain ⟨_, s2, h3, h4⟩ := run_bind _ _ _ _ _ h2
    simp [StateT.run, Pure.pure, StateT.pure, Except.pure] at h4
    obtain ⟨rfl, rfl⟩ := h4
    refine ⟨⟨_, rfl⟩, ?_, ?_, ?_⟩
    · intro hq
      by_cases ha : a = j
      · subst ha
        exact (rec_setPeerState_same a { r with state := .failed } c .failed rfl).run _ _ _ h3 hq
      · exact (rec_setPeerState_other j { r with state := .failed } c a .failed ha).run _ _ _ h3 hq
    · intro ha hp
      exact (rec_setPeerState_other j r c a .failed ha).run _ _ _ h3 hp
    · intro ha hp
      subst ha
      exact setPeerState_hit a r c .failed _ _ _ (by decide) h3 hp
  · rename_i hcond
    simp [StateT.run, Pure.pure, StateT.pure, Except.pure] at h2
    obtain ⟨rfl, rfl⟩ := h2
    refine ⟨⟨_, rfl⟩, id, fun _ hp => hp, ?_⟩
    intro ha hp
    subst ha
    have hp' : s.peers[a]?.getD {} = r := by unfold peerRec at hp; simp [hp]
    rw [hp'] at hcond
    exact absurd ⟨hact, hstale⟩ hcond

end Supv.Inst
